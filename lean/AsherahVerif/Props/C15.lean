import AsherahVerif.Proofs.CacheLookup
import AsherahVerif.Proofs.ExtraCacheMon
import AsherahVerif.Proofs.ExtraCacheChan
import AsherahVerif.Proofs.ExtraCacheLru
import AsherahVerif.Proofs.ExtraCacheLfu
/-
C15 — Generic cache: bounded map with exact eviction notifications, for every policy.

Everything here is about `AsherahVerif.Cache` (Model/Cache.lean), the executable model of
`go/appencryption/pkg/cache` that the correspondence check runs against the real package on every
run.  All theorems hold for every policy (LRU, LFU, SLRU with any protected size, TinyLFU with any
window size, bypassed or not), every capacity ≥ 1, every expiry, every operation sequence and every
answer of the TinyLFU frequency-sketch oracle.  Capacity 0 is outside the property's quantifier
(`cap ≥ 1` is the hypothesis `1 ≤ cap`; the Go code panics on the first `Set` there, and so does
the model: `cap0_panics`).
-/
namespace AsherahVerif.Props.C15
open AsherahVerif.Cache

/-- a cache as built by `cache.New(cap).WithPolicy(kind)…Build()`, then any operation sequence. -/
def reach (kind : Kind) (cap expiry protCap winCap : Nat) (ops : List (Op × (Nat → Bool))) :=
  run (mk kind cap expiry protCap winCap) ops

/-- **never more entries than the capacity**, in every reachable state. -/
theorem size_le_cap (kind : Kind) (cap expiry protCap winCap : Nat) (hcap : 1 ≤ cap)
    (ops : List (Op × (Nat → Bool))) :
    (reach kind cap expiry protCap winCap ops).1.items.length ≤ cap := by
  have h := (run_inv (inv_mk kind cap expiry protCap winCap hcap) ops).1
  have hc : ∀ (c : Cache) (ops : List (Op × (Nat → Bool))), Inv c → (run c ops).1.cap = c.cap := by
    intro c ops
    induction ops generalizing c with
    | nil => intro _; rfl
    | cons a t ih =>
      intro hi
      obtain ⟨op, orc⟩ := a
      simp only [run]
      rw [ih _ (step_inv hi op orc).1]
      cases op <;> simp only [step]
      case set k v =>
        split; rfl
        split; rfl
        split
        · have hne : c.items ≠ [] := by
            intro e; rename_i hfull; rw [e] at hfull; simp at hfull; have := hi.capPos; omega
          obtain ⟨it, _, _, hev⟩ := evict_spec hi.toBij hne (orc 0)
          rw [hev]
        · rfl
      case get k =>
        split; rfl
        split; rfl
        split <;> rfl
      case del k =>
        split; rfl
        split <;> rfl
      case close =>
        split; rfl
        have hb : Bij { c with closing := true } := ⟨hi.itemsNodup, hi.polNodup, hi.same⟩
        obtain ⟨c', cbs, h1, _, _, h4, _, _⟩ :=
          evictAll_spec orc c.items.length { c with closing := true } [] hb (Nat.le_refl _)
        simp only [List.nil_append] at h1
        rw [h1]; exact h4
  have := h.size
  unfold reach
  rw [hc _ ops (inv_mk kind cap expiry protCap winCap hcap)] at this
  exact this

/-- **the policy's bookkeeping and the key map describe the same set of keys, without duplicates**
(so a victim always exists when the cache is non-empty and always is a cached entry). -/
theorem policy_bijection (kind : Kind) (cap expiry protCap winCap : Nat) (hcap : 1 ≤ cap)
    (ops : List (Op × (Nat → Bool))) :
    let c := (reach kind cap expiry protCap winCap ops).1
    c.pol.keys.Nodup ∧ (keysOf c.items).Nodup ∧ ∀ k, k ∈ c.pol.keys ↔ k ∈ keysOf c.items := by
  have h := (run_inv (inv_mk kind cap expiry protCap winCap hcap) ops).1
  exact ⟨h.polNodup, h.itemsNodup, h.same⟩

/-- **no sequence of operations panics** (capacity ≥ 1). -/
theorem no_panic (kind : Kind) (cap expiry protCap winCap : Nat) (hcap : 1 ≤ cap)
    (ops : List (Op × (Nat → Bool))) :
    ∀ r ∈ (reach kind cap expiry protCap winCap ops).2, r.1 ≠ Res.panic :=
  (run_inv (inv_mk kind cap expiry protCap winCap hcap) ops).2

/-- the excluded point: capacity 0 panics on the first `Set` (model and Go agree on this). -/
theorem cap0_panics (kind : Kind) (expiry p w k v : Nat) (orc : Nat → Bool) :
    (step (mk kind 0 expiry p w) (.set k v) orc).res = Res.panic := by
  cases kind <;> simp [step, mk, lookup, evict, Pol.victim, lfuVictim, lfuMin, Slru.victim]

/-! ### what a lookup returns, and exactly which callbacks fire (one step, any reachable state) -/

/-- **Set then Get**: after `Set k v` the key maps to `v`. -/
theorem set_stores {c : Cache} (h : Inv c) (hc : c.closing = false) (k v : Nat) (orc : Nat → Bool) :
    (lookup (step c (.set k v) orc).cache.items k).map (·.val) = some v := by
  simp only [step, hc, Bool.false_eq_true, if_false]
  split
  · next it hit => simp [lookup_setVal, hit]
  · next hnone =>
    have hk := lookup_none.mp hnone
    split
    · next hfull =>
      have hne : c.items ≠ [] := by
        intro e; rw [e] at hfull; simp at hfull; have := h.capPos; omega
      obtain ⟨it, hit, _, hev⟩ := evict_spec h.toBij hne (orc 0)
      rw [hev]
      have hk' : k ∉ keysOf (eraseKey c.items it.key) := fun hm => hk (mem_keysOf_eraseKey.mp hm).2
      simp [lookup_append_new hk']
    · simp [lookup_append_new hk]

/-- **`Set` touches no other key except by evicting it, and then says so**: for `j ≠ k` either the
entry is unchanged, or it is gone and the callback carried exactly the value it held.  At most one
callback, only when the cache was full and `k` was new. -/
theorem set_frame {c : Cache} (h : Inv c) (k v j : Nat) (hj : j ≠ k) (orc : Nat → Bool) :
    let o := step c (.set k v) orc
    (lookup o.cache.items j = lookup c.items j ∧ ∀ w, (j, w) ∉ o.cbs) ∨
    (lookup o.cache.items j = none ∧ ∃ it, lookup c.items j = some it ∧ o.cbs = [(j, it.val)] ∧
       c.items.length = c.cap ∧ lookup c.items k = none) := by
  simp only [step]
  split
  · exact Or.inl ⟨rfl, by simp⟩
  · split
    · next it hit => exact Or.inl ⟨by simp [lookup_setVal, hj], by simp⟩
    · next hnone =>
      have hk := lookup_none.mp hnone
      split
      · next hfull =>
        have hne : c.items ≠ [] := by
          intro e; rw [e] at hfull; simp at hfull; have := h.capPos; omega
        obtain ⟨it, hit, _, hev⟩ := evict_spec h.toBij hne (orc 0)
        rw [hev]
        have hk' : k ∉ keysOf (eraseKey c.items it.key) := fun hm => hk (mem_keysOf_eraseKey.mp hm).2
        simp only [lookup_append_new hk', hj, if_false, lookup_eraseKey]
        by_cases hji : j = it.key
        · right; subst hji; exact ⟨by simp, it, hit, rfl, hfull, hnone⟩
        · left; refine ⟨by simp [hji], ?_⟩
          intro w hw; simp at hw; exact hji hw.1
      · exact Or.inl ⟨by simp [lookup_append_new hk, hj], by simp⟩

/-- **Get returns the stored value exactly when the entry is present and not expired**; a hit
changes no entry and fires no callback; an expired entry is removed with one callback carrying its
value; a miss changes nothing. -/
theorem get_spec {c : Cache} (k : Nat) (orc : Nat → Bool) :
    let o := step c (.get k) orc
    match lookup c.items k with
    | none => o.res = Res.miss ∧ o.cbs = [] ∧ o.cache.items = c.items
    | some it =>
      if c.closing then o.res = Res.miss ∧ o.cbs = [] ∧ o.cache.items = c.items
      else if c.expiry > 0 ∧ it.exp < c.now then
        o.res = Res.miss ∧ o.cbs = [(k, it.val)] ∧ o.cache.items = eraseKey c.items k
      else o.res = Res.val it.val ∧ o.cbs = [] ∧ o.cache.items = c.items := by
  simp only [step]
  cases hl : lookup c.items k with
  | none => by_cases hc : c.closing <;> simp [hc]
  | some it =>
    have hkey := (lookup_some hl).2
    by_cases hc : c.closing
    · simp [hc]
    · simp only [hc, Bool.false_eq_true, if_false]
      by_cases he : c.expiry > 0 ∧ it.exp < c.now
      · simp only [he, and_self, if_true, evictItem, hkey]
      · simp only [he, if_false]; simp

/-- **Delete** removes exactly that key, reports whether it was there, fires no callback. -/
theorem del_spec {c : Cache} (k : Nat) (orc : Nat → Bool) :
    let o := step c (.del k) orc
    o.cbs = [] ∧
    (c.closing = false → o.res = Res.bool (lookup c.items k).isSome ∧
      ∀ j, lookup o.cache.items j = if j = k then none else lookup c.items j) := by
  simp only [step]
  by_cases hc : c.closing
  · simp [hc]
  · simp only [hc, Bool.false_eq_true, if_false]
    cases hl : lookup c.items k with
    | none =>
      refine ⟨rfl, fun _ => ⟨rfl, ?_⟩⟩
      intro j; by_cases hjk : j = k
      · subst hjk; simp [hl]
      · simp [hjk]
    | some it => exact ⟨rfl, fun _ => ⟨rfl, fun j => lookup_eraseKey c.items k j⟩⟩

/-- **Close** empties the cache and fires exactly one callback per entry it held, with the value
held (as a multiset: the order is the policy's eviction order). -/
theorem close_spec {c : Cache} (h : Inv c) (hc : c.closing = false) (orc : Nat → Bool) :
    let o := step c .close orc
    o.cache.items = [] ∧ o.cache.closing = true ∧
    o.cbs.Perm (c.items.map fun it => (it.key, it.val)) := by
  simp only [step, hc, Bool.false_eq_true, if_false]
  have hb : Bij { c with closing := true } := ⟨h.itemsNodup, h.polNodup, h.same⟩
  obtain ⟨c', cbs, h1, h2, _, _, h5, h6⟩ :=
    evictAll_spec orc c.items.length { c with closing := true } [] hb (Nat.le_refl _)
  simp only [List.nil_append] at h1
  rw [h1]
  exact ⟨h2, h5, h6⟩

/-- after `Close` nothing is retrievable, nothing is stored and nothing fires. -/
theorem closed_inert {c : Cache} (hc : c.closing = true) (op : Op) (orc : Nat → Bool) :
    (step c op orc).cbs = [] ∧ (step c op orc).cache.items = c.items ∧
    (∀ k, op = .get k → (step c op orc).res = Res.miss) := by
  cases op <;> simp [step, hc]

/-! ### victims are chosen as the policies' definitions say -/

/-- LRU bookkeeping after any operation sequence is the list of live keys ordered by the time of
their last `Set`/`Get` hit, most recent first; the victim is its last element, i.e. the least
recently used key.  Stated as the defining recurrence of recency order. -/
theorem lru_order (o : List Nat) (k : Nat) :
    Pol.access (.lru o) k = .lru (k :: o.erase k) ∧ Pol.admit (.lru o) k = .lru (k :: o) ∧
    Pol.remove (.lru o) k = .lru (o.erase k) ∧ (Pol.victim (.lru o) false).1 = o.getLast? :=
  ⟨rfl, rfl, rfl, rfl⟩

/-- the LRU victim is older (further back in recency order) than every other cached key. -/
theorem lru_victim_is_least_recent (o : List Nat) (v : Nat) (b : Bool)
    (h : (Pol.victim (.lru o) b).1 = some v) : ∃ pre, o = pre ++ [v] := by
  simp only [Pol.victim] at h
  exact ⟨o.dropLast, (dropLast_append_of_getLast? h).symm⟩

/-- the LFU victim has the minimum use count, and among the keys with that count it is the one
that reached it first. -/
theorem lfu_victim_is_least_frequent_then_oldest (e : List (Nat × Nat)) (v : Nat) (b : Bool)
    (h : (Pol.victim (.lfu e) b).1 = some v) :
    ∃ f pre post, e = pre ++ (v, f) :: post ∧ (∀ p ∈ e, f ≤ p.2) ∧ (∀ p ∈ pre, p.2 ≠ f) := by
  simp only [Pol.victim, lfuVictim] at h
  cases hm : lfuMin e with
  | none => rw [hm] at h; cases h
  | some m =>
    rw [hm] at h
    simp only [Option.map_eq_some_iff] at h
    obtain ⟨a, ha, rfl⟩ := h
    obtain ⟨pre, post, he, hpre⟩ := List.find?_eq_some_iff_append.mp ha |>.2
    have ham : a.2 = m := by simpa using (List.find?_eq_some_iff_append.mp ha).1
    refine ⟨m, pre, post, ?_, lfuMin_le hm, ?_⟩
    · rw [he, ← ham]
    · intro p hp; simpa using hpre p hp

/-- LFU counts: a new key starts at 1, every `Set`/`Get` hit adds 1 and moves the key behind the
others with the same count. -/
theorem lfu_counts (e : List (Nat × Nat)) (k : Nat) :
    (lfuFreq e k = none → lfuIncr e k = e ++ [(k, 1)]) ∧
    (∀ f, lfuFreq e k = some f → lfuIncr e k = lfuErase e k ++ [(k, f + 1)]) := by
  constructor
  · intro h; simp [lfuIncr, h]
  · intro f h; simp [lfuIncr, h]

/-- SLRU evicts the least recently used probationary key, and only when probation is empty the
least recently used protected key. -/
theorem slru_victim_def (s : Slru) (b : Bool) :
    (Pol.victim (.slru s) b).1 =
      if s.prob ≠ [] then s.prob.getLast? else s.prot.getLast? := by
  simp only [Pol.victim, Slru.victim]
  cases hp : s.prob.getLast? with
  | none => simp [getLast?_none_iff.mp hp]
  | some k =>
    have : s.prob ≠ [] := fun e => by rw [e] at hp; simp at hp
    simp [this]

/-! ### non-vacuity: concrete reachable states that exercise the hypotheses -/

private def demo : Cache × List (Res × List (Nat × Nat)) :=
  reach .slru 2 0 1 0 [(.set 1 10, fun _ => false), (.get 1, fun _ => false), (.set 2 20, fun _ => false),
    (.set 3 30, fun _ => false), (.get 2, fun _ => false), (.close, fun _ => false)]

example : demo.2 = [(.unit, []), (.val 10, []), (.unit, []), (.unit, [(2, 20)]), (.miss, []),
    (.unit, [(3, 30), (1, 10)])] := by decide

example : Inv (mk .tinylfu 3 5 2 0) ∧ (mk .tinylfu 3 5 2 0).closing = false :=
  ⟨inv_mk _ _ _ _ _ (by decide), rfl⟩

/-! ### refinement: the model behaves like a bounded map with explicit leave events -/

section Refinement
open AsherahVerif.CacheSpec

/-- **the monitor accepts every trace of the model** (refinement theorem).  For every policy,
capacity ≥ 1, expiry, oracle stream and operation list, folding the observer specification
`CacheSpec.Obs.step` — the monitor the driver runs on the IMPLEMENTATION's traces: a bounded map
seen only through operations, results and eviction callbacks — over the model's own
(op, result, callbacks) outputs never rejects, and the observer's map IS the model's `items` as a
finite map key ↦ value (distinct keys, same size, same value for every key), with the same
capacity and closed flag. -/
theorem monitor_accepts_model (kind : Kind) (cap expiry protCap winCap : Nat) (hcap : 1 ≤ cap)
    (ops : List (Op × (Nat → Bool))) :
    ∃ o : Obs, monTrace { cap := cap } (trace (mk kind cap expiry protCap winCap) ops) = some o ∧
      o.cap = cap ∧ o.closed = (reach kind cap expiry protCap winCap ops).1.closing ∧
      (mkeys o.m).Nodup ∧ o.m.length = (reach kind cap expiry protCap winCap ops).1.items.length ∧
      ∀ k, find o.m k = (lookup (reach kind cap expiry protCap winCap ops).1.items k).map (·.val) := by
  obtain ⟨o, h1, hs⟩ := monRun_accepts (inv_mk kind cap expiry protCap winCap hcap) (sim_mk kind cap expiry protCap winCap) ops
  rw [monRun_eq] at h1
  exact ⟨o, h1, monTrace_cap _ _ _ h1, hs.closed, hs.map.nd, hs.map.len, hs.map.pt⟩

/-- the trace of the model is the list of results and callbacks `run` returns, with the operations. -/
theorem trace_is_run (c : Cache) (ops : List (Op × (Nat → Bool))) :
    (run c ops).2 = (trace c ops).map fun e => (e.2.1, e.2.2) := trace_run c ops

/-- **what the history alone says a key holds is what the cache holds**: `held k` replays only
the observable events (a callback for `k` ⇒ gone; `Set k v` on an open cache ⇒ `v`; `Delete k`,
`Close` ⇒ gone) and agrees with the model's `byKey` and closed flag after ANY operation sequence. -/
theorem held_is_model (kind : Kind) (cap expiry protCap winCap : Nat) (hcap : 1 ≤ cap)
    (ops : List (Op × (Nat → Bool))) (k : Nat) :
    held k (trace (mk kind cap expiry protCap winCap) ops) =
      ((lookup (reach kind cap expiry protCap winCap ops).1.items k).map (·.val),
       (reach kind cap expiry protCap winCap ops).1.closing) := by
  have := held_fold (inv_mk kind cap expiry protCap winCap hcap) (sim_mk kind cap expiry protCap winCap) k ops
  unfold held
  exact this

/-- **a lookup returns the most recently set value unless the key left**: after any history, a
`Get k` that hits returns exactly the value of the last `Set k _` that was not followed by an
eviction/expiry callback for `k`, a `Delete k` or a `Close` — and fires no callback; a `Get k` that
misses means that there is no such value, or the cache is closed, or the value leaves right now and
is reported (expiry: one callback `(k, v)` with the value held).  There is no third outcome. -/
theorem get_returns_last_set (kind : Kind) (cap expiry protCap winCap : Nat) (hcap : 1 ≤ cap)
    (ops : List (Op × (Nat → Bool))) (k : Nat) (orc : Nat → Bool) :
    let tr := trace (mk kind cap expiry protCap winCap) ops
    let out := step (reach kind cap expiry protCap winCap ops).1 (.get k) orc
    (∀ v, out.res = .val v → held k tr = (some v, false) ∧ out.cbs = []) ∧
    (out.res = .miss → (held k tr).1 = none ∨ (held k tr).2 = true ∨
        ∃ v, (held k tr).1 = some v ∧ out.cbs = [(k, v)]) ∧
    (out.res = .miss ∨ ∃ v, out.res = .val v) := by
  intro tr out
  have hh : held k tr = _ := held_is_model kind cap expiry protCap winCap hcap ops k
  have hg := get_spec (c := (reach kind cap expiry protCap winCap ops).1) k orc
  simp only at hg
  cases hl : lookup (reach kind cap expiry protCap winCap ops).1.items k with
  | none =>
    rw [hl] at hg hh
    refine ⟨?_, fun _ => Or.inl (by rw [hh]; rfl), Or.inl hg.1⟩
    intro v hv; rw [hg.1] at hv; cases hv
  | some it =>
    rw [hl] at hg hh
    simp only at hg
    by_cases hc : (reach kind cap expiry protCap winCap ops).1.closing = true
    · rw [if_pos hc] at hg
      refine ⟨?_, fun _ => Or.inr (Or.inl (by rw [hh]; exact hc)), Or.inl hg.1⟩
      intro v hv; rw [hg.1] at hv; cases hv
    · rw [if_neg hc] at hg
      split at hg
      · refine ⟨?_, fun _ => Or.inr (Or.inr ⟨it.val, by rw [hh]; rfl, hg.2.1⟩), Or.inl hg.1⟩
        intro v hv; rw [hg.1] at hv; cases hv
      · refine ⟨?_, ?_, Or.inr ⟨it.val, hg.1⟩⟩
        · intro v hv
          rw [hg.1] at hv; injection hv with hv
          refine ⟨?_, hg.2.1⟩
          rw [hh, ← hv]
          have : (reach kind cap expiry protCap winCap ops).1.closing = false := by simpa using hc
          rw [this]; rfl
        · intro hm; rw [hg.1] at hm; cases hm

/-- **every entry that leaves is reported exactly once, with the value it held**.  For any history
and any next operation: the callbacks of that operation name distinct keys; each named key held
exactly the reported value before the operation and holds nothing after it (so it cannot be
reported again unless it is set again); and a held value survives the operation unchanged unless it
is reported by a callback, overwritten by `Set` on that key, or removed by `Delete` of that key
(in particular `Close` and evictions never drop an entry silently). -/
theorem callbacks_exact (kind : Kind) (cap expiry protCap winCap : Nat) (hcap : 1 ≤ cap)
    (ops : List (Op × (Nat → Bool))) (op : Op) (orc : Nat → Bool) :
    let tr := trace (mk kind cap expiry protCap winCap) ops
    let tr' := trace (mk kind cap expiry protCap winCap) (ops ++ [(op, orc)])
    let out := step (reach kind cap expiry protCap winCap ops).1 op orc
    tr' = tr ++ [(op, out.res, out.cbs)] ∧
    (out.cbs.map (·.1)).Nodup ∧
    (∀ k v, (k, v) ∈ out.cbs → (held k tr).1 = some v ∧ (held k tr').1 = none) ∧
    (∀ k v, (held k tr).1 = some v →
      (k, v) ∈ out.cbs ∨ (held k tr').1 = some v ∨ (∃ v', op = .set k v') ∨ op = .del k) := by
  intro tr tr' out
  have h0 := inv_mk kind cap expiry protCap winCap hcap
  have hs0 := sim_mk kind cap expiry protCap winCap
  obtain ⟨o, o', _, hs, hstep, hs'⟩ := step_view h0 hs0 ops op orc
  have htr : tr' = tr ++ [(op, out.res, out.cbs)] := by
    show trace _ (ops ++ [(op, orc)]) = _
    rw [trace_append]; rfl
  have hheld : ∀ k, held k tr = (find o.m k, o.closed) := fun k => held_eq_obs h0 hs0 rfl rfl ops hs k
  have hheld' : ∀ k, (held k tr').1 = find o'.m k := by
    intro k
    rw [htr]
    unfold held
    rw [List.foldl_append]
    have := hheld k
    unfold held at this
    rw [this]
    simp only [List.foldl_cons, List.foldl_nil]
    have hk := obs_step_key k hstep
    exact (congrArg Prod.fst hk).symm
  obtain ⟨e1, e2, e3⟩ := obs_step_exact hstep
  refine ⟨htr, e1, ?_, ?_⟩
  · intro k v hm
    have := e2 k v hm
    rw [hheld k, hheld' k]; exact this
  · intro k v hv
    rw [hheld k] at hv
    have := e3 k v hv
    rw [hheld' k]; exact this

end Refinement

/-- non-vacuity: on a concrete history the monitor's verdict and the per-key view are computed. -/
example :
    let ops : List (Op × (Nat → Bool)) := [(.set 1 10, fun _ => false), (.set 2 20, fun _ => false),
      (.set 1 11, fun _ => false), (.set 3 30, fun _ => false)]
    let tr := AsherahVerif.CacheSpec.trace (mk .lru 2 0 0 0) ops
    tr.map (·.2.2) = [[], [], [], [(2, 20)]] ∧
    AsherahVerif.CacheSpec.held 1 tr = (some 11, false) ∧ AsherahVerif.CacheSpec.held 2 tr = (none, false) ∧
    (AsherahVerif.CacheSpec.monTrace { cap := 2 } tr).map (·.m) = some [(1, 11), (3, 30)] := by decide

/-- the monitor is not trivially accepting: it rejects a trace in which an evicted entry is reported
with a wrong value, and one in which an entry vanishes without a callback. -/
example : AsherahVerif.CacheSpec.monTrace { cap := 1 }
    [(.set 1 10, .unit, []), (.set 2 20, .unit, [(1, 11)])] = none := by decide
example : AsherahVerif.CacheSpec.monTrace { cap := 1 }
    [(.set 1 10, .unit, []), (.set 2 20, .unit, [])] = none := by decide

/-! ### the asynchronous eviction channel (cache.go `events`, `processEvents`, `shutdown`) -/

section Channel
open AsherahVerif.CacheChan

/-- **no deadlock**: in the 2-party protocol of the asynchronous cache (mutex holder sending on the
unbuffered `events` channel / the `processEvents` goroutine whose callback never takes the cache
mutex; `Close` sends `closeCache` and waits on the WaitGroup) every reachable state that is not
final has an enabled step — for every list of client operations and every schedule. -/
theorem events_no_deadlock (ops : List Opn) (sched : List Act)
    (hnf : ¬ final (CacheChan.run false (init ops) sched)) :
    ∃ a s', CacheChan.step false (CacheChan.run false (init ops) sched) a = some s' :=
  enabled_of_inv _ (CacheChan.run_inv _ (inv_init ops) sched) hnf

/-- **no livelock**: every step strictly decreases a natural-number measure, so every execution is
finite; with `events_no_deadlock` every maximal execution ends in a final state (all operations
done, mutex free, consumer blocked on an open channel or exited after `Close`). -/
theorem events_terminate (s s' : CacheChan.St) (a : Act) (hs : CacheChan.step false s a = some s') :
    measure s' < measure s := step_decreases s s' a hs

/-- **callbacks are delivered in send order, at most one behind**: at every reachable state the
eviction events sent so far are exactly the callbacks completed so far followed by the (at most
one) callback currently running. -/
theorem events_in_order (ops : List Opn) (sched : List Act) :
    let s := CacheChan.run false (init ops) sched
    s.sent = s.delivered ++ inflight s.cons ∧ (inflight s.cons).length ≤ 1 := by
  intro s
  refine ⟨(CacheChan.run_inv _ (inv_init ops) sched).order, ?_⟩
  cases s.cons <;> simp [inflight]

/-- **when `Close` has returned every callback has run**: in every reachable state in which the
cache is closing and the mutex is free again, the consumer goroutine has exited and the callbacks
completed are exactly the events sent. -/
theorem close_returns_after_all_callbacks (ops : List Opn) (sched : List Act) :
    let s := CacheChan.run false (init ops) sched
    s.closing = true → s.prod = .idle → s.cons = .exited ∧ s.delivered = s.sent := by
  intro s hc hp
  have h := CacheChan.run_inv _ (inv_init ops) sched
  have hex : s.cons = .exited := by
    rcases h.cl hc with h1 | h1
    · rw [hp] at h1; cases h1
    · exact h1
  refine ⟨hex, ?_⟩
  have := h.order
  rw [hex] at this
  simpa [inflight] using this.symm

/-- the assumption is necessary: if the eviction callback needed the cache mutex, a `Set` that
evicts two entries would block forever (producer waits for the consumer to receive, consumer waits
for the mutex): a reachable, non-final state without any enabled step. -/
theorem deadlock_if_callback_locks :
    let s := CacheChan.run true (init [.work [(1, 1), (2, 2)]]) [.acquire, .send]
    s.ops = [] ∧ s.prod = .sending [(2, 2)] false ∧ s.cons = .callback (1, 1) ∧
    ∀ a, CacheChan.step true s a = none := by
  refine ⟨by decide, by decide, by decide, ?_⟩
  intro a; cases a <;> decide

/-- non-vacuity: a run with two evicting operations and a `Close` reaches the final state with all
three callbacks delivered in order. -/
example :
    let s := CacheChan.run false (init [.work [(1, 10)], .work [], .close [(2, 20), (3, 30)]])
      [.acquire, .send, .finish, .acquire, .finish, .callbackDone, .acquire, .send, .callbackDone, .send,
       .finish, .callbackDone, .send, .wgDone]
    s.delivered = [(1, 10), (2, 20), (3, 30)] ∧ s.sent = s.delivered ∧ s.cons = .exited ∧ s.prod = .idle ∧
    s.ops = [] := by decide

end Channel

/-! ### LRU with real recency -/

section Recency
open AsherahVerif.CacheSpec

/-- **the LRU list IS recency order**.  `lastTouch k tr` is a ghost function of the observable
history alone: 1 + the index of the last event that used `k` (a `Set k _`, or a `Get k` that
returned a value).  After ANY operation sequence on an LRU cache the policy's list consists of
exactly the live keys, without repetition, in strictly decreasing order of `lastTouch` (most recently
used first), and every one of them has been touched. -/
theorem lru_order_is_recency (cap expiry protCap winCap : Nat) (hcap : 1 ≤ cap)
    (ops : List (Op × (Nat → Bool))) :
    let c := (reach .lru cap expiry protCap winCap ops).1
    let tr := trace (mk .lru cap expiry protCap winCap) ops
    ∃ o, c.pol = .lru o ∧ o.Nodup ∧ (∀ k, k ∈ o ↔ k ∈ keysOf c.items) ∧
      o.Pairwise (fun a b => lastTouch b tr < lastTouch a tr) ∧ ∀ a, a ∈ o → 0 < lastTouch a tr := by
  intro c tr
  have h0 := inv_mk .lru cap expiry protCap winCap hcap
  have hJ0 : SortedLru (mk .lru cap expiry protCap winCap) [] :=
    ⟨[], rfl, List.Pairwise.nil, fun a ha => by cases ha⟩
  obtain ⟨o, hp, hs⟩ := lru_run h0 hJ0 ops
  rw [List.nil_append] at hs
  have hi := (run_inv h0 ops).1
  refine ⟨o, hp, ?_, ?_, hs.1, hs.2⟩
  · have := hi.polNodup; rw [hp] at this; exact this
  · intro k; have := hi.same k; rw [hp] at this; exact this

/-- **the LRU victim is the least recently used live key**: after any history, the key the policy
would evict has a strictly smaller last-touch index than every other live key. -/
theorem lru_victim_is_least_recently_used (cap expiry protCap winCap : Nat) (hcap : 1 ≤ cap)
    (ops : List (Op × (Nat → Bool))) (b : Bool) (v : Nat)
    (hv : ((reach .lru cap expiry protCap winCap ops).1.pol.victim b).1 = some v) :
    let c := (reach .lru cap expiry protCap winCap ops).1
    let tr := trace (mk .lru cap expiry protCap winCap) ops
    v ∈ keysOf c.items ∧ ∀ k, k ∈ keysOf c.items → k ≠ v → lastTouch v tr < lastTouch k tr := by
  intro c tr
  obtain ⟨o, hp, _, hsame, hpw, _⟩ := lru_order_is_recency cap expiry protCap winCap hcap ops
  have hv' : o.getLast? = some v := by
    have : c.pol.victim b = (o.getLast?, .lru o) := by
      show (reach .lru cap expiry protCap winCap ops).1.pol.victim b = _
      rw [hp]; rfl
    rw [show ((reach .lru cap expiry protCap winCap ops).1.pol.victim b) = c.pol.victim b from rfl, this] at hv
    exact hv
  obtain ⟨pre, hpre⟩ := List.getLast?_eq_some_iff.mp hv'
  refine ⟨(hsame v).mp (by rw [hpre]; simp), ?_⟩
  intro k hk hne
  have hko := (hsame k).mpr hk
  rw [hpre] at hko hpw
  rw [List.pairwise_append] at hpw
  rcases List.mem_append.mp hko with h1 | h1
  · exact hpw.2.2 k h1 v (by simp)
  · simp at h1; exact absurd h1 hne

/-- **what a full LRU cache evicts is its least recently used entry**: the callback fired by a
`Set` names a key whose last use is older than that of every other entry cached at that moment. -/
theorem lru_evicts_least_recently_used (cap expiry protCap winCap : Nat) (hcap : 1 ≤ cap)
    (ops : List (Op × (Nat → Bool))) (k v : Nat) (orc : Nat → Bool) :
    let c := (reach .lru cap expiry protCap winCap ops).1
    let tr := trace (mk .lru cap expiry protCap winCap) ops
    ∀ e, e ∈ (step c (.set k v) orc).cbs →
      e.1 ∈ keysOf c.items ∧ ∀ j, j ∈ keysOf c.items → j ≠ e.1 → lastTouch e.1 tr < lastTouch j tr := by
  intro c tr e he
  have hi : Inv c := (run_inv (inv_mk .lru cap expiry protCap winCap hcap) ops).1
  simp only [step] at he
  split at he
  · cases he
  · split at he
    · cases he
    · split at he
      · next hfull =>
        have hne : c.items ≠ [] := by
          intro e'; rw [e'] at hfull; simp at hfull; have := hi.capPos; omega
        obtain ⟨it, hit, hvic, hev⟩ := evict_spec hi.toBij hne (orc 0)
        rw [hev] at he
        simp only [List.mem_singleton] at he
        subst he
        exact lru_victim_is_least_recently_used cap expiry protCap winCap hcap ops (orc 0) it.key hvic
      · cases he

/-- non-vacuity: a concrete LRU history, its last-touch stamps and the victim. -/
example :
    let ops : List (Op × (Nat → Bool)) := [(.set 1 10, fun _ => false), (.set 2 20, fun _ => false),
      (.set 3 30, fun _ => false), (.get 1, fun _ => false), (.get 9, fun _ => false), (.set 2 21, fun _ => false)]
    let tr := trace (mk .lru 3 0 0 0) ops
    (reach .lru 3 0 0 0 ops).1.pol = .lru [2, 1, 3] ∧
    [lastTouch 2 tr, lastTouch 1 tr, lastTouch 3 tr, lastTouch 9 tr] = [6, 4, 3, 0] ∧
    (step (reach .lru 3 0 0 0 ops).1 (.set 4 40) fun _ => false).cbs = [(3, 30)] := by decide

end Recency

/-! ### LFU with real use counts -/

section Frequency
open AsherahVerif.CacheSpec

/-- **the LFU frequencies ARE use counts**.  `useCount k tr` is a ghost function of the observable
history alone: the number of uses of `k` (`Set k _` on an open cache, `Get k` hits) since `k` was
last admitted, i.e. since the last callback for `k`, `Delete k` or `Close`.  After ANY operation
sequence on an LFU cache the policy's entries are exactly the live keys (no repetition), each paired
with its `useCount`; keys that are not cached have count 0; and the entries are listed in increasing
order of `lastTouch` (oldest use first). -/
theorem lfu_counts_are_use_counts (cap expiry protCap winCap : Nat) (hcap : 1 ≤ cap)
    (ops : List (Op × (Nat → Bool))) :
    let c := (reach .lfu cap expiry protCap winCap ops).1
    let tr := trace (mk .lfu cap expiry protCap winCap) ops
    ∃ e, c.pol = .lfu e ∧ (mkeys e).Nodup ∧ (∀ k, k ∈ mkeys e ↔ k ∈ keysOf c.items) ∧
      (∀ k f, (k, f) ∈ e → f = useCount k tr) ∧ (∀ k, k ∉ keysOf c.items → useCount k tr = 0) ∧
      (mkeys e).Pairwise (fun a b => lastTouch a tr < lastTouch b tr) := by
  intro c tr
  have h0 := inv_mk .lfu cap expiry protCap winCap hcap
  have hJ0 : LfuOk (mk .lfu cap expiry protCap winCap) [] :=
    ⟨[], rfl, fun j => rfl, List.Pairwise.nil⟩
  obtain ⟨e, hp, hcnt, hs⟩ := lfu_run h0 hJ0 ops
  rw [List.nil_append] at hcnt hs
  have hi := (run_inv h0 ops).1
  have hnd : (mkeys e).Nodup := by have := hi.polNodup; rw [hp] at this; exact this
  have hsame : ∀ k, k ∈ mkeys e ↔ k ∈ keysOf c.items := by
    intro k; have := hi.same k; rw [hp] at this; exact this
  refine ⟨e, hp, hnd, hsame, ?_, ?_, hs⟩
  · intro k f hm
    have := hcnt k
    rw [find_of_mem_nodup hnd hm] at this
    unfold useCount; rw [this]; rfl
  · intro k hk
    have hf : find e k = none := find_none_iff.mpr (fun hm => hk ((hsame k).mp hm))
    have := hcnt k
    rw [hf] at this
    unfold useCount; rw [this]; rfl

/-- **the LFU victim has the smallest use count, and among equals is the least recently used**:
after any history, every other live key either has been used strictly more often since its
admission than the victim, or equally often and more recently. -/
theorem lfu_victim_min_count_then_oldest (cap expiry protCap winCap : Nat) (hcap : 1 ≤ cap)
    (ops : List (Op × (Nat → Bool))) (b : Bool) (v : Nat)
    (hv : ((reach .lfu cap expiry protCap winCap ops).1.pol.victim b).1 = some v) :
    let c := (reach .lfu cap expiry protCap winCap ops).1
    let tr := trace (mk .lfu cap expiry protCap winCap) ops
    v ∈ keysOf c.items ∧ ∀ k, k ∈ keysOf c.items → k ≠ v →
      useCount v tr < useCount k tr ∨ (useCount v tr = useCount k tr ∧ lastTouch v tr < lastTouch k tr) := by
  intro c tr
  obtain ⟨e, hp, hnd, hsame, hcnt, _, hasc⟩ := lfu_counts_are_use_counts cap expiry protCap winCap hcap ops
  have hv' : (Pol.victim (.lfu e) b).1 = some v := by
    have : (reach .lfu cap expiry protCap winCap ops).1.pol = .lfu e := hp
    rw [this] at hv; exact hv
  obtain ⟨f, pre, post, he, hmin, hpre⟩ := lfu_victim_is_least_frequent_then_oldest e v b hv'
  have hvm : (v, f) ∈ e := by rw [he]; simp
  have hfv : f = useCount v tr := hcnt v f hvm
  refine ⟨(hsame v).mp (List.mem_map.mpr ⟨(v, f), hvm, rfl⟩), ?_⟩
  intro k hk hne
  obtain ⟨p, hpm, hpk⟩ := List.mem_map.mp ((hsame k).mpr hk)
  have hpe : p = (k, p.2) := by rw [← hpk]
  have hg : p.2 = useCount k tr := hcnt k p.2 (by rw [← hpe]; exact hpm)
  have hle := hmin p hpm
  rw [← hfv, ← hg]
  by_cases hlt : f < p.2
  · exact Or.inl hlt
  · right
    have heq : f = p.2 := by omega
    refine ⟨heq, ?_⟩
    rw [he] at hpm
    rcases List.mem_append.mp hpm with h1 | h1
    · exact absurd heq.symm (hpre p h1)
    · rcases List.mem_cons.mp h1 with h2 | h2
      · exfalso; apply hne; rw [← hpk, h2]
      · have hk2 : k ∈ mkeys post := List.mem_map.mpr ⟨p, h2, hpk⟩
        have : mkeys e = mkeys pre ++ v :: mkeys post := by rw [he]; simp [mkeys]
        rw [this, List.pairwise_append] at hasc
        have := (List.pairwise_cons.mp hasc.2.1).1 k hk2
        exact this

/-- non-vacuity: a concrete LFU history with its use counts, last-touch stamps and victim (keys 3 and
2 both have count 1 — key 2 was deleted and re-admitted — and 3 was used less recently). -/
example :
    let ops : List (Op × (Nat → Bool)) := [(.set 1 10, fun _ => false), (.set 2 20, fun _ => false),
      (.get 1, fun _ => false), (.set 3 30, fun _ => false), (.del 2, fun _ => false), (.set 2 22, fun _ => false)]
    let tr := trace (mk .lfu 3 0 0 0) ops
    (reach .lfu 3 0 0 0 ops).1.pol = .lfu [(1, 2), (3, 1), (2, 1)] ∧
    [useCount 1 tr, useCount 3 tr, useCount 2 tr, useCount 7 tr] = [2, 1, 1, 0] ∧
    [lastTouch 1 tr, lastTouch 3 tr, lastTouch 2 tr] = [3, 4, 6] ∧
    ((reach .lfu 3 0 0 0 ops).1.pol.victim false).1 = some 3 := by decide

end Frequency

end AsherahVerif.Props.C15
