import AsherahVerif.Proofs.EnvCohNoPanic
import AsherahVerif.Proofs.EnvCohAuth
/-
C07 — decrypt yields the original plaintext or an error: never other bytes, no crash.

Logic part, about the executable model `AsherahVerif.Env` (Model/Envelope.lean) of
envelope.go / key_cache.go / session.go that the correspondence check replays against the real SDK
on every run.  Crypto is symbolic: `Ct.enc k n pt` opens exactly under `k`, anything else
(`Ct.junk`, `Ct.kms`, an `enc` under another key) is rejected by the AEAD — the byte-level
counterpart (AES-256-GCM tag check) is engine `fmt`.  A bit-flipped / truncated field is a term
that is not the original `enc` term.

Every theorem below holds in ANY world whatsoever (`w : World` is universally quantified, not
"reachable"): arbitrary store rows (corrupted, without parent meta), arbitrary cache contents,
arbitrary fault lists, arbitrary records.
-/
namespace AsherahVerif.Props.C07
open AsherahVerif.Env

/-- **no crash**: no public operation, from any world, on any input, with any fault list, ends in
the explicit `panic` outcome (nil dereference / nil interface call in the Go code). -/
theorem never_panics (w : World) (op : Op) : (applyOp w op).1 ≠ .error .panic := applyOp_np w op

/-- the same along whole histories, including `corruptRow` operations. -/
theorem never_panics_history (w : World) (ops : List Op) : Out.error .panic ∉ (runOps w ops).1 := by
  induction ops generalizing w with
  | nil => simp [runOps]
  | cons op rest ih =>
    simp only [runOps, List.mem_cons, not_or]
    exact ⟨fun h => never_panics w op h.symm, ih _⟩

/-- **authenticity**: in any world, for any record and any faults, if decrypt returns a payload `p`
then the record's `data` field is the AEAD sealing of exactly `p` under some data-row key `drk`, and
the record's encrypted key is the sealing of that same `drk` (under the intermediate key the session
used).  Nothing else can come out. -/
theorem decrypt_authentic (w : World) (s : Nat) (d : Drr) (fl : List Fault) (p : Nat)
    (h : (applyOp w (.decrypt s d fl)).1 = .payload p) :
    ∃ ik drk n n', d.key.map (·.enc) = some (.enc ik n' (.key drk)) ∧ d.data = .enc drk n (.payload p) := by
  obtain ⟨dk, par, hk, _, _, im, dm, n, n', he, hd⟩ := decrypt_ok (applyOp_decrypt_payload h)
  exact ⟨im, dm, n, n', by rw [hk, Option.map_some, he], hd⟩

/-- a decrypt ends in a payload or in an error (no third kind of outcome). -/
theorem decrypt_payload_or_error (w : World) (s : Nat) (d : Drr) (fl : List Fault) :
    (∃ p, (applyOp w (.decrypt s d fl)).1 = .payload p) ∨ (∃ e, (applyOp w (.decrypt s d fl)).1 = .error e) :=
  applyOp_decrypt_cases w s d fl

/-- any `data` field that is not an AEAD sealing of a payload — in particular junk / truncated /
bit-flipped bytes — is an error. -/
theorem bad_data_is_error (w : World) (s : Nat) (d : Drr) (fl : List Fault)
    (h : ∀ k n p, d.data ≠ .enc k n (.payload p)) : ∃ e, (applyOp w (.decrypt s d fl)).1 = .error e := by
  rcases decrypt_payload_or_error w s d fl with ⟨p, hp⟩ | he
  · obtain ⟨_, drk, n, _, _, hd⟩ := decrypt_authentic w s d fl p hp
    exact absurd hd (h drk n p)
  · exact he

theorem junk_data_is_error (w : World) (s : Nat) (d : Drr) (fl : List Fault) (j : Nat) (h : d.data = .junk j) :
    ∃ e, (applyOp w (.decrypt s d fl)).1 = .error e :=
  bad_data_is_error w s d fl fun k n p hc => by rw [h] at hc; cases hc

/-- any encrypted-key field that is not an AEAD sealing of a key is an error. -/
theorem bad_key_is_error (w : World) (s : Nat) (d : Drr) (fl : List Fault)
    (h : ∀ ik n drk, d.key.map (·.enc) ≠ some (.enc ik n (.key drk))) :
    ∃ e, (applyOp w (.decrypt s d fl)).1 = .error e := by
  rcases decrypt_payload_or_error w s d fl with ⟨p, hp⟩ | he
  · obtain ⟨ik, drk, _, n', hk, _⟩ := decrypt_authentic w s d fl p hp
    exact absurd hk (h ik n' drk)
  · exact he

theorem junk_key_is_error (w : World) (s : Nat) (d : Drr) (dk : DrrKey) (fl : List Fault) (j : Nat)
    (hk : d.key = some dk) (h : dk.enc = .junk j) : ∃ e, (applyOp w (.decrypt s d fl)).1 = .error e :=
  bad_key_is_error w s d fl fun ik n drk hc => by rw [hk, Option.map_some, h] at hc; cases hc

/-- the data field sealed under another key than the one inside the record's encrypted key
(a splice of two records) is an error. -/
theorem mismatched_drk_is_error (w : World) (s : Nat) (d : Drr) (dk : DrrKey) (fl : List Fault)
    (ik drk drk' n n' : Nat) (pt : Pt)
    (hk : d.key = some dk) (he : dk.enc = .enc ik n' (.key drk)) (hd : d.data = .enc drk' n pt) (hne : drk ≠ drk') :
    ∃ e, (applyOp w (.decrypt s d fl)).1 = .error e := by
  rcases decrypt_payload_or_error w s d fl with ⟨p, hp⟩ | h
  · obtain ⟨ik2, drk2, n2, n2', hk2, hd2⟩ := decrypt_authentic w s d fl p hp
    rw [hk, Option.map_some, he] at hk2
    rw [hd] at hd2
    cases hk2; cases hd2
    exact absurd rfl hne
  · exact h

/-- `drr.Key == nil`. -/
theorem missing_key_is_error (w : World) (s : Nat) (d : Drr) (fl : List Fault) (h : d.key = none) :
    (applyOp w (.decrypt s d fl)).1 = .error .badRecord := by
  rw [(applyOp_decrypt w s d fl).1, decrypt_missing_key h]

/-- `drr.Key.ParentKeyMeta == nil`. -/
theorem missing_parent_is_error (w : World) (s : Nat) (d : Drr) (dk : DrrKey) (fl : List Fault)
    (h : d.key = some dk) (hp : dk.parent = none) :
    (applyOp w (.decrypt s d fl)).1 = .error .badRecord := by
  rw [(applyOp_decrypt w s d fl).1, decrypt_missing_parent h hp]

/-- a record that names an intermediate key of another partition (or a system key) is refused
before any key is touched. -/
theorem foreign_partition_is_error (w : World) (s : Nat) (d : Drr) (dk : DrrKey) (par : KeyMeta) (fl : List Fault)
    (h : d.key = some dk) (hp : dk.parent = some par)
    (hk : par.kid ≠ .ik (w.sessions.getD s default).part) :
    (applyOp w (.decrypt s d fl)).1 = .error .wrongPartition := by
  rw [(applyOp_decrypt w s d fl).1, decrypt_foreign h hp hk]

/-! ### non-vacuity -/

def demoPolicy : Policy :=
  { expireAfter := 1000000000, revokeInterval := 1000000000000, precision := 0,
    cacheSK := true, cacheIK := true, sharedIK := false }

def demoHistory : List Op := [.newFactory demoPolicy 0 0 0 0, .getSession 0 7 0 0, .encrypt 0 42 []]
def demoWorld : World := (runOps (World.init 5000000000) demoHistory).2
def demoRecord : Drr := ⟨some ⟨5, .enc 1 2 (.key 2), some ⟨.ik 7, 5⟩⟩, .enc 2 1 (.payload 42)⟩

/-- the hypothesis of `decrypt_authentic` is satisfiable: the genuine record decrypts. -/
example : (applyOp demoWorld (.decrypt 0 demoRecord [])).1 = .payload 42 := by decide

/-- a flipped / truncated data field, a flipped key field, a splice with another record's data, a
record of another partition, and a corrupted stored row are all errors (no panic, no other bytes). -/
example : (applyOp demoWorld (.decrypt 0 { demoRecord with data := .junk 1 } [])).1 = .error .aead := by decide
example : (applyOp demoWorld (.decrypt 0 ⟨some ⟨5, .junk 3, some ⟨.ik 7, 5⟩⟩, demoRecord.data⟩ [])).1 = .error .aead := by decide
example : (applyOp demoWorld (.decrypt 0 { demoRecord with data := .enc 9 1 (.payload 42) } [])).1 = .error .aead := by decide
example : (applyOp demoWorld (.decrypt 0 ⟨some ⟨5, .enc 1 2 (.key 2), some ⟨.ik 8, 5⟩⟩, demoRecord.data⟩ [])).1 =
    .error .wrongPartition := by decide
example : (applyOp (applyOp (applyOp demoWorld (.closeFactory 0)).2 (.corruptRow ⟨.ik 7, 5⟩ true)).2
    (.decrypt 0 demoRecord [])).1 ≠ .payload 42 := by decide

end AsherahVerif.Props.C07
