import AsherahVerif.Proofs.EnvCohNoPanic
import AsherahVerif.Proofs.EnvCohAuth
import AsherahVerif.Proofs.EnvCohOrig
/-
C07 — decrypt yields the original plaintext or an error: never other bytes, no crash.

Logic part, about the executable model `AsherahVerif.Env` (Model/Envelope.lean) of
envelope.go / key_cache.go / session.go that the correspondence check replays against the real SDK
on every run.  Crypto is symbolic: `Ct.enc k n pt` opens exactly under `k`, anything else
(`Ct.junk`, `Ct.kms`, an `enc` under another key) is rejected by the AEAD — the byte-level
counterpart (AES-256-GCM tag check) is engine `fmt`.  A bit-flipped / truncated field is a term
that is not the original `enc` term.

Every theorem below holds in ANY world whatsoever (`w : World` is universally quantified, not
"reachable"): arbitrary store rows (corrupted, without parent meta), arbitrary cache contents,
arbitrary fault lists, arbitrary records.
-/
namespace AsherahVerif.Props.C07
open AsherahVerif.Env

/-- **no crash**: no public operation, from any world, on any input, with any fault list, ends in
the explicit `panic` outcome (nil dereference / nil interface call in the Go code). -/
theorem never_panics (w : World) (op : Op) : (applyOp w op).1 ≠ .error .panic := applyOp_np w op

/-- the same along whole histories, including `corruptRow` operations. -/
theorem never_panics_history (w : World) (ops : List Op) : Out.error .panic ∉ (runOps w ops).1 := by
  induction ops generalizing w with
  | nil => simp [runOps]
  | cons op rest ih =>
    simp only [runOps, List.mem_cons, not_or]
    exact ⟨fun h => never_panics w op h.symm, ih _⟩

/-- **authenticity**: in any world, for any record and any faults, if decrypt returns a payload `p`
then the record's `data` field is the AEAD sealing of exactly `p` under some data-row key `drk`, and
the record's encrypted key is the sealing of that same `drk` (under the intermediate key the session
used).  Nothing else can come out. -/
theorem decrypt_authentic (w : World) (s : Nat) (d : Drr) (fl : List Fault) (p : Nat)
    (h : (applyOp w (.decrypt s d fl)).1 = .payload p) :
    ∃ ik drk n n', d.key.map (·.enc) = some (.enc ik n' (.key drk)) ∧ d.data = .enc drk n (.payload p) := by
  obtain ⟨dk, par, hk, _, _, im, dm, n, n', he, hd⟩ := decrypt_ok (applyOp_decrypt_payload h)
  exact ⟨im, dm, n, n', by rw [hk, Option.map_some, he], hd⟩

/-- a decrypt ends in a payload or in an error (no third kind of outcome). -/
theorem decrypt_payload_or_error (w : World) (s : Nat) (d : Drr) (fl : List Fault) :
    (∃ p, (applyOp w (.decrypt s d fl)).1 = .payload p) ∨ (∃ e, (applyOp w (.decrypt s d fl)).1 = .error e) :=
  applyOp_decrypt_cases w s d fl

/-- any `data` field that is not an AEAD sealing of a payload — in particular junk / truncated /
bit-flipped bytes — is an error. -/
theorem bad_data_is_error (w : World) (s : Nat) (d : Drr) (fl : List Fault)
    (h : ∀ k n p, d.data ≠ .enc k n (.payload p)) : ∃ e, (applyOp w (.decrypt s d fl)).1 = .error e := by
  rcases decrypt_payload_or_error w s d fl with ⟨p, hp⟩ | he
  · obtain ⟨_, drk, n, _, _, hd⟩ := decrypt_authentic w s d fl p hp
    exact absurd hd (h drk n p)
  · exact he

theorem junk_data_is_error (w : World) (s : Nat) (d : Drr) (fl : List Fault) (j : Nat) (h : d.data = .junk j) :
    ∃ e, (applyOp w (.decrypt s d fl)).1 = .error e :=
  bad_data_is_error w s d fl fun k n p hc => by rw [h] at hc; cases hc

/-- any encrypted-key field that is not an AEAD sealing of a key is an error. -/
theorem bad_key_is_error (w : World) (s : Nat) (d : Drr) (fl : List Fault)
    (h : ∀ ik n drk, d.key.map (·.enc) ≠ some (.enc ik n (.key drk))) :
    ∃ e, (applyOp w (.decrypt s d fl)).1 = .error e := by
  rcases decrypt_payload_or_error w s d fl with ⟨p, hp⟩ | he
  · obtain ⟨ik, drk, _, n', hk, _⟩ := decrypt_authentic w s d fl p hp
    exact absurd hk (h ik n' drk)
  · exact he

theorem junk_key_is_error (w : World) (s : Nat) (d : Drr) (dk : DrrKey) (fl : List Fault) (j : Nat)
    (hk : d.key = some dk) (h : dk.enc = .junk j) : ∃ e, (applyOp w (.decrypt s d fl)).1 = .error e :=
  bad_key_is_error w s d fl fun ik n drk hc => by rw [hk, Option.map_some, h] at hc; cases hc

/-- the data field sealed under another key than the one inside the record's encrypted key
(a splice of two records) is an error. -/
theorem mismatched_drk_is_error (w : World) (s : Nat) (d : Drr) (dk : DrrKey) (fl : List Fault)
    (ik drk drk' n n' : Nat) (pt : Pt)
    (hk : d.key = some dk) (he : dk.enc = .enc ik n' (.key drk)) (hd : d.data = .enc drk' n pt) (hne : drk ≠ drk') :
    ∃ e, (applyOp w (.decrypt s d fl)).1 = .error e := by
  rcases decrypt_payload_or_error w s d fl with ⟨p, hp⟩ | h
  · obtain ⟨ik2, drk2, n2, n2', hk2, hd2⟩ := decrypt_authentic w s d fl p hp
    rw [hk, Option.map_some, he] at hk2
    rw [hd] at hd2
    cases hk2; cases hd2
    exact absurd rfl hne
  · exact h

/-- `drr.Key == nil`. -/
theorem missing_key_is_error (w : World) (s : Nat) (d : Drr) (fl : List Fault) (h : d.key = none) :
    (applyOp w (.decrypt s d fl)).1 = .error .badRecord := by
  rw [(applyOp_decrypt w s d fl).1, decrypt_missing_key h]

/-- `drr.Key.ParentKeyMeta == nil`. -/
theorem missing_parent_is_error (w : World) (s : Nat) (d : Drr) (dk : DrrKey) (fl : List Fault)
    (h : d.key = some dk) (hp : dk.parent = none) :
    (applyOp w (.decrypt s d fl)).1 = .error .badRecord := by
  rw [(applyOp_decrypt w s d fl).1, decrypt_missing_parent h hp]

/-- a record that names an intermediate key of another partition (or a system key) is refused
before any key is touched. -/
theorem foreign_partition_is_error (w : World) (s : Nat) (d : Drr) (dk : DrrKey) (par : KeyMeta) (fl : List Fault)
    (h : d.key = some dk) (hp : dk.parent = some par)
    (hk : par.kid ≠ .ik (w.sessions.getD s default).part) :
    (applyOp w (.decrypt s d fl)).1 = .error .wrongPartition := by
  rw [(applyOp_decrypt w s d fl).1, decrypt_foreign h hp hk]

/-- what survives an out-of-band corruption of a stored row (`corruptRow`: ciphertext replaced by junk,
or `ParentKeyMeta` dropped): the store remains a function of `(kid, created)`, no row gets the stamp
0, every row with another key is untouched.  (The well-formedness of the hit row and cache coherence
for entries filed under it do not survive — C01/C02 exclude `corruptRow`; nothing in C07 needs them.) -/
theorem corrupt_row_survivors (w : World) (m : KeyMeta) (dp : Bool)
    (hu : ∀ r, r ∈ w.store → findRow w.store ⟨r.kid, r.created⟩ = some r) (hz : ∀ r, r ∈ w.store → r.created ≠ 0) :
    (∀ r, r ∈ (applyOp w (.corruptRow m dp)).2.store →
        findRow (applyOp w (.corruptRow m dp)).2.store ⟨r.kid, r.created⟩ = some r) ∧
    (∀ r, r ∈ (applyOp w (.corruptRow m dp)).2.store → r.created ≠ 0) ∧
    (∀ r, r ∈ w.store → ¬ (r.kid = m.kid ∧ r.created = m.created) → r ∈ (applyOp w (.corruptRow m dp)).2.store) := by
  rw [applyOp_snd]
  exact corruptRow_survivors m dp hu hz

/-! ### the payload that comes out is the one that went in -/

/-- **ciphertext-integrity hypothesis**, stated explicitly: the term `c` was emitted by the history —
it is a field of a record some operation returned, or the ciphertext of a row now in the store.
(That an adversary cannot produce any OTHER term that opens is AES-GCM's INT-CTXT, assumed; the
byte-level counterpart of "a term that is not a seal output is rejected" is engine `fmt`.) -/
def EmittedTerm (outs : List Out) (store : List Row) (c : Ct) : Prop :=
  (∃ (j : Nat) (dj : Drr), outs[j]? = some (.record dj) ∧ (dj.data = c ∨ ∃ dk, dj.key = some dk ∧ dk.enc = c)) ∨
  (∃ r, r ∈ store ∧ r.enc = c)

/-- **decrypt returns the original.**  Along ANY history from any start time — any policies, any
fault lists, revocations, corrupted and parent-less rows (`corruptRow`) included — if a record `d`
whose two ciphertext fields were emitted by the history decrypts to `p` (any session, any faults),
then some earlier operation `j` was `encrypt _ p _`, it returned a record `dj`, and `d` carries
exactly `dj`'s data AND `dj`'s encrypted key.  So the only payload that can come out is the one
originally sealed in that record; recombining the fields of two genuine records, or pointing a
record at another existing key, is an error (`splice_is_error`). -/
theorem decrypt_returns_original (t : Int) (ops : List Op) (s : Nat) (d : Drr) (fl : List Fault) (p : Nat)
    (hdec : (applyOp (runOps (World.init t) ops).2 (.decrypt s d fl)).1 = .payload p)
    (hdata : EmittedTerm (runOps (World.init t) ops).1 (runOps (World.init t) ops).2.store d.data)
    (hkey : ∀ dk, d.key = some dk →
      EmittedTerm (runOps (World.init t) ops).1 (runOps (World.init t) ops).2.store dk.enc) :
    ∃ (j s' : Nat) (fl' : List Fault) (dj : Drr), ops[j]? = some (.encrypt s' p fl') ∧
      (runOps (World.init t) ops).1[j]? = some (.record dj) ∧
      dj.data = d.data ∧ dj.key.map (·.enc) = d.key.map (·.enc) := by
  have hg := runOps_ginv (GInv.init t) ops
  rw [List.nil_append] at hg
  have conv : ∀ c, EmittedTerm (runOps (World.init t) ops).1 (runOps (World.init t) ops).2.store c →
      Emitted (ops.zip (runOps (World.init t) ops).1) (runOps (World.init t) ops).2.store c := by
    intro c hc
    rcases hc with ⟨j, dj, hj, h⟩ | h
    · obtain ⟨op, hop⟩ := ops_getElem?_of_out hj
      exact Or.inl ⟨op, dj, mem_zip_of_getElem? hop hj, h⟩
    · exact Or.inr h
  obtain ⟨op, dj, s', fl', hmem, hop, h1, h2⟩ := decrypt_original hg hdec (conv _ hdata) fun dk hk => conv _ (hkey dk hk)
  obtain ⟨j, hj1, hj2⟩ := mem_zip_getElem? hmem
  exact ⟨j, s', fl', dj, hop ▸ hj1, hj2, h1, h2⟩

/-- the data-row keys of the records a history returns are pairwise different, hence the encrypted
key of one record with the data of another is rejected — in the final world of ANY history. -/
theorem splice_is_error (t : Int) (ops : List Op) (i j : Nat) (hij : i ≠ j) (di dj : Drr)
    (hi : (runOps (World.init t) ops).1[i]? = some (.record di))
    (hj : (runOps (World.init t) ops).1[j]? = some (.record dj)) (s : Nat) (fl : List Fault) :
    ∃ e, (applyOp (runOps (World.init t) ops).2 (.decrypt s ⟨di.key, dj.data⟩ fl)).1 = .error e := by
  have hg := runOps_ginv (GInv.init t) ops
  rw [List.nil_append] at hg
  obtain ⟨opi, hopi⟩ := ops_getElem?_of_out hi
  obtain ⟨opj, hopj⟩ := ops_getElem?_of_out hj
  have zi : (ops.zip (runOps (World.init t) ops).1)[i]? = some (opi, .record di) := by
    rw [List.getElem?_zip_eq_some]; exact ⟨hopi, hi⟩
  have zj : (ops.zip (runOps (World.init t) ops).1)[j]? = some (opj, .record dj) := by
    rw [List.getElem?_zip_eq_some]; exact ⟨hopj, hj⟩
  exact splice_error hg hij zi zj s fl

/-! ### non-vacuity -/

def demoPolicy : Policy :=
  { expireAfter := 1000000000, revokeInterval := 1000000000000, precision := 0,
    cacheSK := true, cacheIK := true, sharedIK := false }

def demoHistory : List Op := [.newFactory demoPolicy 0 0 0 0, .getSession 0 7 0 0, .encrypt 0 42 []]
def demoWorld : World := (runOps (World.init 5000000000) demoHistory).2
def demoRecord : Drr := ⟨some ⟨5, .enc 1 2 (.key 2), some ⟨.ik 7, 5⟩⟩, .enc 2 1 (.payload 42)⟩

/-- the hypothesis of `decrypt_authentic` is satisfiable: the genuine record decrypts. -/
example : (applyOp demoWorld (.decrypt 0 demoRecord [])).1 = .payload 42 := by decide

/-- a flipped / truncated data field, a flipped key field, a splice with another record's data, a
record of another partition, and a corrupted stored row are all errors (no panic, no other bytes). -/
example : (applyOp demoWorld (.decrypt 0 { demoRecord with data := .junk 1 } [])).1 = .error .aead := by decide
example : (applyOp demoWorld (.decrypt 0 ⟨some ⟨5, .junk 3, some ⟨.ik 7, 5⟩⟩, demoRecord.data⟩ [])).1 = .error .aead := by decide
example : (applyOp demoWorld (.decrypt 0 { demoRecord with data := .enc 9 1 (.payload 42) } [])).1 = .error .aead := by decide
example : (applyOp demoWorld (.decrypt 0 ⟨some ⟨5, .enc 1 2 (.key 2), some ⟨.ik 8, 5⟩⟩, demoRecord.data⟩ [])).1 =
    .error .wrongPartition := by decide
example : (runOps (World.init 5000000000)
    (demoHistory ++ [.corruptRow ⟨.ik 7, 5⟩ true, .newFactory demoPolicy 0 0 0 0, .getSession 1 7 0 0,
      .decrypt 1 demoRecord []])).1[6]? = some (.error .noParent) := by decide
example : (runOps (World.init 5000000000)
    (demoHistory ++ [.corruptRow ⟨.ik 7, 5⟩ false, .newFactory demoPolicy 0 0 0 0, .getSession 1 7 0 0,
      .decrypt 1 demoRecord []])).1[6]? = some (.error .aead) := by decide

/-- two genuine records; the hypotheses of `decrypt_returns_original` hold for the first one, and the
splice of the two is an error. -/
def twoRecords : List Op := demoHistory ++ [.encrypt 0 43 []]
def secondRecord : Drr := ⟨some ⟨5, .enc 1 4 (.key 3), some ⟨.ik 7, 5⟩⟩, .enc 3 3 (.payload 43)⟩

example : (runOps (World.init 5000000000) twoRecords).1[2]? = some (.record demoRecord) ∧
    (runOps (World.init 5000000000) twoRecords).1[3]? = some (.record secondRecord) ∧
    (applyOp (runOps (World.init 5000000000) twoRecords).2 (.decrypt 0 demoRecord [])).1 = .payload 42 ∧
    (applyOp (runOps (World.init 5000000000) twoRecords).2 (.decrypt 0 ⟨demoRecord.key, secondRecord.data⟩ [])).1 =
      .error .aead := by decide

end AsherahVerif.Props.C07
