import AsherahVerif.Proofs.KmsRoundtrip
import AsherahVerif.Generated.Kms
import AsherahVerif.Expected.Kms
/-
C17 — AWS KMS plugins: any surviving region can unwrap; preferred region tried first
(+ the KMS part of C10: plaintext data keys handed out by the KMS clients are wiped).

Everything is about `AsherahVerif.Kms` (Model/Kms.lean), the executable model of
`plugins/aws-v1/kms/aws.go` and `plugins/aws-v2/kms/{kms,builder}.go` that the correspondence check
runs against the real plugins on every run.  All theorems hold for every number of clients/regions,
every answer of the regional KMS services (`Cloud`: arbitrary functions; failure subsets are the special
case `Faults.cloud`), every preferred region, every arrival order of the concurrently produced regional
entries (`sched`, any permutation) and both plugins (`p : Plugin`).
-/
namespace AsherahVerif.Props.C17
open AsherahVerif.Kms AsherahVerif.KmsSpec

/-! ### the tie: the source has the shape the model mirrors -/

/-- does the tree under check wipe the KMS plaintext in `DecryptKey` (read off the regenerated source). -/
def treeWipes : Plugin → Bool
  | .v1 => Expected.Kms.wipes Generated.Kms.v1DecryptKeyStmts Expected.Kms.wipeMarkerV1
  | .v2 => Expected.Kms.wipes Generated.Kms.v2DecryptKeyStmts Expected.Kms.wipeMarkerV2

/-- v1: skeletons and statements of the modelled functions are the expected ones (DecryptKey: the
expected shape for the wipe flag the model is run with). -/
theorem source_v1_as_modelled :
    Generated.Kms.v1SortClients = Expected.Kms.v1SortClients ∧
    Generated.Kms.v1SortClientsStmts = Expected.Kms.v1SortClientsStmts ∧
    Generated.Kms.v1NewAWS = Expected.Kms.v1NewAWS ∧
    Generated.Kms.v1newAWS = Expected.Kms.v1newAWS ∧
    Generated.Kms.v1CreateClients = Expected.Kms.v1CreateClients ∧
    Generated.Kms.v1KeysGet = Expected.Kms.v1KeysGet ∧
    Generated.Kms.v1EncryptKey = Expected.Kms.v1EncryptKey ∧
    Generated.Kms.v1EncryptKeyStmts = Expected.Kms.v1EncryptKeyStmts ∧
    Generated.Kms.v1EncryptAllRegions = Expected.Kms.v1EncryptAllRegions ∧
    Generated.Kms.v1EncryptAllRegionsStmts = Expected.Kms.v1EncryptAllRegionsStmts ∧
    Generated.Kms.v1GenerateDataKey = Expected.Kms.v1GenerateDataKey ∧
    Generated.Kms.v1GenerateDataKeyFunc = Expected.Kms.v1GenerateDataKeyFunc ∧
    Generated.Kms.v1EncryptAllRegionsFunc = Expected.Kms.v1EncryptAllRegionsFunc ∧
    Generated.Kms.v1DecryptKey = Expected.Kms.v1DecryptKey (treeWipes .v1) ∧
    Generated.Kms.v1DecryptKeyStmts = Expected.Kms.v1DecryptKeyStmts (treeWipes .v1) := by
  refine ⟨?_, ?_, ?_, ?_, ?_, ?_, ?_, ?_, ?_, ?_, ?_, ?_, ?_, ?_, ?_⟩ <;> decide

theorem source_v2_as_modelled :
    Generated.Kms.v2NewAWS = Expected.Kms.v2NewAWS ∧
    Generated.Kms.v2NewBuilder = Expected.Kms.v2NewBuilder ∧
    Generated.Kms.v2Build = Expected.Kms.v2Build ∧
    Generated.Kms.v2BuildStmts = Expected.Kms.v2BuildStmts ∧
    Generated.Kms.v2EncryptKey = Expected.Kms.v2EncryptKey ∧
    Generated.Kms.v2EncryptKeyStmts = Expected.Kms.v2EncryptKeyStmts ∧
    Generated.Kms.v2GenerateDataKey = Expected.Kms.v2GenerateDataKey ∧
    Generated.Kms.v2EncryptRegionalKEKs = Expected.Kms.v2EncryptRegionalKEKs ∧
    Generated.Kms.v2EncryptAllRegions = Expected.Kms.v2EncryptAllRegions ∧
    Generated.Kms.v2EncryptAllRegionsStmts = Expected.Kms.v2EncryptAllRegionsStmts ∧
    Generated.Kms.v2ClientGenerateDataKey = Expected.Kms.v2ClientGenerateDataKey ∧
    Generated.Kms.v2ClientEncryptKey = Expected.Kms.v2ClientEncryptKey ∧
    Generated.Kms.v2ClientDecryptKey = Expected.Kms.v2ClientDecryptKey ∧
    Generated.Kms.v2DecryptKey = Expected.Kms.v2DecryptKey (treeWipes .v2) ∧
    Generated.Kms.v2DecryptKeyStmts = Expected.Kms.v2DecryptKeyStmts (treeWipes .v2) := by
  refine ⟨?_, ?_, ?_, ?_, ?_, ?_, ?_, ?_, ?_, ?_, ?_, ?_, ?_, ?_, ?_⟩ <;> decide

/-- the JSON names of the envelope and of its entries are the expected ones, and the same in both plugins. -/
theorem json_tags_as_modelled :
    Generated.Kms.v1EnvelopeTags = Expected.Kms.v1EnvelopeTags ∧
    Generated.Kms.v1KekTags = Expected.Kms.v1KekTags ∧
    Generated.Kms.v2EnvelopeTags = Expected.Kms.v2EnvelopeTags ∧
    Generated.Kms.v2KekTags = Expected.Kms.v2KekTags ∧
    Generated.Kms.v1EnvelopeTags.map (·.2) = Generated.Kms.v2EnvelopeTags.map (·.2) ∧
    Generated.Kms.v1KekTags.map (·.2) = Generated.Kms.v2KekTags.map (·.2) := by
  refine ⟨?_, ?_, ?_, ?_, ?_, ?_⟩ <;> decide

/-! ### unwrap -/

/-- `DecryptKey` returns what the specification says: the key obtained by the first configured client
that has an entry, whose KMS opens it, and whose data key opens the sealed key; an error if there is none.
It never panics. -/
theorem unwrap_eq_spec (p : Plugin) (wipe : Bool) (cloud : Cloud) (clients : List Client) (e : Envelope) :
    (decryptKey p wipe cloud clients (some e)).res =
      match unwrapResult (lookup p e.keks) cloud e.encKey clients with
      | some k => .ok k
      | none => .err .decryptFailedAll := by
  simp only [decryptKey, decryptLoop_res]
  cases unwrapResult (lookup p e.keks) cloud e.encKey clients <;> rfl

/-- **unwrapping succeeds exactly when at least one configured client has an entry and is able to
decrypt it** (its KMS opens the entry and the data key inside opens the sealed key). -/
theorem unwrap_iff (p : Plugin) (wipe : Bool) (cloud : Cloud) (clients : List Client) (e : Envelope) :
    (∃ k, (decryptKey p wipe cloud clients (some e)).res = .ok k) ↔
    ∃ c ∈ clients, ∃ kek dk, lookup p e.keks c.region = some kek ∧ cloud.dec c kek.blob = some dk ∧
      (aeadOpen e.encKey dk).isSome = true := by
  rw [unwrap_eq_spec]
  constructor
  · rintro ⟨k, hk⟩
    cases hr : unwrapResult (lookup p e.keks) cloud e.encKey clients with
    | none => rw [hr] at hk; cases hk
    | some k' =>
      unfold unwrapResult at hr
      obtain ⟨c, hc, ho⟩ := List.exists_of_findSome?_eq_some hr
      refine ⟨c, hc, ?_⟩
      unfold opens at ho
      cases h1 : lookup p e.keks c.region with
      | none => simp [h1] at ho
      | some kek =>
        cases h2 : cloud.dec c kek.blob with
        | none => simp [h1, h2] at ho
        | some dk => exact ⟨kek, dk, rfl, h2, by simp [h1, h2] at ho; simp [ho]⟩
  · rintro ⟨c, hc, kek, dk, h1, h2, h3⟩
    cases hr : unwrapResult (lookup p e.keks) cloud e.encKey clients with
    | some k => exact ⟨k, rfl⟩
    | none =>
      unfold unwrapResult at hr
      have := List.findSome?_eq_none_iff.mp hr c hc
      simp [opens, h1, h2] at this
      simp [this] at h3

/-- … **and then the result is the wrapped key**: whatever `DecryptKey` returns is the payload sealed in
the envelope (never other bytes). -/
theorem unwrap_value (p : Plugin) (wipe : Bool) (cloud : Cloud) (clients : List Client) (e : Envelope) (k : Nat)
    (h : (decryptKey p wipe cloud clients (some e)).res = .ok k) : ∃ kid, e.encKey = .sealed kid k := by
  rw [unwrap_eq_spec] at h
  cases hr : unwrapResult (lookup p e.keks) cloud e.encKey clients with
  | none => rw [hr] at h; cases h
  | some k' =>
    rw [hr] at h
    have hk : k' = k := by cases h; rfl
    subst hk
    unfold unwrapResult at hr
    obtain ⟨c, _, ho⟩ := List.exists_of_findSome?_eq_some hr
    rw [opens_eq] at ho
    cases hd : kmsOpened (lookup p e.keks) cloud c with
    | none => simp [hd] at ho
    | some dk =>
      simp only [hd, Option.bind_some] at ho
      unfold aeadOpen at ho
      cases he : e.encKey with
      | junk => simp [he] at ho
      | «sealed» kid pt =>
        simp only [he] at ho
        split at ho
        · cases ho; exact ⟨kid, rfl⟩
        · cases ho

/-- an envelope that does not parse is refused without asking any KMS. -/
theorem unwrap_garbage (p : Plugin) (wipe : Bool) (cloud : Cloud) (clients : List Client) :
    (decryptKey p wipe cloud clients none).res = .err .unmarshal ∧ (decryptKey p wipe cloud clients none).calls = [] :=
  ⟨rfl, rfl⟩

/-- **regions are tried in client order**: the KMS Decrypt calls are exactly the clients that have an
entry, in client order, up to and including the first one that can open the envelope (all of them when
none can); clients without an entry are skipped, KMS failures and AEAD failures are passed over. -/
theorem tried_in_client_order (p : Plugin) (wipe : Bool) (cloud : Cloud) (clients : List Client) (e : Envelope) :
    let o := decryptKey p wipe cloud clients (some e)
    let look := lookup p e.keks
    (∃ k pre c post, o.res = .ok k ∧ clients = pre ++ c :: post ∧ opens look cloud e.encKey c = some k ∧
        (∀ x ∈ pre, opens look cloud e.encKey x = none) ∧
        o.calls = (pre.filter (hasEntry look) ++ [c]).map Call.dec) ∨
    (o.res = .err .decryptFailedAll ∧ (∀ x ∈ clients, opens look cloud e.encKey x = none) ∧
        o.calls = (clients.filter (hasEntry look)).map Call.dec) := by
  intro o look
  have hd := tried_decomp look cloud e.encKey clients
  have hres := unwrap_eq_spec p wipe cloud clients e
  have hcalls : o.calls = (tried look cloud e.encKey clients).map Call.dec := by
    simp only [o, decryptKey, decryptLoop_calls]; rfl
  cases hr : unwrapResult look cloud e.encKey clients with
  | some k =>
    rw [hr] at hd
    obtain ⟨pre, c, post, h1, h2, h3, h4⟩ := hd
    left
    refine ⟨k, pre, c, post, ?_, h1, h2, h3, by rw [hcalls, h4]⟩
    show (decryptKey p wipe cloud clients (some e)).res = _
    rw [hres]; simp only [look] at hr; rw [hr]
  | none =>
    rw [hr] at hd
    right
    refine ⟨?_, hd.1, by rw [hcalls, hd.2]⟩
    show (decryptKey p wipe cloud clients (some e)).res = _
    rw [hres]; simp only [look] at hr; rw [hr]

/-! ### preferred region first -/

/-- **v1 `NewAWS`**: whatever order the ARN map is iterated in, the client of the preferred region comes
first and the others keep their order. -/
theorem preferred_first_v1 (cs : List Client) (hnd : (cs.map (·.region)).Nodup) (c : Client) (hc : c ∈ cs) :
    newAWSv1 c.region cs = .ok (c :: cs.filter (·.region != c.region)) := by
  simp [newAWSv1, sortClients, filter_pref_eq_singleton hnd hc]

/-- **v2 `Builder.Build`**: the same (a preferred region is mandatory as soon as there are two regions). -/
theorem preferred_first_v2 (cs : List Client) (hnd : (cs.map (·.region)).Nodup) (c : Client) (hc : c ∈ cs)
    (hpref : c.region ≠ "" ∨ cs.length ≤ 1) :
    buildV2 c.region cs = .ok (c :: cs.filter (·.region != c.region)) := by
  have hne : cs.isEmpty = false := by cases cs <;> simp_all
  have hcond : ¬ (c.region = "" ∧ cs.length > 1) := by
    rintro ⟨h1, h2⟩
    cases hpref with
    | inl h => exact h h1
    | inr h => omega
  simp [buildV2, hne, hcond, buildFold, filter_pref_eq_singleton hnd hc]

/-- a preferred region that is not configured changes nothing (v1 always; v2 when it is accepted). -/
theorem unknown_preferred_keeps_order (pref : String) (cs : List Client) (h : ∀ c ∈ cs, c.region ≠ pref) :
    newAWSv1 pref cs = .ok cs ∧
    (cs ≠ [] → ¬ (pref = "" ∧ cs.length > 1) → buildV2 pref cs = .ok cs) := by
  have hf := filter_pref_eq_nil h
  refine ⟨by simp [newAWSv1, sortClients, hf.1, hf.2], ?_⟩
  intro hne hcond
  have : cs.isEmpty = false := by cases cs <;> simp_all
  simp [buildV2, this, hcond, buildFold, hf.1, hf.2]

/-- v2 refuses several regions without a preferred one; `NewBuilder` panics on an empty ARN map. -/
theorem v2_build_rejections (pref : String) (cs : List Client) :
    (cs = [] → buildV2 pref cs = .panic) ∧ (cs.length > 1 → buildV2 "" cs = .err .prefRequired) := by
  constructor
  · intro h; subst h; rfl
  · intro h
    have : cs.isEmpty = false := by cases cs <;> simp_all
    simp [buildV2, this, h]

/-- **the first client (the preferred region's) is asked first**: if it has an entry, the first KMS
Decrypt call goes to it, and if it can open the envelope it is the only call. -/
theorem preferred_tried_first (p : Plugin) (wipe : Bool) (cloud : Cloud) (c : Client) (rest : List Client) (e : Envelope)
    (hentry : (lookup p e.keks c.region).isSome = true) :
    let o := decryptKey p wipe cloud (c :: rest) (some e)
    o.calls.head? = some (.dec c) ∧
    (∀ k, opens (lookup p e.keks) cloud e.encKey c = some k → o.res = .ok k ∧ o.calls = [.dec c]) := by
  intro o
  have hcalls : o.calls = (tried (lookup p e.keks) cloud e.encKey (c :: rest)).map Call.dec := by
    simp only [o, decryptKey, decryptLoop_calls]
  have hres := unwrap_eq_spec p wipe cloud (c :: rest) e
  have he : hasEntry (lookup p e.keks) c = true := hentry
  constructor
  · rw [hcalls]
    simp only [tried, List.filter_cons, he, if_true, takeThrough]
    split <;> simp
  · intro k hk
    constructor
    · show (decryptKey p wipe cloud (c :: rest) (some e)).res = _
      rw [hres]; simp [unwrapResult, hk]
    · rw [hcalls]
      simp [tried, he, takeThrough, hk]

/-! ### wrap -/

/-- `EncryptKey` fails with "all regions returned errors" exactly when no client can generate a data key. -/
theorem wrap_fails_iff_none_generates (p : Plugin) (cloud : Cloud) (sched : List Kek → List Kek)
    (clients : List Client) (pt : Nat) :
    (encryptKey p cloud sched clients pt).res = .err .allRegionsFailed ↔ ∀ c ∈ clients, cloud.gen c = none := by
  have h := encryptKeyBody_cases p cloud sched clients pt
  have hr : (encryptKey p cloud sched clients pt).res = (encryptKeyBody p cloud sched clients pt).res := by
    unfold encryptKey; simp only; split <;> rfl
  rw [hr]
  rcases h with ⟨h1, h2, _⟩ | ⟨g, hg, _, h2⟩
  · exact ⟨fun _ => h1, fun _ => h2⟩
  · constructor
    · intro he
      rcases h2 with ⟨_, h⟩ | ⟨_, _, h⟩ | ⟨_, kid, _, h, _⟩ <;> rw [h] at he
      · cases he
      · split at he <;> cases he
      · cases he
    · intro hn
      rw [(generateDataKey_none cloud clients).mpr hn] at hg
      cases hg

/-- **wrapping succeeds as long as one region can generate a data key** (KMS contract: a successful
GenerateDataKey carries a usable AES-256 key and a KeyId). -/
theorem wrap_ok_iff_some_generates (p : Plugin) (cloud : Cloud) (sched : List Kek → List Kek)
    (clients : List Client) (pt : Nat)
    (hcontract : ∀ c ∈ clients, ∀ o, cloud.gen c = some o → o.key.valid = true ∧ o.keyId.isSome = true) :
    (∃ env, (encryptKey p cloud sched clients pt).res = .ok env) ↔ ∃ c ∈ clients, (cloud.gen c).isSome = true := by
  have h := encryptKeyBody_cases p cloud sched clients pt
  have hr : (encryptKey p cloud sched clients pt).res = (encryptKeyBody p cloud sched clients pt).res := by
    unfold encryptKey; simp only; split <;> rfl
  rw [hr]
  rcases h with ⟨h1, h2, _⟩ | ⟨g, hg, _, h2⟩
  · constructor
    · rintro ⟨env, he⟩; rw [h2] at he; cases he
    · rintro ⟨c, hc, hs⟩; rw [h1 c hc] at hs; cases hs
  · obtain ⟨pre, c, post, hcl, hgc, _⟩ := generateDataKey_some hg
    have hmem : c ∈ clients := by rw [hcl]; simp
    have hct := hcontract c hmem g hgc
    constructor
    · intro _; exact ⟨c, hmem, by simp [hgc]⟩
    · intro _
      rcases h2 with ⟨hv, _⟩ | ⟨_, hk, _⟩ | ⟨_, kid, _, h, _⟩
      · rw [hct.1] at hv; cases hv
      · rw [hk] at hct; cases hct.2
      · exact ⟨_, h⟩

/-- **the envelope of a successful wrap**: the key is sealed under the data key of the first client that
could generate one (every earlier client was asked and failed), and the entries are — up to arrival
order — exactly one per client that succeeded: the generator's own ciphertext for every client whose
master key is the reported KeyId, the result of `Encrypt` for every other client whose `Encrypt` succeeded,
nothing for a client whose `Encrypt` failed. -/
theorem wrap_has_entry_for_each_success (p : Plugin) (cloud : Cloud) (sched : List Kek → List Kek)
    (hperm : ∀ l, (sched l).Perm l) (clients : List Client) (pt : Nat) (env : Envelope)
    (h : (encryptKey p cloud sched clients pt).res = .ok env) :
    ∃ pre g post o kid, clients = pre ++ g :: post ∧ (∀ x ∈ pre, cloud.gen x = none) ∧ cloud.gen g = some o ∧
      o.keyId = some kid ∧ o.key.valid = true ∧ env.encKey = .sealed o.key.id pt ∧
      env.keks.Perm (clients.filterMap (regionalKek cloud kid o)) ∧
      (∀ c ∈ clients, c.arn = kid → ⟨c.region, c.arn, o.blob⟩ ∈ env.keks) ∧
      (∀ c ∈ clients, c.arn ≠ kid → ∀ b, cloud.enc c o.key = some b → ⟨c.region, c.arn, b⟩ ∈ env.keks) ∧
      (∀ k ∈ env.keks, ∃ c ∈ clients, k.region = c.region ∧ k.arn = c.arn ∧
        ((c.arn = kid ∧ k.blob = o.blob) ∨ (c.arn ≠ kid ∧ cloud.enc c o.key = some k.blob))) :=
  encryptKey_ok_spec p cloud sched hperm clients pt env h

/-- which KMS calls a wrap makes: GenerateDataKey in client order up to the first success, then one
Encrypt for every client whose master key is not the reported KeyId. -/
theorem wrap_calls (p : Plugin) (cloud : Cloud) (sched : List Kek → List Kek) (clients : List Client) (pt : Nat)
    (env : Envelope) (h : (encryptKey p cloud sched clients pt).res = .ok env) :
    ∃ kid, (encryptKey p cloud sched clients pt).calls =
      (takeThrough (fun c => (cloud.gen c).isSome) clients).map Call.gen ++ (clients.filter (·.arn ≠ kid)).map Call.enc := by
  have hb := encryptKeyBody_cases p cloud sched clients pt
  have hr : (encryptKey p cloud sched clients pt).res = (encryptKeyBody p cloud sched clients pt).res := by
    unfold encryptKey; simp only; split <;> rfl
  have hc : (encryptKey p cloud sched clients pt).calls = (encryptKeyBody p cloud sched clients pt).calls := by
    unfold encryptKey; simp only; split <;> rfl
  rw [hr] at h
  rcases hb with ⟨_, h2, _⟩ | ⟨o, _, _, h2⟩
  · rw [h2] at h; cases h
  · rcases h2 with ⟨_, h'⟩ | ⟨_, _, h'⟩ | ⟨_, kid, _, _, h'⟩
    · rw [h'] at h; cases h
    · rw [h'] at h; split at h <;> cases h
    · exact ⟨kid, by rw [hc, h', generateDataKey_calls]⟩

/-! ### plaintext data keys are wiped (C17 wrap side; C10 KMS part) -/

/-- **`EncryptKey` wipes the plaintext data key** on every way out (success, AEAD failure, panic): every
plaintext buffer a KMS client handed out during the call is wiped when it returns.  (Excluded: v2 with
a GenerateDataKey answer that has no KeyId — the process dies in a goroutine.) -/
theorem wrap_wipes_datakey (p : Plugin) (cloud : Cloud) (sched : List Kek → List Kek) (clients : List Client) (pt : Nat)
    (hlive : (encryptKey p cloud sched clients pt).res ≠ .fatal) :
    ∀ b ∈ (encryptKey p cloud sched clients pt).bufs, b.wiped = true := by
  unfold encryptKey at hlive ⊢
  simp only at hlive ⊢
  split
  · rename_i hf; simp [hf] at hlive
  · intro b hb
    simp only [List.mem_map] at hb
    obtain ⟨b', _, rfl⟩ := hb
    rfl

/-- v1 never dies; and whenever GenerateDataKey answers carry a KeyId neither plugin panics or dies. -/
theorem wrap_no_crash (p : Plugin) (cloud : Cloud) (sched : List Kek → List Kek) (clients : List Client) (pt : Nat) :
    (p = .v1 → (encryptKey p cloud sched clients pt).res ≠ .fatal) ∧
    ((∀ c ∈ clients, ∀ o, cloud.gen c = some o → o.keyId.isSome = true) →
      (encryptKey p cloud sched clients pt).res ≠ .fatal ∧ (encryptKey p cloud sched clients pt).res ≠ .panic) := by
  have hb := encryptKeyBody_cases p cloud sched clients pt
  have hr : (encryptKey p cloud sched clients pt).res = (encryptKeyBody p cloud sched clients pt).res := by
    unfold encryptKey; simp only; split <;> rfl
  rw [hr]
  rcases hb with ⟨_, h2, _⟩ | ⟨o, hg, _, h2⟩
  · rw [h2]; exact ⟨fun _ => by simp, fun _ => ⟨by simp, by simp⟩⟩
  · obtain ⟨pre, g, post, hcl, hgc, _⟩ := generateDataKey_some hg
    rcases h2 with ⟨_, h'⟩ | ⟨_, hk, h'⟩ | ⟨_, kid, _, h', _⟩ <;> rw [h']
    · exact ⟨fun _ => by simp, fun _ => ⟨by simp, by simp⟩⟩
    · constructor
      · intro hp; simp [hp]
      · intro hc
        have := hc g (by rw [hcl]; simp) o hgc
        rw [hk] at this; cases this
    · exact ⟨fun _ => by simp, fun _ => ⟨by simp, by simp⟩⟩

/-- the full decrypt-side statement of C10 for the KMS plugins: every KMS plaintext handed out during
`DecryptKey` is wiped when it returns, whatever the result. -/
def decrypt_wipes_plaintext_full (wipe : Bool) : Prop :=
  ∀ (p : Plugin) (cloud : Cloud) (clients : List Client) (env : Option Envelope),
    ∀ b ∈ (decryptKey p wipe cloud clients env).bufs, b.wiped = true

/-- the buffers `DecryptKey` leaves behind: one per successful KMS Decrypt call, in call order, each in
the state the `wipe` flag says. -/
theorem decrypt_bufs (p : Plugin) (wipe : Bool) (cloud : Cloud) (clients : List Client) (e : Envelope) :
    (decryptKey p wipe cloud clients (some e)).bufs =
      (tried (lookup p e.keks) cloud e.encKey clients).filterMap fun c =>
        (kmsOpened (lookup p e.keks) cloud c).map fun dk => ⟨dk, wipe⟩ := by
  simp only [decryptKey, decryptLoop_bufs]

/-- with `internal.MemClr(<output>.Plaintext)` right after the AEAD call (the shape `treeWipes = true`
stands for) the statement holds … -/
theorem decrypt_wipes_plaintext : decrypt_wipes_plaintext_full true := by
  intro p cloud clients env b hb
  cases env with
  | none => simp [decryptKey] at hb
  | some e =>
    rw [decrypt_bufs] at hb
    obtain ⟨c, _, hc⟩ := List.mem_filterMap.mp hb
    obtain ⟨dk, _, rfl⟩ := Option.map_eq_some_iff.mp hc
    rfl

/-- … and **on the code as found it is false** (defect F-7): one region, an honest KMS, a successful
`DecryptKey` — and the plaintext data key is still in the buffer the KMS client returned. -/
theorem decrypt_wipes_plaintext_counterexample : ¬ decrypt_wipes_plaintext_full false := by
  intro h
  let f : Faults := ⟨fun _ => false, fun _ => false, fun _ => .ok, fun c => some c.arn, ⟨1, true⟩⟩
  let c : Client := ⟨"r0", "a0", 0⟩
  have := h .v1 f.cloud [c] (some ⟨.sealed 1 7, [⟨"r0", "a0", ⟨"a0", ⟨1, true⟩⟩⟩]⟩) ⟨⟨1, true⟩, false⟩ (by decide)
  cases this

/-- stronger: without the wipe *every* successful KMS Decrypt of *every* `DecryptKey` leaves its plaintext behind. -/
theorem decrypt_unwiped_always (p : Plugin) (cloud : Cloud) (clients : List Client) (e : Envelope) :
    (∀ b ∈ (decryptKey p false cloud clients (some e)).bufs, b.wiped = false) ∧
    ((decryptKey p false cloud clients (some e)).bufs = [] ↔
      ∀ c ∈ tried (lookup p e.keks) cloud e.encKey clients, kmsOpened (lookup p e.keks) cloud c = none) := by
  rw [decrypt_bufs]
  constructor
  · intro b hb
    obtain ⟨c, _, hc⟩ := List.mem_filterMap.mp hb
    obtain ⟨dk, _, rfl⟩ := Option.map_eq_some_iff.mp hc
    rfl
  · simp [List.filterMap_eq_nil_iff]

/-! ### wrap, then unwrap — in the same plugin or in the other one -/

/-- **any surviving region can unwrap, to the identical bytes** — end to end, for failure subsets.
`A` are the clients of the wrapping plugin `pw`, `B` those of the unwrapping plugin `pu` (same plugin or the
other one, any preferred regions, `B` may know more or fewer regions than `A`), built over the same
region → master-key map.  `fw`: which regions fail GenerateDataKey / Encrypt at wrap time; `fu`: which
regions fail Decrypt at unwrap time.  If the wrap succeeded, then unwrapping returns exactly the
wrapped key if some client of `B` has an entry in the envelope and is able to decrypt, and fails (with
"decrypt failed in all regions", never a wrong key, never a panic) otherwise. -/
theorem wrap_then_unwrap (pw pu : Plugin) (wipe : Bool) (fw fu : Faults) (sched : List Kek → List Kek)
    (hperm : ∀ l, (sched l).Perm l) (A B : List Client) (pt : Nat) (env : Envelope)
    (hA : (A.map (·.region)).Nodup)
    (hAB : ∀ a ∈ A, ∀ b ∈ B, a.region = b.region → a.arn = b.arn)
    (hkid : ∀ c, fw.keyId c = some c.arn)
    (hdec : ∀ c ∈ B, fu.decMode c = .ok ∨ fu.decMode c = .fail)
    (hw : (encryptKey pw fw.cloud sched A pt).res = .ok env) :
    let r := (decryptKey pu wipe fu.cloud B (some env)).res
    (r = .ok pt ↔ ∃ c ∈ B, (∃ k ∈ env.keks, k.region = c.region) ∧ fu.decMode c = .ok) ∧
    (r = .ok pt ∨ r = .err .decryptFailedAll) := by
  intro r
  obtain ⟨hv, henc, hnd, hkeks⟩ := honest_envelope pw fw sched hperm A pt env hkid hA hw
  have hopen : ∀ c ∈ B, opens (lookup pu env.keks) fu.cloud env.encKey c =
      if (∃ k ∈ env.keks, k.region = c.region) ∧ fu.decMode c = .ok then some pt else none := by
    intro c hc
    unfold opens
    cases hl : lookup pu env.keks c.region with
    | none =>
      have hno := lookup_none hl
      have : ¬ ∃ k ∈ env.keks, k.region = c.region := fun ⟨k, hk, hr⟩ => hno k hk hr
      simp [this]
    | some k =>
      obtain ⟨hk, hr⟩ := lookup_some hl
      obtain ⟨a, ha, h1, _, h3⟩ := hkeks k hk
      have harn : a.arn = c.arn := hAB a ha c hc (by rw [← h1, hr])
      have hex : ∃ k ∈ env.keks, k.region = c.region := ⟨k, hk, hr⟩
      rcases hdec c hc with hm | hm
      · simp [hex, hm, Faults.cloud, h3, harn, henc, aeadOpen, hv]
      · simp [hm, Faults.cloud]
  have hres : r = match unwrapResult (lookup pu env.keks) fu.cloud env.encKey B with
      | some k => .ok k | none => .err .decryptFailedAll := unwrap_eq_spec pu wipe fu.cloud B env
  cases hu : unwrapResult (lookup pu env.keks) fu.cloud env.encKey B with
  | some k =>
    rw [hu] at hres
    unfold unwrapResult at hu
    obtain ⟨c, hc, ho⟩ := List.exists_of_findSome?_eq_some hu
    rw [hopen c hc] at ho
    split at ho
    · rename_i hcond
      cases ho
      exact ⟨⟨fun _ => ⟨c, hc, hcond⟩, fun _ => hres⟩, Or.inl hres⟩
    · cases ho
  | none =>
    rw [hu] at hres
    unfold unwrapResult at hu
    have hnone := List.findSome?_eq_none_iff.mp hu
    refine ⟨⟨fun h => (by rw [hres] at h; cases h), ?_⟩, Or.inr hres⟩
    rintro ⟨c, hc, hcond⟩
    have := hnone c hc
    rw [hopen c hc] at this
    simp [hcond] at this

/-- **v1 ↔ v2 interoperability**: an envelope produced by either plugin unwraps in the other, under
exactly the same condition and to the same key (instance of `wrap_then_unwrap` with `pu ≠ pw`). -/
theorem v1_v2_interop (pw pu : Plugin) (_hne : pw ≠ pu) (wipe : Bool) (fw fu : Faults) (sched : List Kek → List Kek)
    (hperm : ∀ l, (sched l).Perm l) (A B : List Client) (pt : Nat) (env : Envelope)
    (hA : (A.map (·.region)).Nodup) (hAB : ∀ a ∈ A, ∀ b ∈ B, a.region = b.region → a.arn = b.arn)
    (hkid : ∀ c, fw.keyId c = some c.arn) (hdec : ∀ c ∈ B, fu.decMode c = .ok ∨ fu.decMode c = .fail)
    (hw : (encryptKey pw fw.cloud sched A pt).res = .ok env) :
    ((decryptKey pu wipe fu.cloud B (some env)).res = .ok pt ↔
      ∃ c ∈ B, (∃ k ∈ env.keks, k.region = c.region) ∧ fu.decMode c = .ok) :=
  (wrap_then_unwrap pw pu wipe fw fu sched hperm A B pt env hA hAB hkid hdec hw).1

/-- on every envelope without duplicate regions — whoever produced it, whatever the KMS answers — the
two plugins' `DecryptKey` behave identically (result, calls, buffers); the JSON they read and write has
the same names (`json_tags_as_modelled`) and the same text except `[]`/`null` for "no entries", which
`encoding/json` reads alike. -/
theorem v1_v2_same_unwrap (wipe : Bool) (cloud : Cloud) (clients : List Client) (e : Envelope)
    (hnd : (e.keks.map (·.region)).Nodup) :
    (decryptKey .v1 wipe cloud clients (some e)).res = (decryptKey .v2 wipe cloud clients (some e)).res ∧
    (decryptKey .v1 wipe cloud clients (some e)).calls = (decryptKey .v2 wipe cloud clients (some e)).calls ∧
    (decryptKey .v1 wipe cloud clients (some e)).bufs = (decryptKey .v2 wipe cloud clients (some e)).bufs := by
  have : lookup .v1 e.keks = lookup .v2 e.keks := funext (lookup_v1_eq_v2 hnd)
  simp [decryptKey, this]

theorem v1_v2_same_json (t : Tags) (e : Envelope) (h : e.keks ≠ []) :
    renderEnvelope .v1 t e = renderEnvelope .v2 t e := by
  have : e.keks.isEmpty = false := by cases hk : e.keks <;> simp_all
  simp [renderEnvelope, this]

/-- … whereas a (tampered) envelope with two entries for one region separates them: v1 uses the first,
v2 the last.  Concrete: the first entry is the right one, the second wraps another key. -/
theorem v1_v2_differ_on_duplicate_entries :
    let f : Faults := ⟨fun _ => false, fun _ => false, fun _ => .ok, fun c => some c.arn, ⟨1, true⟩⟩
    let c : Client := ⟨"r0", "a0", 0⟩
    let e : Envelope := ⟨.sealed 1 7, [⟨"r0", "a0", ⟨"a0", ⟨1, true⟩⟩⟩, ⟨"r0", "a0", ⟨"a0", ⟨2, true⟩⟩⟩]⟩
    (decryptKey .v1 false f.cloud [c] (some e)).res = .ok 7 ∧
    (decryptKey .v2 false f.cloud [c] (some e)).res = .err .decryptFailedAll := by
  decide

/-- a wrap can succeed with an envelope nobody can open: if GenerateDataKey reports a KeyId that is
not the configured ARN (e.g. an alias was configured) the generator's ciphertext is not used, every
region is re-encrypted, and when all of those calls fail the envelope has no entry.  (Outside the KMS
contract assumed by `wrap_then_unwrap`; reported as an observation, see the engine report.) -/
theorem wrap_can_be_empty_when_keyid_differs :
    let f : Faults := ⟨fun _ => false, fun _ => true, fun _ => .ok, fun _ => some "alias", ⟨1, true⟩⟩
    (encryptKey .v1 f.cloud id [⟨"r0", "a0", 0⟩, ⟨"r1", "a1", 1⟩] 7).res = .ok ⟨.sealed 1 7, []⟩ := by
  decide

/-! ### non-vacuity: concrete runs that exercise the hypotheses -/

private def cA : List Client := [⟨"r0", "a0", 0⟩, ⟨"r1", "a1", 1⟩, ⟨"r2", "a2", 2⟩]
/-- r1 cannot generate; r2 cannot encrypt -/
private def fW : Faults :=
  ⟨fun c => c.region == "r1", fun c => c.region == "r2", fun _ => .ok, fun c => some c.arn, ⟨5, true⟩⟩
/-- at unwrap time r0 is down -/
private def fU : Faults :=
  ⟨fun _ => false, fun _ => false, fun c => if c.region == "r0" then .fail else .ok, fun c => some c.arn, ⟨0, true⟩⟩

private def demoClientsV1 : List Client := match newAWSv1 "r1" cA with | .ok cs => cs | _ => []
private def demoClientsV2 : List Client := match buildV2 "r0" cA.reverse with | .ok cs => cs | _ => []
private def demoEnv : Envelope := match (encryptKey .v1 fW.cloud List.reverse demoClientsV1 7).res with | .ok e => e | _ => ⟨.junk, []⟩

-- preferred first, others in order
example : demoClientsV1.map (·.region) = ["r1", "r0", "r2"] ∧ demoClientsV2.map (·.region) = ["r0", "r2", "r1"] := by decide
-- r1 (preferred) fails to generate, r0 generates; r2's Encrypt fails: entries for r0 and r1 only; data key wiped
example : (encryptKey .v1 fW.cloud List.reverse demoClientsV1 7).calls.map (fun | .gen c => "gen:" ++ c.region | .enc c => "enc:" ++ c.region | .dec c => "dec:" ++ c.region)
      = ["gen:r1", "gen:r0", "enc:r1", "enc:r2"] ∧
    demoEnv.keks.map (·.region) = ["r0", "r1"] ∧
    (encryptKey .v1 fW.cloud List.reverse demoClientsV1 7).bufs = [⟨⟨5, true⟩, true⟩] := by decide
-- v2 with preferred r0 (down) falls back to r1 and returns the wrapped key; r2 has no entry and is skipped
example : (decryptKey .v2 false fU.cloud demoClientsV2 (some demoEnv)).res = .ok 7 ∧
    (decryptKey .v2 false fU.cloud demoClientsV2 (some demoEnv)).calls = [.dec ⟨"r0", "a0", 0⟩, .dec ⟨"r1", "a1", 1⟩] ∧
    (decryptKey .v2 false fU.cloud demoClientsV2 (some demoEnv)).bufs = [⟨⟨5, true⟩, false⟩] ∧
    (decryptKey .v2 true fU.cloud demoClientsV2 (some demoEnv)).bufs = [⟨⟨5, true⟩, true⟩] := by decide
-- the hypotheses of `wrap_then_unwrap` are satisfiable together (this very run)
example : (cA.map (·.region)).Nodup ∧ (∀ c, fW.keyId c = some c.arn) ∧
    (∀ c ∈ demoClientsV2, fU.decMode c = .ok ∨ fU.decMode c = .fail) ∧
    (encryptKey .v1 fW.cloud List.reverse demoClientsV1 7).res = .ok demoEnv := by
  refine ⟨by decide, fun _ => rfl, by decide, by decide⟩
-- everything down at unwrap time: error, every region with an entry was tried in order
example : (decryptKey .v1 false (⟨fun _ => false, fun _ => false, fun _ => .fail, fun c => some c.arn, ⟨0, true⟩⟩ : Faults).cloud
      demoClientsV1 (some demoEnv)).res = .err .decryptFailedAll := by decide
-- nil KeyId: v1 panics (and still wipes), v2 dies
example : let f : Faults := ⟨fun _ => false, fun _ => false, fun _ => .ok, fun _ => none, ⟨1, true⟩⟩
    (encryptKey .v1 f.cloud id cA 7).res = .panic ∧ (encryptKey .v1 f.cloud id cA 7).bufs = [⟨⟨1, true⟩, true⟩] ∧
    (encryptKey .v2 f.cloud id cA 7).res = .fatal := by decide
-- malformed data key: AEAD error after the plaintext exists, buffer wiped
example : let f : Faults := ⟨fun _ => false, fun _ => false, fun _ => .ok, fun c => some c.arn, ⟨1, false⟩⟩
    (encryptKey .v2 f.cloud id cA 7).res = .err .aead ∧ (encryptKey .v2 f.cloud id cA 7).bufs = [⟨⟨1, false⟩, true⟩] := by decide

end AsherahVerif.Props.C17
