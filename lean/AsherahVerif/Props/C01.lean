import AsherahVerif.Proofs.EnvCohOps
/-
C01 — anything encrypted decrypts back, across time, rotation, caches and processes.

About the executable model `AsherahVerif.Env` (Model/Envelope.lean) of envelope.go / key_cache.go /
session.go, which the correspondence check replays against the real SDK on every run.  A history is
a `List Op` run from `World.init t`; it may contain any number of factories with arbitrary policies
(no cache / simple / bounded LRU-LFU-SLRU-TinyLFU of any capacity, shared intermediate-key cache),
sessions, closes, clock advances of any size, revocations of any key, encrypts and decrypts with
ARBITRARY fault lists (every metastore / KMS / AEAD / secret-factory call may fail, report a false
duplicate, or fail after writing).

The one hypothesis on histories, `History t ops`, besides "no out-of-band corruption of stored rows"
(`corruptRow`, which is C07's subject):

  the history starts at least one second after the Unix epoch and every factory's
  timestamp precision is at most `t − 1 s`,

so that no key is ever stamped `created = 0`.  key_cache.go reads `Created == 0` as "the latest key
of this id" (`KeyMeta.IsLatest`), so a record sealed under a key created in the first second of 1970
stops decrypting once a newer key is cached: `roundtrip_full_counterexample` proves that on the
model; the real code behaves the same.  For every real clock the hypothesis holds.
-/
namespace AsherahVerif.Props.C01
open AsherahVerif.Env

/-- the histories C01 speaks about. -/
def History (t : Int) (ops : List Op) : Prop := nsPerSec ≤ t ∧ ∀ op, op ∈ ops → OpOK t op

/-- the invariant (`StoreWF` + `Coherent` + clock condition) holds in the initial world … -/
theorem inv_init (t : Int) (ht : nsPerSec ≤ t) : FInv t (World.init t) := FInv.init ht

/-- … and is preserved by every operation, for every fault list, every cache mode, every eviction. -/
theorem inv_step (t : Int) (w : World) (op : Op) (h : FInv t w) (hop : OpOK t op) : FInv t (applyOp w op).2 :=
  applyOp_finv h op hop

theorem inv_reachable (t : Int) (ops : List Op) (hh : History t ops) : FInv t (runOps (World.init t) ops).2 :=
  runOps_finv (FInv.init hh.1) ops hh.2

/-- **roundtrip.**  If the `i`-th operation of a history is `encrypt s pay fl` (any fault list) and
it returned the record `d`, then in the FINAL world of the history — whatever happened in between:
clock advances past expiry, revocation of any key, rotation, other factories with other policies,
sessions and factories closed and reopened, keys evicted from or absent from every cache — every
session `s'` of the same partition decrypts `d` to exactly `pay`, unless that decrypt touches a
destroyed secret (the access-after-close counter grows; ruled out for well-formed histories by C09's
`no_access_after_close`).  `sessionOpen w s'` is not even needed for the disjunction. -/
theorem roundtrip (t : Int) (ops : List Op) (hh : History t ops)
    (i s pay : Nat) (fl : List Fault) (d : Drr)
    (hop : ops[i]? = some (.encrypt s pay fl))
    (hout : (runOps (World.init t) ops).1[i]? = some (.record d))
    (s' : Nat)
    (hpart : ((runOps (World.init t) ops).2.sessions.getD s' default).part =
             ((runOps (World.init t) (ops.take i)).2.sessions.getD s default).part) :
    (applyOp (runOps (World.init t) ops).2 (.decrypt s' d [])).1 = .payload pay ∨
    accessesAfterClose (runOps (World.init t) ops).2 <
      accessesAfterClose (applyOp (runOps (World.init t) ops).2 (.decrypt s' d [])).2 := by
  obtain ⟨h1, h2⟩ := runOps_at (World.init t) ops i _ hop
  rw [h1] at hout
  have hpre : ∀ op, op ∈ ops.take i → OpOK t op := fun op h => hh.2 op (List.mem_of_mem_take h)
  have hpost : ∀ op, op ∈ ops.drop (i + 1) → OpOK t op := fun op h => hh.2 op (List.mem_of_mem_drop h)
  have hwi := runOps_finv (FInv.init hh.1) (ops.take i) hpre
  have henc := (encrypt_finv hwi s pay fl).2
  have hd : (encrypt s pay fl true (runOps (World.init t) (ops.take i)).2).1 = .ok d := by
    have := (applyOp_encrypt (runOps (World.init t) (ops.take i)).2 s pay fl).1
    rw [this] at hout
    split at hout
    · rename_i d' hd'; simp only [Option.some.injEq, Out.record.injEq] at hout; rw [← hout]; exact hd'
    · simp at hout
  have hg := henc d hd
  rw [← (applyOp_encrypt _ s pay fl).2] at hg
  have hfin := runOps_genuine (t := t) _ (ops.drop (i + 1)) hpost hg
  rw [← h2] at hfin
  exact genuine_decrypts (inv_reachable t ops hh) hfin s' hpart

/-- the composed form: when the final decrypt touches no destroyed secret (C09), it returns the payload. -/
theorem roundtrip_of_no_aac (t : Int) (ops : List Op) (hh : History t ops)
    (i s pay : Nat) (fl : List Fault) (d : Drr)
    (hop : ops[i]? = some (.encrypt s pay fl))
    (hout : (runOps (World.init t) ops).1[i]? = some (.record d))
    (s' : Nat)
    (_hopen : sessionOpen (runOps (World.init t) ops).2 s')
    (hpart : ((runOps (World.init t) ops).2.sessions.getD s' default).part =
             ((runOps (World.init t) (ops.take i)).2.sessions.getD s default).part)
    (hAac : accessesAfterClose (applyOp (runOps (World.init t) ops).2 (.decrypt s' d [])).2 =
            accessesAfterClose (runOps (World.init t) ops).2) :
    (applyOp (runOps (World.init t) ops).2 (.decrypt s' d [])).1 = .payload pay := by
  rcases roundtrip t ops hh i s pay fl d hop hout s' hpart with h | h
  · exact h
  · rw [hAac] at h; exact absurd h (Nat.lt_irrefl _)

/-- the read path never consults expiry or revocation: in ANY world satisfying the invariant — in
particular after `advance` by any amount and `revoke` of any key — a genuine record of the session's
partition decrypts (modulo access-after-close). -/
theorem decrypt_ignores_expiry_and_revocation (t : Int) (w : World) (h : FInv t w) (part pay : Nat) (d : Drr)
    (hg : Genuine w.store part pay d) (dt : Nat) (m : KeyMeta) (s' : Nat)
    (hp : (w.sessions.getD s' default).part = part) :
    let w' := (applyOp (applyOp w (.advance dt)).2 (.revoke m)).2
    (applyOp w' (.decrypt s' d [])).1 = .payload pay ∨
      accessesAfterClose w' < accessesAfterClose (applyOp w' (.decrypt s' d [])).2 := by
  intro w'
  have h1 := applyOp_finv h (.advance dt) trivial
  have h2 := applyOp_finv h1 (.revoke m) trivial
  have g1 := applyOp_genuine (t := t) w (.advance dt) trivial hg
  have g2 := applyOp_genuine (t := t) _ (.revoke m) trivial g1
  exact genuine_decrypts h2 g2 s' hp

/-- the session's partition never changes once the session exists (so "the same partition as `s`"
can be read in any later world). -/
theorem part_stable (w : World) (op : Op) (s : Nat) (ss : Session) (h : w.sessions[s]? = some ss) :
    ((applyOp w op).2.sessions.getD s default).part = ss.part := applyOp_part_stable w op s ss h

/-! ### the hypothesis `History` cannot be dropped: the epoch corner -/

/-- the statement without the clock hypothesis. -/
def roundtrip_full : Prop :=
  ∀ (t : Int) (ops : List Op), (∀ op, op ∈ ops → ∀ m dp, op ≠ .corruptRow m dp) →
    ∀ (i s pay : Nat) (fl : List Fault) (d : Drr),
      ops[i]? = some (.encrypt s pay fl) →
      (runOps (World.init t) ops).1[i]? = some (.record d) →
      ∀ s', ((runOps (World.init t) ops).2.sessions.getD s' default).part =
             ((runOps (World.init t) (ops.take i)).2.sessions.getD s default).part →
        (applyOp (runOps (World.init t) ops).2 (.decrypt s' d [])).1 = .payload pay ∨
        accessesAfterClose (runOps (World.init t) ops).2 <
          accessesAfterClose (applyOp (runOps (World.init t) ops).2 (.decrypt s' d [])).2

def epochPolicy : Policy :=
  { expireAfter := 1000000000, revokeInterval := 1000000000000, precision := 0,
    cacheSK := true, cacheIK := true, sharedIK := false }

/-- a process whose clock reads 1970-01-01T00:00:00: the keys get `created = 0`. -/
def epochHistory : List Op :=
  [.newFactory epochPolicy 0 0 0 0, .getSession 0 7 0 0, .encrypt 0 42 [], .advance 2000000001, .encrypt 0 43 []]

def epochRecord : Drr := ⟨some ⟨0, .enc 1 2 (.key 2), some ⟨.ik 7, 0⟩⟩, .enc 2 1 (.payload 42)⟩

/-- at the Unix epoch the property fails (model and SDK alike): the first record was sealed under the
intermediate key `(ik 7, created 0)`; after the rotation two seconds later `read` resolves
`created = 0` through the `latest` alias to the NEW key and the AEAD rejects the record. -/
theorem roundtrip_full_counterexample : ¬ roundtrip_full := by
  intro h
  have := h 0 epochHistory (by intro op hop m dp; simp [epochHistory] at hop; rcases hop with h | h | h | h | h <;> simp [h])
    2 0 42 [] epochRecord rfl (by decide) 0 (by decide)
  revert this
  decide

/-! ### non-vacuity -/

def demoPolicy : Policy :=
  { expireAfter := 1000000000, revokeInterval := 1000000000000, precision := 0,
    cacheSK := true, cacheIK := true, sharedIK := false }

/-- encrypt; let the keys expire; rotate; revoke the old intermediate key; a NEW factory and session. -/
def demoHistory : List Op :=
  [.newFactory demoPolicy 0 0 0 0, .getSession 0 7 0 0, .encrypt 0 42 [],
   .advance 2000000001, .encrypt 0 43 [], .revoke ⟨.ik 7, 5⟩,
   .newFactory demoPolicy 0 0 0 0, .getSession 1 7 0 0]

def demoRecord : Drr := ⟨some ⟨5, .enc 1 2 (.key 2), some ⟨.ik 7, 5⟩⟩, .enc 2 1 (.payload 42)⟩

example : History 5000000000 demoHistory := by
  refine ⟨by decide, ?_⟩
  intro op hop
  simp [demoHistory] at hop
  rcases hop with h | h | h | h | h | h | h | h <;> subst h <;> simp [OpOK] <;> decide

/-- the hypotheses of `roundtrip` are satisfiable, and its conclusion is the left disjunct here:
the record of the first encrypt decrypts in the session of the second factory, after expiry,
rotation and revocation. -/
example :
    demoHistory[2]? = some (.encrypt 0 42 []) ∧
    (runOps (World.init 5000000000) demoHistory).1[2]? = some (.record demoRecord) ∧
    sessionOpen (runOps (World.init 5000000000) demoHistory).2 1 ∧
    (applyOp (runOps (World.init 5000000000) demoHistory).2 (.decrypt 1 demoRecord [])).1 = .payload 42 := by
  refine ⟨rfl, by decide, ?_, by decide⟩
  exact ⟨_, rfl, rfl, _, rfl, rfl⟩

end AsherahVerif.Props.C01
