import AsherahVerif.Model.MetastoreInst
/-
C13 — every metastore implementation is an insert-only, read-your-writes key table.
(first increment: the tie of the model's literals to the source)
-/
namespace AsherahVerif.Props.C13
open AsherahVerif.Metastore

/-- the literals the model is instantiated with in the driver are the ones the theorems are about -/
theorem generated_facts_eq_expected : G.facts = E.facts := by decide +kernel

end AsherahVerif.Props.C13
