import AsherahVerif.Proofs.MetastoreInst
/-
C13 — every metastore implementation is an insert-only, read-your-writes key table.

Everything here is about the executable models of Model/Metastore.lean — `Mem` (memory.go), `sqlStep`
on `Sql` (sql.go on a table with PRIMARY KEY (id, created)), `ddbStep` on `Ddb` (both DynamoDB
metastores on a table with conditional PutItem and possibly stale reads) — instantiated with the
literals REGENERATED from /repo (`G.facts`: SQL statements, struct tags, request literals); the
differential check runs the same definitions against the four real Go metastores on every run.

Quantifiers: every theorem holds for ALL operation sequences (`List (Op × Env)`: Store/Load/LoadLatest
over arbitrary, overlapping ids and stamps), ALL record contents (`Rec`: any key bytes, revoked flag,
with/without parent meta of any id), ALL four ways of constructing the SQL metastore, ALL DynamoDB
table names, and ALL environments (`Env`: which backend requests fail; by how many writes an eventually
consistent read lags).  The specification is `Table` (insert-if-absent `store`, `load`,
`loadLatest` = greatest `created`); `Res.proj` forgets which error an operation reported.

What deviates from the property's wording and is stated precisely instead:
* `EnvelopeKeyRecord.ID` is tagged `json:"-"` (`id_not_persisted`): the three persistent backends return
  `ID = ""`; "every field intact" holds for all persisted fields (`Op.eraseId` on the specification side).
  The in-memory metastore returns the stored record unchanged.
* SQL and DynamoDB report a duplicate as `(false, error)`, the in-memory metastore as `(false, nil)`
  (`*_dup_error`); other backend failures are `(false, error)` as well and leave the table unchanged.
* DynamoDB refuses empty key attribute values: the DynamoDB theorems are for non-empty ids.
* `Store` is given a record (`Op.store` carries a `Rec`).  With a nil `*EnvelopeKeyRecord` — which the only
  caller, envelope.go, never passes — both DynamoDB metastores panic (nil dereference) and the
  in-memory/SQL metastores keep an entry that reads back as "not found" (`sql_malformed_row`: the text `null`);
  observed on the real code, outside the property's quantifier ("all record contents").
-/
namespace AsherahVerif.Props.C13
open AsherahVerif.Metastore
set_option linter.unusedSimpArgs false

/-! ## the tie to the source -/

/-- the literals the driver instantiates the model with (regenerated from /repo on every run) are the
ones the theorems below are proved for -/
theorem generated_facts_eq_expected : G.facts = E.facts := by decide +kernel

/-- `EnvelopeKeyRecord.ID` is deliberately not serialised -/
theorem id_not_persisted : G.facts.idTag = "-" := by decide +kernel

/-- the regenerated ConsistentRead / ScanIndexForward / Limit / condition literals of both DynamoDB
metastores are the ones strong consistency and "latest" need -/
theorem ddb_request_literals :
    G.facts.v1.getConsistent = some true ∧ G.facts.v1.queryConsistent = some true ∧
    G.facts.v1.scanForward = some false ∧ G.facts.v1.limit = some 1 ∧
    G.facts.v1.conditionExpr = "attribute_not_exists(Id)" ∧
    G.facts.v2.getConsistent = some true ∧ G.facts.v2.queryConsistent = some true ∧
    G.facts.v2.scanForward = some false ∧ G.facts.v2.limit = some 1 ∧
    G.facts.v2.conditionExpr = "attribute_not_exists(Id)" := by decide +kernel

namespace Shape
open AsherahVerif.Generated.Metastore
/-- shape of the functions the model mirrors (skeletons, argument lists, return statements, struct tags,
complete request literals): any edit of these functions re-opens this obligation -/
theorem source_shape_memory :
    memLoadSkeleton = AsherahVerif.Expected.Metastore.memLoadSkeleton ∧
    memLoadLatestSkeleton = AsherahVerif.Expected.Metastore.memLoadLatestSkeleton ∧
    memStoreSkeleton = AsherahVerif.Expected.Metastore.memStoreSkeleton ∧
    memLoadAssigns = AsherahVerif.Expected.Metastore.memLoadAssigns ∧
    memLoadReturns = AsherahVerif.Expected.Metastore.memLoadReturns ∧
    memLoadLatestAssigns = AsherahVerif.Expected.Metastore.memLoadLatestAssigns ∧
    memLoadLatestReturns = AsherahVerif.Expected.Metastore.memLoadLatestReturns ∧
    memStoreAssigns = AsherahVerif.Expected.Metastore.memStoreAssigns ∧
    memStoreReturns = AsherahVerif.Expected.Metastore.memStoreReturns ∧
    memLoadLatestSortLess = AsherahVerif.Expected.Metastore.memLoadLatestSortLess ∧
    memEnvelopesType = AsherahVerif.Expected.Metastore.memEnvelopesType :=
  ⟨rfl, rfl, rfl, rfl, rfl, rfl, rfl, rfl, rfl, rfl, rfl⟩

theorem source_shape_sql :
    ekrJsonTags = AsherahVerif.Expected.Metastore.ekrJsonTags ∧
    keyMetaJsonTags = AsherahVerif.Expected.Metastore.keyMetaJsonTags ∧
    sqlLoadKeyQuery = AsherahVerif.Expected.Metastore.sqlLoadKeyQuery ∧
    sqlStoreKeyQuery = AsherahVerif.Expected.Metastore.sqlStoreKeyQuery ∧
    sqlLoadLatestQuery = AsherahVerif.Expected.Metastore.sqlLoadLatestQuery ∧
    sqlDefaultDBType = AsherahVerif.Expected.Metastore.sqlDefaultDBType ∧
    sqlQrx = AsherahVerif.Expected.Metastore.sqlQrx ∧
    sqlQSkeleton = AsherahVerif.Expected.Metastore.sqlQSkeleton ∧
    sqlQReturns = AsherahVerif.Expected.Metastore.sqlQReturns ∧
    sqlQAssigns = AsherahVerif.Expected.Metastore.sqlQAssigns ∧
    sqlQReplacement = AsherahVerif.Expected.Metastore.sqlQReplacement ∧
    sqlWithDBTypeSkeleton = AsherahVerif.Expected.Metastore.sqlWithDBTypeSkeleton ∧
    sqlNewFields = AsherahVerif.Expected.Metastore.sqlNewFields ∧
    sqlNewSkeleton = AsherahVerif.Expected.Metastore.sqlNewSkeleton ∧
    sqlParseEnvelopeSkeleton = AsherahVerif.Expected.Metastore.sqlParseEnvelopeSkeleton ∧
    sqlParseEnvelopeReturns = AsherahVerif.Expected.Metastore.sqlParseEnvelopeReturns ∧
    sqlLoadSkeleton = AsherahVerif.Expected.Metastore.sqlLoadSkeleton ∧
    sqlLoadArgs = AsherahVerif.Expected.Metastore.sqlLoadArgs ∧
    sqlLoadAssigns = AsherahVerif.Expected.Metastore.sqlLoadAssigns ∧
    sqlLoadLatestSkeleton = AsherahVerif.Expected.Metastore.sqlLoadLatestSkeleton ∧
    sqlLoadLatestArgs = AsherahVerif.Expected.Metastore.sqlLoadLatestArgs ∧
    sqlStoreSkeleton = AsherahVerif.Expected.Metastore.sqlStoreSkeleton ∧
    sqlStoreArgs = AsherahVerif.Expected.Metastore.sqlStoreArgs ∧
    sqlStoreAssigns = AsherahVerif.Expected.Metastore.sqlStoreAssigns ∧
    sqlStoreReturns = AsherahVerif.Expected.Metastore.sqlStoreReturns :=
  ⟨rfl, rfl, rfl, rfl, rfl, rfl, rfl, rfl, rfl, rfl, rfl, rfl, rfl, rfl, rfl, rfl, rfl, rfl, rfl, rfl, rfl, rfl, rfl, rfl, rfl⟩

theorem source_shape_ddb_v1 :
    V1.getItemFields = AsherahVerif.Expected.Metastore.V1.getItemFields ∧
    V1.queryFields = AsherahVerif.Expected.Metastore.V1.queryFields ∧
    V1.putItemFields = AsherahVerif.Expected.Metastore.V1.putItemFields ∧
    V1.loadSkeleton = AsherahVerif.Expected.Metastore.V1.loadSkeleton ∧
    V1.loadReturns = AsherahVerif.Expected.Metastore.V1.loadReturns ∧
    V1.loadLatestSkeleton = AsherahVerif.Expected.Metastore.V1.loadLatestSkeleton ∧
    V1.loadLatestReturns = AsherahVerif.Expected.Metastore.V1.loadLatestReturns ∧
    V1.storeSkeleton = AsherahVerif.Expected.Metastore.V1.storeSkeleton ∧
    V1.storeReturns = AsherahVerif.Expected.Metastore.V1.storeReturns ∧
    V1.decodeSkeleton = AsherahVerif.Expected.Metastore.V1.decodeSkeleton ∧
    V1.decodeReturns = AsherahVerif.Expected.Metastore.V1.decodeReturns ∧
    V1.withTableNameSkeleton = AsherahVerif.Expected.Metastore.V1.withTableNameSkeleton ∧
    V1.envelopeJsonTags = AsherahVerif.Expected.Metastore.V1.envelopeJsonTags ∧
    V1.envelopeFields = AsherahVerif.Expected.Metastore.V1.envelopeFields ∧
    V1.regionSuffixSkeleton = AsherahVerif.Expected.Metastore.V1.regionSuffixSkeleton ∧
    V1.newSkeleton = AsherahVerif.Expected.Metastore.V1.newSkeleton :=
  ⟨rfl, rfl, rfl, rfl, rfl, rfl, rfl, rfl, rfl, rfl, rfl, rfl, rfl, rfl, rfl, rfl⟩

theorem source_shape_ddb_v2 :
    V2.getItemFields = AsherahVerif.Expected.Metastore.V2.getItemFields ∧
    V2.queryFields = AsherahVerif.Expected.Metastore.V2.queryFields ∧
    V2.putItemFields = AsherahVerif.Expected.Metastore.V2.putItemFields ∧
    V2.loadSkeleton = AsherahVerif.Expected.Metastore.V2.loadSkeleton ∧
    V2.loadReturns = AsherahVerif.Expected.Metastore.V2.loadReturns ∧
    V2.loadLatestSkeleton = AsherahVerif.Expected.Metastore.V2.loadLatestSkeleton ∧
    V2.loadLatestReturns = AsherahVerif.Expected.Metastore.V2.loadLatestReturns ∧
    V2.storeSkeleton = AsherahVerif.Expected.Metastore.V2.storeSkeleton ∧
    V2.storeReturns = AsherahVerif.Expected.Metastore.V2.storeReturns ∧
    V2.decodeSkeleton = AsherahVerif.Expected.Metastore.V2.decodeSkeleton ∧
    V2.decodeReturns = AsherahVerif.Expected.Metastore.V2.decodeReturns ∧
    V2.withTableNameSkeleton = AsherahVerif.Expected.Metastore.V2.withTableNameSkeleton ∧
    V2.itemTags = AsherahVerif.Expected.Metastore.V2.itemTags ∧
    V2.envelopeTags = AsherahVerif.Expected.Metastore.V2.envelopeTags ∧
    V2.keyMetaTags = AsherahVerif.Expected.Metastore.V2.keyMetaTags ∧
    V2.envelopeFields = AsherahVerif.Expected.Metastore.V2.envelopeFields ∧
    V2.decodeRecordFields = AsherahVerif.Expected.Metastore.V2.decodeRecordFields ∧
    V2.newSkeleton = AsherahVerif.Expected.Metastore.V2.newSkeleton :=
  ⟨rfl, rfl, rfl, rfl, rfl, rfl, rfl, rfl, rfl, rfl, rfl, rfl, rfl, rfl, rfl, rfl, rfl, rfl⟩
end Shape

/-! ## the specification means what the property says -/

/-- `loadLatest` returns exactly the record with the greatest creation time stored for the id -/
theorem spec_loadLatest_is_greatest (t : Table) (id : String) (r : Rec) :
    t.loadLatest id = some r ↔ ∃ c, t.load id c = some r ∧ ∀ c', (t.load id c').isSome = true → c' ≤ c :=
  Table.loadLatest_eq_some t id r

/-- … and nothing exactly when nothing is stored for the id -/
theorem spec_loadLatest_none (t : Table) (id : String) : t.loadLatest id = none ↔ ∀ c, t.load id c = none :=
  Table.loadLatest_eq_none t id

/-- a Store reports `true` exactly when the key was absent -/
theorem spec_store_true_iff_absent (t : Table) (id : String) (c : Int) (r : Rec) :
    (t.store id c r).2 = true ↔ t.load id c = none := Table.store_true_iff t id c r

/-! ## refinement, per backend -/

/-- the backends, as refinements of the specification, instantiated with the REGENERATED literals -/
def sqlR (s : SqlSetup) : Refinement Sql :=
  sqlRefinement G.facts.rowNames (by rw [generated_facts_eq_expected]; exact rowNames_ok) (s.ms G.facts) s.dialect
    (by rw [generated_facts_eq_expected]; exact sqlSetup_ok s)
def ddb1R (table : String) : Refinement Ddb :=
  ddbRefinement G.facts.v1 G.facts.codec1 (by rw [generated_facts_eq_expected]; exact ddb1_ok) table
def ddb2R (table : String) : Refinement Ddb :=
  ddbRefinement G.facts.v2 G.facts.codec2 (by rw [generated_facts_eq_expected]; exact ddb2_ok) table

/-- **in-memory metastore**: for every operation sequence the results are exactly the specification's
(records returned with every field, the ID included), the abstraction of the final state is the
specification's final table, and no reachable state panics (the inner maps are never empty). -/
theorem mem_refines_spec (ops : List Op) :
    (Mem.run {} ops).2 = (Table.run [] (ops.map (·, false))).2 ∧
    Table.Equiv (Mem.run {} ops).1.abs (Table.run [] (ops.map (·, false))).1 := by
  obtain ⟨h1, _, h3⟩ := Mem.run_sim Mem.inv_empty (Table.Equiv.refl _) ops
  exact ⟨h1, h3⟩

/-- **SQL metastore**, for each of the four constructions (no option / MySQL / Postgres / Oracle) on a
database of the matching placeholder dialect: results equal the specification's (Store's boolean;
records with every persisted field; an error exactly where the request was made to fail), and the
rows decode to exactly the specification's table. -/
theorem sql_refines_spec (s : SqlSetup) (ops : List (Op × Env)) :
    (runOut (sqlStep G.facts.rowNames (s.ms G.facts)) (docSql s.dialect) ops).2.map Res.proj =
      (Table.run [] (ops.map fun oe => (oe.1.eraseId, oe.2.fault))).2.map Res.proj ∧
    (runOut (sqlStep G.facts.rowNames (s.ms G.facts)) (docSql s.dialect) ops).1.abs G.facts.rowNames =
      (Table.run [] (ops.map fun oe => (oe.1.eraseId, oe.2.fault))).1 := by
  have ok : SqlOK (s.ms G.facts) (docSql s.dialect).dialect := by
    rw [generated_facts_eq_expected]; exact sqlSetup_ok s
  have okN : NamesOK G.facts.rowNames := by rw [generated_facts_eq_expected]; exact rowNames_ok
  obtain ⟨h1, h2⟩ := sql_run_sim okN ok (sql_inv0 _ _) ops
  exact ⟨h1, abs_of_inv okN h2⟩

/-- **DynamoDB metastore (aws-v1)**, for every table name option, every staleness oracle (`Env.lag`) and
every placement of failing requests; ids non-empty. -/
theorem ddb1_refines_spec (tableOpt : Option String) (ops : List (Op × Env)) (hids : ∀ oe ∈ ops, oe.1.id ≠ "") :
    let name := ddbTableName G.facts.v1 tableOpt
    (runOut (ddbStep G.facts.v1 G.facts.codec1 name) (docTable name) ops).2.map Res.proj =
      (Table.run [] (ops.map fun oe => (oe.1.eraseId, oe.2.fault))).2.map Res.proj ∧
    (runOut (ddbStep G.facts.v1 G.facts.codec1 name) (docTable name) ops).1.abs G.facts.codec1 (projKeyRecord G.facts.v1) =
      (Table.run [] (ops.map fun oe => (oe.1.eraseId, oe.2.fault))).1 := by
  intro name
  have ok : DdbOK G.facts.v1 G.facts.codec1 := by rw [generated_facts_eq_expected]; exact ddb1_ok
  have inv0 : DdbInv G.facts.v1 G.facts.codec1 (docTable name) [] := by
    rw [generated_facts_eq_expected]; exact ddb1_inv0 name
  obtain ⟨h1, h2⟩ := ddb_run_sim ok inv0 ops hids
  exact ⟨h1, abs_of_ddbInv ok h2⟩

/-- **DynamoDB metastore (aws-v2)**, likewise. -/
theorem ddb2_refines_spec (tableOpt : Option String) (ops : List (Op × Env)) (hids : ∀ oe ∈ ops, oe.1.id ≠ "") :
    let name := ddbTableName G.facts.v2 tableOpt
    (runOut (ddbStep G.facts.v2 G.facts.codec2 name) (docTable name) ops).2.map Res.proj =
      (Table.run [] (ops.map fun oe => (oe.1.eraseId, oe.2.fault))).2.map Res.proj ∧
    (runOut (ddbStep G.facts.v2 G.facts.codec2 name) (docTable name) ops).1.abs G.facts.codec2 (projKeyRecord G.facts.v2) =
      (Table.run [] (ops.map fun oe => (oe.1.eraseId, oe.2.fault))).1 := by
  intro name
  have ok : DdbOK G.facts.v2 G.facts.codec2 := by rw [generated_facts_eq_expected]; exact ddb2_ok
  have inv0 : DdbInv G.facts.v2 G.facts.codec2 (docTable name) [] := by
    rw [generated_facts_eq_expected]; exact ddb2_inv0 name
  obtain ⟨h1, h2⟩ := ddb_run_sim ok inv0 ops hids
  exact ⟨h1, abs_of_ddbInv ok h2⟩

/-! ## insert-only, duplicates, read-your-writes — for every backend at once

`R` ranges over the four refinements (`memRefinement`, `sqlR s`, `ddb1R table`, `ddb2R table`); `s`/`t` are any
related backend state / specification table (in particular every state reachable from the empty one,
`reachable_related`). -/

/-- every state reachable from the initial one is related to the specification's table -/
theorem reachable_related {σ : Type} (R : Refinement σ) (s0 : σ) (h0 : R.Inv s0 []) (ops : List (Op × Env))
    (hok : ∀ oe ∈ ops, R.okOp oe.1) :
    R.Inv (runOut R.step s0 ops).1 (Table.run [] (R.specOps ops)).1 := (R.run_sim s0 [] h0 ops hok).2

theorem mem_initial : memRefinement.Inv {} [] := ⟨Mem.inv_empty, Table.Equiv.refl _⟩
theorem sql_initial (s : SqlSetup) : (sqlR s).Inv (docSql s.dialect) [] := ⟨rfl, sql_inv0 _ _⟩
theorem ddb1_initial (table : String) : (ddb1R table).Inv (docTable table) [] :=
  ⟨rfl, by rw [generated_facts_eq_expected]; exact ddb1_inv0 table⟩
theorem ddb2_initial (table : String) : (ddb2R table).Inv (docTable table) [] :=
  ⟨rfl, by rw [generated_facts_eq_expected]; exact ddb2_inv0 table⟩

/-- **Store never overwrites**: whatever operation runs next (any Store with any contents under any
key included, failing or not), a record the table holds is still there, unchanged. -/
theorem store_never_overwrites {σ : Type} (R : Refinement σ) (s : σ) (t : Table) (h : R.Inv s t) (env : Env) (op : Op)
    (hok : R.okOp op) {id : String} {c : Int} {r : Rec} (hl : (R.abs s).load id c = some r) :
    (R.abs (R.step s env op).st).load id c = some r := R.never_overwrites s t h env op hok hl

/-- **a duplicate Store reports false** (never success) and leaves the table as it was — for every
record content, whether or not the request also fails. -/
theorem dup_reports_false {σ : Type} (R : Refinement σ) (s : σ) (t : Table) (h : R.Inv s t) (env : Env)
    (id : String) (c : Int) (r r0 : Rec) (hok : R.okOp (.store id c r)) (hl : (R.abs s).load id c = some r0) :
    (R.step s env (.store id c r)).res.proj = .stored false none ∧
    Table.Equiv (R.abs (R.step s env (.store id c r)).st) (R.abs s) := R.dup_false s t h env id c r r0 hok hl

/-- … and a Store of an absent key whose request does not fail reports true -/
theorem fresh_reports_true {σ : Type} (R : Refinement σ) (s : σ) (t : Table) (h : R.Inv s t) (env : Env)
    (id : String) (c : Int) (r : Rec) (hok : R.okOp (.store id c r)) (hf : R.faultOf env = false)
    (hl : (R.abs s).load id c = none) :
    (R.step s env (.store id c r)).res.proj = .stored true none := R.fresh_true s t h env id c r hok hf hl

/-- **read your writes / strong consistency**: once a Store has reported `true`, every later Load of
that key returns exactly that record (as persisted) — after any operations in between (other Stores
of the same key with other contents included) and under any environment: in particular for every
staleness oracle of DynamoDB.  For the DynamoDB backends this rests on the regenerated
`ConsistentRead` literals being `true` (`ddb_request_literals`, part of `ddb1_ok`/`ddb2_ok`);
`stale_read_counterexample` shows the premise is needed. -/
theorem read_your_writes {σ : Type} (R : Refinement σ) (s : σ) (t : Table) (h : R.Inv s t) (env : Env)
    (id : String) (c : Int) (r : Rec) (hok : R.okOp (.store id c r))
    (htrue : (R.step s env (.store id c r)).res.proj = .stored true none)
    (between : List (Op × Env)) (hbetween : ∀ oe ∈ between, R.okOp oe.1)
    (env' : Env) (hf : R.faultOf env' = false) (hokL : R.okOp (.load id c)) :
    ∃ r', R.norm (.store id c r) = .store id c r' ∧
      (R.step (runOut R.step (R.step s env (.store id c r)).st between).1 env' (.load id c)).res = .loaded (some r') :=
  R.read_your_writes s t h env id c r hok htrue between hbetween env' hf hokL

/-- with `ConsistentRead` absent (eventually consistent reads) the same DynamoDB model does NOT have
read-your-writes: a Load right after a successful Store may answer "nothing". -/
theorem stale_read_counterexample :
    let L := { E.facts.v1 with getConsistent := none }
    let r : Rec := ⟨"", false, 5, [1, 2, 3], none⟩
    let o1 := ddbStep L E.facts.codec1 "T" (docTable "T") {} (.store "k" 5 r)
    let o2 := ddbStep L E.facts.codec1 "T" o1.st { lag := 1 } (.load "k" 5)
    o1.res = .stored true none ∧ o2.res = .loaded none := by decide +kernel

/-! ## error mapping -/

/-- the in-memory metastore reports a duplicate as `(false, nil)` -/
theorem mem_dup_no_error (m : Mem) (id : String) (c : Int) (r : Rec) (h : (m.get2 id c).isSome = true) :
    m.store id c r = (m, .stored false none) := Mem.get2_store_present r h

/-- sql.go maps every `ExecContext` error to `(false, err)`: a duplicate key … -/
theorem sql_dup_error (s : SqlSetup) (db : Sql) (hd : db.dialect = s.dialect) (id : String) (c : Int) (r : Rec)
    (h : db.rows.any (fun x => x.id = id ∧ x.created = c) = true) :
    (sqlStep G.facts.rowNames (s.ms G.facts) db {} (.store id c r)).res = .stored false (some .dup) := by
  have ok : SqlOK (s.ms G.facts) db.dialect := by
    rw [generated_facts_eq_expected, hd]; exact sqlSetup_ok s
  simp only [sqlStep, sqlExec_insert db _ id c _ ok.store, h, if_true]

/-- … and a failed request alike (the caller cannot tell them apart), the table unchanged -/
theorem sql_fault_error (s : SqlSetup) (db : Sql) (hd : db.dialect = s.dialect) (id : String) (c : Int) (r : Rec) :
    (sqlStep G.facts.rowNames (s.ms G.facts) db { fault := true } (.store id c r)).res = .stored false (some .injected) ∧
    (sqlStep G.facts.rowNames (s.ms G.facts) db { fault := true } (.store id c r)).st = db := by
  have ok : SqlOK (s.ms G.facts) db.dialect := by
    rw [generated_facts_eq_expected, hd]; exact sqlSetup_ok s
  simp only [sqlStep, sqlExec_fault db _ id c _ ok.store, and_self]

/-- both DynamoDB metastores map every `PutItem` error to `(false, err)`: the failed condition of a duplicate … -/
theorem ddb1_dup_error (d : Ddb) (t : Table) (h : DdbInv G.facts.v1 G.facts.codec1 d t) (id : String) (c : Int) (r : Rec)
    (hid : id ≠ "") (hl : (t.load id c).isSome = true) :
    (ddbStep G.facts.v1 G.facts.codec1 d.table d {} (.store id c r)).res = .stored false (some .cond) := by
  have ok : DdbOK G.facts.v1 G.facts.codec1 := by rw [generated_facts_eq_expected]; exact ddb1_ok
  have hput := ddbPut_sim ok h id c r hid
  simp only [itemOf] at hput
  simp only [ddbStep, hput, hl, if_true]

theorem ddb2_dup_error (d : Ddb) (t : Table) (h : DdbInv G.facts.v2 G.facts.codec2 d t) (id : String) (c : Int) (r : Rec)
    (hid : id ≠ "") (hl : (t.load id c).isSome = true) :
    (ddbStep G.facts.v2 G.facts.codec2 d.table d {} (.store id c r)).res = .stored false (some .cond) := by
  have ok : DdbOK G.facts.v2 G.facts.codec2 := by rw [generated_facts_eq_expected]; exact ddb2_ok
  have hput := ddbPut_sim ok h id c r hid
  simp only [itemOf] at hput
  simp only [ddbStep, hput, hl, if_true]

/-- a malformed row (reachable only by writing to the table behind the metastore's back): SQL Load
reports an error, except for the JSON text `null`, which it reports as "not found" -/
theorem sql_malformed_row :
    (decodeRowText E.facts.rowNames "{\"Created\":\"x\"}" matches .error .decode) = true ∧
    (decodeRowText E.facts.rowNames "null" matches .ok none) = true ∧
    (decodeRowText E.facts.rowNames "" matches .error .decode) = true := by decide +kernel

/-- memory.go `LoadLatest` indexes `createdKeys[len-1]`: on an empty inner map (reachable only by
editing the exported `Envelopes` field) it panics — explicit in the model; `mem_refines_spec` shows no
state reachable through the API has one. -/
theorem mem_loadLatest_empty_inner_panics (id : String) : (Mem.mk [(id, [])]).loadLatest id = .panic := by
  simp [Mem.loadLatest, aGet, isort]

/-! ## SQL placeholder rewriting -/

/-- **`q` preserves arity, for every string**: for Postgres/Oracle the result is the input with its
pieces between question marks untouched and the i-th `?` (i = 1, 2, …) replaced by `$i` / `:i` — as
many markers as there were `?`, none left over; for every other db type the string is unchanged. -/
theorem placeholder_rewrite_preserves_arity (sql : String) (t : String) :
    (t = G.facts.sql.postgres → q G.facts.sql t sql = String.ofList (joinMarkers '$' 0 (pieces sql.toList))) ∧
    (t = G.facts.sql.oracle → q G.facts.sql t sql = String.ofList (joinMarkers ':' 0 (pieces sql.toList))) ∧
    (t ≠ G.facts.sql.postgres → t ≠ G.facts.sql.oracle → q G.facts.sql t sql = sql) ∧
    (pieces sql.toList).length = sql.toList.count '?' + 1 ∧
    joinQ (pieces sql.toList) = sql.toList ∧
    '?' ∉ qRewrite '$' 0 sql.toList ∧ '?' ∉ qRewrite ':' 0 sql.toList := by
  have hne : G.facts.sql.oracle ≠ G.facts.sql.postgres := by decide +kernel
  refine ⟨?_, ?_, ?_, pieces_length _, joinQ_pieces _, qRewrite_no_qmark '$' (by decide) 0 _, qRewrite_no_qmark ':' (by decide) 0 _⟩
  · intro h; subst h
    unfold q
    rw [if_pos rfl, qRewrite_eq_joinMarkers]
  · intro h; subst h
    unfold q
    rw [if_neg hne, if_pos rfl, qRewrite_eq_joinMarkers]
  · intro h1 h2
    unfold q
    rw [if_neg h1, if_neg h2]

/-- for the three statements of sql.go the rewritten text means, in its dialect, exactly what the `?`
text means in MySQL's: same statement, same parameter positions -/
theorem placeholder_rewrite_preserves_meaning (s : SqlSetup) :
    parseSql s.dialect (s.ms G.facts).storeKeyQuery = parseSql .mysql G.facts.sql.storeKeyQuery ∧
    parseSql s.dialect (s.ms G.facts).loadKeyQuery = parseSql .mysql G.facts.sql.loadKeyQuery ∧
    parseSql s.dialect (s.ms G.facts).loadLatestQuery = parseSql .mysql G.facts.sql.loadLatestQuery := by
  rw [generated_facts_eq_expected]
  have a := sqlSetup_ok s
  have b := sqlSetup_ok .default
  exact ⟨a.store.trans b.store.symm, a.load.trans b.load.symm, a.latest.trans b.latest.symm⟩

/-! ## codec round trips: every field intact -/

/-- **SQL row**: `json.Unmarshal(json.Marshal(r))` restores every persisted field, for every record
(any key bytes — every base64 padding case —, revoked or not, with or without parent meta of any id
and stamp), at the level of the JSON TEXT stored in `key_record`. -/
theorem sql_row_codec_roundtrip (r : Rec) :
    decodeRowText G.facts.rowNames (String.ofList (encodeRowText G.facts.rowNames r)) = .ok (some r.eraseId) := by
  rw [generated_facts_eq_expected]
  exact decodeRowText_encodeRowText _ rowNames_ok r

/-- **DynamoDB item, aws-v1**: what `Store` marshals (`DynamoDBEnvelope`, empty strings as NULL) is what
`Load`/`LoadLatest` unmarshal (`EnvelopeKeyRecord`), for every record. -/
theorem ddb_v1_item_codec_roundtrip (r : Rec) :
    G.facts.codec1.decodeGet [(G.facts.v1.keyRecord, .m (G.facts.codec1.marshal r))] = some r.eraseId := by
  rw [generated_facts_eq_expected]
  exact ddb1_ok.codec r

/-- **DynamoDB item, aws-v2**: `decodeItem` of the projected item `Store` wrote, for every record. -/
theorem ddb_v2_item_codec_roundtrip (r : Rec) :
    G.facts.codec2.decodeGet [(G.facts.v2.keyRecord, .m (G.facts.codec2.marshal r))] = some r.eraseId := by
  rw [generated_facts_eq_expected]
  exact ddb2_ok.codec r

/-- the primitive codecs, for all inputs -/
theorem base64_roundtrip (bs : List UInt8) : b64Decode (b64Encode bs) = some bs := b64Decode_encode bs
theorem decimal_roundtrip (i : Int) : parseInt (fmtInt i) = some i := parseInt_fmtInt i
theorem json_string_roundtrip (s rest : List Char) : parseStrBody (jsonEscape s ++ '"' :: rest) = some (s, rest) :=
  parseStrBody_escape s rest

/-! ## non-vacuity -/

def recA : Rec := ⟨"_SK_svc_prod", false, 1700000000, [0, 255, 16, 62], some ⟨"p\"q\\<é", 1699999999⟩⟩
def recB : Rec := ⟨"other", true, 7, [], none⟩

/-- a history with a duplicate, overlapping stamps and a LoadLatest, on the in-memory metastore -/
example :
    (Mem.run {} [.store "a" 5 recA, .store "a" 9 recB, .store "a" 5 recB, .load "a" 5, .latest "a", .latest "b"]).2 =
      [.stored true none, .stored true none, .stored false none, .loaded (some recA), .loaded (some recB), .loaded none] := by
  decide +kernel

/-- the same on Postgres-flavoured SQL (ids not persisted; the duplicate is an error) -/
example :
    (runOut (sqlStep G.facts.rowNames (SqlSetup.postgres.ms G.facts)) (docSql .postgres)
      [(.store "a" 5 recA, {}), (.store "a" 9 recB, {}), (.store "a" 5 recB, {}), (.load "a" 5, {}), (.latest "a", {}),
       (.latest "b", {}), (.load "a" 9, { fault := true })]).2 =
      [.stored true none, .stored true none, .stored false (some .dup), .loaded (some recA.eraseId),
       .loaded (some recB.eraseId), .loaded none, .fail .injected] := by
  decide +kernel

/-- … and on both DynamoDB metastores, reads lagging two writes behind unless consistent -/
example :
    (runOut (ddbStep G.facts.v1 G.facts.codec1 "EncryptionKey") (docTable "EncryptionKey")
      [(.store "a" 5 recA, {}), (.store "a" 9 recB, {}), (.store "a" 5 recB, {}), (.load "a" 5, { lag := 2 }),
       (.latest "a", { lag := 2 }), (.latest "b", {})]).2 =
      [.stored true none, .stored true none, .stored false (some .cond), .loaded (some recA.eraseId),
       .loaded (some recB.eraseId), .loaded none] := by
  decide +kernel

example :
    (runOut (ddbStep G.facts.v2 G.facts.codec2 "Keys") (docTable "Keys")
      [(.store "a" 5 recA, {}), (.store "a" 9 recB, {}), (.store "a" 5 recB, {}), (.load "a" 5, { lag := 2 }),
       (.latest "a", { lag := 2 }), (.latest "b", {})]).2 =
      [.stored true none, .stored true none, .stored false (some .cond), .loaded (some recA.eraseId),
       .loaded (some recB.eraseId), .loaded none] := by
  decide +kernel

/-- the hypotheses of `read_your_writes`, `dup_reports_false`, `store_never_overwrites` are satisfiable:
the initial states are related, a first Store reports true, the record is then held -/
example : (memRefinement.step {} {} (.store "a" 5 recA)).res.proj = .stored true none := by decide +kernel
example : ((ddb1R "T").abs ((ddb1R "T").step (docTable "T") {} (.store "a" 5 recA)).st).load "a" 5 = some recA.eraseId := by
  decide +kernel

/-- `q` on the statements of sql.go -/
example : q G.facts.sql "postgres" G.facts.sql.loadKeyQuery = "SELECT key_record FROM encryption_key WHERE id = $1 AND created = $2" := by
  decide +kernel
example : q G.facts.sql "oracle" G.facts.sql.storeKeyQuery = "INSERT INTO encryption_key (id, created, key_record) VALUES (:1, :2, :3)" := by
  decide +kernel
example : q G.facts.sql "mysql" "a ? b" = "a ? b" := by decide +kernel
example : pieces "a?b??".toList = [['a'], ['b'], [], []] := by decide +kernel

/-- the JSON text of a row, with every escape class -/
example : String.ofList (encodeRowText G.facts.rowNames recA) =
    "{\"Created\":1700000000,\"Key\":\"AP8QPg==\",\"ParentKeyMeta\":{\"KeyId\":\"p\\\"q\\\\\\u003cé\",\"Created\":1699999999}}" := by
  decide +kernel

end AsherahVerif.Props.C13
