import AsherahVerif.Proofs.SessCache
import AsherahVerif.Proofs.ExtraSessCache
import AsherahVerif.Generated.SessCacheFacts
/-
C16 — cached sessions are shared, stay usable while held, are torn down exactly once.

Theorems about `AsherahVerif.SessCache` (Model/SessCache.lean): any number of holder threads get,
use and close sessions over any number of partitions; every eviction choice, expiry, remover
scheduling and a factory close at any moment are possible steps; schedules are arbitrary.
`facts_of_source` ties the model's protocol facts to session_cache.go as it is now.  The real
scheduler is explored by go/cmd/hxconc (scenarios `sesscache-*` and the stress rounds with a
session cache); the inner session's behaviour is engine E3.
-/
namespace AsherahVerif.Props.C16
open AsherahVerif.SessCache

theorem facts_of_source : AsherahVerif.Generated.SessCacheFacts.facts = Facts.good := by decide

/-- **a session handed out keeps working until its holder closes it**: whatever is evicted,
expires or is closed meanwhile, the inner session of a held session has not been closed. -/
theorem held_session_open (sched : List Step) (s : Nat) (hs : s ∈ (run Facts.good init sched).holders) :
    (at' (run Facts.good init sched).sess s).closes = 0 := by
  have h := run_inv init inv_init sched
  have hc := List.count_pos_iff.mpr hs
  have hu := h.users s
  cases hz : (at' (run Facts.good init sched).sess s).closes with
  | zero => rfl
  | succ n => have := h.closed s (by omega); omega

/-- no operation on a held session ever finds it closed, and no session is closed twice. -/
theorem never_bad (sched : List Step) : bad (run Facts.good init sched) = false := by
  have h := run_inv init inv_init sched
  unfold bad
  rw [h.ok, Bool.false_or]
  rw [List.any_eq_false]
  intro x hx
  obtain ⟨i, hi, rfl⟩ := List.mem_iff_getElem.mp hx
  have hl := h.life i
  have : at' (run Facts.good init sched).sess i = (run Facts.good init sched).sess[i] := by
    simp [at', List.getD_eq_getElem?_getD, List.getElem?_eq_getElem hi]
  rw [this] at hl
  simp only [decide_eq_true_eq]; omega

theorem never_bad_current_source (sched : List Step) :
    bad (run AsherahVerif.Generated.SessCacheFacts.facts init sched) = false := by
  rw [facts_of_source]; exact never_bad sched

/-- **callers asking for a cached partition share one underlying session**: a `Get` that hits
returns exactly the cached session. -/
theorem shared (st : St) (p s : Nat) (h : lookup st.cache p = some s) (hcf : st.closedFactory = false) :
    ∃ st', step Facts.good st (.getHit p) = some st' ∧ st'.holders = s :: st.holders ∧ st'.cache = st.cache := by
  simp [step, h, hcf, Facts.good]

/-- **torn down exactly once**: in every reachable state each session is in exactly one phase of
its life — cached, being removed (one remover), or closed (once). -/
theorem torn_down_once (sched : List Step) (s : Nat) :
    let st := run Facts.good init sched
    inCache st.cache s + (at' st.sess s).removers + (at' st.sess s).closes ≤ 1 :=
  (run_inv init inv_init sched).life s

/-- **once a session has left the cache and its last holder has closed it, the remover can
run** (it is enabled), and running it closes the inner session. -/
theorem eventually_closable (st : St) (s : Nat) (hr : 0 < (at' st.sess s).removers) (hu : (at' st.sess s).users ≤ 0) :
    ∃ st', step Facts.good st (.remove s) = some st' ∧ (at' st'.sess s).closes = (at' st.sess s).closes + 1 := by
  have hlt : s < st.sess.length := by
    apply Classical.byContradiction; intro hc
    rw [at_ge _ _ (by omega), default_sess] at hr; simp at hr
  have hg : (st.sess.getD s default).removers > 0 ∧ ((st.sess.getD s default).users ≤ 0 ∨ (!Facts.good.removeWaitsForZero) = true) :=
    ⟨by simpa [at'] using hr, Or.inl (by simpa [at'] using hu)⟩
  refine ⟨_, by simp only [step]; rw [if_pos hg], ?_⟩
  dsimp only
  rw [at_upd, if_pos ⟨rfl, hlt⟩]

/-- **factory close tears down everything**: afterwards nothing is cached and every session that
was cached has a remover. -/
theorem factory_close_closes_all (st : St) (hcf : st.closedFactory = false) (h : Inv st) :
    ∃ st', step Facts.good st .factoryClose = some st' ∧ st'.cache = [] ∧
      ∀ s, (at' st'.sess s).removers = (at' st.sess s).removers + inCache st.cache s := by
  let st1 : St := { st with closedFactory := true, cache := [], sess := st.cache.foldl (fun l e => spawnRemover Facts.good l e.2) st.sess }
  refine ⟨st1, by simp [step, hcf, st1], rfl, ?_⟩
  intro s
  show (at' (st.cache.foldl (fun l e => spawnRemover Facts.good l e.2) st.sess) s).removers = _
  have ⟨_, _, _, hrm⟩ := at_spawnAll st.cache st.sess s
  rw [hrm]
  by_cases hlt : s < st.sess.length
  · rw [if_pos hlt]
  · rw [if_neg hlt]
    have : inCache st.cache s = 0 := by
      apply Classical.byContradiction; intro hc
      have := h.range s (by omega); omega
    omega

/-- if the usage increment were outside the cache mutex, a held session could be closed. -/
theorem incr_outside_mutex_counterexample :
    bad (run { Facts.good with incrUnderCacheMutex := false } init
      [.getLoad 1 none false, .getLoad 0 (some 1) false, .remove 0, .incr 0, .use 0]) = true := by decide

/-- if `Remove` did not wait for zero users, a held session could be closed. -/
theorem remove_without_wait_counterexample :
    bad (run { Facts.good with removeWaitsForZero := false } init
      [.getLoad 1 none false, .getLoad 0 (some 1) false, .remove 0, .use 0]) = true := by decide

/-- non-vacuity: sessions do get evicted and closed while others are held. -/
example : (run Facts.good init [.getLoad 0 none false, .getLoad 1 (some 0) false, .close 0, .remove 0, .use 1]).sess.map (·.closes) = [1, 0] := by
  decide

/-! ### exact accounting and progress (strengthening) -/

/-- **the usage counter is exact**: in every reachable state the `accessCounter` of every session
EQUALS the number of callers currently holding it (never more: a remover is never blocked for
ever by a phantom user; never less: see `held_session_open`); cache keys are unique. -/
theorem users_exact (sched : List Step) (s : Nat) :
    (at' (run Facts.good init sched).sess s).users = ((run Facts.good init sched).holders.count s : Int) :=
  (run_invEq init invEq_init sched).usersEq s

/-- **exactly one life-cycle phase**: every session ever created is cached, or has exactly one
remover, or has been closed exactly once (equality: none is forgotten). -/
theorem life_exact (sched : List Step) (s : Nat) (hs : s < (run Facts.good init sched).sess.length) :
    let st := run Facts.good init sched
    inCache st.cache s + (at' st.sess s).removers + (at' st.sess s).closes = 1 :=
  (run_invEq init invEq_init sched).lifeEq s hs

theorem cache_keys_unique (sched : List Step) : (keysOf (run Facts.good init sched).cache).Nodup :=
  (run_invEq init invEq_init sched).keys

/-- **progress**: from any reachable state, once every holder has closed its session and every
remover goroutine has been scheduled (`settle`), nothing is held, the cache is untouched, no
remover is left over, every session that is not cached has been closed exactly once, and every
cached session is still open. -/
theorem closed_once_everyone_left (sched : List Step) :
    let st := run Facts.good init sched
    let st' := run Facts.good st (settle st)
    st'.holders = [] ∧ st'.cache = st.cache ∧ st'.sess.length = st.sess.length ∧
    (∀ s, (at' st'.sess s).removers = 0) ∧
    (∀ s, s < st.sess.length → inCache st.cache s = 0 → (at' st'.sess s).closes = 1) ∧
    (∀ s, 0 < inCache st.cache s → (at' st'.sess s).closes = 0) := by
  intro st st'
  have h := settle_spec st (run_invEq init invEq_init sched)
  exact ⟨h.2.1, h.2.2.1, h.2.2.2.1, h.2.2.2.2.2.1, h.2.2.2.2.2.2.1, h.2.2.2.2.2.2.2⟩

/-- **after the factory is closed and everybody has left, ALL sessions ever created have been torn
down exactly once** — none forgotten, none closed twice, no remover left. -/
theorem all_closed_after_factory_close (sched : List Step) :
    let st := run Facts.good init sched
    let st1 := run Facts.good st [.factoryClose]
    let st2 := run Facts.good st1 (settle st1)
    st2.sess.length = st.sess.length ∧ st2.cache = [] ∧ st2.holders = [] ∧
    ∀ s, s < st.sess.length → (at' st2.sess s).closes = 1 ∧ (at' st2.sess s).removers = 0 := by
  intro st st1 st2
  have h0 : InvEq st := run_invEq init invEq_init sched
  have h1 : InvEq st1 := run_invEq st h0 _
  have hfc : st1.cache = [] ∧ st1.sess.length = st.sess.length := by
    show (run Facts.good st [.factoryClose]).cache = [] ∧ (run Facts.good st [.factoryClose]).sess.length = _
    simp only [run, step]
    by_cases hcf : st.closedFactory = true
    · rw [if_pos hcf]; exact ⟨h0.cf hcf, rfl⟩
    · rw [if_neg hcf]
      exact ⟨rfl, (at_spawnAll st.cache st.sess 0).1⟩
  have h := settle_spec st1 h1
  refine ⟨h.2.2.2.1.trans hfc.2, h.2.2.1.trans hfc.1, h.2.1, ?_⟩
  intro s hs
  refine ⟨h.2.2.2.2.2.2.1 s (by rw [hfc.2]; exact hs) (by rw [hfc.1]; rfl), h.2.2.2.2.2.1 s⟩

/-- non-vacuity: `settle` really closes held, evicted sessions; the factory close reaches cached ones. -/
example : let st := run Facts.good init [.getLoad 0 none false, .getHit 0, .getLoad 1 (some 0) false]
    settle st = [.close 1, .close 0, .close 0, .remove 0, .remove 1] ∧
    (run Facts.good st (settle st)).sess.map (·.closes) = [1, 0] ∧
    (run Facts.good (run Facts.good st [.factoryClose]) (settle (run Facts.good st [.factoryClose]))).sess.map (·.closes) = [1, 1] := by
  decide
example : (at' (run Facts.good init [.getLoad 0 none false, .getHit 0, .getHit 0, .close 0]).sess 0).users = 2 := by decide

end AsherahVerif.Props.C16
