import AsherahVerif.Proofs.SessCache
import AsherahVerif.Generated.SessCacheFacts
/-
C16 — cached sessions are shared, stay usable while held, are torn down exactly once.

Theorems about `AsherahVerif.SessCache` (Model/SessCache.lean): any number of holder threads get,
use and close sessions over any number of partitions; every eviction choice, expiry, remover
scheduling and a factory close at any moment are possible steps; schedules are arbitrary.
`facts_of_source` ties the model's protocol facts to session_cache.go as it is now.  The real
scheduler is explored by go/cmd/hxconc (scenarios `sesscache-*` and the stress rounds with a
session cache); the inner session's behaviour is engine E3.
-/
namespace AsherahVerif.Props.C16
open AsherahVerif.SessCache

theorem facts_of_source : AsherahVerif.Generated.SessCacheFacts.facts = Facts.good := by decide

/-- **a session handed out keeps working until its holder closes it**: whatever is evicted,
expires or is closed meanwhile, the inner session of a held session has not been closed. -/
theorem held_session_open (sched : List Step) (s : Nat) (hs : s ∈ (run Facts.good init sched).holders) :
    (at' (run Facts.good init sched).sess s).closes = 0 := by
  have h := run_inv init inv_init sched
  have hc := List.count_pos_iff.mpr hs
  have hu := h.users s
  cases hz : (at' (run Facts.good init sched).sess s).closes with
  | zero => rfl
  | succ n => have := h.closed s (by omega); omega

/-- no operation on a held session ever finds it closed, and no session is closed twice. -/
theorem never_bad (sched : List Step) : bad (run Facts.good init sched) = false := by
  have h := run_inv init inv_init sched
  unfold bad
  rw [h.ok, Bool.false_or]
  rw [List.any_eq_false]
  intro x hx
  obtain ⟨i, hi, rfl⟩ := List.mem_iff_getElem.mp hx
  have hl := h.life i
  have : at' (run Facts.good init sched).sess i = (run Facts.good init sched).sess[i] := by
    simp [at', List.getD_eq_getElem?_getD, List.getElem?_eq_getElem hi]
  rw [this] at hl
  simp only [decide_eq_true_eq]; omega

theorem never_bad_current_source (sched : List Step) :
    bad (run AsherahVerif.Generated.SessCacheFacts.facts init sched) = false := by
  rw [facts_of_source]; exact never_bad sched

/-- **callers asking for a cached partition share one underlying session**: a `Get` that hits
returns exactly the cached session. -/
theorem shared (st : St) (p s : Nat) (h : lookup st.cache p = some s) (hcf : st.closedFactory = false) :
    ∃ st', step Facts.good st (.getHit p) = some st' ∧ st'.holders = s :: st.holders ∧ st'.cache = st.cache := by
  simp [step, h, hcf, Facts.good]

/-- **torn down exactly once**: in every reachable state each session is in exactly one phase of
its life — cached, being removed (one remover), or closed (once). -/
theorem torn_down_once (sched : List Step) (s : Nat) :
    let st := run Facts.good init sched
    inCache st.cache s + (at' st.sess s).removers + (at' st.sess s).closes ≤ 1 :=
  (run_inv init inv_init sched).life s

/-- **once a session has left the cache and its last holder has closed it, the remover can
run** (it is enabled), and running it closes the inner session. -/
theorem eventually_closable (st : St) (s : Nat) (hr : 0 < (at' st.sess s).removers) (hu : (at' st.sess s).users ≤ 0) :
    ∃ st', step Facts.good st (.remove s) = some st' ∧ (at' st'.sess s).closes = (at' st.sess s).closes + 1 := by
  have hlt : s < st.sess.length := by
    apply Classical.byContradiction; intro hc
    rw [at_ge _ _ (by omega), default_sess] at hr; simp at hr
  have hg : (st.sess.getD s default).removers > 0 ∧ ((st.sess.getD s default).users ≤ 0 ∨ (!Facts.good.removeWaitsForZero) = true) :=
    ⟨by simpa [at'] using hr, Or.inl (by simpa [at'] using hu)⟩
  refine ⟨_, by simp only [step]; rw [if_pos hg], ?_⟩
  dsimp only
  rw [at_upd, if_pos ⟨rfl, hlt⟩]

/-- **factory close tears down everything**: afterwards nothing is cached and every session that
was cached has a remover. -/
theorem factory_close_closes_all (st : St) (hcf : st.closedFactory = false) (h : Inv st) :
    ∃ st', step Facts.good st .factoryClose = some st' ∧ st'.cache = [] ∧
      ∀ s, (at' st'.sess s).removers = (at' st.sess s).removers + inCache st.cache s := by
  let st1 : St := { st with closedFactory := true, cache := [], sess := st.cache.foldl (fun l e => spawnRemover Facts.good l e.2) st.sess }
  refine ⟨st1, by simp [step, hcf, st1], rfl, ?_⟩
  intro s
  show (at' (st.cache.foldl (fun l e => spawnRemover Facts.good l e.2) st.sess) s).removers = _
  have ⟨_, _, _, hrm⟩ := at_spawnAll st.cache st.sess s
  rw [hrm]
  by_cases hlt : s < st.sess.length
  · rw [if_pos hlt]
  · rw [if_neg hlt]
    have : inCache st.cache s = 0 := by
      apply Classical.byContradiction; intro hc
      have := h.range s (by omega); omega
    omega

/-- if the usage increment were outside the cache mutex, a held session could be closed. -/
theorem incr_outside_mutex_counterexample :
    bad (run { Facts.good with incrUnderCacheMutex := false } init
      [.getLoad 1 none false, .getLoad 0 (some 1) false, .remove 0, .incr 0, .use 0]) = true := by decide

/-- if `Remove` did not wait for zero users, a held session could be closed. -/
theorem remove_without_wait_counterexample :
    bad (run { Facts.good with removeWaitsForZero := false } init
      [.getLoad 1 none false, .getLoad 0 (some 1) false, .remove 0, .use 0]) = true := by decide

/-- non-vacuity: sessions do get evicted and closed while others are held. -/
example : (run Facts.good init [.getLoad 0 none false, .getLoad 1 (some 0) false, .close 0, .remove 0, .use 1]).sess.map (·.closes) = [1, 0] := by
  decide

end AsherahVerif.Props.C16
