import AsherahVerif.Proofs.EnvResCloseAll
import AsherahVerif.Proofs.EnvResRoleHist
/-
C09 — protected key memory is released: per call for DRKs, on Close for cached keys.

Model: `AsherahVerif.Env` (Model/Envelope.lean).  `World.secrets` is the ledger of every secret the
SecretFactory handed out (`closes` = number of `Close` calls that reached it, `aac` = accesses
after close), `World.keys` the heap of `CryptoKey` / `cachedCryptoKey` objects (`refs`, `closed`).
Histories are `List Op` run by `runOps (World.init t)`; the fault list of every encrypt / decrypt is
an argument of the operation, so every theorem below holds for every placement of metastore, KMS,
AEAD and allocator failures.

**Histories.** The statements are about *well-formed* histories (`validFrom`): an operation names
existing objects, encrypt / decrypt run on a session that is open (neither it nor its factory has
been closed: `sessionOpen`), and nothing is closed twice.  Without that restriction the statements
are false for the model *and* for the SDK: `use_after_close_counterexample` below.

**Caches.** Every cache policy: `never` (caching off), `simple` (the default), and the bounded
LRU / LFU / SLRU / TinyLFU caches, whose eviction decisions are delegated to the E2 cache model
(`AsherahVerif.Cache`, the subject of C15) exactly as `key_cache.go` delegates to `pkg/cache`.
The one hypothesis on configurations is `CapsPos`: a bounded cache has capacity ≥ 1 — with
capacity 0 the first `Set` panics in Go (C15 `cap0_panics`), which is outside this property.
-/
namespace AsherahVerif.Props.C09
open AsherahVerif.Env AsherahVerif.Env.Res

/-! ### the resource invariant -/

/-- **ResInv**, the invariant of quiescent worlds (between public operations).  `Wired`: every cache
belongs to exactly one factory (SK cache, shared IK cache) or one session (own IK cache).
`RI (tabOf w) .none []` (Proofs/EnvResInv.lean): ledger and key heap are parallel
(`keys[o].sec = o`, one owner per secret); `secrets[o].closes = if keys[o].closed then 1 else 0`
and `aac = 0`; for every key object `refs` = number of entries, over all caches that have not been
closed, that point to it, and it is closed iff that number is 0 (nothing is held, nothing is raw,
between operations); every open cache is keyed consistently and without duplicates.  Inside an
operation the same invariant holds with explicit bookkeeping of the references the running code
holds (`RI T raw H`; the per-function specifications are in Proofs/EnvResCache.lean and
Proofs/EnvResEnv.lean, e.g. `getOrLoad_spec`: on success the returned object has one more
reference than the cache entries account for, on failure nothing is held). -/
def ResInv (w : World) : Prop := QInv w

theorem resInv_init (t : Int) : ResInv (World.init t) := QInv.init t

/-- every legitimate public operation preserves the invariant — whatever it returns, whatever the
faults (`CapsPosOp`: bounded key caches of a new factory have capacity ≥ 1). -/
theorem resInv_applyOp (w : World) (op : Op) (h : ResInv w) (hok : opOk w op) (hnb : CapsPosOp op) :
    ResInv (applyOp w op).2 := QInv.applyOp h op hok hnb

theorem resInv_reachable (t : Int) (ops : List Op) (hv : validFrom (World.init t) ops) (hnb : CapsPos ops) :
    ResInv (runOps (World.init t) ops).2 := (QInv.init t).runOps ops hv hnb

/-! ### the property theorems -/

/-- **no_access_after_close**: in every well-formed history no secret is ever accessed after it has
been closed. -/
theorem no_access_after_close (t : Int) :
    ∀ ops, validFrom (World.init t) ops → CapsPos ops → accessesAfterClose (runOps (World.init t) ops).2 = 0 :=
  fun ops hv hnb => (resInv_reachable t ops hv hnb).2.aac_zero

/-- **no_double_close**: no secret is ever closed twice; more precisely every
ledger entry has `closes ≤ 1`. -/
theorem no_double_close (t : Int) (ops : List Op) (hv : validFrom (World.init t) ops) (hnb : CapsPos ops) :
    multiClosed (runOps (World.init t) ops).2 = 0 ∧
    ∀ s, s ∈ (runOps (World.init t) ops).2.secrets → s.closes ≤ 1 :=
  have h := (resInv_reachable t ops hv hnb).2.multi_zero
  ⟨h, (multiClosed_eq_zero_iff _).1 h⟩

/-- **closed_all_released_once**: once every session and every factory has been
closed, every secret the SDK ever allocated has been released — exactly once, and none was touched
afterwards.  (Every ledger entry then has `closes = 1`, `aac = 0`.) -/
theorem closed_all_released_once (t : Int) (ops : List Op) (hv : validFrom (World.init t) ops)
    (hnb : CapsPos ops) (hc : allClosed (runOps (World.init t) ops).2) :
    liveSecrets (runOps (World.init t) ops).2 = 0 ∧ multiClosed (runOps (World.init t) ops).2 = 0 ∧
    accessesAfterClose (runOps (World.init t) ops).2 = 0 :=
  have h := resInv_reachable t ops hv hnb
  ⟨h.live_zero_of_allClosed hc, h.2.multi_zero, h.2.aac_zero⟩

/-- the same with the closing spelled out: from any reachable world, `Close` every session that is
still open and then every factory that is still open (`closeAllOps`, always a well-formed
continuation) — afterwards no secret is live, none was closed twice, none touched after close. -/
theorem closed_all_released_once_closeAll (t : Int) (ops : List Op) (hv : validFrom (World.init t) ops)
    (hnb : CapsPos ops) :
    let w := (runOps (World.init t) ops).2
    let w' := (runOps w (closeAllOps w)).2
    liveSecrets w' = 0 ∧ multiClosed w' = 0 ∧ accessesAfterClose w' = 0 := by
  intro w w'
  have h := resInv_reachable t ops hv hnb
  obtain ⟨v, nb, hc⟩ := closeAll_spec w
  have h' : QInv w' := QInv.runOps h _ v nb
  exact ⟨h'.live_zero_of_allClosed hc, h'.2.multi_zero, h'.2.aac_zero⟩

/-- number of entries in the key caches that have not been closed. -/
def openEntries (w : World) : Nat := (liveObjs (cacheDead w) w.caches).length

/-- **live_bound**: at every quiescent point the live secrets are at most the entries of the open
key caches — every live secret is the key of (at least) one cache entry — and an open bounded cache
never holds more entries than its capacity. -/
theorem live_bound (t : Int) (ops : List Op) (hv : validFrom (World.init t) ops) (hnb : CapsPos ops) :
    liveSecrets (runOps (World.init t) ops).2 ≤ openEntries (runOps (World.init t) ops).2 ∧
    ∀ c kc, (runOps (World.init t) ops).2.caches[c]? = some kc → cacheDead (runOps (World.init t) ops).2 c = false →
      kc.mode = .bounded → kc.ents.length ≤ kc.pol.cap :=
  have h := resInv_reachable t ops hv hnb
  ⟨h.2.live_le, fun c kc hc hd hm => ((h.2.ents c kc hc hd).bnd hm).ents_le_cap (h.2.ents c kc hc hd)⟩

/-! ### data row keys, and factories without key caching -/

/-- **drk_released**: `EncryptPayload` is "obtain the intermediate key, then `drkPart`"
(`encryptPayload_eq`, by `rfl`), and whatever `drkPart` returns and whatever the faults, every
secret it allocated — the data row key's `CreateRandom` secret — has been closed exactly once and
not touched afterwards when it returns; the data row key never enters a key cache.  (`T`, `H`: any
cache table and any set of held references containing the intermediate key, see `RI`.)  For
`decrypt`: `decryptRow` allocates no secret at all. -/
theorem drk_released (T : CTab) (H : List Nat) (x : Ctx) (p ik : Nat) (hik : ik ∈ H) (w : World)
    (hi : RI T .none H w) :
    (∀ i s, (drkPart x p ik w).2.secrets[i]? = some s → w.secrets.length ≤ i → s.closes = 1 ∧ s.aac = 0) ∧
    (drkPart x p ik w).2.caches = w.caches ∧
    (∀ ik' dk data w', (decryptRow ik' dk data w').2.secrets.length = w'.secrets.length) :=
  have h := drkPart_released T H x p ik hik w hi
  ⟨h.1, h.2, fun ik' dk data w' => decryptRow_no_secret ik' dk data w'⟩

/-- **drk_released over histories**, with the ghost classification `ρ` of key materials by creation
site (Props/C03 `wrap_discipline`; `Role.data` = handed out by the `CreateRandom` of an
`EncryptPayload`): at every quiescent point of a well-formed history — so in particular right after
every encrypt / decrypt, whatever it returned and whatever the faults — every secret that holds a
data-key material has been closed exactly once and was not touched afterwards; and the keys under
which the encrypts of the history encrypted their payloads are exactly such `data` materials. -/
theorem drk_released_history (t : Int) (ops : List Op) (hv : validFrom (World.init t) ops) (hnb : CapsPos ops) :
    ∃ ρ : Nat → Option Role,
      (∀ (pre : List Op) (s p : Nat) (fl : List Fault) (post : List Op), ops = pre ++ .encrypt s p fl :: post →
        ∀ k q f, Call.aeadEnc k (.payload q) f ∈ (applyOp (runOps (World.init t) pre).2 (.encrypt s p fl)).2.log →
          ρ k = some .data) ∧
      (∀ (i : Nat) (sx : Secret), (runOps (World.init t) ops).2.secrets[i]? = some sx → ρ sx.mat = some .data →
        sx.closes = 1 ∧ sx.aac = 0) := by
  obtain ⟨ρ, _, h2, h3⟩ := (TQ.init t).runOps ops
  have hq := resInv_reachable t ops hv hnb
  exact ⟨ρ, fun pre s p fl post heq k q f hc => h3 pre s p fl post heq _ hc,
    fun i sx hs hd => data_secrets_closed hq h2 i sx hs hd⟩

/-- at the level of public operations: after an `encrypt` / `decrypt` on an open session of a
well-formed history, every secret that is still live — in particular every one the operation
allocated — is the key of an entry of an open key cache; a data row key never is
(`drk_released`), so it has been released. -/
theorem op_live_secrets_are_cached (t : Int) (ops : List Op) (hv : validFrom (World.init t) ops) (hnb : CapsPos ops)
    (i : Nat) (hlive : i ∈ liveIdx (runOps (World.init t) ops).2) :
    i ∈ liveObjs (cacheDead (runOps (World.init t) ops).2) (runOps (World.init t) ops).2.caches :=
  (resInv_reachable t ops hv hnb).2.live_in_cache hlive

/-- **nocache_all_released**: on a session of a factory with `cacheSK = false ∧ cacheIK = false ∧
sharedIK = false` (`noCacheSession`), every encrypt and every decrypt — whatever it returns,
whatever the faults — releases every secret it allocates: the number of live secrets afterwards is
what it was before. -/
theorem nocache_all_released (t : Int) (ops : List Op) (hv : validFrom (World.init t) ops) (hnb : CapsPos ops) :
    let w := (runOps (World.init t) ops).2
    ∀ s, sessionOpen w s → noCacheSession w s →
      (∀ pay fl, liveSecrets (applyOp w (.encrypt s pay fl)).2 = liveSecrets w) ∧
      (∀ d fl, liveSecrets (applyOp w (.decrypt s d fl)).2 = liveSecrets w) := by
  intro w s ho hn
  obtain ⟨hq, hm⟩ := QMInv_runOps (QInv.init t) (MInv.init t) ops hv hnb
  exact ⟨fun pay fl => nocache_encrypt hq hm s pay fl ho hn, fun d fl => nocache_decrypt hq hm s d fl ho hn⟩

/-! ### why histories must be well-formed, and non-vacuity -/

private def pol : Policy :=
  { expireAfter := 1000 * nsPerSec, revokeInterval := 1000 * nsPerSec, precision := 0,
    cacheSK := true, cacheIK := true, sharedIK := false }

private def misuse : List Op :=
  [.newFactory pol 0 0 0 0, .getSession 0 0 0 0, .encrypt 0 7 [], .closeSession 0, .encrypt 0 8 []]

/-- using a session after `Close` reaches a closed key (the `simple` cache's `Close` releases its
entries but keeps them): the unrestricted statement is false — in the SDK as in the model. -/
theorem use_after_close_counterexample :
    accessesAfterClose (runOps (World.init (5 * nsPerSec)) misuse).2 = 1 ∧ ¬ validFrom (World.init (5 * nsPerSec)) misuse := by
  constructor
  · decide +kernel
  · intro h
    have := (sessionOpen_iff _ _).1 h.2.2.2.2.1
    revert this
    decide +kernel

private def good : List Op :=
  [.newFactory pol 0 0 0 0, .getSession 0 0 0 0, .encrypt 0 7 [], .encrypt 0 8 [.ok, .err],
   .closeSession 0, .closeFactory 0]

example : validFrom (World.init (5 * nsPerSec)) good := (validFrom_iff _ _).2 (by decide +kernel)

example : CapsPos good := by
  intro op h; simp [good] at h; rcases h with rfl | rfl | rfl | rfl | rfl | rfl <;> simp [CapsPosOp, pol, kindOk]

example : (runOps (World.init (5 * nsPerSec)) good).2.secrets.length = 4 ∧
    liveSecrets (runOps (World.init (5 * nsPerSec)) (good.take 4)).2 = 2 ∧
    openEntries (runOps (World.init (5 * nsPerSec)) (good.take 4)).2 = 2 ∧
    liveSecrets (runOps (World.init (5 * nsPerSec)) good).2 = 0 ∧
    closedSecrets (runOps (World.init (5 * nsPerSec)) good).2 = 4 := by decide +kernel


/-- closing everything after one encrypt with `simple` key caches: the two cached keys (SK, IK) are
released by the two `Close` calls — three secrets allocated, three closed, none live. -/
example :
    let w := (runOps (World.init (5 * nsPerSec)) (good.take 3)).2
    (closeAllOps w).length = 2 ∧ liveSecrets w = 2 ∧
    liveSecrets (runOps w (closeAllOps w)).2 = 0 ∧ closedSecrets (runOps w (closeAllOps w)).2 = 3 := by
  decide +kernel

private def polN : Policy :=
  { expireAfter := 1000 * nsPerSec, revokeInterval := 1000 * nsPerSec, precision := 0,
    cacheSK := false, cacheIK := false, sharedIK := false }

private def histN : List Op := [.newFactory polN 0 0 0 0, .getSession 0 0 0 0]

/-- a session without key caching: the first encrypt creates SK, IK and DRK and releases all three;
in the second one the allocation of the IK's secret fails, the SDK falls back to creating a new IK
(duplicate in the metastore, reload) and succeeds — five more secrets, all released. -/
example : noCacheSession (runOps (World.init (5 * nsPerSec)) histN).2 0 := ⟨_, _, rfl, rfl, rfl, rfl, rfl⟩

example :
    let w := (runOps (World.init (5 * nsPerSec)) histN).2
    sessionOpenB w 0 = true ∧
    liveSecrets (applyOp w (.encrypt 0 7 [])).2 = 0 ∧ closedSecrets (applyOp w (.encrypt 0 7 [])).2 = 3 ∧
    liveSecrets (applyOp (applyOp w (.encrypt 0 7 [])).2 (.encrypt 0 8 [.ok, .ok, .ok, .ok, .ok, .err])).2 = 0 ∧
    closedSecrets (applyOp (applyOp w (.encrypt 0 7 [])).2 (.encrypt 0 8 [.ok, .ok, .ok, .ok, .ok, .err])).2 = 8 := by
  decide +kernel


/-! bounded caches: a factory with an LRU system-key cache and a shared TinyLFU intermediate-key
cache, both of capacity 1; two partitions take turns, so every encrypt after the first evicts the
other partition's intermediate key (released by the `onEvict` callback) and reloads its own. -/

private def polB : Policy :=
  { expireAfter := 1000 * nsPerSec, revokeInterval := 1000 * nsPerSec, precision := 0,
    cacheSK := true, cacheIK := true, sharedIK := true, skKind := some (.lru, 1), ikKind := some (.tinylfu, 1) }

private def histB : List Op :=
  [.newFactory polB 0 0 0 0, .getSession 0 0 0 0, .getSession 0 1 0 0, .encrypt 0 7 [], .encrypt 1 8 [], .encrypt 0 9 []]

example : validFrom (World.init (5 * nsPerSec)) histB := (validFrom_iff _ _).2 (by decide +kernel)

example : CapsPos histB := by
  intro op h; simp [histB] at h
  rcases h with rfl | rfl | rfl | rfl | rfl | rfl <;> simp [CapsPosOp, polB, kindOk]

/-- seven secrets so far (SK, 3 IK loads/creations, 3 DRKs), five released, two live = one entry in
each of the two caches of capacity 1; after `closeAllOps` all seven are closed, none twice. -/
example :
    let w := (runOps (World.init (5 * nsPerSec)) histB).2
    w.secrets.length = 7 ∧ liveSecrets w = 2 ∧ closedSecrets w = 5 ∧ openEntries w = 2 ∧
    liveSecrets (runOps w (closeAllOps w)).2 = 0 ∧ closedSecrets (runOps w (closeAllOps w)).2 = 7 ∧
    multiClosed (runOps w (closeAllOps w)).2 = 0 := by
  decide +kernel

end AsherahVerif.Props.C09
