import AsherahVerif.Proofs.SecMemConc
import AsherahVerif.Proofs.SecMemNF
import AsherahVerif.Spec.SecMemCode
/-
C11 — Secure memory: locked, no-access when idle, readable only in use, gone on Close; Close waits
for in-flight readers; later accesses are errors, not faults; readers always see the original bytes;
no interleaving of concurrent readers and closers crashes the process.

Everything here is about `AsherahVerif.SecMem` (Model/SecMem.lean), the executable model of both
go/securememory back ends that the correspondence check runs against the real packages on every run
(real memcall + /proc/self/smaps; concurrent child-process runs).

* Part 1 (sequential): every operation sequence New / CreateRandom / WithBytes / WithBytesFunc (nested
  to any depth) / NewReader+Read / Close / IsClosed, all sizes, both back ends.
* Part 2 (interleaved): ANY number of goroutines, each free to call access / touch the bytes (only
  between its access and release) / release / Close / IsClosed at any time, nested readers, ANY
  scheduler — an inductive invariant over the transition system whose atomic steps are exactly the
  lock-delimited blocks of access / release / Close (`cond.Wait` releases the lock), parameterised by
  the protocol facts regenerated from the source (`theProto`).  The safety statements hold under
  arbitrary injected faults too; the exact protection statement needs a fault-free run.
-/
namespace AsherahVerif.Props.C11
open AsherahVerif AsherahVerif.SecMem

/-! ## the tie to the source (regenerated on every run) -/

theorem skeletons_expected :
    Generated.SecMem.pmAccess = Expected.SecMem.pmAccess ∧
    Generated.SecMem.pmRelease = Expected.SecMem.pmRelease ∧
    Generated.SecMem.pmIsClosed = Expected.SecMem.pmIsClosed ∧
    Generated.SecMem.pmClose = Expected.SecMem.pmClose ∧
    Generated.SecMem.pmCloseInner = Expected.SecMem.pmCloseInner ∧
    Generated.SecMem.pmWithBytes = Expected.SecMem.withBytes ∧
    Generated.SecMem.pmWithBytesFunc = Expected.SecMem.withBytes ∧
    Generated.SecMem.pmNewReader = Expected.SecMem.newReader ∧
    Generated.SecMem.mgAccess = Expected.SecMem.mgAccess ∧
    Generated.SecMem.mgRelease = Expected.SecMem.mgRelease ∧
    Generated.SecMem.mgIsClosed = Expected.SecMem.mgIsClosed ∧
    Generated.SecMem.mgClose = Expected.SecMem.mgClose ∧
    Generated.SecMem.mgWithBytes = Expected.SecMem.mgWithBytes ∧
    Generated.SecMem.mgWithBytesFunc = Expected.SecMem.mgWithBytes ∧
    Generated.SecMem.mgNewReader = Expected.SecMem.newReader ∧
    Generated.SecMem.readerRead = Expected.SecMem.readerRead ∧
    Generated.SecMem.readerNew = Expected.SecMem.readerNew ∧
    Generated.SecMem.pmClosedErr = Expected.SecMem.closedErr ∧
    Generated.SecMem.mgClosedErr = Expected.SecMem.closedErr := by decide

/-- the protocol facts the interleaving model is parameterised by, read off the regenerated skeletons
of protectedmemory's access / release / Close / close … -/
theorem protocol_facts_pm :
    thePmTokens.accessUnderMutex = true ∧ thePmTokens.accessChecksClosing = true ∧
    thePmTokens.counterIncrUnderMutex = true ∧ thePmTokens.releaseUnderMutex = true ∧
    thePmTokens.releaseBroadcasts = true ∧ thePmTokens.closeSetsClosingFirst = true ∧
    thePmTokens.closeWaitsForZeroReaders = true ∧ thePmTokens.wipeBeforeUnlock = true := by decide

/-- … and of memguard's (whose `close` is the library's `Destroy`). -/
theorem protocol_facts_mg :
    theMgTokens.accessUnderMutex = true ∧ theMgTokens.accessChecksClosing = true ∧
    theMgTokens.counterIncrUnderMutex = true ∧ theMgTokens.releaseUnderMutex = true ∧
    theMgTokens.releaseBroadcasts = true ∧ theMgTokens.closeSetsClosingFirst = true ∧
    theMgTokens.closeWaitsForZeroReaders = true := by decide

theorem theProto_ok : theProto.Ok := ⟨by decide, by decide, by decide⟩

/-! ## Part 1 — sequential -/

/-- **protection matches the reader count, between operations**: after any fault-free operation
sequence every secret that is not closed is mapped, mlock'ed, excluded from dumps, PROT_NONE, holds
exactly the bytes it was created with and has no reader; every closed one is unmapped, unlocked and
was zeroed before (its last content is zero). -/
theorem prot_matches_counter_seq (cfg : Cfg) (ops : List Op) :
    ∀ s ∈ (World.runNF { cfg := cfg } ops).secs,
      (s.closed = false → s.counter = 0 ∧ s.page.prot = .none ∧ s.page.mapped = true ∧ s.page.locked = true ∧
        s.page.dontdump = true ∧ s.page.content = s.born ∧ s.born.isSecret = true) ∧
      (s.closed = true → s.page.mapped = false ∧ s.page.locked = false ∧ s.page.content = .zero ∧ s.counter = 0) := by
  intro s hs
  have h := (runNF_seq _ (SeqWorld.init cfg) ops).2.2.1 s hs
  refine ⟨?_, h.gone⟩
  intro hc
  obtain ⟨_, _, i3, i4, i5, i6, i7, i8, i9⟩ := idle_elim (h.live hc)
  exact ⟨i3, i7, i4, i5, i6, i8, i9⟩

/-- **a reader callback runs on a mapped, locked, read-only page and sees the original bytes**;
afterwards the secret is exactly as before (PROT_NONE again) — WithBytes / WithBytesFunc nested to any
depth, in any reachable world. -/
theorem reader_inside_seq (w : World) (hw : SeqWorld w) (sid nest : Nat) (s : Sec)
    (hs : w.secs[sid]? = some s) (hc : s.closed = false) :
    let o := (w.withOp sid nest []).2
    o.res = .ok ∧ o.seen = some (.bytes s.born) ∧ o.page = some s.page ∧ s.page.prot = .none ∧
    ∃ pg, o.inside = some pg ∧ pg.mapped = true ∧ pg.locked = true ∧ pg.dontdump = true ∧ pg.prot = .ro ∧
      pg.content = s.born := by
  intro o
  obtain ⟨h1, _, h3, _⟩ := hw
  have hok := h3 s (List.mem_of_getElem? hs)
  have hidle := hok.live hc
  obtain ⟨_, _, _, i4, i5, i6, i7, i8, _⟩ := idle_elim hidle
  have ho : o = (w.withOp sid nest []).2 := rfl
  simp only [World.withOp, hs, withBytes_seq w.pf h1 nest s [] hok.sinv, withClosed_idle s hidle] at ho
  rw [ho]
  exact ⟨rfl, rfl, rfl, i7, _, rfl, i4, i5, i6, rfl, i8⟩

/-- **after Close, access is an error, not a fault**: nothing is touched. -/
theorem access_after_close_is_error_seq (w : World) (hw : SeqWorld w) (sid nest : Nat) (s : Sec)
    (hs : w.secs[sid]? = some s) (hc : s.closed = true) :
    let o := (w.withOp sid nest []).2
    o.res = .closedErr ∧ o.evs = [] ∧ o.inside = none ∧ o.seen = none := by
  intro o
  obtain ⟨h1, _, h3, _⟩ := hw
  have hok := h3 s (List.mem_of_getElem? hs)
  have ho : o = (w.withOp sid nest []).2 := rfl
  simp only [World.withOp, hs, withBytes_seq w.pf h1 nest s [] hok.sinv, withClosed_closed s [] hc] at ho
  rw [ho]
  exact ⟨rfl, rfl, rfl, rfl⟩

/-- **Close wipes, unlocks and unmaps; a second Close is a no-op returning nil**. -/
theorem close_idempotent_seq (w : World) (hw : SeqWorld w) (sid : Nat) (s : Sec) (hs : w.secs[sid]? = some s) :
    let r := w.closeOp sid []
    r.2.res = .ok ∧
    (s.closed = true → r.2.evs = [] ∧ r.1.inuse = w.inuse) ∧
    (s.closed = false → r.1.inuse = w.inuse - 1 ∧ wipeBeforeRelease true r.2.evs = true ∧
      ∃ pg, r.2.page = some pg ∧ pg.mapped = false ∧ pg.locked = false ∧ pg.content = .zero) := by
  intro r
  obtain ⟨_, h2, h3, _⟩ := hw
  have hok := h3 s (List.mem_of_getElem? hs)
  have hr : r = w.closeOp sid [] := rfl
  simp only [World.closeOp, hs] at hr
  cases hc : s.closed
  · obtain ⟨c1, c2, c3, c4, _, c6⟩ := close_idle w.pf h2 s (hok.live hc)
    obtain ⟨g1, g2, g3, _⟩ := c2.gone c3
    rw [hr]
    refine ⟨c1, fun h => (by cases h), fun _ => ⟨?_, c6, _, rfl, g1, g2, g3⟩⟩
    simp only [c4]; omega
  · rw [close_closed w.pf h2 s [] hc] at hr
    rw [hr]
    exact ⟨rfl, fun _ => ⟨rfl, by simp [inuseDelta]⟩, fun h => (by cases h)⟩

/-- `IsClosed` reports exactly whether a Close has completed. -/
theorem isClosed_flag_seq (w : World) (sid : Nat) (s : Sec) (hs : w.secs[sid]? = some s) :
    (w.step (.isClosed sid) []).2.flag = s.closed := by
  simp [World.step, hs, isClosed]

/-- `Reader.Read`: copies the next `min k (len - i)` bytes, advances by that much, and reports EOF
exactly when the end is reached (or was reached before). -/
theorem reader_step (len i k : Nat) :
    (readerStep len i k).1 = (if i ≥ len then 0 else min k (len - i)) ∧
    (readerStep len i k).2.1 = i + (readerStep len i k).1 ∧
    ((readerStep len i k).2.2 = true ↔ (readerStep len i k).2.1 ≥ len) := by
  unfold readerStep
  by_cases h : i ≥ len
  · simp [h]
  · simp [h]

/-! ## Part 2 — interleaved: every reachable state of every schedule -/

/-- the states reachable by ANY schedule of ANY number `n` of goroutines sharing a freshly created
secret (`s.idle`: what every successful New / CreateRandom returns, `Props.C12.create_ok_is_protected`),
with the protocol facts `pf`. Each schedule entry is (goroutine, action, fault oracle of that step). -/
def reach (pf : Proto) (s : Sec) (n : Nat) (sched : List (Nat × Act × List Bool)) : CState :=
  crun (cinit pf s n) sched

theorem reach_inv (pf : Proto) (hpf : pf.Ok) (s : Sec) (hs : s.idle = true) (n : Nat)
    (sched : List (Nat × Act × List Bool)) : CInv (reach pf s n sched) :=
  (crun_inv (cinit pf s n) hpf (cinit_inv pf s hs n) sched).1

/-- the access counter is exactly the number of reader callbacks in progress (nested ones counted). -/
theorem counter_is_readers (pf : Proto) (hpf : pf.Ok) (s : Sec) (hs : s.idle = true) (n : Nat)
    (sched : List (Nat × Act × List Bool)) :
    (reach pf s n sched).sec.counter = depthSum (reach pf s n sched).threads :=
  (reach_inv pf hpf s hs n sched).counter

/-- **a goroutine inside a reader callback is on a mapped, locked, read-only page** — under any
schedule and any faults: no SIGSEGV is reachable. -/
theorem reader_never_faults (pf : Proto) (hpf : pf.Ok) (s : Sec) (hs : s.idle = true) (n : Nat)
    (sched : List (Nat × Act × List Bool)) :
    (reach pf s n sched).crashed = false ∧
    ∀ (tid : Nat) (t : Thread), (reach pf s n sched).threads[tid]? = some t → t.depth ≠ 0 →
      (reach pf s n sched).sec.page.mapped = true ∧ (reach pf s n sched).sec.page.prot = .ro ∧
      (reach pf s n sched).sec.page.locked = true ∧ (reach pf s n sched).sec.page.dontdump = true ∧
      (reach pf s n sched).sec.closed = false := by
  have hi := reach_inv pf hpf s hs n sched
  refine ⟨hi.noCrash, ?_⟩
  intro tid t ht hd
  have hle := depth_le_sum _ tid t ht
  have hc : (reach pf s n sched).sec.counter ≠ 0 := by rw [hi.counter]; omega
  obtain ⟨i1, ⟨m1, m2, m3, _⟩, i3⟩ := hi.inside hc
  exact ⟨m1, i3, m2, m3, i1⟩

/-- **readers always see the original bytes**: no reader ever observed anything else, and whoever is
inside a callback is looking at the bytes the secret was created with. -/
theorem reader_sees_original (pf : Proto) (hpf : pf.Ok) (s : Sec) (hs : s.idle = true) (n : Nat)
    (sched : List (Nat × Act × List Bool)) :
    (reach pf s n sched).badRead = false ∧
    ∀ (tid : Nat) (t : Thread), (reach pf s n sched).threads[tid]? = some t → t.depth ≠ 0 →
      touch (reach pf s n sched).sec = .bytes (reach pf s n sched).sec.born := by
  have hi := reach_inv pf hpf s hs n sched
  refine ⟨hi.noBad, ?_⟩
  intro tid t ht hd
  have hle := depth_le_sum _ tid t ht
  have hc : (reach pf s n sched).sec.counter ≠ 0 := by rw [hi.counter]; omega
  obtain ⟨_, ⟨m1, _, _, m4⟩, i3⟩ := hi.inside hc
  simp [touch, Page.readable, m1, i3, m4]

/-- **Close waits for in-flight readers**: once the secret is closed — in particular once any Close
call has returned nil — no goroutine is inside a callback; and the page was zeroed, then unlocked and
unmapped. -/
theorem close_waits (pf : Proto) (hpf : pf.Ok) (s : Sec) (hs : s.idle = true) (n : Nat)
    (sched : List (Nat × Act × List Bool)) :
    ((reach pf s n sched).closeRets ≠ 0 → (reach pf s n sched).sec.closed = true) ∧
    ((reach pf s n sched).sec.closed = true →
      (∀ t ∈ (reach pf s n sched).threads, t.depth = 0) ∧
      (reach pf s n sched).sec.page.mapped = false ∧ (reach pf s n sched).sec.page.locked = false ∧
      (reach pf s n sched).sec.page.content = .zero) := by
  have hi := reach_inv pf hpf s hs n sched
  refine ⟨hi.rets, ?_⟩
  intro hc
  obtain ⟨g1, g2, g3, g4⟩ := hi.gone hc
  refine ⟨depthSum_zero_of_all (by rw [← hi.counter]; exact g4), g1, g2, g3⟩

/-- **protection matches the reader count**, in every reachable state of a fault-free schedule: an
open secret is PROT_NONE exactly when no callback is running and read-only exactly when one is; it is
mapped, locked, excluded from dumps and holds the original bytes throughout. (With faults a failed
`release` may leave the page read-only with no reader; everything else above still holds.) -/
theorem prot_matches_counter (pf : Proto) (hpf : pf.Ok) (s : Sec) (hs : s.idle = true) (n : Nat)
    (sched : List (Nat × Act × List Bool)) (hnf : (reach pf s n sched).faulted = false) :
    (reach pf s n sched).sec.closed = false →
      ((reach pf s n sched).sec.counter = 0 ↔ (reach pf s n sched).sec.page.prot = .none) ∧
      ((reach pf s n sched).sec.counter ≠ 0 → (reach pf s n sched).sec.page.prot = .ro) ∧
      (reach pf s n sched).sec.page.mapped = true ∧ (reach pf s n sched).sec.page.locked = true ∧
      (reach pf s n sched).sec.page.dontdump = true ∧
      (reach pf s n sched).sec.page.content = (reach pf s n sched).sec.born := by
  have hi := reach_inv pf hpf s hs n sched
  intro hc
  obtain ⟨_, h2⟩ := hi.nofault hnf
  obtain ⟨⟨m1, m2, m3, m4⟩, h3⟩ := h2 hc
  refine ⟨⟨h3, ?_⟩, fun h => (hi.inside h).2.2, m1, m2, m3, m4⟩
  intro hp
  by_cases h0 : (reach pf s n sched).sec.counter = 0
  · exact h0
  · have := (hi.inside h0).2.2; rw [hp] at this; cases this

/-- a schedule whose steps all carry the empty fault oracle is fault-free. -/
theorem faultfree_schedule (pf : Proto) (s : Sec) (n : Nat) (sched : List (Nat × Act)) :
    (reach pf s n (sched.map fun p => (p.1, p.2, []))).faulted = false := by
  suffices h : ∀ st : CState, st.faulted = false → (crun st (sched.map fun p => (p.1, p.2, []))).faulted = false by
    exact h _ rfl
  induction sched with
  | nil => intro st h; exact h
  | cons p t ih =>
    intro st h
    simp only [List.map_cons, crun]
    apply ih
    unfold cstep
    split
    · exact h
    · cases ht : st.threads[p.1]? with
      | none => exact h
      | some th =>
        simp only
        have hf : ∀ st' : CState, st'.faulted = false → (cstepCore st' p.1 th p.2 []).faulted = false := by
          intro st' h'
          unfold cstepCore
          have hcs : ∀ s', (closeStep st' p.1 th s' []).faulted = false := by
            intro s'; unfold closeStep; split <;> exact h'
          split <;> first | exact h' | exact hcs _ | ((try simp only); split <;> first | exact h' | (split <;> exact h'))
        exact hf _ (by simp [h])

/-- **access after Close is an error, not a fault**: in every reachable state in which a Close has
begun, `access` refuses without touching anything (so a goroutine calling WithBytes gets the
closed-secret error and the state is unchanged). -/
theorem access_after_close_is_error (pf : Proto) (hpf : pf.Ok) (s : Sec) (n : Nat)
    (sched : List (Nat × Act × List Bool)) (fl : List Bool)
    (hc : (reach pf s n sched).sec.closing = true ∨ (reach pf s n sched).sec.closed = true) :
    (access pf (reach pf s n sched).sec fl).res = .closedErr ∧
    (access pf (reach pf s n sched).sec fl).sec = (reach pf s n sched).sec ∧
    (access pf (reach pf s n sched).sec fl).evs = [] := by
  rcases access_spec' pf (reach pf s n sched).sec fl with ⟨h1, h2, h3, _⟩ | ⟨h, _⟩
  · exact ⟨h1, h2, h3⟩
  · obtain ⟨a, b⟩ := h hpf.checks
    rcases hc with hc | hc
    · rw [a] at hc; cases hc
    · rw [b] at hc; cases hc

/-- **Close is idempotent**: in every reachable state in which the secret is closed, a further Close
(by a goroutine that is not suspended) returns nil at once, touches nothing and moves no counter. -/
theorem close_idempotent (pf : Proto) (s : Sec) (n : Nat)
    (sched : List (Nat × Act × List Bool)) (fl : List Bool)
    (hc : (reach pf s n sched).sec.closed = true) :
    closeBody pf { (reach pf s n sched).sec with closing := true } fl =
      some { res := .ok, sec := { (reach pf s n sched).sec with closing := true }, evs := [], rest := fl } := by
  simp [closeBody, hc]

/-- **no reachable state is a crash**: no SIGSEGV under any schedule and any faults; a Go panic is
reachable only for the memguard back end and only when a primitive inside its library fails. -/
theorem no_crash (pf : Proto) (hpf : pf.Ok) (s : Sec) (hs : s.idle = true) (n : Nat)
    (sched : List (Nat × Act × List Bool)) :
    (reach pf s n sched).crashed = false ∧
    ((reach pf s n sched).panicked = true → (reach pf s n sched).sec.impl = .mg ∧ (reach pf s n sched).faulted = true) := by
  have hi := reach_inv pf hpf s hs n sched
  exact ⟨hi.noCrash, hi.panic⟩

/-- **no lost wake-up**: a closer suspended in `cond.Wait` that has not been signalled is waiting for a
reader that is still inside (whose `release` will broadcast). -/
theorem no_lost_wakeup (pf : Proto) (hpf : pf.Ok) (s : Sec) (hs : s.idle = true) (n : Nat)
    (sched : List (Nat × Act × List Bool)) :
    ∀ t ∈ (reach pf s n sched).threads, t.wait = some false → depthSum (reach pf s n sched).threads ≠ 0 := by
  have hi := reach_inv pf hpf s hs n sched
  intro t ht hw
  rw [← hi.counter]
  exact hi.waiters t ht hw

/-- the in-use counter is 1 until the secret is closed and 0 from then on, whoever closes, however
many Close calls race. -/
theorem inuse_balanced_conc (pf : Proto) (hpf : pf.Ok) (s : Sec) (hs : s.idle = true) (n : Nat)
    (sched : List (Nat × Act × List Bool)) :
    (reach pf s n sched).inuse = if (reach pf s n sched).sec.closed then 0 else 1 :=
  (reach_inv pf hpf s hs n sched).inuse

/-- the theorems above apply to the code as it is: its protocol facts are the ones they need. -/
theorem applies_to_the_code (s : Sec) (hs : s.idle = true) (n : Nat) (sched : List (Nat × Act × List Bool)) :
    (reach theProto s n sched).crashed = false ∧ (reach theProto s n sched).badRead = false :=
  ⟨(reach_inv theProto theProto_ok s hs n sched).noCrash, (reach_inv theProto theProto_ok s hs n sched).noBad⟩

/-! ### the protocol facts matter (what goes wrong without each) -/

/-- a secret as `New` creates it. -/
def s0 : Sec := mkSec .pm 0 8 (.orig 0)
  { mapped := true, locked := true, dontdump := true, prot := .none, content := .orig 0, guards := false }

theorem s0_created : (create Cfg.asFound .pm false 0 8 []).sec = some s0 := by decide
theorem s0_idle : s0.idle = true := by decide

/-- if Close did not wait for readers: reader enters, closer closes, reader touches → SIGSEGV. -/
theorem crash_without_closeWaits :
    (reach { Proto.good with closeWaits := false } s0 2 [(0, .access, []), (1, .closeCall, []), (0, .touch, [])]).crashed = true := by
  decide

/-- if access did not refuse a closed secret: closer closes, reader enters and touches → SIGSEGV. -/
theorem crash_without_closing_check :
    (reach { Proto.good with accessChecksClosing := false } s0 2 [(1, .closeCall, []), (0, .access, []), (0, .touch, [])]).crashed = true := by
  decide

/-- if release did not broadcast: the closer sleeps for ever although nobody is inside. -/
theorem lost_wakeup_without_broadcast :
    let st := reach { Proto.good with releaseBroadcasts := false } s0 2 [(0, .access, []), (1, .closeCall, []), (0, .release, [])]
    st.threads[1]? = some { depth := 0, wait := some false } ∧ depthSum st.threads = 0 := by
  decide

/-! ## non-vacuity -/

/-- two nested readers and a racing closer: the closer waits, is woken by the last release, closes. -/
example :
    let st := reach Proto.good s0 3
      [(0, .access, []), (0, .access, []), (1, .closeCall, []), (2, .access, []), (0, .touch, []), (0, .release, []),
       (1, .wake, []), (0, .release, []), (1, .wake, []), (2, .closeCall, [])]
    st.sec.closed = true ∧ st.closeRets = 2 ∧ st.crashed = false ∧ st.inuse = 0 ∧ st.sec.page.mapped = false := by
  decide

example : (reach Proto.good s0 1 [(0, .access, [])]).sec.page.prot = .ro := by decide
example : (reach Proto.good s0 1 [(0, .access, []), (0, .release, [])]).sec.page.prot = .none := by decide
example : (reach Proto.good s0 1 [(0, .access, [true])]).faulted = true := by decide
example : (World.runNF { cfg := Cfg.asFound } [.new .pm 8, .withB 0 2, .close 0, .withB 0 0, .close 0]).inuse = 0 := by decide
example : ((World.runNF { cfg := Cfg.asFound } [.new .mg 8]).withOp 0 1 []).2.res = .ok := by decide

end AsherahVerif.Props.C11
