import AsherahVerif.Proofs.Gcm
import AsherahVerif.Model.Aes
import AsherahVerif.Model.Codec
import AsherahVerif.Generated.Fmt
import AsherahVerif.Expected.Fmt
/-
C18 — stored and wire formats follow the documented, cross-language layout
(and the byte-level GCM theorems reused by C07 / C01).
-/
namespace AsherahVerif.Props.C18
open AsherahVerif AsherahVerif.Gcm

/-! ## AES-GCM layout `ciphertext ‖ tag(16) ‖ nonce(12)` — for EVERY block function -/

/-- **Decrypt ∘ Encrypt = id at the byte level**: what `cryptoFunc.Encrypt` lays out for nonce `n`
is opened by `cryptoFunc.Decrypt` to the payload — for every block function `E` (no cryptographic
assumption), every key, every 12-byte nonce, every payload (the empty one included) that
`Encrypt` accepts (`len(data) ≤ gcmMaxDataSize`; `gcm.Open` rejects anything longer, see
`gcm_open_seal_too_large`). -/
theorem gcm_open_seal {κ : Type} (E : κ → Block → Block) (k : κ) (n p : Bytes)
    (hn : n.length = 12) (hp : p.length ≤ maxDataSize) :
    gcmOpen E k (gcmSeal E k n p) = some p := by
  unfold gcmOpen gcmSeal
  rw [gcmOpenE_layout E k _ _ n (tag_length ..) hn (by rw [encBody_length]; exact hp)]
  simp only [beq_self_eq_true, if_true, encBody, ctrXor_ctrXor]

/-- the same through the Go-level entry points (key set-up included): whatever `Encrypt` returns,
`Decrypt` with the same key bytes gives the payload back. -/
theorem goDecrypt_goEncrypt (C : Cipher) (key n p c : Bytes) (hn : n.length = 12)
    (h : goEncrypt C key n p = .ok c) : goDecrypt C key c = .ok p := by
  unfold goEncrypt at h; unfold goDecrypt
  cases hk : C.prep key with
  | none => rw [hk] at h; cases h
  | some k =>
    rw [hk] at h; simp only at h ⊢
    unfold gcmSealE at h
    split at h
    · cases h
    · rename_i hsz
      injection h with h
      have := gcm_open_seal C.E k n p hn (by omega)
      unfold gcmOpen at this
      rw [h] at this
      split at this
      · rename_i heq; rw [heq]; simp at this; rw [this]
      · cases this

/-- the error CLASS on short input: `|c| < 12` is Decrypt's own "shorter than nonce size",
`12 ≤ |c| < 28` is gcm.Open's authentication failure. -/
theorem open_short_class {κ : Type} (E : κ → Block → Block) (k : κ) (c : Bytes) :
    (c.length < 12 → gcmOpenE E k c = .error .shortNonce) ∧
    (12 ≤ c.length → c.length < 28 → gcmOpenE E k c = .error .auth) := by
  constructor
  · intro h; unfold gcmOpenE; simp [nonceSize, h]
  · intro h1 h2; unfold gcmOpenE
    have h12 : ¬ c.length < nonceSize := by simp [nonceSize]; omega
    have h16 : (List.take (c.length - nonceSize) c).length < tagSize := by
      simp [List.length_take, nonceSize, tagSize] at *; omega
    simp only [h12, if_false, h16, if_true]

/-- every input shorter than nonce + tag is rejected (with an error, never a panic: the model
has no panic outcome because neither `Decrypt` nor `gcm.Open` indexes before its length checks). -/
theorem open_short {κ : Type} (E : κ → Block → Block) (k : κ) (c : Bytes) (h : c.length < 28) :
    gcmOpen E k c = none := by
  unfold gcmOpen
  by_cases h12 : c.length < 12
  · rw [(open_short_class E k c).1 h12]
  · rw [(open_short_class E k c).2 (by omega) h]

/-- **the only strings `Decrypt` accepts are `Encrypt` layouts of the returned plaintext under the
nonce found in the last 12 bytes** — for every block function, no cryptographic assumption.
(Stepping from "is a seal output" to "was produced by a key holder" is the INT-CTXT assumption.) -/
theorem gcm_open_iff_seal {κ : Type} (E : κ → Block → Block) (k : κ) (c p : Bytes) :
    gcmOpen E k c = some p ↔
      28 ≤ c.length ∧ c.length ≤ maxDataSize + 28 ∧ c = gcmSeal E k (last12 c) p := by
  constructor
  · intro h
    have h' : gcmOpenE E k c = .ok p := by
      unfold gcmOpen at h
      split at h
      · rename_i q hq; injection h with h; rw [hq, h]
      · cases h
    obtain ⟨ct, n, hn, hsz, hc, hp⟩ := gcmOpenE_ok_inv E k c p h'
    have hl : last12 c = n := by
      unfold last12; rw [hc]; exact (split_nonce ct _ n hn).1
    have hlen : c.length = ct.length + 28 := by
      rw [hc]; simp [tag_length, hn]
    refine ⟨by omega, by omega, ?_⟩
    rw [hl]
    unfold gcmSeal
    have : encBody E k n p = ct := by rw [hp]; unfold encBody; exact ctrXor_ctrXor ..
    rw [this]; exact hc
  · intro ⟨h28, hmax, hc⟩
    have hn : (last12 c).length = 12 := by
      unfold last12; simp [nonceSize]; omega
    have hlen := gcmSeal_length E k (last12 c) p
    rw [← hc, hn] at hlen
    rw [hc]
    exact gcm_open_seal E k (last12 c) p hn (by omega)

/-- **layout**: `|seal k n p| = |p| + 28`, the last 12 bytes are the nonce, bytes `[|p|, |p|+16)`
are the tag (computed over the first `|p|` bytes, which are the CTR ciphertext). -/
theorem seal_layout {κ : Type} (E : κ → Block → Block) (k : κ) (n p : Bytes) (hn : n.length = 12) :
    let c := gcmSeal E k n p
    c.length = p.length + 28 ∧
    last12 c = n ∧
    (c.drop p.length).take 16 = tag E k n (c.take p.length) ∧
    c.take p.length = encBody E k n p := by
  intro c
  have hb := encBody_length E k n p
  have hc : c = encBody E k n p ++ tag E k n (encBody E k n p) ++ n := rfl
  have htake : c.take p.length = encBody E k n p := by
    rw [hc, List.append_assoc]; exact List.take_left' hb
  refine ⟨?_, ?_, ?_, htake⟩
  · rw [gcmSeal_length, hn]
  · unfold last12; rw [hc]; exact (split_nonce _ _ n hn).1
  · rw [htake, hc, List.append_assoc, List.drop_left' hb]
    exact List.take_left' (tag_length ..)

/-- beyond `gcmMaxDataSize` the layout is NOT opened (`gcm.Open`'s size check) — which is why
`Encrypt` refuses such data up front (`gcmSealE`). -/
theorem gcm_open_seal_too_large {κ : Type} (E : κ → Block → Block) (k : κ) (n p : Bytes)
    (hn : n.length = 12) (hp : maxDataSize < p.length) :
    gcmOpen E k (gcmSeal E k n p) = none := by
  cases hq : gcmOpen E k (gcmSeal E k n p) with
  | none => rfl
  | some q =>
    exfalso
    have := (gcm_open_iff_seal E k (gcmSeal E k n p) q).mp hq
    rw [gcmSeal_length, hn] at this
    omega

/-! ### non-vacuity -/

/-- a toy block function (NOT a permutation: the theorems really need nothing about `E`). -/
def toyE (k : UInt64) (b : Block) : Block := ⟨b.lo + k, b.hi ^^^ k⟩

example : gcmOpen toyE 7 (gcmSeal toyE 7 (List.replicate 12 1) [1, 2, 3]) = some [1, 2, 3] :=
  gcm_open_seal toyE 7 _ _ rfl (by decide)
example : gcmOpen toyE 7 (gcmSeal toyE 7 (List.replicate 12 1) []) = some [] :=
  gcm_open_seal toyE 7 _ _ rfl (by decide)
example : (gcmSeal toyE 7 (List.replicate 12 9) [1, 2, 3]).length = 31 := by decide
example : gcmOpen toyE 7 (List.replicate 27 0) = none := open_short _ _ _ (by decide)
-- flipping one ciphertext bit of a genuine layout is rejected (toy cipher, concrete).
set_option maxRecDepth 8000 in
example : gcmOpen toyE 7 ((gcmSeal toyE 7 (List.replicate 12 1) [1, 2, 3]).set 0 0xFF) = none := by decide

/-! ## the tie to the source: regenerated facts = what the model assumes

`Generated/Fmt.lean` is rewritten from `/repo` on every run by go/cmd/extract/fmt.go;
`Expected/Fmt.lean` is the hand-written counterpart.  Each conjunct is a finite fact (`decide`). -/

/-- sizes: nonce 12, tag 16, AES-256 key 32, static master key 32 — and they are the sizes of the
model (`Gcm.nonceSize`, `Gcm.tagSize`). -/
theorem consts_match_documented :
    Generated.Fmt.gcmNonceSize = 12 ∧ Generated.Fmt.gcmTagSize = 16 ∧
    Generated.Fmt.AES256KeySize = 32 ∧ Generated.Fmt.staticKMSKeySize = 32 ∧
    Generated.Fmt.gcmNonceSize = Gcm.nonceSize ∧ Generated.Fmt.gcmTagSize = Gcm.tagSize ∧
    Generated.Fmt.gcmNonceSize + Generated.Fmt.gcmTagSize = 28 ∧
    Generated.Fmt.gcmBlockSizeExpr = Expected.Fmt.gcmBlockSizeExpr ∧
    Generated.Fmt.gcmMaxDataSizeExpr = Expected.Fmt.gcmMaxDataSizeExpr ∧
    Gcm.maxDataSize = ((1 <<< 32) - 2) * 16 := by decide

/-- the JSON member names and field types of KeyMeta / DataRowRecord / EnvelopeKeyRecord are the
documented ones (Key/Data, Created, `Key` a []byte i.e. base64, ParentKeyMeta{KeyId,Created},
`Revoked,omitempty`, `ID` never serialised), in Go's emission order. -/
theorem tags_match_documented :
    Generated.Fmt.tagsKeyMeta = Expected.Fmt.tagsKeyMeta ∧
    Generated.Fmt.tagsDataRowRecord = Expected.Fmt.tagsDataRowRecord ∧
    Generated.Fmt.tagsEnvelopeKeyRecord = Expected.Fmt.tagsEnvelopeKeyRecord := by decide

/-- the member names the reference codec uses are exactly the regenerated tags. -/
theorem codec_names_are_the_tags :
    (Generated.Fmt.tagsKeyMeta.map fun t => t.2.2.toList) = [Codec.nKeyId, Codec.nCreated] ∧
    (Generated.Fmt.tagsDataRowRecord.map fun t => t.2.2.toList) = [Codec.nKey, Codec.nData] ∧
    (Generated.Fmt.tagsEnvelopeKeyRecord.map fun t => t.2.2.toList) =
      [Codec.nRevoked ++ ",omitempty".toList, "-".toList, Codec.nCreated, Codec.nKey,
       Codec.nParentKeyMeta ++ ",omitempty".toList] := by decide

/-- shape of `cryptoFunc.Encrypt` / `Decrypt` / the cipher factory / the static KMS (which applies the
same AEAD under the master key): the model's branches and slice positions mirror these. -/
theorem aead_shape_matches :
    Generated.Fmt.cryptoEncryptSkeleton = Expected.Fmt.cryptoEncryptSkeleton ∧
    Generated.Fmt.cryptoEncryptSlices = Expected.Fmt.cryptoEncryptSlices ∧
    Generated.Fmt.cryptoDecryptSkeleton = Expected.Fmt.cryptoDecryptSkeleton ∧
    Generated.Fmt.cryptoDecryptSlices = Expected.Fmt.cryptoDecryptSlices ∧
    Generated.Fmt.aesGCMCipherFactorySkeleton = Expected.Fmt.aesGCMCipherFactorySkeleton ∧
    Generated.Fmt.staticKMSEncryptKeySkeleton = Expected.Fmt.staticKMSEncryptKeySkeleton ∧
    Generated.Fmt.staticKMSDecryptKeySkeleton = Expected.Fmt.staticKMSDecryptKeySkeleton ∧
    Generated.Fmt.decryptRowSkeleton = Expected.Fmt.decryptRowSkeleton := by decide

/-- key-id format strings of partition.go. -/
theorem keyid_formats_match :
    Generated.Fmt.keyIdDefaultPartitionSystemKeyID = Expected.Fmt.keyIdDefaultPartitionSystemKeyID ∧
    Generated.Fmt.keyIdDefaultPartitionIntermediateKeyID = Expected.Fmt.keyIdDefaultPartitionIntermediateKeyID ∧
    Generated.Fmt.keyIdSuffixedPartitionSystemKeyID = Expected.Fmt.keyIdSuffixedPartitionSystemKeyID ∧
    Generated.Fmt.keyIdSuffixedPartitionIntermediateKeyID = Expected.Fmt.keyIdSuffixedPartitionIntermediateKeyID := by decide

/-- SQL statements / row codec shape, DynamoDB attribute names, envelope tags and field mappings of
both plugins, protobuf field table and the to/fromProtobufDRR field mapping. -/
theorem carriers_match_documented :
    Generated.Fmt.sqlLoadKeyQuery = Expected.Fmt.sqlLoadKeyQuery ∧
    Generated.Fmt.sqlStoreKeyQuery = Expected.Fmt.sqlStoreKeyQuery ∧
    Generated.Fmt.sqlLoadLatestQuery = Expected.Fmt.sqlLoadLatestQuery ∧
    Generated.Fmt.sqlSQLMetastoreStoreSkeleton = Expected.Fmt.sqlSQLMetastoreStoreSkeleton ∧
    Generated.Fmt.sqlparseEnvelopeSkeleton = Expected.Fmt.sqlparseEnvelopeSkeleton ∧
    Generated.Fmt.ddb1AttrNames = Expected.Fmt.ddb1AttrNames ∧
    Generated.Fmt.ddb2AttrNames = Expected.Fmt.ddb2AttrNames ∧
    Generated.Fmt.ddb1Envelope = Expected.Fmt.ddb1Envelope ∧
    Generated.Fmt.ddb2Item = Expected.Fmt.ddb2Item ∧
    Generated.Fmt.ddb2Envelope = Expected.Fmt.ddb2Envelope ∧
    Generated.Fmt.ddb2KeyMeta = Expected.Fmt.ddb2KeyMeta ∧
    Generated.Fmt.ddb1StoreFields = Expected.Fmt.ddb1StoreFields ∧
    Generated.Fmt.ddb1ParseResultSkeleton = Expected.Fmt.ddb1ParseResultSkeleton ∧
    Generated.Fmt.ddb2StoreFields = Expected.Fmt.ddb2StoreFields ∧
    Generated.Fmt.ddb2DecodeItemSkeleton = Expected.Fmt.ddb2DecodeItemSkeleton ∧
    Generated.Fmt.ddb2DecodeItemFields = Expected.Fmt.ddb2DecodeItemFields ∧
    Generated.Fmt.toProtobufDRRFields = Expected.Fmt.toProtobufDRRFields ∧
    Generated.Fmt.fromProtobufDRRFields = Expected.Fmt.fromProtobufDRRFields ∧
    Generated.Fmt.protoDataRowRecord = Expected.Fmt.protoDataRowRecord ∧
    Generated.Fmt.protoEnvelopeKeyRecord = Expected.Fmt.protoEnvelopeKeyRecord ∧
    Generated.Fmt.protoKeyMeta = Expected.Fmt.protoKeyMeta ∧
    (Generated.Fmt.ddb1AttrNames.map String.toList) = [Codec.nId, Codec.nCreated, Codec.nKeyRecord] ∧
    (Generated.Fmt.ddb2AttrNames.map String.toList) = [Codec.nId, Codec.nCreated, Codec.nKeyRecord] := by decide

end AsherahVerif.Props.C18
