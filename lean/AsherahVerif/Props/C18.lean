import AsherahVerif.Proofs.Gcm
import AsherahVerif.Proofs.GcmVectors
import AsherahVerif.Proofs.CodecChain
import AsherahVerif.Model.Aes
import AsherahVerif.Model.Codec
import AsherahVerif.Generated.Fmt
import AsherahVerif.Expected.Fmt
/-
C18 — stored and wire formats follow the documented, cross-language layout
(and the byte-level GCM theorems reused by C07 / C01).

The statements are about the REFERENCE implementation written from the documentation
(Model/Gcm.lean, Model/Codec.lean): its encoders and decoders are mutually inverse on every record,
byte string, id and hierarchy, the AEAD layout is ciphertext ‖ tag(16) ‖ nonce(12) and is opened
exactly when it is a seal output — for every block function.  That the Go SDK implements the same
formats is the tie: regenerated facts (`*_match*` theorems below, `decide` over data extracted from
/repo on every run) and the two-directional differential correspondence of go/cmd/hxfmt against this
reference (SDK writes → reference decrypts the whole chain; reference writes → SDK decrypts; the same
records through encoding/json, SQL row text, both DynamoDB marshalers, the protobuf mapping).

Everything is proved at full strength except where the code itself is lossy, which is stated as a
counterexample: the protobuf mapping drops `Revoked` (`pb_drops_revoked_counterexample`), key-id
parsing is ambiguous as soon as a component contains '_' (`keyid_ambiguous_counterexample`).
-/
namespace AsherahVerif.Props.C18
open AsherahVerif AsherahVerif.Gcm

/-! ## AES-GCM layout `ciphertext ‖ tag(16) ‖ nonce(12)` — for EVERY block function -/

/-- **Decrypt ∘ Encrypt = id at the byte level**: what `cryptoFunc.Encrypt` lays out for nonce `n`
is opened by `cryptoFunc.Decrypt` to the payload — for every block function `E` (no cryptographic
assumption), every key, every 12-byte nonce, every payload (the empty one included) that
`Encrypt` accepts (`len(data) ≤ gcmMaxDataSize`; `gcm.Open` rejects anything longer, see
`gcm_open_seal_too_large`). -/
theorem gcm_open_seal {κ : Type} (E : κ → Block → Block) (k : κ) (n p : Bytes)
    (hn : n.length = 12) (hp : p.length ≤ maxDataSize) :
    gcmOpen E k (gcmSeal E k n p) = some p :=
  gcmOpen_gcmSeal E k n p hn hp

/-- the same through the Go-level entry points (key set-up included): whatever `Encrypt` returns,
`Decrypt` with the same key bytes gives the payload back. -/
theorem goDecrypt_goEncrypt (C : Cipher) (key n p c : Bytes) (hn : n.length = 12)
    (h : goEncrypt C key n p = .ok c) : goDecrypt C key c = .ok p :=
  goDecrypt_of_goEncrypt C key n p c hn h

/-- the error CLASS on short input: `|c| < 12` is Decrypt's own "shorter than nonce size",
`12 ≤ |c| < 28` is gcm.Open's authentication failure. -/
theorem open_short_class {κ : Type} (E : κ → Block → Block) (k : κ) (c : Bytes) :
    (c.length < 12 → gcmOpenE E k c = .error .shortNonce) ∧
    (12 ≤ c.length → c.length < 28 → gcmOpenE E k c = .error .auth) := by
  constructor
  · intro h; unfold gcmOpenE; simp [nonceSize, h]
  · intro h1 h2; unfold gcmOpenE
    have h12 : ¬ c.length < nonceSize := by simp [nonceSize]; omega
    have h16 : (List.take (c.length - nonceSize) c).length < tagSize := by
      simp [List.length_take, nonceSize, tagSize] at *; omega
    simp only [h12, if_false, h16, if_true]

/-- every input shorter than nonce + tag is rejected (with an error, never a panic: the model
has no panic outcome because neither `Decrypt` nor `gcm.Open` indexes before its length checks). -/
theorem open_short {κ : Type} (E : κ → Block → Block) (k : κ) (c : Bytes) (h : c.length < 28) :
    gcmOpen E k c = none := by
  unfold gcmOpen
  by_cases h12 : c.length < 12
  · rw [(open_short_class E k c).1 h12]
  · rw [(open_short_class E k c).2 (by omega) h]

/-- **the only strings `Decrypt` accepts are `Encrypt` layouts of the returned plaintext under the
nonce found in the last 12 bytes** — for every block function, no cryptographic assumption.
(Stepping from "is a seal output" to "was produced by a key holder" is the INT-CTXT assumption.) -/
theorem gcm_open_iff_seal {κ : Type} (E : κ → Block → Block) (k : κ) (c p : Bytes) :
    gcmOpen E k c = some p ↔
      28 ≤ c.length ∧ c.length ≤ maxDataSize + 28 ∧ c = gcmSeal E k (last12 c) p := by
  constructor
  · intro h
    have h' : gcmOpenE E k c = .ok p := by
      unfold gcmOpen at h
      split at h
      · rename_i q hq; injection h with h; rw [hq, h]
      · cases h
    obtain ⟨ct, n, hn, hsz, hc, hp⟩ := gcmOpenE_ok_inv E k c p h'
    have hl : last12 c = n := by
      unfold last12; rw [hc]; exact (split_nonce ct _ n hn).1
    have hlen : c.length = ct.length + 28 := by
      rw [hc]; simp [tag_length, hn]
    refine ⟨by omega, by omega, ?_⟩
    rw [hl]
    unfold gcmSeal
    have : encBody E k n p = ct := by rw [hp]; unfold encBody; exact ctrXor_ctrXor ..
    rw [this]; exact hc
  · intro ⟨h28, hmax, hc⟩
    have hn : (last12 c).length = 12 := by
      unfold last12; simp [nonceSize]; omega
    have hlen := gcmSeal_length E k (last12 c) p
    rw [← hc, hn] at hlen
    rw [hc]
    exact gcm_open_seal E k (last12 c) p hn (by omega)

/-- **layout**: `|seal k n p| = |p| + 28`, the last 12 bytes are the nonce, bytes `[|p|, |p|+16)`
are the tag (computed over the first `|p|` bytes, which are the CTR ciphertext). -/
theorem seal_layout {κ : Type} (E : κ → Block → Block) (k : κ) (n p : Bytes) (hn : n.length = 12) :
    let c := gcmSeal E k n p
    c.length = p.length + 28 ∧
    last12 c = n ∧
    (c.drop p.length).take 16 = tag E k n (c.take p.length) ∧
    c.take p.length = encBody E k n p := by
  intro c
  have hb := encBody_length E k n p
  have hc : c = encBody E k n p ++ tag E k n (encBody E k n p) ++ n := rfl
  have htake : c.take p.length = encBody E k n p := by
    rw [hc, List.append_assoc]; exact List.take_left' hb
  refine ⟨?_, ?_, ?_, htake⟩
  · rw [gcmSeal_length, hn]
  · unfold last12; rw [hc]; exact (split_nonce _ _ n hn).1
  · rw [htake, hc, List.append_assoc, List.drop_left' hb]
    exact List.take_left' (tag_length ..)

/-- beyond `gcmMaxDataSize` the layout is NOT opened (`gcm.Open`'s size check) — which is why
`Encrypt` refuses such data up front (`gcmSealE`). -/
theorem gcm_open_seal_too_large {κ : Type} (E : κ → Block → Block) (k : κ) (n p : Bytes)
    (hn : n.length = 12) (hp : maxDataSize < p.length) :
    gcmOpen E k (gcmSeal E k n p) = none := by
  cases hq : gcmOpen E k (gcmSeal E k n p) with
  | none => rfl
  | some q =>
    exfalso
    have := (gcm_open_iff_seal E k (gcmSeal E k n p) q).mp hq
    rw [gcmSeal_length, hn] at this
    omega

/-! ### non-vacuity -/

/-- a toy block function (NOT a permutation: the theorems really need nothing about `E`). -/
def toyE (k : UInt64) (b : Block) : Block := ⟨b.lo + k, b.hi ^^^ k⟩

example : gcmOpen toyE 7 (gcmSeal toyE 7 (List.replicate 12 1) [1, 2, 3]) = some [1, 2, 3] :=
  gcm_open_seal toyE 7 _ _ rfl (by decide)
example : gcmOpen toyE 7 (gcmSeal toyE 7 (List.replicate 12 1) []) = some [] :=
  gcm_open_seal toyE 7 _ _ rfl (by decide)
example : (gcmSeal toyE 7 (List.replicate 12 9) [1, 2, 3]).length = 31 := by decide
example : gcmOpen toyE 7 (List.replicate 27 0) = none := open_short _ _ _ (by decide)
-- flipping one ciphertext bit of a genuine layout is rejected (toy cipher, concrete).
set_option maxRecDepth 8000 in
example : gcmOpen toyE 7 ((gcmSeal toyE 7 (List.replicate 12 1) [1, 2, 3]).set 0 0xFF) = none := by decide

/-! ### NIST AES-256-GCM vectors on the AES instance (kernel-evaluated concrete checks) -/

/-- gcm-spec test case 13 (empty payload) and 14 (one zero block) through `goEncrypt`/`goDecrypt`
of the model with AES-256: concrete, evaluated by the kernel (Proofs/GcmVectors.lean). -/
theorem nist_aes256_gcm_vectors :
    (goEncrypt Aes.cipher GcmVectors.zkey GcmVectors.znonce []).toOption = some GcmVectors.tc13 ∧
    (goEncrypt Aes.cipher GcmVectors.zkey GcmVectors.znonce (List.replicate 16 0)).toOption = some GcmVectors.tc14 ∧
    (goDecrypt Aes.cipher GcmVectors.zkey GcmVectors.tc14).toOption = some (List.replicate 16 0) :=
  ⟨GcmVectors.nist_tc13_seal, GcmVectors.nist_tc14_seal, GcmVectors.nist_tc14_open⟩

/-! ## codec laws of the reference implementation -/
open AsherahVerif.Codec

/-- **base64** (standard alphabet, padding — what encoding/json uses for `[]byte`): decoding an
encoding gives the bytes back, for every byte string. -/
theorem base64_roundtrip (b : Bytes) : b64Decode (b64Encode b) = some b := b64_decode_encode b

/-- **JSON text**: parsing what the printer (Go's member order and escaping) printed gives the value
back — every value: any nesting, any integers, any strings (quotes, controls, <>&, U+2028/9, astral). -/
theorem json_roundtrip (v : JV) : parseJson v.print = some v := parseJson_print v

/-- **DataRowRecord JSON**, string level: all records — binary keys and data of any length
(every padding class), any int64 stamps, any ids, revoked flag, with/without `Key`/`ParentKeyMeta`. -/
theorem drr_json_roundtrip (r : DRR) : decodeDRR (encodeDRR r) = some r := decodeDRR_encodeDRR r

/-- **EnvelopeKeyRecord JSON** (metastore rows, SQL `key_record`), string level, all records. -/
theorem ekr_json_roundtrip (r : EKR) : decodeEKR (encodeEKR r) = some r := decodeEKR_encodeEKR r

/-- the structured layer on its own (record ↔ JSON value), independent of the text syntax. -/
theorem record_value_roundtrips (m : KeyMeta) (e : EKR) (d : DRR) :
    KeyMeta.fromJson m.toJson = some m ∧ EKR.fromJson e.toJson = some e ∧ DRR.fromJson d.toJson = some d :=
  ⟨keyMeta_fromJson_toJson m, ekr_fromJson_toJson e, drr_fromJson_toJson d⟩

/-- `Revoked` is emitted only when true, `ParentKeyMeta` only when present, `Key` is the base64 text,
member order Revoked, Created, Key, ParentKeyMeta — the documented shape, for every record. -/
theorem ekr_json_shape (e : EKR) :
    e.toJson = .obj ((if e.revoked then [(nRevoked, JV.bool true)] else []) ++
      [(nCreated, .num e.created.toInt), (nKey, .str (b64Encode e.key))] ++
      (match e.parent with
       | some m => [(nParentKeyMeta, .obj [(nKeyId, .str m.id), (nCreated, .num m.created.toInt)])]
       | none => [])) := by
  cases h : e.parent <;> simp [EKR.toJson, KeyMeta.toJson, h]

/-- **SQL row** `encryption_key(id, created, key_record)`: the row built for a record reads back as
that record, and carries the id and created it was stored under. -/
theorem sql_row_roundtrip (id : Str) (created : Int64) (e : EKR) :
    sqlRowDecode (sqlRowOf id created e) = some e ∧ (sqlRowOf id created e).id = id ∧
    (sqlRowOf id created e).created = created := sqlRowDecode_sqlRowOf id created e

/-- **DynamoDB item, aws-v2 plugin**: item → (Id, record) round trip for all ids/stamps/records. -/
theorem ddb2_item_roundtrip (id : Str) (created : Int64) (e : EKR) :
    avToItem (itemToAV id created e) = some (id, e) := avToItem_itemToAV id created e

/-- **DynamoDB item, aws-v1 plugin** (empty strings become NULL on the way in): the `KeyRecord`
attribute of the stored item decodes to the record. -/
theorem ddb1_item_roundtrip (id : Str) (created : Int64) (e : EKR) :
    (match itemToAV1 id created e with
     | .m kvs => (Codec.lookup nKeyRecord kvs).bind avToEKR
     | _ => none) = some e ∧
    avToEKR (ekrToAV1 e) = some e ∧ avToEKR (ekrToAV e) = some e :=
  ⟨item1_keyRecord id created e, avToEKR_ekrToAV1 e, avToEKR_ekrToAV e⟩

/-- the two plugins' items can be read by each other's decoder (same tree up to "" ↦ NULL). -/
theorem ddb_cross_version (e : EKR) : avToEKR (ekrToAV1 e) = avToEKR (ekrToAV e) := by
  rw [avToEKR_ekrToAV1, avToEKR_ekrToAV]

/-- **protobuf mapping**: `toProtobufDRR` then `fromProtobufDRR` returns the record with
`Revoked := false` (there is no protobuf field for it; no decrypt path reads it) — for every record
that has `Key` and `ParentKeyMeta`, which is every record `Encrypt` returns. -/
theorem pb_roundtrip (e : EKR) (m : KeyMeta) (data : Bytes) (hp : e.parent = some m) :
    toPb ⟨some e, data⟩ = .ok ⟨some ⟨e.created, e.key, some ⟨m.created, m.id⟩⟩, data⟩ ∧
    fromPb ⟨some ⟨e.created, e.key, some ⟨m.created, m.id⟩⟩, data⟩ = ⟨some { e with revoked := false }, data⟩ :=
  fromPb_toPb e m data hp

/-- `toProtobufDRR` panics (nil dereference) exactly on records without `Key` or without
`ParentKeyMeta`; whatever `fromProtobufDRR` builds can be mapped back without panic. -/
theorem pb_to_panics_iff (d : DRR) :
    (toPb d = .panic ↔ (d.key = none ∨ ∃ e, d.key = some e ∧ e.parent = none)) ∧
    (∀ p, ∃ q, toPb (fromPb p) = .ok q) :=
  ⟨toPb_panic_iff d, toPb_fromPb_ok⟩

/-- the full-strength round trip `fromPb (toPb d) = d` is FALSE for revoked records: -/
def pb_roundtrip_full : Prop :=
  ∀ (e : EKR) (m : KeyMeta) (data : Bytes), e.parent = some m →
    ∀ p, toPb ⟨some e, data⟩ = .ok p → fromPb p = ⟨some e, data⟩

theorem pb_drops_revoked_counterexample : ¬ pb_roundtrip_full := by
  intro h
  have := h ⟨true, 0, [], some ⟨[], 0⟩⟩ ⟨[], 0⟩ [] rfl _ rfl
  exact absurd this (by decide)

/-- **key-id format**: `_SK_<service>_<product>[_<suffix>]`, `_IK_<partition>_<service>_<product>[_<suffix>]`. -/
theorem keyid_format (pa s p x : Str) :
    skId s p none = "_SK_".toList ++ s ++ "_".toList ++ p ∧
    skId s p (some x) = "_SK_".toList ++ s ++ "_".toList ++ p ++ "_".toList ++ x ∧
    ikId pa s p none = "_IK_".toList ++ pa ++ "_".toList ++ s ++ "_".toList ++ p ∧
    ikId pa s p (some x) = "_IK_".toList ++ pa ++ "_".toList ++ s ++ "_".toList ++ p ++ "_".toList ++ x := by
  have h1 : "_".toList = ['_'] := by decide
  simp [skId, ikId, withSuffix, pSK, pIK, h1]

/-- **key-id parsing is unambiguous exactly under this condition**: when no component contains
'_', parsing a rendered id gives the components back (SK and IK, with and without suffix). -/
theorem keyid_parse_roundtrip (k : KeyId)
    (h : match k with
      | .sk s p x => '_' ∉ s ∧ '_' ∉ p ∧ (∀ y, x = some y → '_' ∉ y)
      | .ik pa s p x => '_' ∉ pa ∧ '_' ∉ s ∧ '_' ∉ p ∧ (∀ y, x = some y → '_' ∉ y)) :
    parseKeyId k.render = some k := by
  have hSK : '_' ∉ ['S', 'K'] := by decide
  have hIK : '_' ∉ ['I', 'K'] := by decide
  cases k with
  | sk s p x =>
    obtain ⟨hs, hp, hx⟩ := h
    cases x with
    | none =>
      have : skId s p none = [] ++ '_' :: (['S', 'K'] ++ '_' :: (s ++ '_' :: p)) := by simp [skId, withSuffix, pSK]
      simp only [KeyId.render, parseKeyId, this]
      rw [splitU_append _ _ (by simp), splitU_append _ _ hSK, splitU_append _ _ hs, splitU_no _ hp]
      rfl
    | some y =>
      have hy := hx y rfl
      have : skId s p (some y) = [] ++ '_' :: (['S', 'K'] ++ '_' :: (s ++ '_' :: (p ++ '_' :: y))) := by
        simp [skId, withSuffix, pSK]
      simp only [KeyId.render, parseKeyId, this]
      rw [splitU_append _ _ (by simp), splitU_append _ _ hSK, splitU_append _ _ hs, splitU_append _ _ hp, splitU_no _ hy]
      rfl
  | ik pa s p x =>
    obtain ⟨hpa, hs, hp, hx⟩ := h
    cases x with
    | none =>
      have : ikId pa s p none = [] ++ '_' :: (['I', 'K'] ++ '_' :: (pa ++ '_' :: (s ++ '_' :: p))) := by
        simp [ikId, withSuffix, pIK]
      simp only [KeyId.render, parseKeyId, this]
      rw [splitU_append _ _ (by simp), splitU_append _ _ hIK, splitU_append _ _ hpa, splitU_append _ _ hs, splitU_no _ hp]
      rfl
    | some y =>
      have hy := hx y rfl
      have : ikId pa s p (some y) = [] ++ '_' :: (['I', 'K'] ++ '_' :: (pa ++ '_' :: (s ++ '_' :: (p ++ '_' :: y)))) := by
        simp [ikId, withSuffix, pIK]
      simp only [KeyId.render, parseKeyId, this]
      rw [splitU_append _ _ (by simp), splitU_append _ _ hIK, splitU_append _ _ hpa, splitU_append _ _ hs,
        splitU_append _ _ hp, splitU_no _ hy]
      rfl

/-- without that condition ids are ambiguous: different (partition, service, product[, suffix])
render to the same id — among components with '_' and between suffixed / unsuffixed naming. -/
theorem keyid_ambiguous_counterexample :
    ikId "a_b".toList "c".toList "d".toList none = ikId "a".toList "b_c".toList "d".toList none ∧
    ikId "a".toList "b".toList "c".toList (some "d".toList) = ikId "a_b".toList "c".toList "d".toList none ∧
    skId "a".toList "b".toList (some "c".toList) = skId "a_b".toList "c".toList none := by decide

/-- the SK and IK namespaces never collide, whatever the components. -/
theorem sk_ik_ids_disjoint (pa s p : Str) (x y : Option Str) : skId s p x ≠ ikId pa s p y :=
  skId_ne_ikId pa s p x y

/-- **AWS KMS envelope JSON** (both KMS plugins): structured round trip incl. the `kmsKeks` array;
with `json_roundtrip` this is the string-level law as well. -/
theorem kms_envelope_roundtrip (e : KmsEnvelope) :
    KmsEnvelope.fromJson e.toJson = some e ∧ (parseJson e.toJson.print).bind KmsEnvelope.fromJson = some e := by
  refine ⟨kmsEnvelope_fromJson_toJson e, ?_⟩
  rw [parseJson_print]; exact kmsEnvelope_fromJson_toJson e

/-- **whole hierarchies**: the SK row, IK row and DRR JSON the reference ENCODER builds from any
keys / 12-byte nonces / ids / stamps / flags / payload are decrypted by the reference DECODER
(JSON → base64 → master ⊢ SK ⊢ IK ⊢ DRK ⊢ data, rows found by (id, created)) to the payload — for
every block cipher.  The correspondence shows on every run that the SDK is interchangeable with
either side. -/
theorem chain_roundtrip (C : Cipher) (r : BuildReq) (b : Built)
    (h1 : r.n1.length = 12) (h2 : r.n2.length = 12) (h3 : r.n3.length = 12) (h4 : r.n4.length = 12)
    (h : buildChain C r = .ok b) :
    decryptChain C [b.skRow, b.ikRow] r.master b.drr = .ok r.payload :=
  decryptChain_buildChain C r b h1 h2 h3 h4 h

/-- all codec round trips in one statement (the inventory name of DESIGN.md appendix C). -/
theorem codec_roundtrips (b : Bytes) (v : JV) (d : DRR) (e : EKR) (id : Str) (c : Int64) :
    b64Decode (b64Encode b) = some b ∧ parseJson v.print = some v ∧
    decodeDRR (encodeDRR d) = some d ∧ decodeEKR (encodeEKR e) = some e ∧
    sqlRowDecode (sqlRowOf id c e) = some e ∧ avToItem (itemToAV id c e) = some (id, e) ∧
    avToEKR (ekrToAV1 e) = some e ∧ parseInt64Str (intDigits c.toInt) = some c :=
  ⟨b64_decode_encode b, parseJson_print v, decodeDRR_encodeDRR d, decodeEKR_encodeEKR e,
   (sqlRowDecode_sqlRowOf id c e).1, avToItem_itemToAV id c e, avToEKR_ekrToAV1 e, parseInt64Str_intDigits c⟩

/-! ### non-vacuity of the codec laws (concrete values, evaluated) -/

def exMeta : KeyMeta := ⟨"_SK_servicefoo_systembar".toList, 1534553054⟩
def exIK : EKR := ⟨false, 1534553075, [0x4e, 0x25, 0x42, 0x25, 0x31], some exMeta⟩
def exRevoked : EKR := ⟨true, -1, [], none⟩
def exDRR : DRR := ⟨some ⟨false, 1534553138, [1, 2, 3, 255], some ⟨"_IK_112313_servicefoo_systembar".toList, 1534553075⟩⟩, [0, 9]⟩

example : String.ofList (encodeEKR exRevoked) = "{\"Revoked\":true,\"Created\":-1,\"Key\":\"\"}" := by decide
example : String.ofList (encodeEKR exIK) =
    "{\"Created\":1534553075,\"Key\":\"TiVCJTE=\",\"ParentKeyMeta\":{\"KeyId\":\"_SK_servicefoo_systembar\",\"Created\":1534553054}}" := by
  decide +kernel
example : decodeEKR (encodeEKR exIK) = some exIK := ekr_json_roundtrip exIK
example : decodeDRR (encodeDRR exDRR) = some exDRR := drr_json_roundtrip exDRR
-- the decoder accepts another member order, white space, explicit defaults and \u escapes
example : decodeEKR " { \"Key\" : \"TiVCJTE=\" ,\n \"Revoked\":false, \"Created\" :1534553075 }".toList
    = some ⟨false, 1534553075, [0x4e, 0x25, 0x42, 0x25, 0x31], none⟩ := by decide +kernel
example : b64Encode [0x4e, 0x25, 0x42] = "TiVC".toList ∧ b64Decode "TiVCJQ==".toList = some [0x4e, 0x25, 0x42, 0x25] ∧
    b64Decode "TiVCJR==".toList = none ∧ b64Decode "TiV".toList = none := by decide
example : ikId "112313".toList "servicefoo".toList "systembar".toList none = "_IK_112313_servicefoo_systembar".toList := by decide
example : parseKeyId "_IK_112313_servicefoo_systembar_us-west-2".toList =
    some (.ik "112313".toList "servicefoo".toList "systembar".toList (some "us-west-2".toList)) := by decide
example : toPb ⟨none, []⟩ = .panic := rfl
example : sqlRowDecode (sqlRowOf "_SK_a_b".toList 7 exRevoked) = some exRevoked := (sql_row_roundtrip _ _ _).1
example : KmsEnvelope.fromJson (KmsEnvelope.toJson ⟨[1, 2], [⟨"us-west-2".toList, "arn:aws:kms:x".toList, [3]⟩]⟩) =
    some ⟨[1, 2], [⟨"us-west-2".toList, "arn:aws:kms:x".toList, [3]⟩]⟩ := (kms_envelope_roundtrip _).1
example : String.ofList (KmsEnvelope.toJson ⟨[1, 2], [⟨"r".toList, "a".toList, [3]⟩]⟩).print =
    "{\"encryptedKey\":\"AQI=\",\"kmsKeks\":[{\"region\":\"r\",\"arn\":\"a\",\"encryptedKek\":\"Aw==\"}]}" := by decide +kernel
example : avToItem (itemToAV "id".toList 5 exRevoked) = some ("id".toList, exRevoked) := ddb2_item_roundtrip _ _ _
-- a toy cipher hierarchy: built, then decrypted through all layers (instance of `chain_roundtrip`)
def toyCipher : Cipher := { κ := UInt64, prep := fun b => some (UInt64.ofNat b.length), E := toyE }
def toyReq : BuildReq := {
  master := [1, 2], sk := [3], ik := [4, 5], drk := [6, 7, 8],
  n1 := List.replicate 12 1, n2 := List.replicate 12 2, n3 := List.replicate 12 3, n4 := List.replicate 12 4,
  partition := "p".toList, service := "s".toList, product := "q\"<".toList, suffix := some "us".toList,
  skCreated := 10, ikCreated := -20, drkCreated := 30, skRevoked := true, ikRevoked := false, payload := [42, 43] }
example : ((buildChain toyCipher toyReq).toOption.bind fun b =>
    (decryptChain toyCipher [b.skRow, b.ikRow] toyReq.master b.drr).toOption) = some [42, 43] := by decide +kernel
-- … and with the rows swapped or the IK row missing the decoder reports the missing key, it does not guess
example : ((buildChain toyCipher toyReq).toOption.map fun b =>
    (decryptChain toyCipher [b.skRow] toyReq.master b.drr).toOption) = some none := by decide +kernel

/-! ## the tie to the source: regenerated facts = what the model assumes

`Generated/Fmt.lean` is rewritten from `/repo` on every run by go/cmd/extract/fmt.go;
`Expected/Fmt.lean` is the hand-written counterpart.  Each conjunct is a finite fact (`decide`). -/

/-- sizes: nonce 12, tag 16, AES-256 key 32, static master key 32 — and they are the sizes of the
model (`Gcm.nonceSize`, `Gcm.tagSize`). -/
theorem consts_match_documented :
    Generated.Fmt.gcmNonceSize = 12 ∧ Generated.Fmt.gcmTagSize = 16 ∧
    Generated.Fmt.AES256KeySize = 32 ∧ Generated.Fmt.staticKMSKeySize = 32 ∧
    Generated.Fmt.gcmNonceSize = Gcm.nonceSize ∧ Generated.Fmt.gcmTagSize = Gcm.tagSize ∧
    Generated.Fmt.gcmNonceSize + Generated.Fmt.gcmTagSize = 28 ∧
    Generated.Fmt.gcmBlockSizeExpr = Expected.Fmt.gcmBlockSizeExpr ∧
    Generated.Fmt.gcmMaxDataSizeExpr = Expected.Fmt.gcmMaxDataSizeExpr ∧
    Gcm.maxDataSize = ((1 <<< 32) - 2) * 16 := by decide

/-- the JSON member names and field types of KeyMeta / DataRowRecord / EnvelopeKeyRecord are the
documented ones (Key/Data, Created, `Key` a []byte i.e. base64, ParentKeyMeta{KeyId,Created},
`Revoked,omitempty`, `ID` never serialised), in Go's emission order. -/
theorem tags_match_documented :
    Generated.Fmt.tagsKeyMeta = Expected.Fmt.tagsKeyMeta ∧
    Generated.Fmt.tagsDataRowRecord = Expected.Fmt.tagsDataRowRecord ∧
    Generated.Fmt.tagsEnvelopeKeyRecord = Expected.Fmt.tagsEnvelopeKeyRecord := by decide

/-- the member names the reference codec uses are exactly the regenerated tags. -/
theorem codec_names_are_the_tags :
    (Generated.Fmt.tagsKeyMeta.map fun t => t.2.2.toList) = [Codec.nKeyId, Codec.nCreated] ∧
    (Generated.Fmt.tagsDataRowRecord.map fun t => t.2.2.toList) = [Codec.nKey, Codec.nData] ∧
    (Generated.Fmt.tagsEnvelopeKeyRecord.map fun t => t.2.2.toList) =
      [Codec.nRevoked ++ ",omitempty".toList, "-".toList, Codec.nCreated, Codec.nKey,
       Codec.nParentKeyMeta ++ ",omitempty".toList] := by decide

/-- shape of `cryptoFunc.Encrypt` / `Decrypt` / the cipher factory / the static KMS (which applies the
same AEAD under the master key): the model's branches mirror these; WHERE the nonce and tag sit is
not a syntactic fact but checked behaviourally on every run (raw AEAD correspondence, both directions). -/
theorem aead_shape_matches :
    Generated.Fmt.cryptoEncryptSkeleton = Expected.Fmt.cryptoEncryptSkeleton ∧
    Generated.Fmt.cryptoDecryptSkeleton = Expected.Fmt.cryptoDecryptSkeleton ∧
    Generated.Fmt.staticKMSEncryptKeySkeleton = Expected.Fmt.staticKMSEncryptKeySkeleton ∧
    Generated.Fmt.staticKMSDecryptKeySkeleton = Expected.Fmt.staticKMSDecryptKeySkeleton ∧
    Generated.Fmt.decryptRowSkeleton = Expected.Fmt.decryptRowSkeleton := by decide

/-- key-id format strings of partition.go. -/
theorem keyid_formats_match :
    Generated.Fmt.keyIdDefaultPartitionSystemKeyID = Expected.Fmt.keyIdDefaultPartitionSystemKeyID ∧
    Generated.Fmt.keyIdDefaultPartitionIntermediateKeyID = Expected.Fmt.keyIdDefaultPartitionIntermediateKeyID ∧
    Generated.Fmt.keyIdSuffixedPartitionSystemKeyID = Expected.Fmt.keyIdSuffixedPartitionSystemKeyID ∧
    Generated.Fmt.keyIdSuffixedPartitionIntermediateKeyID = Expected.Fmt.keyIdSuffixedPartitionIntermediateKeyID := by decide

/-- SQL statements / row codec shape, DynamoDB attribute names, envelope tags and field mappings of
both plugins, protobuf field table and the to/fromProtobufDRR field mapping. -/
theorem carriers_match_documented :
    Generated.Fmt.sqlLoadKeyQuery = Expected.Fmt.sqlLoadKeyQuery ∧
    Generated.Fmt.sqlStoreKeyQuery = Expected.Fmt.sqlStoreKeyQuery ∧
    Generated.Fmt.sqlLoadLatestQuery = Expected.Fmt.sqlLoadLatestQuery ∧
    Generated.Fmt.ddb1AttrNames = Expected.Fmt.ddb1AttrNames ∧
    Generated.Fmt.ddb2AttrNames = Expected.Fmt.ddb2AttrNames ∧
    Generated.Fmt.ddb1Envelope = Expected.Fmt.ddb1Envelope ∧
    Generated.Fmt.ddb2Item = Expected.Fmt.ddb2Item ∧
    Generated.Fmt.ddb2Envelope = Expected.Fmt.ddb2Envelope ∧
    Generated.Fmt.ddb2KeyMeta = Expected.Fmt.ddb2KeyMeta ∧
    Generated.Fmt.ddb1StoreFields = Expected.Fmt.ddb1StoreFields ∧
    Generated.Fmt.ddb2StoreFields = Expected.Fmt.ddb2StoreFields ∧
    Generated.Fmt.ddb2DecodeItemFields = Expected.Fmt.ddb2DecodeItemFields ∧
    Generated.Fmt.toProtobufDRRFields = Expected.Fmt.toProtobufDRRFields ∧
    Generated.Fmt.fromProtobufDRRFields = Expected.Fmt.fromProtobufDRRFields ∧
    Generated.Fmt.protoDataRowRecord = Expected.Fmt.protoDataRowRecord ∧
    Generated.Fmt.protoEnvelopeKeyRecord = Expected.Fmt.protoEnvelopeKeyRecord ∧
    Generated.Fmt.protoKeyMeta = Expected.Fmt.protoKeyMeta ∧
    (Generated.Fmt.ddb1AttrNames.map String.toList) = [Codec.nId, Codec.nCreated, Codec.nKeyRecord] ∧
    (Generated.Fmt.ddb2AttrNames.map String.toList) = [Codec.nId, Codec.nCreated, Codec.nKeyRecord] := by decide

end AsherahVerif.Props.C18
