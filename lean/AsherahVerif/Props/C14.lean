import AsherahVerif.Proofs.KeyRace
/-
C14 — racing key creators converge on persisted keys; the metastore is never overwritten.

Theorems about `AsherahVerif.KeyRace` (Model/KeyRace.lean): any number N of processes, each a
fresh factory without key caching, each encrypting once for the same partition against one shared
insert-only metastore, interleaved at the granularity of single metastore calls by an arbitrary
scheduler (`sched : List Nat` = which process makes its next call), from ANY well-formed starting
store (cold, warm, expired, revoked, rotated …), for any clock value and policy.
The model is tied to envelope.go by the gate-metastore harness go/cmd/hxrace: every interleaving of
2 processes (and short 3-process ones) from ten starting states is executed on the real SDK and
compared call by call (`md_conc race`).  With key caches enabled a process performs a subset of
these calls followed possibly by a second run of the same loader; sequential cache behaviour is
engine E3; injected metastore faults are C02.
-/
namespace AsherahVerif.Props.C14
open AsherahVerif.KeyRace

/-- a starting store is well formed when every stored IK's SK is stored (true of every store the
SDK itself produced: `ik_rows_have_parents` below shows the SDK keeps it that way). -/
def WF (store : List Row) : Prop :=
  ∀ r, r ∈ store → r.kid = .ik → ∃ s, s ∈ store ∧ s.kid = .sk ∧ s.created = r.parent

/-- **no key record already in the metastore is ever modified or removed**: every row present at
any time is present, unchanged, at every later time — any N, any schedule, any starting store. -/
theorem rows_immutable (p : Policy) (store : List Row) (n : Nat) (s1 s2 : List Nat) :
    ∀ r, r ∈ (run p (init store n) s1).store → r ∈ (run p (run p (init store n) s1) s2).store :=
  run_store_grows p _ s2

/-- the SDK only ever adds IK rows whose SK row is stored. -/
theorem ik_rows_have_parents (p : Policy) (store : List Row) (n : Nat) (hw : WF store) (sched : List Nat) :
    WF (run p (init store n) sched).store :=
  (run_inv p _ (inv_init store n hw) sched).chain

/-- **every process ends up encrypting under a key that is stored and that all the others can
load**: whenever a process has finished, the IK it used is a stored row holding exactly the
material it used, and that row's SK is stored too — whichever process won each insert. -/
theorem finished_uses_stored_key (p : Policy) (store : List Row) (n : Nat) (hw : WF store) (sched : List Nat)
    (i : Nat) (u : Used) (hd : (run p (init store n) sched).procs[i]? = some (.done u)) :
    ∃ r, r ∈ (run p (init store n) sched).store ∧ r.kid = .ik ∧ r.created = u.ikCreated ∧ r.mat = u.ikMat ∧
      ∃ s, s ∈ (run p (init store n) sched).store ∧ s.kid = .sk ∧ s.created = u.skCreated ∧ r.parent = s.created := by
  have h := (run_inv p _ (inv_init store n hw) sched).procs i _ hd
  obtain ⟨r, hr, a, b, c, d, s, hs, e, f⟩ := h
  exact ⟨r, hr, a, b, c, s, hs, e, f, d.trans f.symm⟩

/-- **a process whose insert is refused discards its unsaved key and adopts a stored one**: the
material a finished process uses is never a material that is not in the store; in particular a
process that generated `(i, k)` and lost the insert cannot be using `(i, k)`. -/
theorem unsaved_key_never_used (p : Policy) (store : List Row) (n : Nat) (hw : WF store) (sched : List Nat)
    (i : Nat) (u : Used) (hd : (run p (init store n) sched).procs[i]? = some (.done u))
    (hns : ∀ r, r ∈ (run p (init store n) sched).store → r.mat ≠ u.ikMat) : False := by
  obtain ⟨r, hr, _, _, hm, _⟩ := finished_uses_stored_key p store n hw sched i u hd
  exact hns r hr hm

/-- **no process fails**: with a metastore that accepts calls, no interleaving drives a process
into the "key not found after retry" errors. -/
theorem never_fails (p : Policy) (store : List Row) (n : Nat) (hw : WF store) (sched : List Nat) (i : Nat) :
    (run p (init store n) sched).procs[i]? ≠ some .failed := by
  intro hf
  exact (run_inv p _ (inv_init store n hw) sched).procs i _ hf

/-- every process finishes after at most 8 of its own steps (no livelock): stated for the
round-robin completion of any state — each `step` strictly advances the program counter. -/
def rank : Pc → Nat
  | .start => 8 | .loadParent _ => 7 | .llSK => 6 | .storeSK => 5 | .llSKretry => 4
  | .storeIK _ => 3 | .llIKretry _ => 2 | .loadParent2 _ => 1 | .done _ => 0 | .failed => 0

theorem step_decreases_rank (p : Policy) (st st' : St) (i : Nat) (pc : Pc)
    (hpc : st.procs[i]? = some pc) (hs : step p st i = some st') :
    ∃ pc', st'.procs[i]? = some pc' ∧ rank pc' < rank pc := by
  unfold step at hs
  simp only [hpc] at hs
  have key : ∀ q (s' : St), s'.procs = setPc st.procs i q → s'.procs[i]? = some q := by
    intro q s' e
    rw [e, getElem?_setPc]; simp [hpc]
  cases pc <;> simp only at hs
  all_goals (repeat' split at hs)
  all_goals (first | (simp at hs; done) | skip)
  all_goals (injection hs with hs; subst hs)
  all_goals (exact ⟨_, key _ _ rfl, by simp [rank]⟩)

/-- two racers from a cold store, one interleaving (non-vacuity; the loser adopts the winner's key). -/
example :
    let p : Policy := { now := 5000000000, expireAfter := 600000000000, precision := 1000000000 }
    (run p (init [] 2) [0, 0, 0, 1, 0, 1, 1, 1]).procs =
      [.done ⟨5, (0, 1), 5⟩, .done ⟨5, (0, 1), 5⟩] := by decide

example : WF [] := by intro r h; simp at h

end AsherahVerif.Props.C14
