import AsherahVerif.Proofs.KeyRace
import AsherahVerif.Proofs.ExtraKeyRace
/-
C14 — racing key creators converge on persisted keys; the metastore is never overwritten.

Theorems about `AsherahVerif.KeyRace` (Model/KeyRace.lean): any number N of processes, each a
fresh factory without key caching, each encrypting once for the same partition against one shared
insert-only metastore, interleaved at the granularity of single metastore calls by an arbitrary
scheduler (`sched : List Nat` = which process makes its next call), from ANY well-formed starting
store (cold, warm, expired, revoked, rotated …), for any clock value and policy.
The model is tied to envelope.go by the gate-metastore harness go/cmd/hxrace: every interleaving of
2 processes (and short 3-process ones) from ten starting states is executed on the real SDK and
compared call by call (`md_conc race`).  With key caches enabled a process performs a subset of
these calls followed possibly by a second run of the same loader; sequential cache behaviour is
engine E3; injected metastore faults are C02.
-/
namespace AsherahVerif.Props.C14
open AsherahVerif.KeyRace

/-- a starting store is well formed when every stored IK's SK is stored (true of every store the
SDK itself produced: `ik_rows_have_parents` below shows the SDK keeps it that way). -/
def WF (store : List Row) : Prop :=
  ∀ r, r ∈ store → r.kid = .ik → ∃ s, s ∈ store ∧ s.kid = .sk ∧ s.created = r.parent

/-- **no key record already in the metastore is ever modified or removed**: every row present at
any time is present, unchanged, at every later time — any N, any schedule, any starting store. -/
theorem rows_immutable (p : Policy) (store : List Row) (n : Nat) (s1 s2 : List Nat) :
    ∀ r, r ∈ (run p (init store n) s1).store → r ∈ (run p (run p (init store n) s1) s2).store :=
  run_store_grows p _ s2

/-- the SDK only ever adds IK rows whose SK row is stored. -/
theorem ik_rows_have_parents (p : Policy) (store : List Row) (n : Nat) (hw : WF store) (sched : List Nat) :
    WF (run p (init store n) sched).store :=
  (run_inv p _ (inv_init store n hw) sched).chain

/-- **every process ends up encrypting under a key that is stored and that all the others can
load**: whenever a process has finished, the IK it used is a stored row holding exactly the
material it used, and that row's SK is stored too — whichever process won each insert. -/
theorem finished_uses_stored_key (p : Policy) (store : List Row) (n : Nat) (hw : WF store) (sched : List Nat)
    (i : Nat) (u : Used) (hd : (run p (init store n) sched).procs[i]? = some (.done u)) :
    ∃ r, r ∈ (run p (init store n) sched).store ∧ r.kid = .ik ∧ r.created = u.ikCreated ∧ r.mat = u.ikMat ∧
      ∃ s, s ∈ (run p (init store n) sched).store ∧ s.kid = .sk ∧ s.created = u.skCreated ∧ r.parent = s.created := by
  have h := (run_inv p _ (inv_init store n hw) sched).procs i _ hd
  obtain ⟨r, hr, a, b, c, d, s, hs, e, f⟩ := h
  exact ⟨r, hr, a, b, c, s, hs, e, f, d.trans f.symm⟩

/-- **a process whose insert is refused discards its unsaved key and adopts a stored one**: the
material a finished process uses is never a material that is not in the store; in particular a
process that generated `(i, k)` and lost the insert cannot be using `(i, k)`. -/
theorem unsaved_key_never_used (p : Policy) (store : List Row) (n : Nat) (hw : WF store) (sched : List Nat)
    (i : Nat) (u : Used) (hd : (run p (init store n) sched).procs[i]? = some (.done u))
    (hns : ∀ r, r ∈ (run p (init store n) sched).store → r.mat ≠ u.ikMat) : False := by
  obtain ⟨r, hr, _, _, hm, _⟩ := finished_uses_stored_key p store n hw sched i u hd
  exact hns r hr hm

/-- **no process fails**: with a metastore that accepts calls, no interleaving drives a process
into the "key not found after retry" errors. -/
theorem never_fails (p : Policy) (store : List Row) (n : Nat) (hw : WF store) (sched : List Nat) (i : Nat) :
    (run p (init store n) sched).procs[i]? ≠ some .failed := by
  intro hf
  exact (run_inv p _ (inv_init store n hw) sched).procs i _ hf

/-- every process finishes after at most 8 of its own steps (no livelock): stated for the
round-robin completion of any state — each `step` strictly advances the program counter. -/
def rank : Pc → Nat
  | .start => 8 | .loadParent _ => 7 | .llSK => 6 | .storeSK => 5 | .llSKretry => 4
  | .storeIK _ => 3 | .llIKretry _ => 2 | .loadParent2 _ => 1 | .done _ => 0 | .failed => 0

theorem step_decreases_rank (p : Policy) (st st' : St) (i : Nat) (pc : Pc)
    (hpc : st.procs[i]? = some pc) (hs : step p st i = some st') :
    ∃ pc', st'.procs[i]? = some pc' ∧ rank pc' < rank pc := by
  unfold step at hs
  simp only [hpc] at hs
  have key : ∀ q (s' : St), s'.procs = setPc st.procs i q → s'.procs[i]? = some q := by
    intro q s' e
    rw [e, getElem?_setPc]; simp [hpc]
  cases pc <;> simp only at hs
  all_goals (repeat' split at hs)
  all_goals (first | (simp at hs; done) | skip)
  all_goals (injection hs with hs; subst hs)
  all_goals (exact ⟨_, key _ _ rfl, by simp [rank]⟩)

/-- two racers from a cold store, one interleaving (non-vacuity; the loser adopts the winner's key). -/
example :
    let p : Policy := { now := 5000000000, expireAfter := 600000000000, precision := 1000000000 }
    (run p (init [] 2) [0, 0, 0, 1, 0, 1, 1, 1]).procs =
      [.done ⟨5, (0, 1), 5⟩, .done ⟨5, (0, 1), 5⟩] := by decide

example : WF [] := by intro r h; simp at h

/-! ### convergence (strengthening) -/

/-- **the primary key (kid, created) stays unique**: every step preserves uniqueness (an insert
that would duplicate a key is refused), hence every reachable store has unique keys. -/
theorem store_keys_unique (p : Policy) (store : List Row) (n : Nat) (hu : UniqueKeys store) (sched : List Nat) :
    UniqueKeys (run p (init store n) sched).store :=
  run_uniq p (init store n) hu sched

theorem store_keys_unique_step (p : Policy) (st st' : St) (i : Nat) (hu : UniqueKeys st.store)
    (hs : step p st i = some st') : UniqueKeys st'.store :=
  step_uniq p st st' i hu hs

/-- no valid intermediate key at the start of the race. -/
def NoValidIK (p : Policy) (store : List Row) : Prop :=
  match latest store .ik with | none => True | some r => invalid p r = true

/-- no intermediate key row carries a creation stamp later than the one the racers will use
(no row "from the future"; see `converge_needs_no_future_rows_counterexample`). -/
def NoFutureIK (p : Policy) (store : List Row) : Prop :=
  ∀ r, r ∈ store → r.kid = .ik → r.created ≤ stamp p

/-- **racing creators converge on ONE stored intermediate key**: starting from a store with unique
keys, no IK row from the future and no valid IK, under ANY schedule and for ANY number of
processes, any two processes that have finished used the same intermediate key (same creation
stamp — the racers' stamp — and same key material), namely the stored row of that stamp. -/
theorem converge (p : Policy) (store : List Row) (n : Nat) (hu : UniqueKeys store)
    (hfut : NoFutureIK p store) (hno : NoValidIK p store) (sched : List Nat)
    (i j : Nat) (ui uj : Used)
    (hi : (run p (init store n) sched).procs[i]? = some (.done ui))
    (hj : (run p (init store n) sched).procs[j]? = some (.done uj)) :
    ui.ikCreated = uj.ikCreated ∧ ui.ikMat = uj.ikMat ∧ ui.ikCreated = stamp p ∧
    ∃ r, r ∈ (run p (init store n) sched).store ∧ r.kid = .ik ∧ r.created = stamp p ∧ r.mat = ui.ikMat := by
  have h := crun_inv p store _ hno (cinv_init p store n hfut) sched
  have hU := run_uniq p (init store n) hu sched
  obtain ⟨ri, hri, a1, a2, a3, a4⟩ := h.procs i _ hi
  obtain ⟨rj, hrj, b1, b2, b3, b4⟩ := h.procs j _ hj
  have e : ri = rj := uniq_inj hU hri hrj (a1.trans b1.symm) (a2.trans b2.symm)
  exact ⟨a3.trans b3.symm, by rw [a4, b4, e], a3, ri, hri, a1, a2, a4.symm⟩

/-- the schedule ran every process to completion. -/
def complete (p : Policy) (st : St) (sched : List Nat) : Prop := KeyRace.complete (run p st sched)

/-- `converge` for completed races: there is ONE intermediate key that every process ended with. -/
theorem converge_complete (p : Policy) (store : List Row) (n : Nat) (hu : UniqueKeys store)
    (hfut : NoFutureIK p store) (hno : NoValidIK p store) (sched : List Nat)
    (hc : complete p (init store n) sched) :
    ∃ ik : Int × (Nat × Nat), ∀ (i : Nat) (pc : Pc), (run p (init store n) sched).procs[i]? = some pc →
      ∃ u, pc = .done u ∧ (u.ikCreated, u.ikMat) = ik := by
  cases h0 : (run p (init store n) sched).procs[0]? with
  | none =>
    refine ⟨(0, (0, 0)), ?_⟩
    intro i pc hi
    exfalso
    have hlen : (run p (init store n) sched).procs.length ≤ 0 := by
      apply Classical.byContradiction; intro hlt
      rw [List.getElem?_eq_none_iff] at h0; omega
    have := (List.getElem?_eq_some_iff.mp hi).1
    omega
  | some pc0 =>
    obtain ⟨u0, hu0⟩ := hc 0 pc0 h0
    refine ⟨(u0.ikCreated, u0.ikMat), ?_⟩
    intro i pc hi
    obtain ⟨u, hpc⟩ := hc i pc hi
    refine ⟨u, hpc, ?_⟩
    rw [hpc] at hi; rw [hu0] at h0
    have := converge p store n hu hfut hno sched i 0 u u0 hi h0
    rw [this.1, this.2.1]

/-- **completion**: any schedule that gives each of the N processes at least 8 turns runs every
process to completion (no process fails, none is left unfinished) — so `complete` is satisfied by
every fair-enough schedule, e.g. 8 rounds of round-robin. -/
theorem fair_schedule_completes (p : Policy) (store : List Row) (n : Nat) (hw : WF store) (sched : List Nat)
    (hfair : ∀ i, i < n → 8 ≤ sched.count i) : complete p (init store n) sched :=
  fair_complete p store n hw sched hfair

/-- `NoFutureIK` is necessary: with a REVOKED intermediate key whose creation stamp lies in the
future (clock skew between hosts), the winner of the insert uses its new key while the loser's
`mustLoadLatest` adopts the revoked future key without a validity check — the two processes end
with different intermediate keys. -/
theorem converge_needs_no_future_rows_counterexample :
    let p : Policy := { now := 5000000000, expireAfter := 600000000000, precision := 1000000000 }
    let store : List Row := [{ kid := .sk, created := 1, revoked := false, mat := (9, 0), parent := 0 },
                             { kid := .ik, created := 100, revoked := true, mat := (9, 1), parent := 1 }]
    NoValidIK p store ∧ UniqueKeys store ∧
    (run p (init store 2) [0, 0, 0, 1, 1, 1, 1]).procs = [.done ⟨5, (0, 0), 1⟩, .done ⟨100, (9, 1), 1⟩] := by
  intro p store
  refine ⟨?_, ?_, by decide⟩
  · have : latest store .ik = some { kid := .ik, created := 100, revoked := true, mat := (9, 1), parent := 1 } := by decide
    unfold NoValidIK; rw [this]; decide
  · unfold UniqueKeys; decide

/-- non-vacuity: the hypotheses of `converge` hold for the cold store and for a store whose only
IK is expired; three racers from a cold store converge under a fair schedule. -/
example : UniqueKeys [] ∧ NoFutureIK ⟨5000000000, 600000000000, 1000000000⟩ [] ∧
    NoValidIK ⟨5000000000, 600000000000, 1000000000⟩ [] := by
  refine ⟨(by unfold UniqueKeys; decide), (fun r h => nomatch h), ?_⟩
  have : latest [] .ik = none := by decide
  unfold NoValidIK; rw [this]; trivial
example :
    let p : Policy := { now := 5000000000, expireAfter := 600000000000, precision := 1000000000 }
    (run p (init [] 3) [0, 1, 2, 0, 1, 2, 0, 1, 2, 0, 1, 2, 0, 1, 2, 0, 1, 2, 0, 1, 2, 0, 1, 2]).procs.map
      (fun pc => match pc with | .done u => some (u.ikCreated, u.ikMat) | _ => none) =
      [some (5, (0, 1)), some (5, (0, 1)), some (5, (0, 1))] := by decide


/-! ### why racers collide: creation stamps inside one precision window -/

/-- **the race premise.** The model runs all racers under ONE `Policy` (one clock value).  Real
processes read their own clocks: whenever two readings fall into the same precision window
(`now / precision` equal) with the same `CreateDatePrecision`, the stamps they give a new key are
equal — so their inserts target the same `(id, created)` and exactly the situation of this file
arises (one accepted insert, the others refused). -/
theorem racers_in_one_window_collide (p q : Policy) (hp : 0 < p.precision)
    (hprec : p.precision = q.precision) (hwin : p.now / p.precision = q.now / q.precision) :
    stamp p = stamp q := by
  unfold stamp
  rw [← hprec] at hwin ⊢
  rw [if_pos hp, if_pos hp]
  have e1 : p.now - p.now % p.precision = p.precision * (p.now / p.precision) := by
    have := Int.emod_add_mul_ediv p.now p.precision; omega
  have e2 : q.now - q.now % p.precision = p.precision * (q.now / p.precision) := by
    have := Int.emod_add_mul_ediv q.now p.precision; omega
  rw [e1, e2, hwin]

/-- and a later clock never yields an older stamp: racers in different windows are ordered, the later
one finds the earlier one's row as "latest". -/
theorem later_racer_stamps_later (p q : Policy) (hprec : p.precision = q.precision) (h : p.now ≤ q.now) :
    stamp p ≤ stamp q := by
  unfold stamp
  rw [← hprec]
  have hs : (0 : Int) < nsPerSec := by decide
  split
  · rename_i hp
    apply Int.ediv_le_ediv hs
    have e1 : p.now - p.now % p.precision = p.precision * (p.now / p.precision) := by
      have := Int.emod_add_mul_ediv p.now p.precision; omega
    have e2 : q.now - q.now % p.precision = p.precision * (q.now / p.precision) := by
      have := Int.emod_add_mul_ediv q.now p.precision; omega
    rw [e1, e2]
    exact Int.mul_le_mul_of_nonneg_left (Int.ediv_le_ediv hp h) (Int.le_of_lt hp)
  · exact Int.ediv_le_ediv hs h

/-- non-vacuity: second 5 and second 55 of one minute collide under a one-minute precision. -/
example : stamp ⟨1700000045000000000, 3600000000000, 60000000000⟩ =
    stamp ⟨1700000095000000000, 3600000000000, 60000000000⟩ := by decide

end AsherahVerif.Props.C14
