import AsherahVerif.Props.C20
import AsherahVerif.Proofs.EnvTimeF8
import AsherahVerif.Proofs.EnvResObs
/-
C20 on bounded key caches — "the working set fits".

`Props/C20.lean` proves that a repeated encrypt is silent for map-backed (`simple`) caches, which never
evict.  A bounded cache (LRU / LFU / SLRU / TinyLFU, capacity `cap`) delegates to the E2 cache model
(`AsherahVerif.Cache`, the subject of C15); `KeyCache.slots` is the table of the distinct keys ever
`Set` into it.  Here:

* `no_eviction_while_fits` — E2 model: a `Set` of a present key, or into a cache below capacity,
  evicts nothing, for every policy and oracle;
* `bounded_fits_never_evicted` — after any history, an open bounded key cache with
  `slots.length ≤ cap` still holds an entry for every key ever put into it;
* `repeat_is_silent_of_lookup` — every cache mode: if the model's cache lookup of the partition's
  latest key succeeds and the entry is fresh, unrevoked and unexpired, the encrypt makes no metastore
  and no KMS call;
* `repeat_is_silent_bounded` — in a quiescent reachable world that lookup succeeds as soon as the
  entry is in the cache's table (entries leave the table only by eviction);
* `repeat_is_silent_bounded_fits` — the two combined: a bounded cache whose working set fits serves
  a partition it has served before silently, exactly as an unbounded cache does.

`Looks w c m e` = `(cacheRead c m w).1 = .ok (some e)` (`looks_iff`), the model's `read`.
`QInv w` (C09) = the quiescent resource invariant, which holds after every well-formed history
(`validFrom`: operations only on open sessions, nothing closed twice; `CapsPos`: capacities ≥ 1).
-/
namespace AsherahVerif.Props.C20
open AsherahVerif.Env AsherahVerif.Env.TimeF

/-! ### the E2 cache model -/

/-- **no eviction while the working set fits** (pkg/cache, every policy, every oracle): a `Set` of a
key the cache already holds, or of a new key into a cache whose size is below its capacity, fires no
eviction callback, returns normally, keeps every key and (on an open cache) holds the key afterwards. -/
theorem no_eviction_while_fits (c : Cache.Cache) (k v : Nat) (orc : Nat → Bool)
    (hfit : k ∈ Cache.keysOf c.items ∨ c.items.length < c.cap) :
    (Cache.step c (.set k v) orc).cbs = [] ∧ (Cache.step c (.set k v) orc).res = .unit ∧
    (∀ j, j ∈ Cache.keysOf c.items → j ∈ Cache.keysOf (Cache.step c (.set k v) orc).cache.items) ∧
    (c.closing = false → k ∈ Cache.keysOf (Cache.step c (.set k v) orc).cache.items) :=
  Cache.no_eviction_while_fits c k v orc hfit

/-- **a bounded key cache into which at most `cap` distinct keys were ever put has never evicted
anything.**  After any history — any operations, any fault lists, bounded caches of capacity ≥ 1 —
every key ever `Set` into a bounded key cache that has not been closed and whose slot table (the
distinct keys ever put) does not exceed its capacity still has its entry. -/
theorem bounded_fits_never_evicted {t : Int} {ops : List Op} (hcap : CapsPos ops) {c : Nat}
    (hlt : c < (runOps (World.init t) ops).2.caches.length)
    (hm : (cacheAt (runOps (World.init t) ops).2 c).mode = .bounded)
    (hopen : (cacheAt (runOps (World.init t) ops).2 c).pol.closing = false)
    (hfits : (cacheAt (runOps (World.init t) ops).2 c).slots.length ≤ (cacheAt (runOps (World.init t) ops).2 c).pol.cap)
    {m : KeyMeta} (hput : m ∈ (cacheAt (runOps (World.init t) ops).2 c).slots) :
    ∃ e, assocGet (entsOf (runOps (World.init t) ops).2 c) m = some e :=
  fits_never_evicted hcap hlt hm hopen hfits hput

/-! ### repeating an encrypt, every cache mode -/

theorem hit_of_fresh {w : World} {e : CEntry} {i : Int} (hfresh : w.now ≤ e.loadedAt + i)
    (hnr : (keyAt w e.obj).revoked = false) : isReloadRequired e (keyAt w e.obj) w.now i = false := by
  unfold isReloadRequired
  rw [hnr]
  simp only [Bool.false_eq_true, if_false, decide_eq_false_iff_not]
  omega

/-- **C20, first sentence (encrypt), every cache mode.**  If the session's key cache — map-backed or
bounded with any eviction policy — finds the "latest" entry `e` of the session's partition (the
model's `read` succeeds: the entry has not been evicted), and `e` is within its revoke-check interval,
not flagged revoked and not expired, the encrypt performs no metastore and no KMS call, leaves the
metastore alone, and the record names that entry's key. -/
theorem repeat_is_silent_of_lookup {w : World} (hr : Reach w) {s : Nat} {e : CEntry}
    (hlook : Looks w (sessionCtx w s).ikCache ⟨.ik (sessionCtx w s).part, 0⟩ e)
    (hfresh : w.now ≤ e.loadedAt + (sessionCtx w s).pol.revokeInterval)
    (hnr : (keyAt w e.obj).revoked = false)
    (hne : isExpired w.now (keyAt w e.obj).created (sessionCtx w s).pol.expireAfter = false) (pay : Nat) :
    Silent (applyOp w (.encrypt s pay [])).2 ∧ (applyOp w (.encrypt s pay [])).2.store = w.store ∧
    ∀ d, (applyOp w (.encrypt s pay [])).1 = .record d →
      drrIk d = some ⟨.ik (sessionCtx w s).part, (keyAt w e.obj).created⟩ := by
  have hv : isKeyInvalid (keyAt w e.obj) w.now (sessionCtx w s).pol.expireAfter = false := by
    unfold isKeyInvalid; rw [hnr, hne]; rfl
  have hw := encrypt_hit_silent_of_lookup hr.inv s pay true e hlook (hit_of_fresh hfresh hnr) hv
  unfold Wp at hw
  rw [applyOp_world]
  refine ⟨hw.1, hw.2.1, fun d hd => ?_⟩
  apply hw.2.2 d
  simp only [applyOp] at hd
  split at hd
  · rename_i a w1 heq
    cases hd; rw [heq]
  · cases hd

/-- the same with the hypothesis on the cache's entry table: in a quiescent reachable world the cache
of an open session finds every entry of its table, bounded or not. -/
theorem repeat_is_silent_bounded {w : World} (hr : Reach w) (hq : Res.QInv w) {s : Nat} (hopen : sessionOpen w s)
    {e : CEntry} (he : readEntry w (sessionCtx w s).ikCache ⟨.ik (sessionCtx w s).part, 0⟩ = some e)
    (hfresh : w.now ≤ e.loadedAt + (sessionCtx w s).pol.revokeInterval)
    (hnr : (keyAt w e.obj).revoked = false)
    (hne : isExpired w.now (keyAt w e.obj).created (sessionCtx w s).pol.expireAfter = false) (pay : Nat) :
    Silent (applyOp w (.encrypt s pay [])).2 ∧ (applyOp w (.encrypt s pay [])).2.store = w.store ∧
    ∀ d, (applyOp w (.encrypt s pay [])).1 = .record d →
      drrIk d = some ⟨.ik (sessionCtx w s).part, (keyAt w e.obj).created⟩ :=
  repeat_is_silent_of_lookup hr (looks_of_qinv hq hopen he) hfresh hnr hne pay

/-- `repeat_is_silent` of `Props/C20.lean` is the map-backed instance. -/
theorem repeat_is_silent_of_simple {w : World} (hr : Reach w) {s : Nat}
    (hsimple : modeOf w (sessionCtx w s).ikCache = .simple) {e : CEntry}
    (he : readEntry w (sessionCtx w s).ikCache ⟨.ik (sessionCtx w s).part, 0⟩ = some e)
    (hfresh : w.now ≤ e.loadedAt + (sessionCtx w s).pol.revokeInterval)
    (hnr : (keyAt w e.obj).revoked = false)
    (hne : isExpired w.now (keyAt w e.obj).created (sessionCtx w s).pol.expireAfter = false) (pay : Nat) :
    Silent (applyOp w (.encrypt s pay [])).2 :=
  (repeat_is_silent_of_lookup hr (Looks.of_simple hsimple he) hfresh hnr hne pay).1

/-! ### the working set fits -/

/-- **C20, working set fits.**  After an allowed, well-formed history with bounded caches of capacity
≥ 1: if the intermediate-key cache of an open session is bounded, the number of distinct keys ever put
into it does not exceed its capacity, and the key its "latest" alias names for the session's
partition was put into it, then the cache still holds that entry `e` — nothing was ever evicted —
and while `e` is within its revoke-check interval, not flagged revoked and not expired, an encrypt
makes no metastore and no KMS call, leaves the metastore alone and names that key: exactly as on an
unbounded cache. -/
theorem repeat_is_silent_bounded_fits {t : Int} {ops : List Op}
    (hok : histOk (World.init t) ops = true) (hv : validFrom (World.init t) ops) (hcap : CapsPos ops)
    {s : Nat} (hopen : sessionOpen (runOps (World.init t) ops).2 s)
    (hb : modeOf (runOps (World.init t) ops).2 (sessionCtx (runOps (World.init t) ops).2 s).ikCache = .bounded)
    (hfits : (cacheAt (runOps (World.init t) ops).2 (sessionCtx (runOps (World.init t) ops).2 s).ikCache).slots.length ≤
      (cacheAt (runOps (World.init t) ops).2 (sessionCtx (runOps (World.init t) ops).2 s).ikCache).pol.cap)
    (hput : readMeta (runOps (World.init t) ops).2 (sessionCtx (runOps (World.init t) ops).2 s).ikCache
        ⟨.ik (sessionCtx (runOps (World.init t) ops).2 s).part, 0⟩ ∈
      (cacheAt (runOps (World.init t) ops).2 (sessionCtx (runOps (World.init t) ops).2 s).ikCache).slots) :
    ∃ e, readEntry (runOps (World.init t) ops).2 (sessionCtx (runOps (World.init t) ops).2 s).ikCache
        ⟨.ik (sessionCtx (runOps (World.init t) ops).2 s).part, 0⟩ = some e ∧
      ((runOps (World.init t) ops).2.now ≤ e.loadedAt + (sessionCtx (runOps (World.init t) ops).2 s).pol.revokeInterval →
       (keyAt (runOps (World.init t) ops).2 e.obj).revoked = false →
       isExpired (runOps (World.init t) ops).2.now (keyAt (runOps (World.init t) ops).2 e.obj).created
         (sessionCtx (runOps (World.init t) ops).2 s).pol.expireAfter = false →
       ∀ pay, Silent (applyOp (runOps (World.init t) ops).2 (.encrypt s pay [])).2 ∧
         (applyOp (runOps (World.init t) ops).2 (.encrypt s pay [])).2.store = (runOps (World.init t) ops).2.store ∧
         ∀ d, (applyOp (runOps (World.init t) ops).2 (.encrypt s pay [])).1 = .record d →
           drrIk d = some ⟨.ik (sessionCtx (runOps (World.init t) ops).2 s).part,
             (keyAt (runOps (World.init t) ops).2 e.obj).created⟩) := by
  have hr : Reach (runOps (World.init t) ops).2 := ⟨t, ops, hok, rfl⟩
  have hq : Res.QInv (runOps (World.init t) ops).2 := (Res.QInv.init t).runOps ops hv hcap
  have hfi : FIw (runOps (World.init t) ops).2 := ((HInv.init t).run ops hcap).1
  generalize (runOps (World.init t) ops).2 = w at *
  -- the cache is open: its policy has not been closed
  have hlive := (hq.1.ctx_live hopen).2
  have hwf := hr.wf
  have hlt : (sessionCtx w s).ikCache < w.caches.length := by
    obtain ⟨ss, hss, -, fac, hfac, -⟩ := hopen
    obtain ⟨fac', -, hlen, -⟩ := hwf.sess s ss hss
    rw [C20.ctx_of hss hfac]; exact hlen
  have hkc : w.caches[(sessionCtx w s).ikCache]? = some (cacheAt w (sessionCtx w s).ikCache) := by
    unfold cacheAt
    rw [List.getD_eq_getElem?_getD, List.getElem?_eq_getElem hlt]; rfl
  have hbok := (hq.2.ents _ _ hkc hlive).bnd hb
  -- nothing was evicted: every key ever put still has its entry
  have hf := hfi _ hlt hb hbok.live
  obtain ⟨e, he⟩ := assocGet_of_mem_keys ((hf.full hfits).2 _ hput)
  exact ⟨e, he, fun h1 h2 h3 pay => repeat_is_silent_bounded hr hq hopen he h1 h2 h3 pay⟩

/-! ### witnesses -/

/-- one factory whose sessions share a bounded (LRU) intermediate-key cache of capacity `cap`. -/
def polB (cap : Nat) : Policy :=
  { expireAfter := 3600 * sec, revokeInterval := 60 * sec, precision := sec, cacheSK := true, cacheIK := true,
    sharedIK := true, ikKind := some (.lru, cap) }

/-- two sessions (partitions 0 and 1) of that factory, one encrypt each. -/
def hB (cap : Nat) : List Op :=
  [.newFactory (polB cap) 0 0 0 0, .getSession 0 0 0 0, .getSession 0 1 0 0, .encrypt 0 1 [], .encrypt 1 2 []]

def wB (cap : Nat) : World := (runOps (World.init T0) (hB cap)).2

theorem capsPos_hB {cap : Nat} (h : 1 ≤ cap) : CapsPos (hB cap) := by
  intro op hop
  simp only [hB, List.mem_cons, List.not_mem_nil, or_false] at hop
  rcases hop with rfl | rfl | rfl | rfl | rfl
  · exact ⟨fun k c hk => (by cases hk), fun k c hk => (by cases hk; exact h)⟩
  all_goals exact trivial

/-- `no_eviction_while_fits`: an LRU cache of capacity 2 holding one key takes a second one. -/
example : (0 ∈ Cache.keysOf (Cache.step (Cache.mk .lru 2 0 0 0) (.set 0 0) fun _ => false).cache.items) ∧
    (Cache.step (Cache.mk .lru 2 0 0 0) (.set 0 0) fun _ => false).cache.items.length <
      (Cache.step (Cache.mk .lru 2 0 0 0) (.set 0 0) fun _ => false).cache.cap := by decide +kernel

/-- `repeat_is_silent_bounded_fits` / `bounded_fits_never_evicted`: capacity 2, two partitions — the
working set fits.  All hypotheses hold for session 0 (partition 0, served before partition 1), its
entry is fresh, unrevoked and unexpired, and the repeated encrypt indeed logs no external call. -/
example : histOk (World.init T0) (hB 2) = true ∧ validFrom (World.init T0) (hB 2) ∧ CapsPos (hB 2) ∧
    sessionOpen (wB 2) 0 ∧ modeOf (wB 2) (sessionCtx (wB 2) 0).ikCache = .bounded ∧
    (cacheAt (wB 2) (sessionCtx (wB 2) 0).ikCache).slots.length ≤ (cacheAt (wB 2) (sessionCtx (wB 2) 0).ikCache).pol.cap ∧
    readMeta (wB 2) (sessionCtx (wB 2) 0).ikCache ⟨.ik (sessionCtx (wB 2) 0).part, 0⟩ ∈
      (cacheAt (wB 2) (sessionCtx (wB 2) 0).ikCache).slots ∧
    readEntry (wB 2) (sessionCtx (wB 2) 0).ikCache ⟨.ik (sessionCtx (wB 2) 0).part, 0⟩ = some ⟨1700000000000000000, 1⟩ ∧
    (wB 2).now ≤ 1700000000000000000 + (sessionCtx (wB 2) 0).pol.revokeInterval ∧
    (keyAt (wB 2) 1).revoked = false ∧
    isExpired (wB 2).now (keyAt (wB 2) 1).created (sessionCtx (wB 2) 0).pol.expireAfter = false ∧
    (applyOp (wB 2) (.encrypt 0 3 [])).2.log =
      [.randSecret false, .aeadEnc 5 (.payload 3) false, .aeadEnc 1 (.key 5) false] :=
  ⟨by decide +kernel, (Res.validFrom_iff _ _).mpr (by decide +kernel), capsPos_hB (by decide), (Res.sessionOpen_iff _ _).mpr (by decide +kernel),
   by decide +kernel, by decide +kernel, by decide +kernel, by decide +kernel, by decide +kernel, by decide +kernel, by decide +kernel, by decide +kernel⟩

/-- `repeat_is_silent_of_lookup`: the model's lookup finds that entry (`Looks`). -/
example : Reach (wB 2) ∧ Looks (wB 2) (sessionCtx (wB 2) 0).ikCache ⟨.ik (sessionCtx (wB 2) 0).part, 0⟩ ⟨1700000000000000000, 1⟩ :=
  ⟨⟨T0, hB 2, by decide +kernel, rfl⟩, by decide +kernel⟩

/-- the hypothesis "fits" is needed: with capacity 1 the same history puts two distinct keys into the
cache, the entry of partition 0 has been evicted (`readEntry = none`), and the repeated encrypt of
partition 0 re-reads the partition's latest record first. -/
example : (cacheAt (wB 1) (sessionCtx (wB 1) 0).ikCache).slots.length = 2 ∧
    (cacheAt (wB 1) (sessionCtx (wB 1) 0).ikCache).pol.cap = 1 ∧
    readEntry (wB 1) (sessionCtx (wB 1) 0).ikCache ⟨.ik (sessionCtx (wB 1) 0).part, 0⟩ = none ∧
    (applyOp (wB 1) (.encrypt 0 3 [])).2.log.head? = some (.loadLatest (.ik 0) (some 1700000000) false) := by
  decide +kernel

end AsherahVerif.Props.C20
