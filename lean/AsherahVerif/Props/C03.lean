import AsherahVerif.Proofs.EnvResHist
import AsherahVerif.Proofs.EnvResLog
import AsherahVerif.Proofs.EnvResRoleHist
/-
C03 — envelope discipline: a fresh random DRK per write; keys wrapped only by their parent.

Model: `AsherahVerif.Env` (Model/Envelope.lean), symbolic crypto: key material is a fresh name
handed out by `secretRandom` (`World.mats` is the counter, the stand-in for `CreateRandom`), nonces
are fresh names handed out by `aeadEncrypt` (`World.nonces`, the stand-in for the 12 random bytes);
`Ct.enc k n pt` opens exactly under `k`.  That real random values do not collide is the randomness
assumption of DESIGN §3 — it is not proved here; what is proved is that the SDK asks for a new
random key / nonce at every one of these places and never re-uses one it already has.
`World.log` is the list of external calls (metastore, KMS, AEAD, secret factory) of the current
operation.  All theorems hold for every world / history, every fault list and every cache policy;
no well-formedness of the history is needed.
-/
namespace AsherahVerif.Props.C03
open AsherahVerif.Env AsherahVerif.Env.Res

/-! ### drk_fresh -/

/-- **drk_fresh**: whatever the start world, session, payload and faults — every AEAD encryption of
a payload that an `encrypt` issues uses a key material `k ≥ mats at the start of the operation`,
i.e. one handed out by `CreateRandom` (`secretRandom`) during this very operation. -/
theorem drk_fresh (w : World) (s p : Nat) (fl : List Fault) (k q : Nat) (f : Bool)
    (h : Call.aeadEnc k (.payload q) f ∈ (applyOp w (.encrypt s p fl)).2.log) : w.mats ≤ k := by
  have hlog := encrypt_log w s p fl true
  rw [applyOp_eq] at h
  have : (wrapOut Out.record (encrypt s p fl true w)).2 = (encrypt s p fl true w).2 := by
    unfold wrapOut; split <;> simp_all
  rw [this] at h
  exact (hlog _ h).2

/-- the same at the level of the returned record: its payload ciphertext is
`enc k _ (payload p)` for a material `k` generated during the call (`mats before ≤ k < mats after`). -/
theorem drk_fresh_record (w : World) (s p : Nat) (fl : List Fault) (d : Drr)
    (h : (applyOp w (.encrypt s p fl)).1 = .record d) :
    ∃ k n, d.data = .enc k n (.payload p) ∧ w.mats ≤ k ∧ k < (applyOp w (.encrypt s p fl)).2.mats := by
  have hsp := encryptPayload_datakey w.mats (sessionCtx w s) p true { w with log := [], faults := fl } (Nat.le_refl _)
  have he : encrypt s p fl true w = encryptPayload (sessionCtx w s) p true { w with log := [], faults := fl } := rfl
  rw [applyOp_eq] at h ⊢
  simp only [he] at h ⊢
  generalize encryptPayload (sessionCtx w s) p true { w with log := [], faults := fl } = res at hsp h ⊢
  obtain ⟨r, w'⟩ := res
  cases r with
  | error e => simp [wrapOut] at h
  | ok d' => simp only [wrapOut, Out.record.injEq] at h; subst h; exact hsp

/-! ### one_payload_per_key, names_never_reused -/

/-- **one_payload_per_key**: over a whole history, the payloads of any two returned records are
encrypted under different key materials (and every such material has been handed out by
`CreateRandom`: it is below the counter). -/
theorem one_payload_per_key (t : Int) (ops : List Op) :
    (outDataKeys (runOps (World.init t) ops).1).Nodup ∧
    ∀ k, k ∈ outDataKeys (runOps (World.init t) ops).1 → k < (runOps (World.init t) ops).2.mats := by
  have := (KeysInv.init t).runOps ops
  simpa [KeysInv] using this

/-- **names_never_reused**: over a whole history, the nonces of all `enc` terms the SDK has emitted
— in every record it returned and in every row now in the metastore — are pairwise distinct (hence
no `(key, nonce)` pair occurs twice), and each was handed out by the nonce source. -/
theorem names_never_reused (t : Int) (ops : List Op) :
    (outNonces (runOps (World.init t) ops).1 ++ storeNonces (runOps (World.init t) ops).2).Nodup ∧
    ∀ n, n ∈ outNonces (runOps (World.init t) ops).1 ++ storeNonces (runOps (World.init t) ops).2 →
      n < (runOps (World.init t) ops).2.nonces := by
  have := (NamesInv.init t).runOps ops
  rw [List.nil_append] at this
  exact this

/-! ### wrap_discipline -/

/-- **wrap_discipline**: for every history (any operations, any faults, any cache policies, no
well-formedness needed) there is one classification `ρ` of the key materials by the place where
`CreateRandom` handed them out — `Role.data` (the DRK of an `EncryptPayload`), `Role.intermediate p`
(a new intermediate key of partition `p`), `Role.system` (a new system key); `ρ` is built along the
history and never revised — such that

* in every `encrypt` of the history, on a session of partition `part`, each AEAD encryption the SDK
  issues has (plaintext, key) roles in {(payload, data), (data, intermediate part),
  (intermediate part, system)}: payload bytes only under a data key, a data key only under the
  intermediate key of *this* partition, an intermediate key only under a system key;
* every row in the metastore at the end is well-typed (`RowOK`): a system-key row holds a
  KMS-wrapped system material, an intermediate-key row of partition `p` holds an
  `intermediate p` material AEAD-wrapped under a system material, and names a system key as parent
  (rows damaged out of band carry no key).
The KMS itself is only ever asked to encrypt on the system-key creation path
(`tryStoreSystemKey`, the only caller of `kmsEncrypt`), with the material of the system key it has
just generated: see `wrap_discipline_fresh` for the log-level form. -/
theorem wrap_discipline (t : Int) (ops : List Op) :
    ∃ ρ : Nat → Option Role,
      (∀ (pre : List Op) (s p : Nat) (fl : List Fault) (post : List Op), ops = pre ++ .encrypt s p fl :: post →
        let w := (runOps (World.init t) pre).2
        ∀ k pt f, Call.aeadEnc k pt f ∈ (applyOp w (.encrypt s p fl)).2.log →
          match pt with
          | .payload _ => ρ k = some .data
          | .key m => (ρ m = some .data ∧ ρ k = some (.intermediate (sessionCtx w s).part)) ∨
                      (ρ m = some (.intermediate (sessionCtx w s).part) ∧ ρ k = some .system)) ∧
      (∀ r, r ∈ (runOps (World.init t) ops).2.store → RowOK ρ r) := by
  obtain ⟨ρ, _, h2, h3⟩ := (TQ.init t).runOps ops
  refine ⟨ρ, ?_, h2.store⟩
  intro pre s p fl post heq w k pt f hc
  have := h3 pre s p fl post heq _ hc
  cases pt <;> exact this

/-- **wrap_discipline_fresh** (a complementary, role-free form): in every `encrypt`, whatever the
world and the faults,
* a payload is AEAD-encrypted only under a key generated during this operation (a DRK),
* the only keys that are ever wrapped (`aeadEnc _ (.key m)`) are keys generated during this
  operation — the DRK under the intermediate key, a newly created intermediate key under the system
  key; a key that came out of the metastore or a cache is never re-wrapped,
and a `decrypt` issues no AEAD encryption and no KMS encryption at all. -/
theorem wrap_discipline_fresh (w : World) :
    (∀ s p fl c, c ∈ (applyOp w (.encrypt s p fl)).2.log →
      match c with
      | .aeadEnc k (.payload _) _ => w.mats ≤ k
      | .aeadEnc _ (.key m) _ => w.mats ≤ m
      | _ => True) ∧
    (∀ s d fl c, c ∈ (applyOp w (.decrypt s d fl)).2.log →
      match c with
      | .aeadEnc _ _ _ => False
      | .kmsEnc _ => False
      | _ => True) := by
  constructor
  · intro s p fl c h
    have hlog := encrypt_log w s p fl true
    rw [applyOp_eq] at h
    have e : (wrapOut Out.record (encrypt s p fl true w)).2 = (encrypt s p fl true w).2 := by
      unfold wrapOut; split <;> simp_all
    rw [e] at h
    have := hlog c h
    cases c <;> try trivial
    rename_i k pt f
    cases pt <;> exact this.2
  · intro s d fl c h
    have hlog := decrypt_log w s d fl true
    rw [applyOp_eq] at h
    have e : (wrapOut Out.payload (decrypt s d fl true w)).2 = (decrypt s d fl true w).2 := by
      unfold wrapOut; split <;> simp_all
    rw [e] at h
    have := hlog c h
    cases c <;> try trivial
    rename_i k pt f
    cases pt <;> exact Bool.false_ne_true this.1

/-! ### secrecy -/

/-- key materials visible in a ciphertext term to somebody who holds no key: none — a material
occurs in a `Ct` only as the *key* or inside the *plaintext* of an `enc`, or inside a `kms` term. -/
def exposed : Ct → List Nat
  | .enc _ _ _ => []
  | .kms _ => []
  | .junk _ => []

def exposedRow (r : Row) : List Nat := exposed r.enc
def exposedDrr (d : Drr) : List Nat := (drrCts d).flatMap exposed
/-- what a public operation hands back: a record (ciphertexts and key metadata), the caller's own
payload, an id, or an error code. -/
def exposedOut : Out → List Nat
  | .record d => exposedDrr d
  | _ => []

/-- **secrecy**: no returned record and no metastore row exposes a key material outside an `enc` /
`kms` term.  In the model this is a fact about the *types* of what leaves the SDK: `Drr` and `Row`
carry ciphertext terms and key metadata (`KeyMeta`: id and creation stamp) only, and raw materials
flow only into `withKey` callbacks, i.e. into the AEAD (as key or as plaintext to be wrapped) and
into the KMS-encrypt argument of `tryStoreSystemKey`. -/
theorem secrecy (t : Int) (ops : List Op) :
    (∀ o, o ∈ (runOps (World.init t) ops).1 → exposedOut o = []) ∧
    (∀ r, r ∈ (runOps (World.init t) ops).2.store → exposedRow r = []) := by
  have hct : ∀ c : Ct, exposed c = [] := fun c => by cases c <;> rfl
  constructor
  · intro o _
    cases o <;> try rfl
    simp [exposedOut, exposedDrr, hct]
  · intro r _; exact hct _

/-! ### non-vacuity -/

private def pol : Policy :=
  { expireAfter := 1000 * nsPerSec, revokeInterval := 1000 * nsPerSec, precision := 0,
    cacheSK := true, cacheIK := true, sharedIK := false }

private def hist : List Op :=
  [.newFactory pol 0 0 0 0, .getSession 0 0 0 0, .encrypt 0 7 [], .encrypt 0 8 [], .getSession 0 1 0 0, .encrypt 1 9 []]

/-- three records under three different data keys (materials 2, 3, 5; 0 = SK, 1 and 4 = IKs), eight
`enc` terms with eight different nonces. -/
example : outDataKeys (runOps (World.init (5 * nsPerSec)) hist).1 = [2, 3, 5] ∧
    (outNonces (runOps (World.init (5 * nsPerSec)) hist).1 ++ storeNonces (runOps (World.init (5 * nsPerSec)) hist).2).length = 8 := by
  decide +kernel

/-- the log of the first encrypt: SK and IK are created, the IK (material 1) is wrapped under the
SK (0), the payload goes under the DRK (2), the DRK under the IK. -/
example : ((runOps (World.init (5 * nsPerSec)) (hist.take 3)).2.log.filter fun c =>
      match c with | .aeadEnc _ _ _ => true | .kmsEnc _ => true | _ => false) =
    [.kmsEnc false, .aeadEnc 0 (.key 1) false, .aeadEnc 2 (.payload 7) false, .aeadEnc 1 (.key 2) false] := by
  decide +kernel

end AsherahVerif.Props.C03
