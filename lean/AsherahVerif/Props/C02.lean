import AsherahVerif.Proofs.EnvCohOps
/-
C02 — a record is handed out only once its whole key chain is durably in the metastore.

About the executable model `AsherahVerif.Env` (Model/Envelope.lean).  Every external call
(Metastore Load / LoadLatest / Store, KMS encrypt / decrypt, AEAD, SecretFactory) consumes one token
of the operation's fault list: `ok`, `err` (the call fails), `dup` (Store answers "already exists"
without writing), `errw` (Store writes the row but the caller sees a failure).  All theorems
quantify over ALL fault lists (`fl : List Fault`), not over single faults or pairs.

`Reachable t w`: `w` is the final world of some history from `World.init t` that contains any
operations with any fault lists but no out-of-band row corruption, under the clock condition of C01
(`History`: start ≥ 1 s after the epoch, timestamp precision ≤ t − 1 s).
-/
namespace AsherahVerif.Props.C02
open AsherahVerif.Env

def History (t : Int) (ops : List Op) : Prop := nsPerSec ≤ t ∧ ∀ op, op ∈ ops → OpOK t op

def Reachable (t : Int) (w : World) : Prop := ∃ ops, History t ops ∧ w = (runOps (World.init t) ops).2

theorem reachable_inv {t : Int} {w : World} (h : Reachable t w) : FInv t w := by
  obtain ⟨ops, hh, rfl⟩ := h
  exact runOps_finv (FInv.init hh.1) ops hh.2

/-- **every SDK operation leaves every existing row in place, unchanged** — in ANY world, for any
fault list (only the out-of-band `revoke` / `corruptRow` touch existing rows). -/
theorem rows_immutable (w : World) (op : Op) (h : SdkOp op) (r : Row) (hr : r ∈ w.store) :
    r ∈ (applyOp w op).2.store := applyOp_store_mono w op h r hr

/-- **a key enters a cache only if its row is in the store** (`Coherent`): in every reachable world,
every entry `(m ↦ e)` of every key cache holds a key object whose creation stamp is `m.created` and
whose material is the one wrapped by the stored row `m`. -/
theorem no_unsaved_key_cached (t : Int) (w : World) (h : Reachable t w) (c : Nat) (kc : KeyCache)
    (hc : w.caches[c]? = some kc) (m : KeyMeta) (e : CEntry) (he : (m, e) ∈ kc.ents) :
    ∃ k, w.keys[e.obj]? = some k ∧ k.created = m.created ∧
      ∃ r, r ∈ w.store ∧ r.kid = m.kid ∧ r.created = m.created ∧ RowMat r k.mat :=
  ((reachable_inv h).inv.coh c kc hc).ents m e he

/-- the `latest` alias of an id points at a meta of that id. -/
theorem latest_alias_same_id (t : Int) (w : World) (h : Reachable t w) (c : Nat) (kc : KeyCache)
    (hc : w.caches[c]? = some kc) (kid : KeyId) (m : KeyMeta) (hl : (kid, m) ∈ kc.latest) : m.kid = kid :=
  ((reachable_inv h).inv.coh c kc hc).latest kid m hl

/-- an encrypt ends in a record or in an error. -/
theorem encrypt_record_or_error (w : World) (s pay : Nat) (fl : List Fault) :
    (∃ d, (applyOp w (.encrypt s pay fl)).1 = .record d) ∨ (∃ e, (applyOp w (.encrypt s pay fl)).1 = .error e) := by
  rw [(applyOp_encrypt w s pay fl).1]
  split
  · exact Or.inl ⟨_, rfl⟩
  · exact Or.inr ⟨_, rfl⟩

/-- **encrypt_ok_persisted.**  From ANY reachable world, with ANY fault list: if encrypt returns a
record `d`, then in the resulting world
(1) the intermediate-key row `d` names and the system-key row that row names are in the store, and
(2) a fresh factory (any admissible policy) and a fresh session for the partition, created
    afterwards, hold an open session that decrypts `d` to `pay` with no faults — unless that decrypt
    touches a destroyed secret (cannot happen in a fresh process: C09). -/
theorem encrypt_ok_persisted (t : Int) (w : World) (h : Reachable t w) (s pay : Nat) (fl : List Fault) (d : Drr)
    (hr : (applyOp w (.encrypt s pay fl)).1 = .record d) :
    let w' := (applyOp w (.encrypt s pay fl)).2
    let part := (w.sessions.getD s default).part
    (∃ (dk : DrrKey) (c : Int), d.key = some dk ∧ dk.parent = some ⟨.ik part, c⟩ ∧
      ∃ rik, rik ∈ w'.store ∧ rik.kid = .ik part ∧ rik.created = c ∧
        ∃ csk, rik.parent = some ⟨.sk, csk⟩ ∧ ∃ rsk, rsk ∈ w'.store ∧ rsk.kid = .sk ∧ rsk.created = csk) ∧
    ∀ (p : Policy) (a b c d' e f : Nat), p.precision + nsPerSec ≤ t →
      let w1 := (applyOp w' (.newFactory p a b c d')).2
      let w2 := (applyOp w1 (.getSession w'.facs.length part e f)).2
      sessionOpen w2 w1.sessions.length ∧
      ((applyOp w2 (.decrypt w1.sessions.length d [])).1 = .payload pay ∨
        accessesAfterClose w2 < accessesAfterClose (applyOp w2 (.decrypt w1.sessions.length d [])).2) := by
  intro w' part
  have hf := reachable_inv h
  have hf' : FInv t w' := applyOp_finv hf _ trivial
  have hg : Genuine w'.store part pay d := encrypt_genuine hf s pay fl d hr
  refine ⟨hg.chain hf'.inv, ?_⟩
  intro p a b c d' e f hp w1 w2
  obtain ⟨hf2, hopen, hpart, hmono⟩ := fresh_process hf' p a b c d' part e f hp
  exact ⟨hopen, genuine_decrypts hf2 (hg.mono hmono) _ hpart⟩

/-- **recovers.**  From any world reachable through any faults, a fault-free encrypt does not return
an error — unless it touches a destroyed secret (excluded on open sessions by C09). -/
theorem recovers (t : Int) (w : World) (h : Reachable t w) (s pay : Nat) (_hopen : sessionOpen w s) :
    (∃ d, (applyOp w (.encrypt s pay [])).1 = .record d) ∨
      accessesAfterClose w < accessesAfterClose (applyOp w (.encrypt s pay [])).2 :=
  encrypt_live (reachable_inv h) s pay

/-- composed with the C09 fact for this operation. -/
theorem recovers_of_no_aac (t : Int) (w : World) (h : Reachable t w) (s pay : Nat) (hopen : sessionOpen w s)
    (hAac : accessesAfterClose (applyOp w (.encrypt s pay [])).2 = accessesAfterClose w) :
    ∀ e, (applyOp w (.encrypt s pay [])).1 ≠ .error e := by
  intro e he
  rcases recovers t w h s pay hopen with ⟨d, hd⟩ | hb
  · rw [hd] at he; cases he
  · rw [hAac] at hb; exact absurd hb (Nat.lt_irrefl _)

/-! ### non-vacuity -/

def demoPolicy : Policy :=
  { expireAfter := 1000000000, revokeInterval := 1000000000000, precision := 0,
    cacheSK := true, cacheIK := true, sharedIK := false }

/-- a cold start whose first encrypt loses the system-key write (`errw`: written, reported failed),
then a warm encrypt. -/
def demoHistory : List Op :=
  [.newFactory demoPolicy 0 0 0 0, .getSession 0 7 0 0, .encrypt 0 42 [.ok, .ok, .ok, .ok, .errw]]

example : Reachable 5000000000 (runOps (World.init 5000000000) demoHistory).2 := by
  refine ⟨demoHistory, ⟨by decide, ?_⟩, rfl⟩
  intro op hop
  simp [demoHistory] at hop
  rcases hop with h | h | h <;> subst h <;> simp [OpOK] <;> decide

/-- with that fault the first encrypt still hands out a record (it re-reads the row it wrote) … -/
example : ∃ d, (runOps (World.init 5000000000) demoHistory).1[2]? = some (.record d) := ⟨_, rfl⟩

/-- … an earlier fault makes it fail, and the next fault-free encrypt succeeds (`recovers`). -/
example :
    (applyOp (runOps (World.init 5000000000) (demoHistory.take 2)).2 (.encrypt 0 42 [.err])).1 = .error .metastore ∧
    ∃ d, (applyOp (applyOp (runOps (World.init 5000000000) (demoHistory.take 2)).2 (.encrypt 0 42 [.err])).2
      (.encrypt 0 42 [])).1 = .record d := ⟨by decide, _, rfl⟩

end AsherahVerif.Props.C02
