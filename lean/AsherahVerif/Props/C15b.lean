import AsherahVerif.Generated.Sketch
import AsherahVerif.Expected.Sketch
import AsherahVerif.Generated.CacheConst
import AsherahVerif.Expected.Cache
/-
C15 (b) — the TinyLFU frequency sketch and doorkeeper never fault.

`Model/Cache.lean` treats the sketch / doorkeeper as an oracle (any answer), so `C15.no_panic` rests
on the oracle *returning*: `pkg/cache/internal/{sketch.go,filter.go}` index two slices with numbers
computed from key hashes.  `Generated/Sketch.lean` is the TRANSLATION of that index arithmetic into
Lean terms over `BitVec 32` (go/cmd/extract/sketch.go; Go's uint32 operators one to one, wrap-around
included), regenerated on every run; the theorems below are about those terms, for every hash, every
counter width and every filter size.  What is assumed rather than translated is listed in
`Expected/Sketch.lean` and compared with the regenerated facts by `source_as_vetted`.
`nextPowerOfTwo` is translated statement by statement (a let-chain) and bounded for every argument
(`nextPowerOfTwo_bounded`), which closes the two `…_init` theorems without hypotheses.
-/
namespace AsherahVerif.Props.C15b
open AsherahVerif.Generated.Sketch

theorem source_as_vetted :
    indexSites = Expected.Sketch.indexSites ∧ sketchInit = Expected.Sketch.sketchInit ∧
    filterInit = Expected.Sketch.filterInit ∧ add_loops = Expected.Sketch.add_loops ∧
    estimate_loops = Expected.Sketch.estimate_loops ∧ add_indexArg = Expected.Sketch.add_indexArg ∧
    estimate_indexArg = Expected.Sketch.estimate_indexArg ∧ sketchDepth = Expected.Sketch.sketchDepth :=
  ⟨rfl, rfl, rfl, rfl, rfl, rfl, rfl, rfl⟩

/-- **operations are atomic.** Every public operation of `cache` holds `c.mux` from its first action to
its return (regenerated from cache.go): concurrent callers therefore produce one of the sequential
histories `Props/C15.lean` quantifies over — the premise under which the single-threaded model speaks
for concurrent use (session cache, C16). -/
theorem cache_ops_atomic_as_vetted :
    Generated.CacheConst.lockDiscipline = Expected.Cache.lockDiscipline := rfl

private theorem and_le (x m : BitVec 32) : (x &&& m).toNat ≤ m.toNat := by
  rw [BitVec.toNat_and]; exact Nat.and_le_right

private theorem sub_one (size : BitVec 32) (h : 1 ≤ size.toNat) : (size - 1).toNat = size.toNat - 1 := by
  have := size.isLt
  rw [BitVec.toNat_sub]; simp; omega

/-- **sketch rows stay inside the counter slice.** `Init` leaves `len(c.counters) = size`,
`c.mask = size - 1`, `size ≥ 1`; the word index `position` computes from ANY hash is below `size`,
so `c.counters[idx]` in `inc` and `val` cannot fault. -/
theorem sketch_index_in_bounds (h size : BitVec 32) (hs : 1 ≤ size.toNat) :
    (position_idx h (size - 1)).toNat < size.toNat := by
  unfold position_idx
  -- whatever is masked: the proof does not depend on how the hash is mixed before `& c.mask`
  have key : ∀ x : BitVec 32, (x &&& (size - 1)).toNat < size.toNat := by
    intro x
    have := and_le x (size - 1)
    rw [sub_one size hs] at this
    omega
  exact key _

/-- the nibble offset inside a row's 16-bit lane is 0, 4, 8 or 12. -/
theorem sketch_offset_le (h mask : BitVec 32) : (position_off h mask).toNat ≤ 12 := by
  unfold position_off
  have h3 := and_le h 3
  rw [BitVec.toNat_shiftLeft]
  have : (3 : BitVec 32).toNat = 3 := by decide
  rw [this] at h3
  have : (h &&& 3).toNat <<< 2 = (h &&& 3).toNat * 4 := by rw [Nat.shiftLeft_eq]
  rw [this]
  have : (h &&& 3).toNat * 4 % 2 ^ 32 = (h &&& 3).toNat * 4 := Nat.mod_eq_of_lt (by omega)
  omega

/-- **every 4-bit counter lies inside its 64-bit word**: for each of the `sketchDepth` rows the
shift handed to `inc` (and `val`) plus the counter width stays within 64 bits, so incrementing one
counter can never carry into a word that does not exist (and, with the cap at 15 in `inc`, not into
the neighbouring counter). -/
theorem sketch_nibble_in_word (h mask i : BitVec 32) (hi : i.toNat < sketchDepth) :
    (add_shift i (position_off h mask)).toNat + 4 ≤ 64 ∧
    (estimate_shift i (position_off h mask)).toNat + 4 ≤ 64 := by
  have ho := sketch_offset_le h mask
  unfold sketchDepth at hi
  unfold add_shift estimate_shift
  have e : ((16 : BitVec 32) * i).toNat = 16 * i.toNat := by
    rw [BitVec.toNat_mul]
    have : (16 : BitVec 32).toNat = 16 := by decide
    rw [this]; exact Nat.mod_eq_of_lt (by omega)
  have e2 : ((16 : BitVec 32) * i + position_off h mask).toNat = 16 * i.toNat + (position_off h mask).toNat := by
    rw [BitVec.toNat_add, e]; exact Nat.mod_eq_of_lt (by omega)
  rw [e2]; omega

/-- the four rows of one hash use four different 16-bit lanes of a word (lane = row). -/
theorem sketch_rows_disjoint (h mask i : BitVec 32) (hi : i.toNat < sketchDepth) :
    (add_shift i (position_off h mask)).toNat / 16 = i.toNat := by
  have ho := sketch_offset_le h mask
  unfold sketchDepth at hi
  unfold add_shift
  have e : ((16 : BitVec 32) * i).toNat = 16 * i.toNat := by
    rw [BitVec.toNat_mul]
    have : (16 : BitVec 32).toNat = 16 := by decide
    rw [this]; exact Nat.mod_eq_of_lt (by omega)
  have e2 : ((16 : BitVec 32) * i + position_off h mask).toNat = 16 * i.toNat + (position_off h mask).toNat := by
    rw [BitVec.toNat_add, e]; exact Nat.mod_eq_of_lt (by omega)
  rw [e2]; omega

/-- **doorkeeper bits stay inside the bit vector.** `Init` leaves `f.bitsMask = numBits - 1`,
`numBits ≥ 1` and `len(f.bits) = int(numBits+63)/64` (uint32 addition); for every hash, every probe
number `i` and every `numBits` up to 2³¹ (the largest power of two `nextPowerOfTwo` can return) the
word index used by `set` (in `Put`) and `get` (in `Contains`) is below that length. -/
theorem bloom_index_in_bounds (h1 h2 i numBits : BitVec 32) (hn : 1 ≤ numBits.toNat)
    (hb : numBits.toNat ≤ 2 ^ 31) :
    (set_idx (put_bit h1 h2 i (numBits - 1))).toNat < (numBits + 63).toNat / 64 ∧
    (get_idx (contains_bit h1 h2 i (numBits - 1))).toNat < (numBits + 63).toNat / 64 := by
  unfold set_idx get_idx put_bit contains_bit
  have e : (numBits + 63).toNat = numBits.toNat + 63 := by
    rw [BitVec.toNat_add]
    have : (63 : BitVec 32).toNat = 63 := by decide
    rw [this]; exact Nat.mod_eq_of_lt (by omega)
  have d : ∀ x : BitVec 32, (x / (64 : BitVec 32)).toNat = x.toNat / 64 := by
    intro x; rw [BitVec.toNat_udiv]; rfl
  have key : ∀ x : BitVec 32, ((x &&& (numBits - 1)) / (64 : BitVec 32)).toNat < (numBits.toNat + 63) / 64 := by
    intro x
    have a := and_le x (numBits - 1)
    rw [sub_one numBits hn] at a
    rw [d]; omega
  rw [e]
  exact ⟨key _, key _⟩

/-- the bit position inside a doorkeeper word is below 64. -/
theorem bloom_shift_lt (i : BitVec 32) : (set_shift i).toNat < 64 ∧ (get_shift i).toNat < 64 := by
  unfold set_shift get_shift
  have d : ∀ x : BitVec 32, (x % (64 : BitVec 32)).toNat = x.toNat % 64 := by
    intro x; rw [BitVec.toNat_umod]; rfl
  rw [d]; omega

/-! ### `nextPowerOfTwo` -/

/-- the top `t` bits of a word are set -/
private def TopSet (t : Nat) (n : BitVec 32) : Prop := ∀ k, 32 - t ≤ k → k < 32 → n.getLsbD k = true

private theorem smear_top (n : BitVec 32) (t : Nat) (h : TopSet t n) :
    TopSet (2 * t) (n ||| (n >>> t)) := by
  intro k h1 h2
  rw [BitVec.getLsbD_or, BitVec.getLsbD_ushiftRight]
  by_cases hk : 32 - t ≤ k
  · rw [h k hk h2]; rfl
  · rw [h (t + k) (by omega) (by omega)]; simp

private theorem smear_msb_false (n : BitVec 32) (t : Nat) (ht : 0 < t) (h : n.getLsbD 31 = false) :
    (n ||| (n >>> t)).getLsbD 31 = false := by
  rw [BitVec.getLsbD_or, BitVec.getLsbD_ushiftRight, h]
  have : n.getLsbD (t + 31) = false := BitVec.getLsbD_of_ge n (t + 31) (by omega)
  rw [this]; rfl

private theorem all_set (n : BitVec 32) (h : TopSet 32 n) : n = BitVec.allOnes 32 := by
  apply BitVec.eq_of_getLsbD_eq
  intro k hk
  rw [h k (by omega) hk, BitVec.getLsbD_allOnes]; simp [hk]

private theorem lt_of_msb_false (n : BitVec 32) (h : n.getLsbD 31 = false) : n.toNat < 2 ^ 31 := by
  have : n.msb = false := by rw [BitVec.msb_eq_getLsbD_last]; exact h
  exact BitVec.toNat_lt_of_msb_false this

/-- **`nextPowerOfTwo`, translated statement by statement** (`n := i-1; n |= n>>1; …; n++`): for EVERY
argument the result is 0 (wrap-around for arguments above 2³¹ and for 0; both callers replace it by 1)
or at most 2³¹ — if the top bit of `i-1` is set the five smearing steps set all 32 bits and the
increment wraps, otherwise the top bit stays clear. -/
theorem nextPowerOfTwo_bounded (i : BitVec 32) :
    nextPowerOfTwo i = 0 ∨ (nextPowerOfTwo i).toNat ≤ 2 ^ 31 := by
  unfold nextPowerOfTwo
  by_cases hm : (i - 1).getLsbD 31 = true
  · left
    have h1 : TopSet 1 (i - 1) := by
      intro k h1 h2
      have : k = 31 := by omega
      rw [this]; exact hm
    have h2 := smear_top _ 1 h1
    have h4 := smear_top _ 2 h2
    have h8 := smear_top _ 4 h4
    have h16 := smear_top _ 8 h8
    have h32 := smear_top _ 16 h16
    have := all_set _ h32
    simp only [] at this ⊢
    rw [this]; decide
  · right
    have h0 : (i - 1).getLsbD 31 = false := by simpa using hm
    have a1 := smear_msb_false _ 1 (by decide) h0
    have a2 := smear_msb_false _ 2 (by decide) a1
    have a4 := smear_msb_false _ 4 (by decide) a2
    have a8 := smear_msb_false _ 8 (by decide) a4
    have a16 := smear_msb_false _ 16 (by decide) a8
    have := lt_of_msb_false _ a16
    simp only [] at this ⊢
    rw [BitVec.toNat_add]
    have e : (1 : BitVec 32).toNat = 1 := by decide
    rw [e]
    omega

/-- the doorkeeper size `Init` computes (`numBits := nextPowerOfTwo(x); if numBits == 0 { numBits = 1 }`)
meets the hypotheses of `bloom_index_in_bounds` for every `x`. -/
theorem bloom_numBits_ok (x : BitVec 32) :
    let numBits := if nextPowerOfTwo x = 0 then (1 : BitVec 32) else nextPowerOfTwo x
    1 ≤ numBits.toNat ∧ numBits.toNat ≤ 2 ^ 31 := by
  intro numBits
  by_cases h : nextPowerOfTwo x = 0
  · have : numBits = 1 := if_pos h
    rw [this]; decide
  · have e : numBits = nextPowerOfTwo x := if_neg h
    rw [e]
    constructor
    · have : (nextPowerOfTwo x).toNat ≠ 0 := fun hz => h (BitVec.eq_of_toNat_eq (by simpa using hz))
      omega
    · cases nextPowerOfTwo_bounded x with
      | inl h0 => exact absurd h0 h
      | inr hb => exact hb

/-- **doorkeeper, end to end**: for every expected-insertions / false-positive setting (whatever `x`
the float arithmetic of `Init` produces), every hash and every probe number, `Put` and `Contains`
index inside `f.bits` — no hypothesis left. -/
theorem bloom_index_in_bounds_init (x h1 h2 i : BitVec 32) :
    let numBits := if nextPowerOfTwo x = 0 then (1 : BitVec 32) else nextPowerOfTwo x
    (set_idx (put_bit h1 h2 i (numBits - 1))).toNat < (numBits + 63).toNat / 64 ∧
    (get_idx (contains_bit h1 h2 i (numBits - 1))).toNat < (numBits + 63).toNat / 64 := by
  intro numBits
  have := bloom_numBits_ok x
  exact bloom_index_in_bounds h1 h2 i numBits this.1 this.2

/-- **sketch, end to end**: for every requested width, the row index of every hash is inside
`c.counters` (`size := nextPowerOfTwo(width) >> 2; if size < 1 { size = 1 }`). -/
theorem sketch_index_in_bounds_init (w h : BitVec 32) :
    let size := if (nextPowerOfTwo w >>> (2 : Nat)).toNat < 1 then (1 : BitVec 32) else nextPowerOfTwo w >>> (2 : Nat)
    (position_idx h (size - 1)).toNat < size.toNat := by
  intro size
  apply sketch_index_in_bounds
  by_cases c : (nextPowerOfTwo w >>> (2 : Nat)).toNat < 1
  · have : size = 1 := if_pos c
    rw [this]; decide
  · have : size = nextPowerOfTwo w >>> (2 : Nat) := if_neg c
    rw [this]; omega

/-- the hypothesis `numBits ≤ 2³¹` of `bloom_index_in_bounds` is needed: the uint32 addition
`numBits+63` wraps for a (hypothetical) larger size and the slice would be too short. -/
theorem bloom_index_needs_bound_counterexample :
    ¬ (set_idx (put_bit 4294967295 0 0 ((4294967295 : BitVec 32) - 1))).toNat < ((4294967295 : BitVec 32) + 63).toNat / 64 := by
  decide

/-- non-vacuity: the width TinyLFU uses at capacity 1000 (`size = nextPowerOfTwo(1000) >> 2 = 256`)
and a 2¹⁴-bit doorkeeper meet the hypotheses. -/
example : 1 ≤ (256 : BitVec 32).toNat ∧ 1 ≤ (16384 : BitVec 32).toNat ∧ (16384 : BitVec 32).toNat ≤ 2 ^ 31 := by decide

end AsherahVerif.Props.C15b
