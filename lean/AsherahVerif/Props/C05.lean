import AsherahVerif.Proofs.EnvTimeBase
/-
C05 — Revocation in the metastore takes effect within the revoke-check interval.

The revocation time is expressed through the history: `ops = pre ++ [.revoke m] ++ post`, the row
`m` exists when it is revoked, `τ` = the clock after `pre`.  Histories are allowed ones (`histOk`:
no fault tokens, no `corruptRow`).  "A key with a later creation stamp can be created" is
`CanStamp w kid precision`: every stored row of that key id is older than the stamp a key created
now would get.
-/
namespace AsherahVerif.Props.C05
open AsherahVerif.Env

/-! ### witness history (F-11) -/

def T0 : Int := 1700000000 * 1000000000
def sec : Int := 1000000000

def pol1 : Policy :=
  { expireAfter := 3600 * sec, revokeInterval := 60 * sec, precision := sec, cacheSK := true, cacheIK := true, sharedIK := false }

/-- first record of partition 0, written under IK `…000` whose parent is SK `…000`. -/
def d0 : Drr :=
  { key := some { created := 1700000000, enc := .enc 1 2 (.key 2), parent := some ⟨.ik 0, 1700000000⟩ },
    data := .enc 2 1 (.payload 1) }

def skm : KeyMeta := ⟨.sk, 1700000000⟩

def pre11 : List Op := [.newFactory pol1 0 0 0 0, .getSession 0 0 0 0, .encrypt 0 1 []]

/-- after the revocation of the SK: 200 s later another process rotates (new SK and IK `…200`);
one second later a fresh process decrypts the old record. -/
def post11 : List Op := [.advance 200000000000,
  .newFactory pol1 0 0 0 0, .getSession 1 0 0 0, .encrypt 1 2 [], .advance 1000000000,
  .newFactory pol1 0 0 0 0, .getSession 2 0 0 0, .decrypt 2 d0 []]

def w11 : World := (runOps (World.init T0) (pre11 ++ [.revoke skm] ++ post11)).2

def e11 : Drr :=
  { key := some { created := 1700000201, enc := .enc 1 7 (.key 6), parent := some ⟨.ik 0, 1700000000⟩ },
    data := .enc 6 6 (.payload 3) }

def r11 : Row :=
  { kid := .ik 0, created := 1700000000, revoked := false, enc := .enc 0 0 (.key 1), parent := some ⟨.sk, 1700000000⟩ }

/-! ### revoked parent system key: full statement -/

/-- **full statement** of the two-interval bound: the SK row `m` is revoked at `τ`; a record
returned by an encrypt later than `τ + 2·revokeInterval` names an IK whose parent is not `m`
(provided later stamps can be created for the SK and for the session's IK). -/
def sk_revocation_bounded_full : Prop :=
  ∀ (t : Int) (pre post : List Op) (m : KeyMeta) (s pay : Nat) (d : Drr) (w' : World) (mi : KeyMeta) (r : Row),
    histOk (World.init t) (pre ++ [.revoke m] ++ post) = true →
    m.kid = .sk → (findRow (runOps (World.init t) pre).2.store m).isSome = true →
    applyOp (runOps (World.init t) (pre ++ [.revoke m] ++ post)).2 (.encrypt s pay []) = (.record d, w') →
    (runOps (World.init t) pre).2.now
        + 2 * (sessionCtx (runOps (World.init t) (pre ++ [.revoke m] ++ post)).2 s).pol.revokeInterval
      < (runOps (World.init t) (pre ++ [.revoke m] ++ post)).2.now →
    CanStamp (runOps (World.init t) (pre ++ [.revoke m] ++ post)).2 .sk
      (sessionCtx (runOps (World.init t) (pre ++ [.revoke m] ++ post)).2 s).pol.precision →
    CanStamp (runOps (World.init t) (pre ++ [.revoke m] ++ post)).2
      (.ik (sessionCtx (runOps (World.init t) (pre ++ [.revoke m] ++ post)).2 s).part)
      (sessionCtx (runOps (World.init t) (pre ++ [.revoke m] ++ post)).2 s).pol.precision →
    drrIk d = some mi → findRow w'.store mi = some r → r.parent ≠ some m

/-- **the full statement is false (F-11).** 201 s after the revocation of SK `…000` (interval 60 s),
with a newer SK and IK in the metastore, a fresh session that first decrypted an old record encrypts
under IK `…000`, whose parent is the revoked SK: the key loaded by its exact stamp for the decrypt
became the cache's "latest" alias and is trusted for one interval from that load, however long ago
the revocation was. -/
theorem sk_revocation_bounded_counterexample : ¬ sk_revocation_bounded_full := by
  intro h
  have := h T0 pre11 post11 skm 2 3 e11 (applyOp w11 (.encrypt 2 3 [])).2 ⟨.ik 0, 1700000000⟩ r11
    (by decide) rfl (by decide) (Prod.ext (by decide) rfl) (by decide)
    (by unfold CanStamp; decide) (by unfold CanStamp; decide) (by decide) (by decide)
  exact this (by decide)

end AsherahVerif.Props.C05
