import AsherahVerif.Proofs.EnvTimeProps
/-
C05 — Revocation in the metastore takes effect within the revoke-check interval.

The revocation time is expressed through the history: `ops = pre ++ [.revoke m] ++ post`, the row
`m` exists when it is revoked, `τ` = the clock after `pre`.  Histories are allowed ones (`histOk`:
no fault tokens, no `corruptRow`).  "A key with a later creation stamp can be created" is
`CanStamp w kid precision`: every stored row of that key id is older than the stamp a key created
now would get.
-/
namespace AsherahVerif.Props.C05
open AsherahVerif.Env

/-! ### the revocation is seen at the next reload (`RevSeen`) -/

/-- **invariant `RevSeen`.** The row `m` exists and is revoked when the clock shows `τ` (after
`pre`). In every world reached afterwards, in every key cache, an entry filed under `m` either
carries the revoked flag on its key object or was loaded no later than `τ`. (Inductive: entries
are created and re-stamped only from fresh reads of the row, which is flagged from `τ` on, and
`load` merges the flag of the re-read key only into the entry of that same key.) -/
theorem rev_seen {t : Int} {pre post : List Op} {m : KeyMeta}
    (hok : histOk (World.init t) (pre ++ [.revoke m] ++ post) = true)
    (hex : (findRow (runOps (World.init t) pre).2.store m).isSome = true) :
    ∀ (c : Nat) (e : CEntry), (m, e) ∈ entsOf (runOps (World.init t) (pre ++ [.revoke m] ++ post)).2 c →
      (keyAt (runOps (World.init t) (pre ++ [.revoke m] ++ post)).2 e.obj).revoked = true ∨
        e.loadedAt ≤ (runOps (World.init t) pre).2.now := by
  intro c e hm
  obtain ⟨ko, hk, -, hs⟩ := ((inv_after_revoke hok hex).good c m e hm).coh
  rw [keyAt_of_get hk]
  exact hs _ _ rfl rfl

/-- **C05, revoked intermediate key: one interval.**  The row `m` is revoked at `τ`. A record returned
by a fault-free encrypt of any session later than
`τ + revokeInterval` does not name `m` — provided a key with a later creation stamp can be created
(`m.created < keyTimestamp now precision`) — and the intermediate key it does name is stored.
For every cache configuration, every history before and after the revocation. -/
theorem ik_revocation_bounded {t : Int} {pre post : List Op} {m : KeyMeta} {s pay : Nat} {d : Drr} {w' : World}
    (hok : histOk (World.init t) (pre ++ [.revoke m] ++ post) = true)
    (hex : (findRow (runOps (World.init t) pre).2.store m).isSome = true)
    (_hopen : sessionOpen (runOps (World.init t) (pre ++ [.revoke m] ++ post)).2 s)
    (ha : allowed (runOps (World.init t) (pre ++ [.revoke m] ++ post)).2 (.encrypt s pay []) = true)
    (h : applyOp (runOps (World.init t) (pre ++ [.revoke m] ++ post)).2 (.encrypt s pay []) = (.record d, w'))
    (hlate : (runOps (World.init t) pre).2.now
        + (sessionCtx (runOps (World.init t) (pre ++ [.revoke m] ++ post)).2 s).pol.revokeInterval
      < (runOps (World.init t) (pre ++ [.revoke m] ++ post)).2.now)
    (hstamp : m.created < keyTimestamp (runOps (World.init t) (pre ++ [.revoke m] ++ post)).2.now
      (sessionCtx (runOps (World.init t) (pre ++ [.revoke m] ++ post)).2 s).pol.precision) :
    ∃ mi, drrIk d = some mi ∧ mi ≠ m ∧ (findRow w'.store mi).isSome = true := by
  have hi := inv_after_revoke hok hex
  generalize (runOps (World.init t) (pre ++ [.revoke m] ++ post)).2 = w at *
  generalize (runOps (World.init t) pre).2.now = τ at *
  obtain ⟨hinv, -, -, c, hd, hout⟩ := encrypt_outcome hi ha h
  refine ⟨_, hd, ?_, ?_⟩
  · intro heq
    rcases hout with ⟨k, hh, hc, hv, -⟩ | ⟨r, -, -, -, -, -, hrev⟩
    · obtain ⟨hk1, -, ko, -, hcr, hrv, hout⟩ := hit_out (St.beginOp hi) hh (RT.refl _)
      obtain ⟨ko', hko', hcm, -, hflag⟩ := hout
      have hmeta : readMeta (beginOp [] w).2 (sessionCtx w s).ikCache ⟨(sessionCtx w s).ikId, 0⟩ = m := by
        rw [← heq]
        have e1 : (readMeta (beginOp [] w).2 (sessionCtx w s).ikCache ⟨(sessionCtx w s).ikId, 0⟩).created = c := by
          rw [← hcm, ← keyAt_of_get hko']; exact hc
        generalize readMeta (beginOp [] w).2 (sessionCtx w s).ikCache ⟨(sessionCtx w s).ikId, 0⟩ = rm at hk1 e1
        obtain ⟨kd, cr⟩ := rm
        simp only at hk1 e1
        rw [hk1, e1]
      rcases hflag _ _ rfl hmeta.symm with hf | hf
      · unfold isKeyInvalid at hv
        rw [keyAt_of_get hko', hf] at hv
        simp at hv
      · have : (beginOp [] w).2.now = w.now := rfl
        omega
    · have := hrev _ _ rfl heq.symm
      rw [← heq] at hstamp
      simp only at hstamp
      omega
  · rcases hout with ⟨k, hh, hc, -, -, hst⟩ | ⟨r, hr, hk, hcr, -⟩
    · obtain ⟨hk1, -, ko, -, -, -, ko', hko', hcm, ⟨r, hr, hrk, hrc⟩, -⟩ := hit_out (St.beginOp hi) hh (RT.refl _)
      rw [hst]
      refine findRow_isSome_of_mem hr (hrk.trans hk1) ?_
      rw [hrc, ← hcm, ← keyAt_of_get hko']; exact hc
    · exact findRow_isSome_of_mem hr hk hcr

/-- **C05, revoked parent system key: what holds (`…_partial`).**  The SK row `m` is revoked at `τ`.
If a fault-free encrypt returns a record naming an intermediate key whose stored row has parent `m`
— and later stamps can be created for the system key and for the session's intermediate key — then
either `now ≤ τ + revokeInterval` (the system-key cache may not have re-read the row yet), or the
intermediate key was served from the session's cache by an entry loaded at most one interval ago
(`now ≤ loadedAt + revokeInterval`, no metastore or KMS call).  Weaker than the full two-interval
statement in that the second interval is counted from the load of the session's entry, whichever
path loaded it: `now ≤ max (τ + interval) loadedAt + interval`.  For an entry loaded by an encrypt
(`loadLatestOrCreateIntermediateKey` validates the parent's flag) this gives the property's
`τ + 2·interval`; an entry installed later by a decrypt (F-11) is trusted for one interval from then. -/
theorem sk_revocation_bounded_partial {t : Int} {pre post : List Op} {m : KeyMeta} {s pay : Nat} {d : Drr} {w' : World}
    (hok : histOk (World.init t) (pre ++ [.revoke m] ++ post) = true)
    (hex : (findRow (runOps (World.init t) pre).2.store m).isSome = true)
    (_hopen : sessionOpen (runOps (World.init t) (pre ++ [.revoke m] ++ post)).2 s)
    (ha : allowed (runOps (World.init t) (pre ++ [.revoke m] ++ post)).2 (.encrypt s pay []) = true)
    (h : applyOp (runOps (World.init t) (pre ++ [.revoke m] ++ post)).2 (.encrypt s pay []) = (.record d, w'))
    (hkid : m.kid = .sk)
    (hsk : CanStamp (runOps (World.init t) (pre ++ [.revoke m] ++ post)).2 .sk
      (sessionCtx (runOps (World.init t) (pre ++ [.revoke m] ++ post)).2 s).pol.precision)
    (hik : CanStamp (runOps (World.init t) (pre ++ [.revoke m] ++ post)).2
      (.ik (sessionCtx (runOps (World.init t) (pre ++ [.revoke m] ++ post)).2 s).part)
      (sessionCtx (runOps (World.init t) (pre ++ [.revoke m] ++ post)).2 s).pol.precision)
    {mi : KeyMeta} {r : Row} (hm : drrIk d = some mi) (hrow : findRow w'.store mi = some r)
    (hpar : r.parent = some m) :
    (runOps (World.init t) (pre ++ [.revoke m] ++ post)).2.now ≤ (runOps (World.init t) pre).2.now
        + (sessionCtx (runOps (World.init t) (pre ++ [.revoke m] ++ post)).2 s).pol.revokeInterval ∨
    ∃ e, readEntry (runOps (World.init t) (pre ++ [.revoke m] ++ post)).2
        (sessionCtx (runOps (World.init t) (pre ++ [.revoke m] ++ post)).2 s).ikCache
        ⟨.ik (sessionCtx (runOps (World.init t) (pre ++ [.revoke m] ++ post)).2 s).part, 0⟩ = some e ∧
      (runOps (World.init t) (pre ++ [.revoke m] ++ post)).2.now ≤ e.loadedAt
        + (sessionCtx (runOps (World.init t) (pre ++ [.revoke m] ++ post)).2 s).pol.revokeInterval ∧
      Silent w' := by
  have hi := inv_after_revoke hok hex
  generalize (runOps (World.init t) (pre ++ [.revoke m] ++ post)).2 = w at *
  generalize (runOps (World.init t) pre).2.now = τ at *
  obtain ⟨hinv, -, -, c, hd, hout⟩ := encrypt_outcome hi ha h
  rw [hm] at hd; cases hd
  rcases hout with ⟨k, hh, hc, hv, hil, -⟩ | ⟨r', hr', hk', hc', -, hcase, -⟩
  · right
    obtain ⟨e, he, -, hle⟩ := hit_fresh hh hv
    exact ⟨e, he, hle, hil.silent (fun c hc => by cases hc)⟩
  · obtain ⟨hmem, hk, hcr⟩ := findRow_some hrow
    have : r = r' := hinv.sto.uniq r r' hmem hr' (hk.trans hk'.symm) (hcr.trans hc'.symm)
    subst this
    rcases hcase with ⟨hin, hle⟩ | ⟨p', hp', -, hrev⟩
    · exfalso
      have := hik r hin hk
      rw [hcr] at this
      omega
    · rw [hpar] at hp'; cases hp'
      rcases hrev _ _ rfl rfl with h1 | h1
      · left; exact h1
      · exfalso
        obtain ⟨⟨r0, hr0, hk0, hc0⟩, -⟩ := hi.sto.rev _ _ rfl
        have := hsk r0 hr0 (hk0.trans hkid)
        rw [hc0] at this
        omega

/-! ### witness history (F-11) -/

def T0 : Int := 1700000000 * 1000000000
def sec : Int := 1000000000

def pol1 : Policy :=
  { expireAfter := 3600 * sec, revokeInterval := 60 * sec, precision := sec, cacheSK := true, cacheIK := true, sharedIK := false }

/-- first record of partition 0, written under IK `…000` whose parent is SK `…000`. -/
def d0 : Drr :=
  { key := some { created := 1700000000, enc := .enc 1 2 (.key 2), parent := some ⟨.ik 0, 1700000000⟩ },
    data := .enc 2 1 (.payload 1) }

def skm : KeyMeta := ⟨.sk, 1700000000⟩

def pre11 : List Op := [.newFactory pol1 0 0 0 0, .getSession 0 0 0 0, .encrypt 0 1 []]

/-- after the revocation of the SK: 200 s later another process rotates (new SK and IK `…200`);
one second later a fresh process decrypts the old record. -/
def post11 : List Op := [.advance 200000000000,
  .newFactory pol1 0 0 0 0, .getSession 1 0 0 0, .encrypt 1 2 [], .advance 1000000000,
  .newFactory pol1 0 0 0 0, .getSession 2 0 0 0, .decrypt 2 d0 []]

def w11 : World := (runOps (World.init T0) (pre11 ++ [.revoke skm] ++ post11)).2

def e11 : Drr :=
  { key := some { created := 1700000201, enc := .enc 1 7 (.key 6), parent := some ⟨.ik 0, 1700000000⟩ },
    data := .enc 6 6 (.payload 3) }

def r11 : Row :=
  { kid := .ik 0, created := 1700000000, revoked := false, enc := .enc 0 0 (.key 1), parent := some ⟨.sk, 1700000000⟩ }

/-! ### revoked parent system key: full statement -/

/-- **full statement** of the two-interval bound: the SK row `m` is revoked at `τ`; a record
returned by an encrypt later than `τ + 2·revokeInterval` names an IK whose parent is not `m`
(provided later stamps can be created for the SK and for the session's IK). -/
def sk_revocation_bounded_full : Prop :=
  ∀ (t : Int) (pre post : List Op) (m : KeyMeta) (s pay : Nat) (d : Drr) (w' : World) (mi : KeyMeta) (r : Row),
    histOk (World.init t) (pre ++ [.revoke m] ++ post) = true →
    m.kid = .sk → (findRow (runOps (World.init t) pre).2.store m).isSome = true →
    applyOp (runOps (World.init t) (pre ++ [.revoke m] ++ post)).2 (.encrypt s pay []) = (.record d, w') →
    (runOps (World.init t) pre).2.now
        + 2 * (sessionCtx (runOps (World.init t) (pre ++ [.revoke m] ++ post)).2 s).pol.revokeInterval
      < (runOps (World.init t) (pre ++ [.revoke m] ++ post)).2.now →
    CanStamp (runOps (World.init t) (pre ++ [.revoke m] ++ post)).2 .sk
      (sessionCtx (runOps (World.init t) (pre ++ [.revoke m] ++ post)).2 s).pol.precision →
    CanStamp (runOps (World.init t) (pre ++ [.revoke m] ++ post)).2
      (.ik (sessionCtx (runOps (World.init t) (pre ++ [.revoke m] ++ post)).2 s).part)
      (sessionCtx (runOps (World.init t) (pre ++ [.revoke m] ++ post)).2 s).pol.precision →
    drrIk d = some mi → findRow w'.store mi = some r → r.parent ≠ some m

/-- **the full statement is false (F-11).** 201 s after the revocation of SK `…000` (interval 60 s),
with a newer SK and IK in the metastore, a fresh session that first decrypted an old record encrypts
under IK `…000`, whose parent is the revoked SK: the key loaded by its exact stamp for the decrypt
became the cache's "latest" alias and is trusted for one interval from that load, however long ago
the revocation was. -/
theorem sk_revocation_bounded_counterexample : ¬ sk_revocation_bounded_full := by
  intro h
  have := h T0 pre11 post11 skm 2 3 e11 (applyOp w11 (.encrypt 2 3 [])).2 ⟨.ik 0, 1700000000⟩ r11
    (by decide) rfl (by decide) (Prod.ext (by decide) rfl) (by decide)
    (by unfold CanStamp; decide) (by unfold CanStamp; decide) (by decide) (by decide)
  exact this (by decide)

/-! ### records written under a revoked key

`old_records_still_decrypt` — "records written under the revoked key remain decryptable" — is the
round-trip property of C01 (`AsherahVerif.Props.C01.roundtrip`): decrypt loads a key by the exact
stamp the record names and never consults the revoked flag (`GetOrLoad` has no validity check;
`isReloadRequired` even stops reloading a key once it is flagged). It is not re-proved here. -/

/-! ### non-vacuity -/

def ikm : KeyMeta := ⟨.ik 0, 1700000000⟩
def postIk : List Op := [.advance 61000000000]
def wIk : World := (runOps (World.init T0) (pre11 ++ [.revoke ikm] ++ postIk)).2
def dIk : Drr :=
  { key := some { created := 1700000061, enc := .enc 3 5 (.key 4), parent := some ⟨.ik 0, 1700000061⟩ },
    data := .enc 4 4 (.payload 2) }

/-- `rev_seen`, `ik_revocation_bounded`: the IK of partition 0 is revoked; 61 s later (interval 60 s)
the long-lived session encrypts — all hypotheses hold, and the record names a new key. -/
example : histOk (World.init T0) (pre11 ++ [.revoke ikm] ++ postIk) = true ∧
    (findRow (runOps (World.init T0) pre11).2.store ikm).isSome = true ∧
    sessionOpen wIk 0 ∧ allowed wIk (.encrypt 0 2 []) = true ∧
    (applyOp wIk (.encrypt 0 2 [])).1 = .record dIk ∧
    (runOps (World.init T0) pre11).2.now + (sessionCtx wIk 0).pol.revokeInterval < wIk.now ∧
    ikm.created < keyTimestamp wIk.now (sessionCtx wIk 0).pol.precision :=
  ⟨by decide, by decide, ⟨_, rfl, rfl, _, rfl, rfl⟩, by decide, by decide, by decide, by decide⟩

/-- `sk_revocation_bounded_partial`: the F-11 world satisfies every hypothesis (the record's IK has
the revoked SK as parent); the theorem places it in the cache-hit disjunct. -/
example : histOk (World.init T0) (pre11 ++ [.revoke skm] ++ post11) = true ∧
    sessionOpen w11 2 ∧ allowed w11 (.encrypt 2 3 []) = true ∧
    (applyOp w11 (.encrypt 2 3 [])).1 = .record e11 ∧ skm.kid = .sk ∧
    CanStamp w11 .sk (sessionCtx w11 2).pol.precision ∧
    CanStamp w11 (.ik (sessionCtx w11 2).part) (sessionCtx w11 2).pol.precision ∧
    findRow (applyOp w11 (.encrypt 2 3 [])).2.store ⟨.ik 0, 1700000000⟩ = some r11 ∧ r11.parent = some skm :=
  ⟨by decide, ⟨_, rfl, rfl, _, rfl, rfl⟩, by decide, by decide, rfl, by unfold CanStamp; decide,
   by unfold CanStamp; decide, by decide, rfl⟩

end AsherahVerif.Props.C05
