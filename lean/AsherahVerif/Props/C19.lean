import AsherahVerif.Proofs.ServerRun
import AsherahVerif.Spec.ServerSpec
import AsherahVerif.Model.ServerTree
import AsherahVerif.Expected.Server
/-
C19 — gRPC sidecar: one reply per request, protocol enforced, no request can crash it.

Everything here is about `AsherahVerif.Server` (Model/Server.lean), the executable model of
`/repo/server/go/pkg/server/server.go` (`streamer.Stream`, `streamer.handleRequest`,
`defaultHandler.GetSession/Encrypt/Decrypt/Close`) that the correspondence check (go/cmd/hxserver +
Driver/Server.lean) runs against the real `AppEncryption.Session` on every run.

All theorems are for EVERY stream: any list of requests (get-session with any id, encrypt, decrypt of
any record, request with no oneof member), any position of a failing `Send`, a transport error or
end-of-stream at any point, every SDK (`Sdk`: an oracle whose answers may depend on when it is asked)
and — unless a hypothesis says otherwise — every variant `g : Guards` of the three handler methods
(`Guards.unfixed` = the code as found, `Guards.fixed` = with the F-10 repair).

`never_panics` needs all three nil-session tests (`g.all = true`); for the code as found it is FALSE
(`never_panics_counterexample`, defect F-10) and only `never_panics_partial` holds.  Which variant
the current tree is, is a regenerated fact (`Generated.Server.nilGuard`, `generated_variant`,
`current_tree`).
-/
namespace AsherahVerif.Props.C19
open AsherahVerif.Server AsherahVerif.ServerSpec

variable {Id Sess Payload Record : Type}

/-! ## the tie to the source: regenerated facts = what the model assumes -/

namespace G
export AsherahVerif.Generated.Server (session sessionReturns newHandler newHandlerReturns stream streamReturns
  handleRequest handleRequestReturns handleRequestCases getSession getSessionReturns encrypt encryptReturns
  decrypt decryptReturns close closeReturns fromProtobufDRR fromProtobufDRRReturns toProtobufDRR
  toProtobufDRRReturns toProtobufDRRReads encryptFields decryptFields fromProtobufDRRFields toProtobufDRRFields
  uninitializedText alreadyInitializedText encGuard decGuard closeGuard
  nilGuard protoFields)
end G
namespace E
export AsherahVerif.Expected.Server (session sessionReturns newHandler newHandlerReturns stream streamReturns
  handleRequest handleRequestReturns handleRequestCases getSession getSessionReturns fromProtobufDRR
  fromProtobufDRRReturns toProtobufDRR toProtobufDRRReturns toProtobufDRRReads encryptFields decryptFields
  fromProtobufDRRFields toProtobufDRRFields uninitializedText alreadyInitializedText protoFields)
end E

/-- the option wiring of the sidecar's constructors is the vetted one. -/
theorem generated_option_wiring :
    AsherahVerif.Generated.Server.optionWiring = AsherahVerif.Expected.Server.optionWiring := rfl

/-- `Stream`: deferred `Close` of an existing handler, Recv / EOF→nil / error→err / handle / Send /
send error→err -/
theorem generated_stream : G.stream = E.stream ∧ G.streamReturns = E.streamReturns := ⟨rfl, rfl⟩

/-- `handleRequest`: the three cases of the type switch, their handler tests, the responses returned,
and `nil` when no case matches -/
theorem generated_handleRequest :
    G.handleRequest = E.handleRequest ∧ G.handleRequestReturns = E.handleRequestReturns ∧
    G.handleRequestCases = E.handleRequestCases := ⟨rfl, rfl, rfl⟩

/-- one streamer per stream; `NewHandler` builds a `defaultHandler` without a session; `GetSession`
stores the session only on success -/
theorem generated_session_setup :
    G.session = E.session ∧ G.sessionReturns = E.sessionReturns ∧ G.newHandler = E.newHandler ∧
    G.newHandlerReturns = E.newHandlerReturns ∧ G.getSession = E.getSession ∧
    G.getSessionReturns = E.getSessionReturns := ⟨rfl, rfl, rfl, rfl, rfl, rfl⟩

/-- record mapping: nil-safe getters on the way in, plain field reads (two pointer hops) on the way out;
which protobuf field carries which `DataRowRecord` field, in both directions; what the encrypt and
decrypt responses carry -/
theorem generated_record_mapping :
    G.fromProtobufDRR = E.fromProtobufDRR ∧ G.fromProtobufDRRReturns = E.fromProtobufDRRReturns ∧
    G.toProtobufDRR = E.toProtobufDRR ∧ G.toProtobufDRRReturns = E.toProtobufDRRReturns ∧
    G.toProtobufDRRReads = E.toProtobufDRRReads ∧ G.fromProtobufDRRFields = E.fromProtobufDRRFields ∧
    G.toProtobufDRRFields = E.toProtobufDRRFields ∧ G.encryptFields = E.encryptFields ∧
    G.decryptFields = E.decryptFields := ⟨rfl, rfl, rfl, rfl, rfl, rfl, rfl, rfl, rfl⟩

theorem generated_error_texts :
    G.uninitializedText = E.uninitializedText ∧ G.alreadyInitializedText = E.alreadyInitializedText := ⟨rfl, rfl⟩

/-- appencryption.proto: messages, fields, numbers, oneofs -/
theorem generated_proto : G.protoFields = E.protoFields := rfl

/-- the handler-method variant of the tree the facts were regenerated from (the one the driver runs) -/
abbrev generatedGuards : Guards := currentGuards

def generatedMethods : List (List String) :=
  [G.encrypt, G.encryptReturns, G.decrypt, G.decryptReturns, G.close, G.closeReturns]

def unfixedMethods : List (List String) :=
  open AsherahVerif.Expected.Server.Unfixed in
  [encrypt, encryptReturns, decrypt, decryptReturns, close, closeReturns]

def fixedMethods : List (List String) :=
  open AsherahVerif.Expected.Server.Fixed in
  [encrypt, encryptReturns, decrypt, decryptReturns, close, closeReturns]

/-- `defaultHandler.Encrypt/Decrypt/Close` are one of the two expected variants, and the derived
guard facts say which -/
theorem generated_variant :
    (generatedMethods = unfixedMethods ∧ generatedGuards = Guards.unfixed) ∨
    (generatedMethods = fixedMethods ∧ generatedGuards = Guards.fixed) := by
  first
  | exact Or.inl ⟨rfl, rfl⟩
  | exact Or.inr ⟨rfl, rfl⟩

theorem nilGuard_is_all : G.nilGuard = generatedGuards.all := rfl

/-! ## one response per request -/

/-- **`stream_loop`** — for any stream (any items, any start state): `Stream` never calls `Send` more
often than it took requests from `Recv`; if it does not panic it calls `Send` exactly once per
request up to the end of the stream (EOF, transport error on `Recv`, or the first failing `Send`)
and returns `nil` after EOF and the error otherwise. -/
theorem stream_loop (g : Guards) (sdk : Sdk Id Sess Payload Record) (t : Nat) (st : HState Sess)
    (items : List (Item Id Payload Record)) :
    (run g sdk t st items).sent.length ≤ processed items ∧
    ((run g sdk t st items).ret ≠ .panic →
      (run g sdk t st items).sent.length = processed items ∧ (run g sdk t st items).ret = cleanRet items) := by
  simpa [Result.sent] using run_loop g sdk t st items

theorem processed_requests (reqs : List (Request Id Payload Record)) :
    processed (requests reqs) = reqs.length ∧ cleanRet (requests reqs) = .nil := by
  induction reqs with
  | nil => exact ⟨rfl, rfl⟩
  | cons r rs ih => simp only [requests, List.map_cons, processed, cleanRet, List.length_cons] at ih ⊢; exact ⟨by rw [ih.1], ih.2⟩

theorem log_requests (g : Guards) (sdk : Sdk Id Sess Payload Record) (reqs : List (Request Id Payload Record)) :
    ∀ (t : Nat) (st : HState Sess), (run g sdk t st (requests reqs)).ret ≠ .panic →
      (run g sdk t st (requests reqs)).log.map (·.2.1) = reqs := by
  induction reqs with
  | nil => intro t st _; simp [requests, run]
  | cons r rs ih =>
    intro t st h
    simp only [requests, List.map_cons] at h ⊢
    cases hs : step g sdk t st r with
    | panic => rw [run_msg_panic true _ hs] at h; exact absurd (finish_panic g st) h
    | reply st' resp =>
      rw [run_msg_reply true _ hs] at h ⊢
      simp only [if_true, List.map_cons, List.cons.injEq, true_and] at h ⊢
      exact ih (t + 1) st' h

/-- **every request receives exactly one response**: a client sends any requests and closes its side;
unless the handler panics, `Send` was called once per request, in order (the i-th response answers
the i-th request), and `Stream` returns nil. -/
theorem one_response_per_request (g : Guards) (sdk : Sdk Id Sess Payload Record)
    (reqs : List (Request Id Payload Record)) (h : (run g sdk 0 .uninit (requests reqs)).ret ≠ .panic) :
    (run g sdk 0 .uninit (requests reqs)).sent.length = reqs.length ∧
    (run g sdk 0 .uninit (requests reqs)).log.map (·.2.1) = reqs ∧
    (run g sdk 0 .uninit (requests reqs)).ret = .nil := by
  have := (stream_loop g sdk 0 .uninit (requests reqs)).2 h
  rw [(processed_requests reqs).1, (processed_requests reqs).2] at this
  exact ⟨this.1, log_requests g sdk reqs 0 .uninit h, this.2⟩

/-! ## no request can crash it -/

/-- the full statement of "no sequence of messages panics the handler", for a variant `g` -/
def never_panics_full (g : Guards) : Prop :=
  ∀ {Id Sess Payload Record : Type} (sdk : Sdk Id Sess Payload Record), WellFormed sdk →
    ∀ (t : Nat) (st : HState Sess) (items : List (Item Id Payload Record)), (run g sdk t st items).ret ≠ .panic

/-- **never panics** — with the nil-session tests in Encrypt, Decrypt and Close, no stream panics:
any requests, from any handler state (in particular after a rejected get-session), ended by EOF, a
transport error or a failing `Send`; for every SDK that returns well-formed records. -/
theorem never_panics (g : Guards) (hg : g.all = true) : never_panics_full g := by
  intro Id Sess Payload Record sdk hw t st items
  have hc : ∀ st : HState Sess, closeHandler g st ≠ .panic := by
    intro st
    have : g.close = true := by cases g; simp [Guards.all] at hg ⊢; exact hg.2
    cases st <;> simp [closeHandler, this]
  induction items generalizing t st with
  | nil => simp only [run]; rw [finish_ret_of_close _ _ _ (hc st)]; decide
  | cons it rest ih =>
    cases it with
    | recvErr => simp only [run]; rw [finish_ret_of_close _ _ _ (hc st)]; decide
    | msg req ok =>
      cases hs : step g sdk t st req with
      | panic => exact absurd hs (step_ne_panic hg hw t st req)
      | reply st' resp =>
        rw [run_msg_reply ok rest hs]
        cases ok with
        | true => simpa using ih (t + 1) st'
        | false => simp only [Bool.false_eq_true, if_false]; rw [finish_ret_of_close _ _ _ (hc st')]; decide

/-- with the repair, the count is unconditional: exactly one response per request, always -/
theorem one_response_per_request_fixed (g : Guards) (hg : g.all = true) (sdk : Sdk Id Sess Payload Record)
    (hw : WellFormed sdk) (reqs : List (Request Id Payload Record)) :
    (run g sdk 0 .uninit (requests reqs)).sent.length = reqs.length ∧
    (run g sdk 0 .uninit (requests reqs)).ret = .nil :=
  let h := one_response_per_request g sdk reqs (never_panics g hg sdk hw 0 .uninit _)
  ⟨h.1, h.2.2⟩

/-- **F-10**: the code as found panics — a rejected get-session (empty partition id) followed by
end-of-stream (the deferred `Close`), by an encrypt, or by a decrypt. -/
theorem never_panics_counterexample : ¬ never_panics_full Guards.unfixed := by
  intro h
  exact h simSdk (fun _ _ _ _ _ => rfl) 0 .uninit [.msg (.getSession 0) true] (by decide)

theorem f10_close : (run Guards.unfixed simSdk 0 .uninit (requests [.getSession 0])).ret = .panic := by decide
theorem f10_encrypt :
    (run Guards.unfixed simSdk 0 .uninit (requests [.getSession 0, .encrypt 7])).ret = .panic ∧
    (run Guards.unfixed simSdk 0 .uninit (requests [.getSession 0, .encrypt 7])).sent.length = 1 := by decide
theorem f10_decrypt :
    (run Guards.unfixed simSdk 0 .uninit (requests [.getSession 0, .decrypt ⟨1, 7, true⟩])).ret = .panic := by decide

/-- each of the three tests is needed: a variant lacking one of them panics on a 1- or 2-request stream -/
theorem each_guard_needed (g : Guards) (hg : g.all = false) :
    ∃ items, (run g simSdk 0 .uninit items).ret = .panic := by
  obtain ⟨e, d, c⟩ := g
  cases c with
  | false => exact ⟨requests [.getSession 0], by cases e <;> cases d <;> decide⟩
  | true =>
    cases e with
    | false => exact ⟨requests [.getSession 0, .encrypt 7], by cases d <;> decide⟩
    | true =>
      cases d with
      | false => exact ⟨requests [.getSession 0, .decrypt ⟨1, 7, true⟩], by decide⟩
      | true => simp [Guards.all] at hg

theorem simSdk_wellFormed : WellFormed simSdk := fun _ _ _ _ _ => rfl

/-- the sidecar (with the simulated SDK) never panics iff all three tests are present -/
theorem never_panics_iff (g : Guards) :
    (∀ items, (run g simSdk 0 .uninit items).ret ≠ .panic) ↔ g.all = true := by
  constructor
  · intro h
    cases hg : g.all with
    | true => rfl
    | false => obtain ⟨items, hp⟩ := each_guard_needed g hg; exact absurd hp (h items)
  · intro hg items; exact never_panics g hg simSdk simSdk_wellFormed 0 .uninit items

/-- what holds for the code as found: a stream on which no get-session is rejected never panics.
(Missing for the full statement: streams with a rejected get-session — that is F-10.) -/
theorem never_panics_partial (g : Guards) (sdk : Sdk Id Sess Payload Record) (hw : WellFormed sdk)
    (items : List (Item Id Payload Record))
    (hacc : ∀ t id ok, Item.msg (.getSession id) ok ∈ items → sdk.getSession t id ≠ none) :
    ∀ (t : Nat) (st : HState Sess), st ≠ .failedInit → (run g sdk t st items).ret ≠ .panic := by
  have hc : ∀ st : HState Sess, st ≠ .failedInit → closeHandler g st ≠ .panic := by
    intro st hst; cases st <;> simp [closeHandler] at hst ⊢
  induction items with
  | nil => intro t st hst; simp only [run]; rw [finish_ret_of_close _ _ _ (hc st hst)]; decide
  | cons it rest ih =>
    intro t st hst
    cases it with
    | recvErr => simp only [run]; rw [finish_ret_of_close _ _ _ (hc st hst)]; decide
    | msg req ok =>
      cases hs : step g sdk t st req with
      | panic => exact absurd hs (step_ne_panic_of_not_failed hw t req hst)
      | reply st' resp =>
        have hst' : st' ≠ .failedInit := by
          intro hf
          cases st with
          | failedInit => exact hst rfl
          | ready s => have := step_keeps_handler hs rfl; rw [hf] at this; cases this
          | uninit =>
            cases req with
            | getSession id =>
              have hne := hacc t id ok (List.mem_cons_self ..)
              cases hx : sdk.getSession t id with
              | none => exact hne hx
              | some s => simp [step, HState.session?, hx] at hs; rw [hf] at hs; cases hs.1
            | encrypt p => simp [step, HState.session?] at hs; rw [hf] at hs; cases hs.1
            | decrypt r => simp [step, HState.session?] at hs; rw [hf] at hs; cases hs.1
            | empty => simp [step] at hs; rw [hf] at hs; cases hs.1
        rw [run_msg_reply ok rest hs]
        have ih' := ih (fun t id ok hm => hacc t id ok (List.mem_cons_of_mem _ hm))
        cases ok with
        | true => simpa using ih' (t + 1) st' hst'
        | false => simp only [Bool.false_eq_true, if_false]; rw [finish_ret_of_close _ _ _ (hc st' hst')]; decide

/-- **the verdict for the current tree**: the model instantiated with the regenerated guard facts never
panics iff `Generated.Server.nilGuard = true`.  (On the unchanged tree `nilGuard = false`: the
right-hand side is false, so some stream panics — F-10; once the repair is committed the extractor
regenerates `nilGuard = true` and the left-hand side holds.) -/
theorem current_tree :
    (∀ items, (run generatedGuards simSdk 0 .uninit items).ret ≠ .panic) ↔ G.nilGuard = true := by
  rw [nilGuard_is_all]; exact never_panics_iff generatedGuards

/-- `never_panics` for the current tree, for every SDK; the premise is discharged by `decide` as soon as
the repair is in the tree: `never_panics_current (by decide)` -/
theorem never_panics_current (h : G.nilGuard = true) : never_panics_full generatedGuards :=
  never_panics generatedGuards (by rw [← nilGuard_is_all]; exact h)

/-! ## protocol enforced -/

/-- **encrypt / decrypt before a successful get-session are answered with the "not yet
initialized" error**: in the log of any stream, an answered encrypt or decrypt that is not preceded by a
get-session answered `ok` — so also one that follows a REJECTED get-session — carries
`UninitializedSessionResponse`.  (Holds for both variants: the code as found never *answers* such a
request after a rejected get-session, it panics — see `never_panics`.) -/
theorem before_session_is_error (g : Guards) (sdk : Sdk Id Sess Payload Record)
    (items : List (Item Id Payload Record)) (pre post : List (Entry Id Payload Record))
    (e : Entry Id Payload Record)
    (hl : (run g sdk 0 .uninit items).log = pre ++ e :: post)
    (hpre : ∀ x ∈ pre, x.2.2 ≠ .ok) (hc : e.2.1.isCrypt = true) :
    e.2.2 = .err .uninitialized := by
  have key : ∀ (pre : List (Entry Id Payload Record)) (t : Nat) (st : HState Sess),
      IsLog g sdk t st (pre ++ e :: post) → st.isReady = false → (∀ x ∈ pre, x.2.2 ≠ .ok) →
      e.2.2 = .err .uninitialized := by
    intro pre
    induction pre with
    | nil =>
      intro t st h hn _
      obtain ⟨st', hs, _, _⟩ := isLog_cons h
      cases st <;> cases hq : e.2.1 <;>
        grind [step, HState.session?, liftH, hEncrypt, hDecrypt, HState.isReady, Request.isCrypt]
    | cons x pre ih =>
      intro t st h hn hp
      obtain ⟨st', hs, _, hl'⟩ := isLog_cons h
      exact ih (t + 1) st' hl' (step_not_ready_stays hs hn (hp x (List.mem_cons_self ..)))
        (fun y hy => hp y (List.mem_cons_of_mem _ hy))
  exact key pre 0 .uninit ⟨items, hl⟩ rfl hpre

/-- the step-level fact for the repaired code: a handler without a session (none yet, or a rejected
get-session) answers encrypt and decrypt with the error and stays as it is -/
theorem before_session_is_error_step (g : Guards) (hg : g.enc = true ∧ g.dec = true)
    (sdk : Sdk Id Sess Payload Record) (t : Nat) (st : HState Sess) (hn : st.isReady = false)
    (req : Request Id Payload Record) (hc : req.isCrypt = true) :
    step g sdk t st req = .reply st (.err .uninitialized) :=
  step_crypt_without_session sdk t (Or.inr hg) hn hc

/-- **a second get-session is answered with the "already initialized" error**: in the log of any
stream, a get-session that follows an earlier get-session (accepted or rejected). -/
theorem second_get_session_is_error (g : Guards) (sdk : Sdk Id Sess Payload Record)
    (items : List (Item Id Payload Record)) (pre post : List (Entry Id Payload Record))
    (e : Entry Id Payload Record)
    (hl : (run g sdk 0 .uninit items).log = pre ++ e :: post)
    (hfirst : ∃ x ∈ pre, x.2.1.isGetSession = true) (hg : e.2.1.isGetSession = true) :
    e.2.2 = .err .alreadyInitialized := by
  -- once the handler exists every get-session is refused
  have refused : ∀ (t : Nat) (st : HState Sess) (l : List (Entry Id Payload Record)),
      IsLog g sdk t st l → st.hasHandler = true → e ∈ l → e.2.2 = .err .alreadyInitialized := by
    intro t st l h hh he
    have hs := isLog_handler_entries l h hh e he
    cases hq : e.2.1 with
    | getSession id =>
      rw [hq, step_second_getSession g sdk e.1 id hh] at hs
      injection hs with _ h2; exact h2.symm
    | _ => simp [hq, Request.isGetSession] at hg
  have key : ∀ (pre : List (Entry Id Payload Record)) (t : Nat) (st : HState Sess),
      IsLog g sdk t st (pre ++ e :: post) → (∃ x ∈ pre, x.2.1.isGetSession = true) →
      e.2.2 = .err .alreadyInitialized := by
    intro pre
    induction pre with
    | nil => intro _ _ _ ⟨x, hx, _⟩; cases hx
    | cons y pre ih =>
      intro t st h ⟨x, hx, hxg⟩
      obtain ⟨st', hs, _, hl'⟩ := isLog_cons h
      by_cases hy : y.2.1.isGetSession = true
      · have hh : st'.hasHandler = true := by
          cases hq : y.2.1 with
          | getSession id => rw [hq] at hs; exact step_getSession_sets_handler hs
          | _ => simp [hq, Request.isGetSession] at hy
        exact refused (t + 1) st' _ hl' hh (by simp)
      · cases hx with
        | head => exact absurd hxg hy
        | tail _ hm => exact ih (t + 1) st' hl' ⟨x, hm, hxg⟩
  exact key pre 0 .uninit ⟨items, hl⟩ hfirst

/-- **after a successful get-session, the stream behaves exactly like the SDK session for that
partition**: if a get-session was answered `ok`, the session factory returned a session `s` for the
requested id, and every later response is exactly what `s` answers to that request at that moment
(`readyAnswer`: `Encrypt`'s record, `Decrypt`'s payload, or an error response if the SDK refuses;
"already initialized" for a further get-session); the stream cannot panic any more and its session is
closed when it ends.  Both variants of the code. -/
theorem ready_behaves_like_sdk (g : Guards) (sdk : Sdk Id Sess Payload Record) (hw : WellFormed sdk)
    (items : List (Item Id Payload Record)) (pre post : List (Entry Id Payload Record))
    (e0 : Entry Id Payload Record)
    (hl : (run g sdk 0 .uninit items).log = pre ++ e0 :: post) (hok : e0.2.2 = .ok) :
    ∃ id s, e0.2.1 = .getSession id ∧ sdk.getSession e0.1 id = some s ∧
      ∀ e ∈ post, e.2.2 = readyAnswer sdk e.1 s e.2.1 := by
  have key : ∀ (pre : List (Entry Id Payload Record)) (t : Nat) (st : HState Sess),
      IsLog g sdk t st (pre ++ e0 :: post) →
      ∃ id s, e0.2.1 = .getSession id ∧ sdk.getSession e0.1 id = some s ∧
        ∀ e ∈ post, e.2.2 = readyAnswer sdk e.1 s e.2.1 := by
    intro pre
    induction pre with
    | nil =>
      intro t st h
      obtain ⟨st', hs, ht, hl'⟩ := isLog_cons h
      rw [hok] at hs
      obtain ⟨_, id, s, hq, hgs, hst'⟩ := step_ok hs
      refine ⟨id, s, hq, by rw [ht]; exact hgs, ?_⟩
      intro e he
      rw [hst'] at hl'
      have := isLog_handler_entries post hl' rfl e he
      rw [step_ready hw] at this
      injection this with _ h2; exact h2.symm
    | cons x pre ih =>
      intro t st h
      obtain ⟨st', _, _, hl'⟩ := isLog_cons h
      exact ih (t + 1) st' hl'
  exact key pre 0 .uninit ⟨items, hl⟩

/-- from a ready handler: the answers are the SDK's, nothing panics, one response per request, and the
deferred `Close` closes exactly this session — whatever ends the stream -/
theorem ready_run (g : Guards) (sdk : Sdk Id Sess Payload Record) (hw : WellFormed sdk) (s : Sess)
    (items : List (Item Id Payload Record)) (t : Nat) :
    (∀ e ∈ (run g sdk t (.ready s) items).log, e.2.2 = readyAnswer sdk e.1 s e.2.1) ∧
    (run g sdk t (.ready s) items).ret = cleanRet items ∧
    (run g sdk t (.ready s) items).sent.length = processed items ∧
    (run g sdk t (.ready s) items).closed = some s := by
  have hent : ∀ e ∈ (run g sdk t (.ready s) items).log, e.2.2 = readyAnswer sdk e.1 s e.2.1 := by
    intro e he
    have := isLog_handler_entries _ (isLog_run g sdk t (.ready s) items) rfl e he
    rw [step_ready hw] at this
    injection this with _ h2; exact h2.symm
  have hrc : (run g sdk t (.ready s) items).ret ≠ .panic ∧ (run g sdk t (.ready s) items).closed = some s := by
    induction items generalizing t with
    | nil => simp [run, finish, closeHandler]
    | cons it rest ih =>
      cases it with
      | recvErr => simp [run, finish, closeHandler]
      | msg req ok =>
        rw [run_msg_reply ok rest (step_ready hw t s req)]
        cases ok with
        | true => simpa using ih (t + 1) (fun e he => by
            have := isLog_handler_entries _ (isLog_run g sdk (t + 1) (.ready s) rest) rfl e he
            rw [step_ready hw] at this
            injection this with _ h2; exact h2.symm)
        | false => simp [finish, closeHandler]
  have hloop := (stream_loop g sdk t (.ready s) items).2 hrc.1
  exact ⟨hent, hloop.2, hloop.1, hrc.2⟩

/-! ### with the SDK's guarantees: records round-trip through the sidecar, foreign and corrupt records are refused -/

/-- a record the sidecar handed out in an encrypt response on a stream for partition `part s₁` decrypts,
on any stream whose session is for the same partition, to the payload that was encrypted -/
theorem server_roundtrip (g : Guards) (sdk : Sdk Id Sess Payload Record) (part : Sess → Id) (emptyId : Id)
    (laws : SdkLaws sdk part emptyId) (t₁ t₂ : Nat) (s₁ s₂ : Sess) (p : Payload) (r : Record)
    (st' : HState Sess) (henc : step g sdk t₁ (.ready s₁) (.encrypt p) = .reply st' (.enc r))
    (hsame : part s₂ = part s₁) :
    step g sdk t₂ (.ready s₂) (.decrypt r) = .reply (.ready s₂) (.dec p) := by
  have he : sdk.encrypt t₁ s₁ p = some r := by
    rw [step_ready (fun _ _ _ _ h => laws.wellformed h)] at henc
    simp only [readyAnswer] at henc
    cases hx : sdk.encrypt t₁ s₁ p with
    | none => rw [hx] at henc; simp at henc
    | some r' => rw [hx] at henc; simp at henc; rw [henc.2]
  rw [step_ready (fun _ _ _ _ h => laws.wellformed h)]
  simp [readyAnswer, laws.roundtrip t₂ s₂ he hsame]

/-- … and on a stream of ANOTHER partition it is answered with an error response -/
theorem server_foreign_is_error (g : Guards) (sdk : Sdk Id Sess Payload Record) (part : Sess → Id) (emptyId : Id)
    (laws : SdkLaws sdk part emptyId) (t₁ t₂ : Nat) (s₁ s₂ : Sess) (p : Payload) (r : Record)
    (st' : HState Sess) (henc : step g sdk t₁ (.ready s₁) (.encrypt p) = .reply st' (.enc r))
    (hother : part s₂ ≠ part s₁) :
    step g sdk t₂ (.ready s₂) (.decrypt r) = .reply (.ready s₂) (.err .sdk) := by
  have he : sdk.encrypt t₁ s₁ p = some r := by
    rw [step_ready (fun _ _ _ _ h => laws.wellformed h)] at henc
    simp only [readyAnswer] at henc
    cases hx : sdk.encrypt t₁ s₁ p with
    | none => rw [hx] at henc; simp at henc
    | some r' => rw [hx] at henc; simp at henc; rw [henc.2]
  rw [step_ready (fun _ _ _ _ h => laws.wellformed h)]
  simp [readyAnswer, laws.foreign t₂ s₂ he hother]

/-- a record no session ever produced (corrupted, truncated, empty) is answered with an error response -/
theorem server_corrupt_is_error (g : Guards) (sdk : Sdk Id Sess Payload Record) (part : Sess → Id) (emptyId : Id)
    (laws : SdkLaws sdk part emptyId) (t : Nat) (s : Sess) (r : Record)
    (hnot : ∀ t s p, sdk.encrypt t s p ≠ some r) :
    step g sdk t (.ready s) (.decrypt r) = .reply (.ready s) (.err .sdk) := by
  rw [step_ready (fun _ _ _ _ h => laws.wellformed h)]
  simp [readyAnswer, laws.corrupt t s hnot]

/-- a get-session with the empty partition id is refused, and the session a successful one yields is
for the requested partition -/
theorem get_session_partition (g : Guards) (sdk : Sdk Id Sess Payload Record) (part : Sess → Id) (emptyId : Id)
    (laws : SdkLaws sdk part emptyId) (t : Nat) :
    step g sdk t .uninit (.getSession emptyId) = .reply .failedInit (.err .sdk) ∧
    ∀ id st' , step g sdk t .uninit (.getSession id) = .reply st' .ok → ∃ s, st' = .ready s ∧ part s = id := by
  constructor
  · simp [step, HState.session?, laws.rejects_empty t]
  · intro id st' h
    obtain ⟨_, id', s, hq, hgs, hst⟩ := step_ok h
    injection hq with hid
    exact ⟨s, hst, by rw [hid]; exact laws.session_part hgs⟩

/-- the laws are satisfiable: the simulated SDK (partition = session, 0 = empty id) has them -/
theorem simSdk_laws : SdkLaws simSdk (fun s => s) 0 where
  session_part := by intro t id s h; simp [simSdk] at h; exact h.2.symm
  rejects_empty := by intro t; simp [simSdk]
  wellformed := by intros; rfl
  roundtrip := by
    intro t s p r t' s' h hs
    simp [simSdk] at h ⊢; subst h; simp [hs]
  foreign := by
    intro t s p r t' s' h hs
    simp [simSdk] at h ⊢; subst h; simpa using fun h => hs h.symm
  corrupt := by
    intro r t' s' h
    simp only [simSdk] at h ⊢
    cases hg : r.genuine with
    | false => simp
    | true => exact absurd (by cases r; simp_all) (h 0 r.part r.payload)

/-! ## the monitor accepts every trace of the repaired model -/

theorem step_conforms (g : Guards) (hg : g.enc = true ∧ g.dec = true) (t : Nat) (st st' : HState Nat)
    (req : Request Nat Nat SimRecord) (a : Response Nat SimRecord)
    (h : step g simSdk t st req = .reply st' a) :
    (absState st).step (absReq req) (absResp req a) = some (absState st') := by
  obtain ⟨he, hd⟩ := hg
  cases st <;> cases req <;>
    simp [step, HState.session?, liftH, hEncrypt, hDecrypt, simSdk, he, hd] at h <;>
    grind [Phase.step, absState, absReq, absResp, MObs.isErr]

/-- **the protocol monitor (Spec/ServerSpec.lean) accepts the log of every stream of the model** with
the nil-session tests — the same monitor the driver runs on the real sidecar's traces -/
theorem model_trace_conforms (g : Guards) (hg : g.enc = true ∧ g.dec = true)
    (items : List (Item Nat Nat SimRecord)) (t : Nat) (st : HState Nat) :
    (absState st).accepts ((run g simSdk t st items).log.map fun e => (absReq e.2.1, absResp e.2.1 e.2.2)) = true := by
  have key : ∀ (l : List (Entry Nat Nat SimRecord)) (t : Nat) (st : HState Nat), IsLog g simSdk t st l →
      (absState st).accepts (l.map fun e => (absReq e.2.1, absResp e.2.1 e.2.2)) = true := by
    intro l
    induction l with
    | nil => intros; rfl
    | cons e l ih =>
      intro t st h
      obtain ⟨st', hs, _, hl⟩ := isLog_cons h
      simp only [List.map_cons, Phase.accepts, step_conforms g hg _ st st' _ _ hs]
      exact ih (t + 1) st' hl
  exact key _ t st (isLog_run g simSdk t st items)

/-! ## non-vacuity: the statements talk about streams that exist -/

/-- a whole conversation on the repaired code: refused before the session, accepted get-session,
second get-session refused, round trip, foreign and corrupt record refused, empty request → nil message -/
example :
    (run Guards.fixed simSdk 0 .uninit (requests
      [.encrypt 5, .getSession 1, .getSession 2, .encrypt 5, .decrypt ⟨1, 5, true⟩, .decrypt ⟨2, 5, true⟩,
       .decrypt ⟨1, 5, false⟩, .empty])).sent =
      [.err .uninitialized, .ok, .err .alreadyInitialized, .enc ⟨1, 5, true⟩, .dec 5, .err .sdk, .err .sdk, .nilMsg] := by
  decide

/-- `stream_loop` with a transport error and with a failing Send: responses stop there, return value err -/
example : (run Guards.fixed simSdk 0 .uninit [.msg (.getSession 1) true, .msg (.encrypt 3) false, .msg (.encrypt 4) true]).sent.length = 2
    ∧ (run Guards.fixed simSdk 0 .uninit [.msg (.getSession 1) true, .msg (.encrypt 3) false, .msg (.encrypt 4) true]).ret = .err
    ∧ (run Guards.fixed simSdk 0 .uninit [.msg (.getSession 1) true, .recvErr, .msg (.encrypt 4) true]).sent.length = 1
    ∧ (run Guards.fixed simSdk 0 .uninit [.msg (.getSession 1) true, .recvErr]).closed = some 1 := by decide

/-- the premise of `one_response_per_request` is satisfiable on the code as found … -/
example : (run Guards.unfixed simSdk 0 .uninit (requests [.getSession 1, .encrypt 2])).ret ≠ .panic := by decide
/-- … and not always satisfied (F-10): here only 1 of 2 requests got a response -/
example : (run Guards.unfixed simSdk 0 .uninit (requests [.getSession 0, .encrypt 2])).sent.length = 1 := by decide

/-- `before_session_is_error` after a REJECTED get-session, repaired code: error, no panic, stream ends cleanly -/
example :
    (run Guards.fixed simSdk 0 .uninit (requests [.getSession 0, .encrypt 2, .decrypt ⟨1, 2, true⟩])).sent =
      [.err .sdk, .err .uninitialized, .err .uninitialized] ∧
    (run Guards.fixed simSdk 0 .uninit (requests [.getSession 0, .encrypt 2, .decrypt ⟨1, 2, true⟩])).ret = .nil := by
  decide

/-- `second_get_session_is_error` also after a rejected first one -/
example : (run Guards.fixed simSdk 0 .uninit (requests [.getSession 0, .getSession 1])).sent =
    [.err .sdk, .err .alreadyInitialized] := by decide

/-- the hypothesis of `never_panics` is met by the repaired variant, not by the code as found -/
example : Guards.fixed.all = true ∧ Guards.unfixed.all = false := by decide

/-- `never_panics_partial`'s hypothesis is satisfiable: a stream whose get-session is accepted -/
example : ∀ t id ok, Item.msg (.getSession id) ok ∈ (requests [Request.getSession 1, .encrypt (2 : Nat)] : List (Item Nat Nat SimRecord)) →
    simSdk.getSession t id ≠ none := by
  intro t id ok h; simp [requests] at h; simp [simSdk, h.1]

/-- the monitor is not trivially accepting: it refuses the trace of F-10's neighbour, a handler that would
answer an encrypt after a rejected get-session with a record -/
example : Phase.noSession.accepts [(.gs 0, .err .sdk), (.enc, .enc)] = false ∧
    Phase.noSession.accepts [(.gs 1, .ok), (.dec (some 2), .decEq)] = false ∧
    Phase.noSession.accepts [(.gs 1, .ok), (.gs 1, .ok)] = false ∧
    Phase.noSession.accepts [(.enc, .panic)] = false := by decide

end AsherahVerif.Props.C19
