import AsherahVerif.Proofs.KeyRef
import AsherahVerif.Proofs.ExtraKeyRef
import AsherahVerif.Generated.KeyCacheFacts
/-
C08 — a key in use is never destroyed underneath its user, under any schedule.

The theorems are about `AsherahVerif.KeyRef` (Model/KeyRef.lean): any number of anonymous threads
acquire / use / release keys of one shared key cache; every eviction choice, synchronous or
asynchronous callback delivery, reload and replacement is a possible step; schedules are arbitrary
lists of steps.  The model is parameterised by protocol facts read off key_cache.go by the
extractor; `facts_of_source` ties the theorems to the current source.  What the theorems cannot
cover is the real Go scheduler and memory model: the harness go/cmd/hxconc explores the real code
under preemption-bounded schedules and random delays at instrumented sync points.
-/
namespace AsherahVerif.Props.C08
open AsherahVerif.KeyRef

/-- the protocol facts of the CURRENT source (regenerated on every run) are the ones the safety
theorems are proved for. -/
theorem facts_of_source : AsherahVerif.Generated.KeyCacheFacts.facts = Facts.good := by decide

/-- **counting invariant**, every reachable state, any number of threads, any schedule:
the reference count of every key object covers the cache's reference, every pending eviction
callback and every holder; a destroyed object has no references left. -/
theorem count_inv (sched : List Step) :
    let s := run Facts.good init sched
    (∀ o, (cnt s o : Int) ≤ (objAt s.objs o).refs) ∧
    (∀ o, (objAt s.objs o).destroyed = true → (objAt s.objs o).refs ≤ 0) :=
  let h := run_inv init inv_init sched
  ⟨h.count, h.dead⟩

/-- **a held key is never destroyed**: in every reachable state every handle some thread holds
refers to a live key. -/
theorem held_key_alive (sched : List Step) (o : Nat) (ho : o ∈ (run Facts.good init sched).holders) :
    (objAt (run Facts.good init sched).objs o).destroyed = false := by
  have h := run_inv init inv_init sched
  have hpos : 0 < cnt (run Facts.good init sched) o := by
    have := List.count_pos_iff.mpr ho; unfold cnt; omega
  have hc := h.count o
  cases hd : (objAt (run Facts.good init sched).objs o).destroyed with
  | false => rfl
  | true => have := h.dead o hd; omega

/-- **no operation ever fails because its key was destroyed**, under any schedule. -/
theorem use_safe (sched : List Step) : bad (run Facts.good init sched) = false :=
  (run_inv init inv_init sched).ok

/-- the same, applied to the facts regenerated from the source. -/
theorem use_safe_current_source (sched : List Step) :
    bad (run AsherahVerif.Generated.KeyCacheFacts.facts init sched) = false := by
  rw [facts_of_source]; exact use_safe sched

/-- the code as found (reference taken after `RUnlock`, defect F-5) is NOT safe: a 6-step schedule
destroys a key between lookup and increment. -/
theorem use_after_destroy_counterexample :
    bad (run { Facts.good with incrUnderReadLock := false } init
      [.load 1 none false, .release 0, .hit 1, .load 0 (some 1) false, .incr 0, .use 0]) = true := by
  decide

/-- a cache that did not release its reference on eviction would not be unsafe, only leak:
the invariant is an inequality, the equality is C09's business. Non-vacuity of the model: keys do
get destroyed (so `held_key_alive` is not trivially true). -/
example : (objAt (run Facts.good init [.load 1 none false, .release 0, .load 0 (some 1) false]).objs 0).destroyed = true := by
  decide

example : (run Facts.good init [.load 1 none false, .hit 1, .load 0 (some 1) true, .use 0, .deliver, .use 0]).holders = [1, 0, 0] := by
  decide

/-! ### exact accounting (strengthening): equality instead of inequality, hence no leak -/

/-- **exact counting invariant**, every reachable state, any schedule: cache keys are unique, the
reference count of every key object EQUALS the number of cache entries, pending eviction callbacks
and holders that refer to it, and an object (in range) is destroyed exactly when its count is ≤ 0. -/
theorem count_exact (sched : List Step) :
    let s := run Facts.good init sched
    (keysOf s.cache).Nodup ∧
    (∀ o, (objAt s.objs o).refs = (cnt s o : Int)) ∧
    (∀ o, o < s.objs.length → ((objAt s.objs o).destroyed = true ↔ (objAt s.objs o).refs ≤ 0)) ∧
    (∀ o, 0 < cnt s o → o < s.objs.length) :=
  let h := run_invEq init invEq_init sched
  ⟨h.keys, h.count, h.dead, h.range⟩

/-- **no leak**: in every reachable state every key object that is neither cached, nor awaiting its
eviction callback, nor held by a thread has been destroyed (its secret wiped). -/
theorem no_leak (sched : List Step) (o : Nat)
    (ho : o < (run Facts.good init sched).objs.length)
    (hc : inCache (run Facts.good init sched).cache o = 0)
    (hp : o ∉ (run Facts.good init sched).pending)
    (hh : o ∉ (run Facts.good init sched).holders) :
    (objAt (run Facts.good init sched).objs o).destroyed = true := by
  have h := run_invEq init invEq_init sched
  apply (h.dead o ho).mpr
  rw [h.count o]
  have h1 := List.count_eq_zero.mpr hp
  have h2 := List.count_eq_zero.mpr hh
  unfold cnt; omega

/-- conversely an object that IS referenced (cached, pending or held) is alive. -/
theorem referenced_alive (sched : List Step) (o : Nat) (hpos : 0 < cnt (run Facts.good init sched) o) :
    (objAt (run Facts.good init sched).objs o).destroyed = false := by
  have h := run_invEq init invEq_init sched
  cases hd : (objAt (run Facts.good init sched).objs o).destroyed with
  | false => rfl
  | true =>
    have := (h.dead o (h.range o hpos)).mp hd
    rw [h.count o] at this; omega

/-- a quiescent reachable state with an empty cache has destroyed every key it ever created. -/
theorem quiescent_all_destroyed (sched : List Step)
    (hc : (run Facts.good init sched).cache = []) (hp : (run Facts.good init sched).pending = [])
    (hh : (run Facts.good init sched).holders = []) (o : Nat) (ho : o < (run Facts.good init sched).objs.length) :
    (objAt (run Facts.good init sched).objs o).destroyed = true :=
  no_leak sched o ho (by rw [hc]; rfl) (by rw [hp]; simp) (by rw [hh]; simp)

/-- **progress to quiescence** (the model has no `Close` step, so the cache's own entries stay):
from any reachable state, once the event goroutine has run every pending callback and every holder
has released its handle (`drain`), nothing is pending or held, the cache is unchanged, and every
key object that is not in the cache is destroyed — exactly the cache's entries survive. -/
theorem drained_only_cached_survive (sched : List Step) :
    let s := run Facts.good init sched
    let s' := run Facts.good s (drain s)
    s'.pending = [] ∧ s'.holders = [] ∧ s'.cache = s.cache ∧
    ∀ o, o < s'.objs.length → ((objAt s'.objs o).destroyed = false ↔ 0 < inCache s.cache o) := by
  intro s s'
  have hq := drain_quiescent Facts.good s
  have h' : InvEq s' := by
    show InvEq (run Facts.good (run Facts.good init sched) (drain (run Facts.good init sched)))
    rw [← run_append]; exact run_invEq init invEq_init _
  refine ⟨hq.1, hq.2.1, hq.2.2, ?_⟩
  intro o ho
  have hd := h'.dead o ho
  have hc := h'.count o
  have hcnt : cnt s' o = inCache s.cache o := by
    show inCache s'.cache o + s'.pending.count o + s'.holders.count o = _
    rw [show s'.cache = s.cache from hq.2.2, show s'.pending = [] from hq.1, show s'.holders = [] from hq.2.1]
    simp
  rw [hcnt] at hc
  cases hdd : (objAt s'.objs o).destroyed with
  | false =>
    simp only [true_iff]
    apply Classical.byContradiction; intro hn
    have : (objAt s'.objs o).refs ≤ 0 := by omega
    have := hd.mpr this
    rw [hdd] at this; exact absurd this (by decide)
  | true =>
    have := hd.mp hdd
    constructor
    · intro h; exact absurd h (by decide)
    · intro h; omega

/-- a cache that does NOT release its reference in the evict callback leaks: a reachable state with
an object that nobody references any more (not cached, not pending, not held) and is not destroyed. -/
theorem leak_without_evict_release :
    let s := run { Facts.good with evictReleasesCacheRef := false } init
      [.load 1 none false, .release 0, .load 0 (some 1) false]
    cnt s 0 = 0 ∧ 0 < s.objs.length ∧ (objAt s.objs 0).destroyed = false ∧ (objAt s.objs 0).refs = 1 := by
  decide

/-- non-vacuity: the exact count really moves (cache + two holders = 3), `no_leak` applies to a real
object (object 0 after its eviction and release), and `drain` does work. -/
example : (objAt (run Facts.good init [.load 1 none false, .hit 1]).objs 0).refs = 3 := by decide
example : let s := run Facts.good init [.load 1 none false, .release 0, .load 0 (some 1) false]
    0 < s.objs.length ∧ inCache s.cache 0 = 0 ∧ 0 ∉ s.pending ∧ 0 ∉ s.holders ∧ (objAt s.objs 0).destroyed = true := by
  decide
example : let s := run Facts.good init [.load 1 none false, .hit 1, .load 0 (some 1) true]
    drain s = [.deliver, .release 1, .release 0, .release 0] ∧
    (objAt (run Facts.good s (drain s)).objs 0).destroyed = true ∧
    (objAt (run Facts.good s (drain s)).objs 1).destroyed = false := by
  decide

end AsherahVerif.Props.C08
