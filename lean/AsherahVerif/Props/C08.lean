import AsherahVerif.Proofs.KeyRef
import AsherahVerif.Generated.KeyCacheFacts
/-
C08 — a key in use is never destroyed underneath its user, under any schedule.

The theorems are about `AsherahVerif.KeyRef` (Model/KeyRef.lean): any number of anonymous threads
acquire / use / release keys of one shared key cache; every eviction choice, synchronous or
asynchronous callback delivery, reload and replacement is a possible step; schedules are arbitrary
lists of steps.  The model is parameterised by protocol facts read off key_cache.go by the
extractor; `facts_of_source` ties the theorems to the current source.  What the theorems cannot
cover is the real Go scheduler and memory model: the harness go/cmd/hxconc explores the real code
under preemption-bounded schedules and random delays at instrumented sync points.
-/
namespace AsherahVerif.Props.C08
open AsherahVerif.KeyRef

/-- the protocol facts of the CURRENT source (regenerated on every run) are the ones the safety
theorems are proved for. -/
theorem facts_of_source : AsherahVerif.Generated.KeyCacheFacts.facts = Facts.good := by decide

/-- **counting invariant**, every reachable state, any number of threads, any schedule:
the reference count of every key object covers the cache's reference, every pending eviction
callback and every holder; a destroyed object has no references left. -/
theorem count_inv (sched : List Step) :
    let s := run Facts.good init sched
    (∀ o, (cnt s o : Int) ≤ (objAt s.objs o).refs) ∧
    (∀ o, (objAt s.objs o).destroyed = true → (objAt s.objs o).refs ≤ 0) :=
  let h := run_inv init inv_init sched
  ⟨h.count, h.dead⟩

/-- **a held key is never destroyed**: in every reachable state every handle some thread holds
refers to a live key. -/
theorem held_key_alive (sched : List Step) (o : Nat) (ho : o ∈ (run Facts.good init sched).holders) :
    (objAt (run Facts.good init sched).objs o).destroyed = false := by
  have h := run_inv init inv_init sched
  have hpos : 0 < cnt (run Facts.good init sched) o := by
    have := List.count_pos_iff.mpr ho; unfold cnt; omega
  have hc := h.count o
  cases hd : (objAt (run Facts.good init sched).objs o).destroyed with
  | false => rfl
  | true => have := h.dead o hd; omega

/-- **no operation ever fails because its key was destroyed**, under any schedule. -/
theorem use_safe (sched : List Step) : bad (run Facts.good init sched) = false :=
  (run_inv init inv_init sched).ok

/-- the same, applied to the facts regenerated from the source. -/
theorem use_safe_current_source (sched : List Step) :
    bad (run AsherahVerif.Generated.KeyCacheFacts.facts init sched) = false := by
  rw [facts_of_source]; exact use_safe sched

/-- the code as found (reference taken after `RUnlock`, defect F-5) is NOT safe: a 6-step schedule
destroys a key between lookup and increment. -/
theorem use_after_destroy_counterexample :
    bad (run { Facts.good with incrUnderReadLock := false } init
      [.load 1 none false, .release 0, .hit 1, .load 0 (some 1) false, .incr 0, .use 0]) = true := by
  decide

/-- a cache that did not release its reference on eviction would not be unsafe, only leak:
the invariant is an inequality, the equality is C09's business. Non-vacuity of the model: keys do
get destroyed (so `held_key_alive` is not trivially true). -/
example : (objAt (run Facts.good init [.load 1 none false, .release 0, .load 0 (some 1) false]).objs 0).destroyed = true := by
  decide

example : (run Facts.good init [.load 1 none false, .hit 1, .load 0 (some 1) true, .use 0, .deliver, .use 0]).holders = [1, 0, 0] := by
  decide

end AsherahVerif.Props.C08
