import AsherahVerif.Proofs.SecMemWorld
import AsherahVerif.Spec.SecMemCode
/-
C12 — Secure memory survives syscall failures without leaking or exposing secrets.

Everything here is about `AsherahVerif.SecMem` (Model/SecMem.lean), the executable model of
go/securememory (protectedmemory + memguard back ends) that the correspondence check runs against
the real packages on every run, with a shadow memcall that fails chosen primitive calls.
All theorems are for ALL fault lists (`fl : List Bool`, consumed by every Alloc / Lock / Protect /
Unlock / Free call and by the random read; not only single faults and pairs), all secret sizes and
both implementations.

The model is parameterised by `Cfg` — whether each creation-failure path wipes the secret bytes
before it unlocks/frees them.  `theCfg` is read off the regenerated skeletons of /repo; the code as
found has all flags `false` (defect F-6): the statements that need the wipe are proved from the flag
(`Cfg.wipes`), refuted on a concrete witness for the code as found (`…_counterexample`) and proved in
the part that holds regardless (`…_partial`).
-/
namespace AsherahVerif.Props.C12
open AsherahVerif AsherahVerif.SecMem

/-! ## the tie to the source (regenerated on every run) -/

/-- the functions whose shape the model mirrors are exactly as expected. -/
theorem skeletons_expected :
    Generated.SecMem.pmNewSecret = Expected.SecMem.pmNewSecret ∧
    Generated.SecMem.pmCreateRandom = Expected.SecMem.pmCreateRandom ∧
    Generated.SecMem.pmCloseInner = Expected.SecMem.pmCloseInner ∧
    Generated.SecMem.pmAccess = Expected.SecMem.pmAccess ∧
    Generated.SecMem.pmRelease = Expected.SecMem.pmRelease ∧
    Generated.SecMem.pmClose = Expected.SecMem.pmClose ∧
    Generated.SecMem.mgAccess = Expected.SecMem.mgAccess ∧
    Generated.SecMem.mgRelease = Expected.SecMem.mgRelease ∧
    Generated.SecMem.mgClose = Expected.SecMem.mgClose ∧
    Generated.SecMem.mgNew = Expected.SecMem.mgNew ∧
    Generated.SecMem.mgCreateRandom = Expected.SecMem.mgCreateRandom ∧
    Generated.SecMem.memcallClean = Expected.SecMem.memcallClean ∧
    Generated.SecMem.pmWithBytes = Expected.SecMem.withBytes ∧
    Generated.SecMem.pmWithBytesFunc = Expected.SecMem.withBytes ∧
    Generated.SecMem.mgWithBytes = Expected.SecMem.mgWithBytes ∧
    Generated.SecMem.mgWithBytesFunc = Expected.SecMem.mgWithBytes := by decide

/-- the default memcall implementation forwards 1:1 to github.com/awnumar/memcall. -/
theorem wrapper_expected :
    Generated.SecMem.wrapAlloc = Expected.SecMem.wrapAlloc ∧
    Generated.SecMem.wrapProtect = Expected.SecMem.wrapProtect ∧
    Generated.SecMem.wrapLock = Expected.SecMem.wrapLock ∧
    Generated.SecMem.wrapUnlock = Expected.SecMem.wrapUnlock ∧
    Generated.SecMem.wrapFree = Expected.SecMem.wrapFree := by decide

/-- the creation functions are the expected ones up to the presence of the failure-path wipes, and
`theCfg` says which are present. -/
theorem creation_skeletons_expected :
    Generated.SecMem.pmNew = Expected.SecMem.pmNew theCfg.wipeArgOnNewFail theCfg.wipeOnNewProtectFail ∧
    Generated.SecMem.pmCreateRandomInner =
      Expected.SecMem.pmCreateRandomInner theCfg.wipeOnRandFail theCfg.wipeOnRandProtectFail ∧
    Generated.SecMem.mgNewFromBuffer = Expected.SecMem.mgNewFromBuffer theCfg.mgWipeOnProtectFail := by decide

/-- the protocol facts (Close waits for zero readers, wipe before unlock, counter under the mutex,
release broadcasts, access refuses closing/closed secrets) hold of the regenerated skeletons. -/
theorem theProto_good : theProto = Proto.good := by decide

/-! ## create_fail_is_error -/

/-- **a creation in which any primitive failed never returns a secret** (both back ends, every
code shape, every fault list). -/
theorem create_fail_is_error (cfg : Cfg) (impl : Impl) (random : Bool) (id len : Nat) (fl : List Bool) :
    anyFailed (create cfg impl random id len fl).evs = true → (create cfg impl random id len fl).res ≠ .ok :=
  (createSound_of (create_sound cfg impl random id len fl)).fail_is_error

/-- **never a silently degraded secret**: a successful creation yields a secret that is mapped,
mlock'ed, excluded from dumps, PROT_NONE, holds exactly the bytes it was given, has no readers and is
not closing; no primitive failed; and the counters moved by one.  A failed one yields no secret and
leaves the counters alone. -/
theorem create_ok_is_protected (cfg : Cfg) (impl : Impl) (random : Bool) (id len : Nat) (fl : List Bool) :
    let o := create cfg impl random id len fl
    (o.res = .ok → ∃ s, o.sec = some s ∧ o.page = s.page ∧ anyFailed o.evs = false ∧
        s.closing = false ∧ s.closed = false ∧ s.counter = 0 ∧ s.page.mapped = true ∧ s.page.locked = true ∧
        s.page.dontdump = true ∧ s.page.prot = .none ∧ s.page.content = s.born ∧ s.born.isSecret = true) ∧
    (o.res ≠ .ok → o.sec = none) ∧
    inuseDelta o.evs = (if o.res = .ok then 1 else 0) ∧ allocDelta o.evs = (if o.res = .ok then 1 else 0) := by
  intro o
  have h := createSound_of (create_sound cfg impl random id len fl)
  refine ⟨?_, h.fail_sec, h.inuse, h.alloc⟩
  intro hr
  obtain ⟨s, h1, h2, h3, h4⟩ := h.ok_sec hr
  exact ⟨s, h1, h3, h4, idle_elim h2⟩

/-- a creation never faults (its wipes are on read-write pages), never blocks. -/
theorem create_never_crashes (cfg : Cfg) (impl : Impl) (random : Bool) (id len : Nat) (fl : List Bool) :
    (create cfg impl random id len fl).res ≠ .crash ∧ (create cfg impl random id len fl).res ≠ .deadlock :=
  let h := (createSound_of (create_sound cfg impl random id len fl)).no_crash
  ⟨h.1, h.2.2.1⟩

/-- the statement at full strength: a failed primitive makes the caller get an ERROR. -/
def create_fail_is_error_full : Prop :=
  ∀ (cfg : Cfg) (impl : Impl) (random : Bool) (id len : Nat) (fl : List Bool),
    anyFailed (create cfg impl random id len fl).evs = true → (create cfg impl random id len fl).res = .err

/-- it is false for the memguard back end: an allocation/lock failure inside the memguard library is
`core.Panic`, which `SecretFactory.New` does not recover (observed on the real code under
RLIMIT_MEMLOCK=0: `rlimit mg 32 => res=panic`). -/
theorem create_fail_is_error_counterexample : ¬ create_fail_is_error_full := by
  intro h
  have := h Cfg.repaired .mg false 0 32 [false, true]
  revert this
  decide

/-- what holds: for protectedmemory a failed primitive always surfaces as an error return. -/
theorem create_fail_is_error_partial (cfg : Cfg) (random : Bool) (id len : Nat) (fl : List Bool) :
    anyFailed (create cfg .pm random id len fl).evs = true → (create cfg .pm random id len fl).res = .err := by
  have h := (create_pm_partial cfg random id len fl).2
  simp only [errorNotPanicB, Bool.or_eq_true, Bool.not_eq_true', beq_iff_eq] at h
  intro ha
  rcases h with h | h
  · rw [ha] at h; cases h
  · exact h

/-! ## create_fail_leaves_no_secret -/

/-- the satisfiable reading of "no page that held secret bytes is left locked, mapped or readable by a
failed creation": after a creation that returned an error, the page it touched is unmapped or holds no
secret bytes; and it is unmapped AND unlocked whenever the cleanup primitives (Unlock, Free) themselves
did not fail.  (When `Free` is the failing call nothing can unmap the page; it must then at least be
zeroed.) -/
def CreateFailLeavesNoSecret (cfg : Cfg) (impl : Impl) (random : Bool) : Prop :=
  ∀ (id len : Nat) (fl : List Bool),
    (create cfg impl random id len fl).res = .err →
    ((create cfg impl random id len fl).page.mapped = false ∨ (create cfg impl random id len fl).page.content.isSecret = false) ∧
    (cleanupFailed (create cfg impl random id len fl).evs = false →
      (create cfg impl random id len fl).page.mapped = false ∧ (create cfg impl random id len fl).page.locked = false)

/-- **it holds for every creation function whose failure paths wipe first** (all fault lists). -/
theorem create_fail_leaves_no_secret (cfg : Cfg) (impl : Impl) (random : Bool) (hw : cfg.wipes impl random = true) :
    CreateFailLeavesNoSecret cfg impl random := by
  intro id len fl hr
  have h := (create_wiped cfg impl random id len fl hw).1
  simp only [leavesNoSecretB, hr, bne_self_eq_false, Bool.false_or, Bool.and_eq_true, Bool.or_eq_true,
    Bool.not_eq_true'] at h
  refine ⟨h.1, ?_⟩
  intro hc
  rcases h.2 with h2 | h2
  · rw [hc] at h2; cases h2
  · exact h2

/-- the statement about the code as it is now. -/
def create_fail_leaves_no_secret_full : Prop :=
  ∀ (impl : Impl) (random : Bool), CreateFailLeavesNoSecret theCfg impl random

/-- once the repair is in (`theCfg = Cfg.repaired`) the full statement holds. -/
theorem create_fail_leaves_no_secret_repaired (h : theCfg = Cfg.repaired) : create_fail_leaves_no_secret_full := by
  intro impl random
  apply create_fail_leaves_no_secret
  rw [h]; cases impl <;> cases random <;> rfl

/-- **F-6**: the code as found violates it — `New` whose Protect(NoAccess) fails and whose cleanup
`Free` fails too leaves the page mapped with the secret in it (and, Free succeeding, releases the
page without having zeroed it: `wipe_before_release_counterexample`). -/
theorem create_fail_leaves_no_secret_counterexample : ¬ CreateFailLeavesNoSecret Cfg.asFound .pm false := by
  intro h
  have := h 0 1 [false, false, true, false, true]
  revert this
  decide

/-- what holds without the repair (protectedmemory, any code shape): an error return leaves nothing
mapped or locked unless a cleanup primitive itself failed. -/
theorem create_fail_leaves_no_secret_partial (cfg : Cfg) (random : Bool) (id len : Nat) (fl : List Bool) :
    (create cfg .pm random id len fl).res = .err → cleanupFailed (create cfg .pm random id len fl).evs = false →
    (create cfg .pm random id len fl).page.mapped = false ∧ (create cfg .pm random id len fl).page.locked = false := by
  have h := (create_pm_partial cfg random id len fl).1
  intro hr hc
  simp only [leavesNothingMappedB, hr, hc, bne_self_eq_false, Bool.false_or, Bool.and_eq_true, Bool.not_eq_true'] at h
  exact h

/-! ## access_fail_neutral -/

/-- **a failed attempt to open a secret changes nothing at all**: reader count, protection,
closing/closed flags, page — the whole secret state is as before (so the page stays PROT_NONE if it
was). Only Protect(ReadOnly) can make `access` fail. -/
theorem access_fail_neutral (pf : Proto) (s : Sec) (fl : List Bool) :
    (access pf s fl).res = .err →
    (access pf s fl).sec = s ∧ (access pf s fl).evs = [protCall .ro false s.page.content] := by
  intro hr
  rcases access_spec' pf s fl with ⟨h1, _⟩ | ⟨_, ⟨_, h2, _, h4⟩ | ⟨h1, _⟩ | ⟨h1, _⟩⟩
  · rw [hr] at h1; cases h1
  · exact ⟨h2, h4⟩
  · rw [hr] at h1; cases h1
  · rw [hr] at h1; cases h1

/-- the same at the API: a `WithBytes`/`WithBytesFunc` (nested to any depth) whose callback did not
run left the secret exactly as it was. -/
theorem withBytes_fail_neutral (pf : Proto) (hpf : pf.accessChecksClosing = true) (nest : Nat) (s : Sec)
    (fl : List Bool) (hs : SInv s) :
    (withBytes pf nest s fl).called = false → (withBytes pf nest s fl).sec = s := by
  rw [withBytes_seq pf hpf nest s fl hs]
  unfold withClosed
  simp only [hs.counter, bne_self_eq_false, Bool.false_eq_true, if_false]
  split
  · intro _; rfl
  · split
    · intro _; rfl
    · split <;> (intro h; cases h)

/-- **later reads work**: a secret that is idle (`Sec.idle`: the state every successful creation
produces) is idle again after a failed open, and then a fault-free read of any nesting depth succeeds,
sees the original bytes through a read-only page, and leaves the secret idle. -/
theorem later_reads_work (pf : Proto) (hpf : pf.accessChecksClosing = true) (s : Sec) (hs : s.idle = true)
    (fl : List Bool) (hf : (access pf s fl).res = .err) (nest : Nat) :
    let s' := (access pf s fl).sec
    let o := withBytes pf nest s' []
    s'.idle = true ∧ o.res = .ok ∧ o.seen = some (.bytes s.born) ∧ o.sec = s ∧
    o.inside = some { s.page with prot := .ro } := by
  intro s' o
  have h1 : s' = s := (access_fail_neutral pf s fl hf).1
  have ho : o = withBytes pf nest s [] := by simp only [o, h1]
  obtain ⟨i1, i2, i3, i4, i5, i6, i7, i8, i9⟩ := idle_elim hs
  rw [withBytes_seq pf hpf nest s [] (SInv.of_idle hs)] at ho
  obtain ⟨impl, id, len, born, ⟨mapped, locked, dd, prot, content, guards⟩, closing, closed, counter⟩ := s
  simp only at i1 i2 i3 i4 i5 i6 i7 i8
  subst i1 i2 i3 i4 i5 i6 i7 i8
  refine ⟨by rw [h1]; exact hs, ?_⟩
  rw [ho]
  simp [withClosed]

/-- **later Close works**: closing a secret that is not closed and has no readers, without faults,
succeeds: the page is zeroed, unlocked, unmapped, the in-use counter goes down by one. -/
theorem later_close_works (pf : Proto) (hpf : pf.closeWaits = true) (s : Sec) (hs : SInv s) (hc : s.closed = false) :
    let o := close pf s []
    o.res = .ok ∧ o.sec.closed = true ∧ o.sec.page.mapped = false ∧ o.sec.page.locked = false ∧
    o.sec.page.content = .zero ∧ inuseDelta o.evs = -1 := by
  intro o
  have he : o = close pf s [] := rfl
  clear_value o
  rw [close_eq pf hpf] at he
  obtain ⟨hsm, hsu, hsc⟩ := hs
  obtain ⟨impl, id, len, born, pg, closing, closed, counter⟩ := s
  simp only at hsm hsu hsc hc he
  subst hsc hc
  simp only [Bool.false_eq_true, if_false, beq_self_eq_true, if_true] at he
  have hm := hsm rfl
  have hr := closeInner_nil { impl := impl, id := id, len := len, born := born, page := pg, closing := true, closed := false, counter := 0 } hm
  have hf := closeInner_facts { impl := impl, id := id, len := len, born := born, page := pg, closing := true, closed := false, counter := 0 } hm []
  obtain ⟨h1, h2, h3, h4, h5, _⟩ := hf.okClosed hr
  rw [he]
  exact ⟨hr, h1, h2, h3, h4, h5⟩

/-! ## close_retry -/

/-- **a failed Close can be retried**: after ANY number of Close attempts under ANY faults the secret
still satisfies the invariant (not closed ⇒ still mapped), so one more, fault-free, Close closes it
(page zeroed, unlocked, unmapped) — and over all attempts together the in-use counter went down
exactly once (not at all if the secret was closed before). -/
theorem close_retry (pf : Proto) (hpf : pf.closeWaits = true) (s : Sec) (hs : SInv s) (attempts : List (List Bool)) :
    let r := closeAttempts pf s attempts
    let o := close pf r.1 []
    SInv r.1 ∧ o.res = .ok ∧ o.sec.closed = true ∧ o.sec.page.mapped = false ∧
    r.2 + inuseDelta o.evs = (if s.closed then 0 else -1) := by
  induction attempts generalizing s with
  | nil =>
    simp only [closeAttempts]
    cases hc : s.closed
    · obtain ⟨h1, h2, h3, _, _, h6⟩ := later_close_works pf hpf s hs hc
      exact ⟨hs, h1, h2, h3, by simp [h6]⟩
    · have he := close_eq pf hpf s []
      simp only [hc, if_true] at he
      rw [he]
      exact ⟨hs, rfl, by simp, hs.unmapped hc, by simp [inuseDelta]⟩
  | cons fl t ih =>
    simp only [closeAttempts]
    obtain ⟨i1, _, _, i4, i5, _⟩ := close_seq pf hpf s fl hs
    obtain ⟨j1, j2, j3, j4, j5⟩ := ih (close pf s fl).sec i1
    refine ⟨j1, j2, j3, j4, ?_⟩
    rw [Int.add_assoc, j5, i4]
    cases hc : s.closed
    · cases hc' : (close pf s fl).sec.closed <;> simp
    · simp [i5 hc]

/-! ## wipe_before_release -/

/-- **in the trace of a creation whose failure paths wipe first, the Wipe of the page precedes its
Unlock/Free, and no Unlock/Free is issued on a page holding secret bytes** (all fault lists). -/
theorem wipe_before_release_create (cfg : Cfg) (impl : Impl) (random : Bool) (hw : cfg.wipes impl random = true)
    (id len : Nat) (fl : List Bool) :
    wipeBeforeRelease false (create cfg impl random id len fl).evs = true ∧
    releasesClean (create cfg impl random id len fl).evs = true := by
  have h := (create_wiped cfg impl random id len fl hw).2
  simpa [wipeOkB] using h

/-- **Close wipes before it unlocks and frees**, on every path (complete or failed at any primitive),
both back ends: the page is dirty when Close starts (`true`). -/
theorem wipe_before_release_close (s : Sec) (hm : s.page.mapped = true) (fl : List Bool) :
    wipeBeforeRelease true (closeInner s fl).evs = true ∧ releasesClean (closeInner s fl).evs = true :=
  let h := closeInner_facts s hm fl
  ⟨h.wiped, h.clean⟩

/-- **over every operation sequence and every fault list**: no operation issues Unlock/Free on secret
bytes, provided the creations used wipe on their failure paths (trivially true of a sequence without
creations — `wipe_before_release_partial`). -/
theorem wipe_before_release (cfg : Cfg) (ops : List (Op × List Bool)) (hw : ∀ p ∈ ops, p.1.wipes cfg = true) :
    ∀ o ∈ World.trace { cfg := cfg } ops, releasesClean o.evs = true := by
  suffices h : ∀ (w : World), w.cfg = cfg → w.pf.accessChecksClosing = true → w.pf.closeWaits = true → WorldInv w →
      ∀ o ∈ World.trace w ops, releasesClean o.evs = true by
    exact h { cfg := cfg } rfl rfl rfl (WorldInv.init cfg)
  induction ops with
  | nil => intro w _ _ _ _ o ho; cases ho
  | cons p t ih =>
    intro w hc h1 h2 hi o ho
    obtain ⟨op, fl⟩ := p
    have hf := step_facts w h1 h2 hi op fl
    simp only [World.trace, List.mem_cons] at ho
    rcases ho with ho | ho
    · subst ho
      apply hf.clean
      rw [hc]; exact hw (op, fl) (by simp)
    · exact ih (fun p hp => hw p (by simp [hp])) _ (by rw [hf.cfg, hc]) (by rw [hf.pf]; exact h1) (by rw [hf.pf]; exact h2) hf.inv o ho

/-- the statement about the code as it is now, at full strength. -/
def wipe_before_release_full : Prop :=
  ∀ (ops : List (Op × List Bool)), ∀ o ∈ World.trace { cfg := theCfg } ops, releasesClean o.evs = true

theorem wipe_before_release_repaired (h : theCfg = Cfg.repaired) : wipe_before_release_full := by
  intro ops
  apply wipe_before_release
  intro p _
  rw [h]
  obtain ⟨op, _⟩ := p
  show Op.wipes Cfg.repaired op = true
  cases op with
  | new i _ => cases i <;> rfl
  | rand i _ => cases i <;> rfl
  | _ => rfl

/-- **F-6**: the code as found violates it — `New` whose Protect(NoAccess) fails unlocks and frees
the page while it still holds the caller's secret (replay: `new pm 32 flt=protect@1`). -/
theorem wipe_before_release_counterexample :
    releasesClean (create Cfg.asFound .pm false 0 32 [false, false, true]).evs = false ∧
    wipeBeforeRelease false (create Cfg.asFound .pm false 0 32 [false, false, true]).evs = false ∧
    releasesClean (create Cfg.asFound .pm true 0 32 [false, false, true]).evs = false ∧
    releasesClean (create Cfg.asFound .pm true 0 32 [false, false, false, true]).evs = false ∧
    releasesClean (create Cfg.asFound .mg false 0 32 [false, false, false, false, false, false, true]).evs = false := by
  decide

/-- what holds of any code shape: every operation other than a creation (reads of any nesting, Reader,
Close incl. failed and retried ones, IsClosed) keeps the rule, for every fault list. -/
theorem wipe_before_release_partial (cfg : Cfg) (ops : List (Op × List Bool))
    (hn : ∀ p ∈ ops, p.1.creates = none) :
    ∀ o ∈ World.trace { cfg := cfg } ops, releasesClean o.evs = true := by
  apply wipe_before_release
  intro p hp
  have := hn p hp
  obtain ⟨op, _⟩ := p
  cases op <;> simp_all [Op.creates, Op.wipes]

/-! ## inuse_balanced, no crash -/

/-- **the in-use accounting stays balanced**: after any operation sequence under any faults (any code
shape, both back ends) `InUseCounter` equals the number of secrets that were created successfully and
have not been closed. -/
theorem inuse_balanced (cfg : Cfg) (ops : List (Op × List Bool)) :
    (World.run { cfg := cfg } ops).inuse = live (World.run { cfg := cfg } ops).secs := by
  suffices h : ∀ (w : World), w.pf.accessChecksClosing = true → w.pf.closeWaits = true → WorldInv w →
      WorldInv (World.run w ops) by
    exact (h { cfg := cfg } rfl rfl (WorldInv.init cfg)).inuse
  induction ops with
  | nil => intro w _ _ hi; exact hi
  | cons p t ih =>
    intro w h1 h2 hi
    obtain ⟨op, fl⟩ := p
    have hf := step_facts w h1 h2 hi op fl
    exact ih _ (by rw [hf.pf]; exact h1) (by rw [hf.pf]; exact h2) hf.inv

/-- **no sequence of operations faults or deadlocks**, whatever fails (sequential use). -/
theorem no_crash (cfg : Cfg) (ops : List (Op × List Bool)) :
    ∀ o ∈ World.trace { cfg := cfg } ops, o.res ≠ .crash ∧ o.res ≠ .deadlock := by
  suffices h : ∀ (w : World), w.pf.accessChecksClosing = true → w.pf.closeWaits = true → WorldInv w →
      ∀ o ∈ World.trace w ops, o.res ≠ .crash ∧ o.res ≠ .deadlock by
    exact h { cfg := cfg } rfl rfl (WorldInv.init cfg)
  induction ops with
  | nil => intro w _ _ _ o ho; cases ho
  | cons p t ih =>
    intro w h1 h2 hi o ho
    obtain ⟨op, fl⟩ := p
    have hf := step_facts w h1 h2 hi op fl
    simp only [World.trace, List.mem_cons] at ho
    rcases ho with ho | ho
    · subst ho; exact ⟨hf.noCrash, hf.noDeadlock⟩
    · exact ih _ (by rw [hf.pf]; exact h1) (by rw [hf.pf]; exact h2) hf.inv o ho

/-! ## C10's share: the buffer handed to `New` -/

/-- with the early-failure wipe, protectedmemory's `New` wipes its argument on every path. -/
theorem new_wipes_argument (cfg : Cfg) (h : cfg.wipeArgOnNewFail = true) (id len : Nat) (fl : List Bool) :
    (create cfg .pm false id len fl).srcWiped = true := by
  have := pmNew_srcWiped cfg id len h fl
  simpa [create] using this

/-- **F-7 / C10**: as found, `New` returns without wiping its argument when Alloc or Lock fails. -/
theorem new_wipes_argument_counterexample :
    (create Cfg.asFound .pm false 0 32 [true]).srcWiped = false ∧
    (create Cfg.asFound .pm false 0 32 [false, true]).srcWiped = false := by decide

/-! ## non-vacuity -/

example : (create Cfg.asFound .pm false 0 32 []).res = .ok := by decide
example : (create Cfg.asFound .mg true 0 32 []).res = .ok := by decide
example : anyFailed (create Cfg.repaired .pm false 0 32 [false, false, true]).evs = true ∧
    (create Cfg.repaired .pm false 0 32 [false, false, true]).res = .err ∧
    (create Cfg.repaired .pm false 0 32 [false, false, true]).page.mapped = false := by decide
example : Cfg.repaired.wipes .pm false = true ∧ Cfg.repaired.wipes .mg true = true ∧ Cfg.asFound.wipes .pm false = false := by decide
example : ∃ s, (create Cfg.asFound .pm false 0 32 []).sec = some s ∧ (access Proto.good s [true]).res = .err := by
  refine ⟨_, rfl, ?_⟩; decide
example : ∃ s, (create Cfg.asFound .pm false 0 32 []).sec = some s ∧ (close Proto.good s [false, true]).res = .err ∧
    (close Proto.good (close Proto.good s [false, true]).sec []).res = .ok := by
  refine ⟨_, rfl, ?_⟩; decide
example : (World.run { cfg := Cfg.asFound } [(.new .pm 8, []), (.new .mg 8, [false, false, false, false, false, false, true]),
    (.close 0, [true]), (.close 0, [])]).inuse = 0 := by decide

end AsherahVerif.Props.C12
