import AsherahVerif.Props.C04
import AsherahVerif.Proofs.EnvTimeF6
/-
C04 under faults — "when the metastore accepts writes".

`Props/C04.lean` states the first two sentences of C04 for fault-free histories.  The property's
hypothesis is weaker: only the metastore's *writes* must go through.  Here the same statements are
proved for histories (`ReachF`) and operations with arbitrary fault lists, provided no fault token was
consumed by a metastore `store` primitive (`opSff`): faults on metastore reads, the KMS, the AEAD or
the secret allocator are no excuse for handing out an expired key.

Vocabulary (Proofs/EnvTimeF1.lean, EnvTimeF6.lean): every token-consuming primitive of the model
(`msLoad`, `msLoadLatest`, `msStore`, `kmsEncrypt`, `kmsDecrypt`, `aeadEncrypt`, `aeadDecrypt`,
`secretNew`, `secretRandom`) takes exactly one token of the operation's fault list and logs exactly
one call, so the `i`-th call of `World.log` consumed `tok fl i`; `sff fl log` decides that every
`Call.store` of the log consumed `.ok`; `opSff w op` applies it to the log the operation leaves behind;
`ReachF w` = `w` is the end of a history all of whose operations satisfy `opSff` — any operations
(also `corruptRow`, also before the first precision window), any faults elsewhere.
`reachF_of_reach`: every allowed (fault-free) history is one of them.
-/
namespace AsherahVerif.Props.C04
open AsherahVerif.Env AsherahVerif.Env.TimeF

theorem not_bad_of_opSff {w w' : World} {s pay : Nat} {fl : List Fault}
    (hsf : opSff w (.encrypt s pay fl) = true) (hw : (applyOp w (.encrypt s pay fl)).2 = w') : ¬ Bad fl w' := by
  subst hw
  exact not_bad_of_sff hsf

/-- **C04, first sentence, under faults.** In a world reached by a history in which no fault hit a
metastore `store`, an encrypt with an arbitrary fault list none of whose tokens hit a `store` either
fails or returns a record naming an intermediate key of the session's partition that is not expired at
that moment under the session's factory policy — every cache mode (none, map-backed, bounded with any
eviction policy, shared), every policy under which a key is not born expired. -/
theorem no_expired_ik_faults {w w' : World} (hr : ReachF w) {s pay : Nat} {fl : List Fault} {d : Drr}
    (hsf : opSff w (.encrypt s pay fl) = true) (hb : BornValid (sessionCtx w s).pol)
    (h : applyOp w (.encrypt s pay fl) = (.record d, w')) :
    ∃ m, drrIk d = some m ∧ m.kid = .ik (sessionCtx w s).part ∧
      isExpired w.now m.created (sessionCtx w s).pol.expireAfter = false := by
  have hw := encrypt_f hr.i1 s pay fl true
  unfold Wp at hw
  rw [applyOp_encrypt_record h] at hw
  have hnb := not_bad_of_opSff hsf (by rw [h])
  rcases hw with hbad | ⟨-, -, hd⟩
  · exact absurd hbad hnb
  · obtain ⟨c, hc, hne⟩ := hd d rfl
    exact ⟨_, hc, rfl, hne hb⟩

/-- **C04, second sentence, under faults.** Every row such an encrypt adds to the metastore (whether it
then succeeds or fails) is unrevoked, stamped with the truncated clock, and is either a system-key row
or an intermediate-key row of the session's partition whose parent system key is not expired at that
moment under the session's (= the creating) factory's policy. -/
theorem no_ik_under_expired_sk_faults {w : World} (hr : ReachF w) {s pay : Nat} {fl : List Fault}
    (hsf : opSff w (.encrypt s pay fl) = true) (hb : BornValid (sessionCtx w s).pol) :
    ∀ r ∈ (applyOp w (.encrypt s pay fl)).2.store, r ∈ w.store ∨
      (r.revoked = false ∧ r.created = keyTimestamp w.now (sessionCtx w s).pol.precision ∧
        (r.kid = .sk ∨ (r.kid = .ik (sessionCtx w s).part ∧ ∃ p, r.parent = some p ∧
          isExpired w.now p.created (sessionCtx w s).pol.expireAfter = false))) := by
  have hw := encrypt_f hr.i1 s pay fl true
  unfold Wp at hw
  have hnb := not_bad_of_opSff hsf rfl
  rw [applyOp_world] at hnb ⊢
  rcases hw with hbad | ⟨-, hdelta, -⟩
  · exact absurd hbad hnb
  · intro r hmem
    rcases hdelta r hmem with h1 | ⟨h1, h2, h3 | ⟨h3, p, hp, hne⟩⟩
    · exact Or.inl h1
    · exact Or.inr ⟨h1, h2, Or.inl h3⟩
    · exact Or.inr ⟨h1, h2, Or.inr ⟨h3, p, hp, hne hb⟩⟩

/-- the fault-free theorems of `Props/C04.lean` are instances: a reachable world is `ReachF`, an allowed
encrypt is store-fault-free. -/
theorem no_expired_ik_of_faults {w w' : World} (hr : Reach w) {s pay : Nat} {d : Drr}
    (hb : BornValid (sessionCtx w s).pol) (h : applyOp w (.encrypt s pay []) = (.record d, w')) :
    ∃ m, drrIk d = some m ∧ m.kid = .ik (sessionCtx w s).part ∧
      isExpired w.now m.created (sessionCtx w s).pol.expireAfter = false :=
  no_expired_ik_faults (reachF_of_reach hr) (sff_nil _) hb h

/-! ### witnesses -/

/-- SK and IK of partition 0 are created; 121 s later (revoke-check interval: 120 s) both cache entries
are due for a reload. -/
def hF : List Op :=
  [.newFactory (pol hour (120 * sec) sec) 0 0 0 0, .getSession 0 0 0 0, .encrypt 0 1 [], .advance 121000000000]

def wF : World := (runOps (World.init T0) hF).2

/-- the metastore read of the system key fails (token 1 = `err` hits `load sk`): the SDK falls back to
creating a new intermediate key, which it stores (`store ik@…121 → true`, token 7 = `.ok`). -/
def flF : List Fault := [.ok, .err]

def dF : Drr :=
  { key := some { created := 1700000121, enc := .enc 3 5 (.key 4), parent := some ⟨.ik 0, 1700000121⟩ },
    data := .enc 4 4 (.payload 2) }

theorem reachF_wF : ReachF wF := ⟨T0, hF, by decide, rfl⟩

/-- `no_expired_ik_faults` / `no_ik_under_expired_sk_faults`: a history with a faulted operation meets
all hypotheses — the encrypt is hit by a read fault, is store-fault-free, returns a record and adds an
intermediate-key row. -/
example : ReachF wF ∧ opSff wF (.encrypt 0 2 flF) = true ∧ BornValid (sessionCtx wF 0).pol ∧
    (applyOp wF (.encrypt 0 2 flF)).1 = .record dF ∧
    (applyOp wF (.encrypt 0 2 flF)).2.log[1]? = some (.load ⟨.sk, 1700000000⟩ false true) ∧
    (applyOp wF (.encrypt 0 2 flF)).2.log[7]? = some (.store ⟨.ik 0, 1700000121⟩ true) ∧
    (applyOp wF (.encrypt 0 2 flF)).2.store.length = wF.store.length + 1 :=
  ⟨reachF_wF, by decide, bornValid_of_policyOK pol_ok_hour, by decide, by decide, by decide, by decide⟩

/-- faulted operations may also occur earlier in the history: a KMS fault during the first encrypt
(token 3 hits `kmsEnc` of the new system key; the operation fails), then a clean encrypt. -/
example : ReachF (runOps (World.init T0)
    [.newFactory (pol hour (120 * sec) sec) 0 0 0 0, .getSession 0 0 0 0, .encrypt 0 1 [.ok, .ok, .ok, .dup],
     .encrypt 0 1 []]).2 := ⟨T0, _, by decide, rfl⟩

/-! ### the hypothesis is needed: a refused insert makes the SDK adopt an expired key -/

/-- the keys of partition 0 are created; 3601 s later (lifetime: 3600 s) both are expired. -/
def hG : List Op :=
  [.newFactory (pol hour (120 * sec) sec) 0 0 0 0, .getSession 0 0 0 0, .encrypt 0 1 [], .advance 3601000000000]

def wG : World := (runOps (World.init T0) hG).2

/-- tokens 7 and 17 (`dup`) hit the two `store ik@…3601` calls of the operation. -/
def flG : List Fault := [.ok, .ok, .ok, .ok, .ok, .ok, .ok, .dup, .ok, .ok, .ok, .ok, .ok, .ok, .ok, .ok, .ok, .dup]

def dG : Drr :=
  { key := some { created := 1700003601, enc := .enc 1 6 (.key 6), parent := some ⟨.ik 0, 1700000000⟩ },
    data := .enc 6 5 (.payload 2) }

/-- **without "the metastore accepts writes" the statement fails.**  Both inserts of the new
intermediate key are refused although no such row exists (fault tokens on the two `store` calls);
each time the SDK adopts the latest stored intermediate key without looking at its age, and the record
names a key that expired one second ago.  (Not a defect with respect to C04: the property is
conditional on the metastore accepting writes; `opSff` is exactly what fails.) -/
theorem no_expired_ik_store_fault_counterexample :
    Reach wG ∧ BornValid (sessionCtx wG 0).pol ∧ opSff wG (.encrypt 0 2 flG) = false ∧
    (applyOp wG (.encrypt 0 2 flG)).1 = .record dG ∧ drrIk dG = some ⟨.ik 0, 1700000000⟩ ∧
    isExpired wG.now 1700000000 (sessionCtx wG 0).pol.expireAfter = true :=
  ⟨⟨T0, hG, by decide, rfl⟩, bornValid_of_policyOK pol_ok_hour, by decide, by decide, by decide, by decide⟩

end AsherahVerif.Props.C04
