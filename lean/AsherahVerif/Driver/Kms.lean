import AsherahVerif.Model.Kms
import AsherahVerif.Spec.KmsSpec
import AsherahVerif.Generated.Kms
import AsherahVerif.Expected.Kms
import AsherahVerif.Driver.Loop
/-
Line protocol of engine `kms` (C17, KMS part of C10).  Input = what go/cmd/hxkms wrote, one operation
per line, `op => observation`:

  new regions=<r:arn,r:arn,…>
        starts a case: the fake cloud has one KMS per region (index = position), region names unique.
  plug <name> <v1|v2> pref=<region|-> => ok order=<r,…|-> | err:prefrequired | panic
        builds a plugin over the cloud through its public constructor (`-` = empty string).  `order` is
        the client order observed through the public surface (all GenerateDataKey calls failing);
        map iteration order is an oracle: the driver accepts any order that the model produces from
        *some* iteration order (i.e. a permutation of the regions that `sortClients`/`Build` leave
        unchanged) and uses it from then on.
  wrap <plug> pt=<n> dk=<n> gen=<bits> enc=<bits> kid=<same|other|nil> key=<ok|bad>
        => fatal | <ok|err:allfail|err:seal|panic> calls=<gen:r,…,enc:r,…|-> bufs=<k> dirty=<d> [env=<E> entries=<r,…|-> json=<sym>]
        EncryptKey of payload p<n>.  bit i = 1: region i fails GenerateDataKey / Encrypt.  `dk`: name of the
        data key the generating region hands out; `key=bad`: it is not an AES-256 key; `kid`: KeyId in
        the GenerateDataKey answer (own ARN | some other string | nil).  `fatal`: the process died (v2
        dereferences a nil KeyId in a goroutine; the harness replays the case in a child to see it).  `calls`: gen calls in order,
        then the (concurrent) enc calls sorted; `bufs`/`dirty`: plaintext slices the fakes returned
        during the call / how many of them are not all-zero after it returned; `entries`: regions in
        envelope order (arrival order is an oracle, the driver adopts it); `json`: the envelope JSON
        re-read generically (names, nesting, order as marshalled) with byte strings replaced by
        E(dk<k>,p<n>) / W(<arn>,dk<k>).
  craft ek=<k:n|junk> keks=<region:arn:wrappedUnderArn:k,…|-|null> => env=<E>
        a hand-made envelope JSON (tampering, duplicates, foreign producers).
  unwrap <plug> env=<E|garbage> dec=<digits> => <ok:p<n>|err:nodecrypt|err:unmarshal|panic> calls=<dec:r,…|-> bufs=<k> dirty=<d>
        DecryptKey.  digit i: 0 region i decrypts, 1 fails, 2 returns another valid key, 3 returns a
        malformed key.
Envelopes are numbered per case in order of appearance (wrap successes and crafts).

Output: `MISMATCH line N: …` when the model's observation differs; `MONITOR-FAIL line N: C17 …` when
the implementation's own observation violates KmsSpec (unwrap result / tried order / wrap result /
entries / wrap-side wipe / preferred first); `MONITOR-FAIL line N: C10 …` when a KMS plaintext handed
out during DecryptKey is still readable after it returned (decrypt-side wipe, defect F-7; reported
apart from C17: `c10_fail`, `dirty_plaintexts` in the summary; `monitor_fail` counts C17 only; only the
first 200 C10 lines of a run are printed, all are counted).
-/
namespace AsherahVerif.Driver.KmsEngine
open AsherahVerif.Kms AsherahVerif.Driver

def tagOf (l : List (String × String)) (field : String) : String :=
  (l.lookup field).getD ("<no-json-tag-" ++ field ++ ">")

def tagsV1 : Tags :=
  let e := AsherahVerif.Generated.Kms.v1EnvelopeTags
  let k := AsherahVerif.Generated.Kms.v1KekTags
  ⟨tagOf e "EncryptedKey", tagOf e "KMSKEKs", tagOf k "Region", tagOf k "ARN", tagOf k "EncryptedKEK"⟩

def tagsV2 : Tags :=
  let e := AsherahVerif.Generated.Kms.v2EnvelopeTags
  let k := AsherahVerif.Generated.Kms.v2KekTags
  ⟨tagOf e "EncryptedKey", tagOf e "KEKs", tagOf k "Region", tagOf k "ARN", tagOf k "EncryptedKEK"⟩

def tagsOf : Plugin → Tags
  | .v1 => tagsV1
  | .v2 => tagsV2

/-- does the tree under check wipe the KMS plaintext in DecryptKey (read off the regenerated statements). -/
def wipeOf : Plugin → Bool
  | .v1 => AsherahVerif.Expected.Kms.wipes AsherahVerif.Generated.Kms.v1DecryptKeyStmts AsherahVerif.Expected.Kms.wipeMarkerV1
  | .v2 => AsherahVerif.Expected.Kms.wipes AsherahVerif.Generated.Kms.v2DecryptKeyStmts AsherahVerif.Expected.Kms.wipeMarkerV2

structure PlugSt where
  name : String
  plugin : Plugin
  clients : Option (List Client)

structure St where
  cloud : List Client := []
  plugs : List PlugSt := []
  envs : Array (Option Envelope × Option Plugin) := #[]
  lineNo : Nat := 0
  cases : Nat := 0
  ops : Nat := 0
  mism : Nat := 0
  monFail : Nat := 0
  c10Fail : Nat := 0
  dirty : Nat := 0
  wraps : Nat := 0
  wrapPartial : Nat := 0       -- wrap ok although some region failed
  wrapFail : Nat := 0
  unwraps : Nat := 0
  fallbacks : Nat := 0         -- unwrap ok after at least one failed attempt
  unwrapFail : Nat := 0
  interop : Nat := 0           -- envelope of one plugin unwrapped by the other
  tampered : Nat := 0          -- unwrap of a crafted envelope

def kvGet (ws : List String) (k : String) : Option String :=
  ws.findSome? fun w =>
    match w.splitOn "=" with
    | k' :: v :: rest => if k' == k then some ("=".intercalate (v :: rest)) else none
    | _ => none

def parseList (s : String) : List String := if s == "-" || s == "" then [] else s.splitOn ","
def showList (l : List String) : String := if l.isEmpty then "-" else ",".intercalate l

def parseCloud (spec : String) : Option (List Client) :=
  if spec == "" then some [] else
  let parts := spec.splitOn ","
  (parts.zipIdx).mapM fun (ra, i) =>
    match ra.splitOn ":" with
    | [r, a] => some ⟨r, a, i⟩
    | _ => none

def bitAt (s : String) (i : Nat) : Char := s.toList.getD i '?'

def showCall : Call → String
  | .gen c => "gen:" ++ c.region
  | .enc c => "enc:" ++ c.region
  | .dec c => "dec:" ++ c.region

def isEnc : Call → Bool
  | .enc _ => true
  | _ => false

/-- canonical form used by the harness: sequential calls in order, then the concurrent `enc` calls sorted. -/
def showCalls (cs : List Call) : String :=
  let seq := (cs.filter (!isEnc ·)).map showCall
  let enc := ((cs.filter isEnc).map showCall).toArray.qsort (· < ·) |>.toList
  showList (seq ++ enc)

def showWrapRes : Res Envelope → String
  | .ok _ => "ok" | .err .allRegionsFailed => "err:allfail" | .err .aead => "err:seal"
  | .err _ => "err:?" | .panic => "panic" | .fatal => "fatal"

def showUnwrapRes : Res Nat → String
  | .ok p => "ok:p" ++ toString p | .err .decryptFailedAll => "err:nodecrypt" | .err .unmarshal => "err:unmarshal"
  | .err _ => "err:?" | .panic => "panic" | .fatal => "fatal"

def showPlugRes : Res (List Client) → String
  | .ok cs => "ok order=" ++ showList (cs.map (·.region))
  | .err .prefRequired => "err:prefrequired" | .err _ => "err:?" | .panic => "panic" | .fatal => "fatal"

def isPerm (a b : List Client) : Bool := a.length == b.length && a.all (b.contains ·) && b.all (a.contains ·)

def parsePlugin : String → Option Plugin
  | "v1" => some .v1 | "v2" => some .v2 | _ => none

def parseKek (s : String) : Option Kek :=
  match s.splitOn ":" with
  | [r, a, under, k] => k.toNat?.map fun k => ⟨r, a, ⟨under, ⟨k, true⟩⟩⟩
  | _ => none

def parseCraft (ek keks : String) : Option Envelope := do
  let ct ← if ek == "junk" then some Ct.junk else
    match ek.splitOn ":" with
    | [k, p] => do pure (Ct.sealed (← k.toNat?) (← p.toNat?))
    | _ => none
  let ks ← if keks == "-" || keks == "null" then some [] else (keks.splitOn ",").mapM parseKek
  pure ⟨ct, ks⟩

def bad (s : St) (why line : String) : St × Array String :=
  ({ s with mism := s.mism + 1 }, #[s!"MISMATCH line {s.lineNo}: {why} {line}"])

def faultsOf (gen enc dec kid : String) (key : DataKey) : Faults where
  genFail c := bitAt gen c.kms != '0'
  encFail c := bitAt enc c.kms != '0'
  decMode c :=
    match bitAt dec c.kms with
    | '0' => .ok
    | '2' => .wrong ⟨1000 + c.kms, true⟩
    | '3' => .wrong ⟨2000 + c.kms, false⟩
    | _ => .fail
  keyId c := if kid == "same" then some c.arn else if kid == "other" then some ("alias-of-" ++ c.arn) else none
  newKey := key

def step (s : St) (line : String) : St × Array String :=
  let s := { s with lineNo := s.lineNo + 1 }
  let (opS, obsS) := splitObs line
  let ws := words opS
  let ow := words obsS
  let goRes := ow.headD ""
  match ws with
  | "new" :: _ =>
    match parseCloud ((kvGet ws "regions").getD "") with
    | some cl => ({ s with cloud := cl, plugs := [], envs := #[], cases := s.cases + 1 }, #[])
    | none => bad s "bad-op" line
  | ["plug", name, ver, _] =>
    match parsePlugin ver, kvGet ws "pref" with
    | some p, some pref =>
      let pref := if pref == "-" then "" else pref
      -- oracle: the iteration order of the ARN map.  Adopt the order Go shows, if it is a permutation.
      let goOrder : Option (List Client) :=
        (kvGet ow "order").bind fun o => (parseList o).mapM fun r => s.cloud.find? (·.region == r)
      let input := match goOrder with
        | some o => if isPerm o s.cloud then o else s.cloud
        | none => s.cloud
      let m : Res (List Client) := match p with
        | .v1 => newAWSv1 pref input
        | .v2 => buildV2 pref input
      let clients := match m with | .ok cs => some cs | _ => none
      let s := { s with plugs := ⟨name, p, clients⟩ :: s.plugs.filter (·.name != name), ops := s.ops + 1 }
      let ok := showPlugRes m == obsS
      -- C17 monitor: the preferred region's client comes first
      let prefFirst := match goOrder with
        | some (c :: _) => !(s.cloud.any (·.region == pref)) || c.region == pref
        | _ => true
      let msgs := (if ok then #[] else #[s!"MISMATCH line {s.lineNo}: {opS} go=[{obsS}] model=[{showPlugRes m}]"]) ++
        (if prefFirst then #[] else #[s!"MONITOR-FAIL line {s.lineNo}: C17 preferred region is not the first client: {opS} go=[{obsS}]"])
      ({ s with mism := s.mism + (if ok then 0 else 1), monFail := s.monFail + (if prefFirst then 0 else 1) }, msgs)
    | _, _ => bad s "bad-op" line
  | "wrap" :: name :: _ =>
    match s.plugs.find? (·.name == name), (kvGet ws "pt").bind String.toNat?, (kvGet ws "dk").bind String.toNat?,
          kvGet ws "gen", kvGet ws "enc", kvGet ws "kid", kvGet ws "key" with
    | some ⟨_, p, some clients⟩, some pt, some dk, some gen, some enc, some kid, some key =>
      let f := faultsOf gen enc "" kid ⟨dk, key == "ok"⟩
      let cloud := f.cloud
      let goEntries := parseList ((kvGet ow "entries").getD "-")
      let sched : List Kek → List Kek := fun keks =>
        if goRes == "ok" then goEntries.filterMap fun r => keks.find? (·.region == r) else keks
      let o := encryptKey p cloud sched clients pt
      let dirtyM := (o.bufs.filter (!·.wiped)).length
      let jsonM := match o.res with | .ok e => renderEnvelope p (tagsOf p) e | _ => ""
      -- a dead process (v2, nil KeyId) is observed from outside: nothing but the fact
      let mObs := if o.res == .fatal then "fatal" else
        s!"{showWrapRes o.res} calls={showCalls o.calls} bufs={o.bufs.length} dirty={dirtyM}" ++
        (match o.res with | .ok e => s!" entries={showList (e.keks.map (·.region))} json={jsonM}" | _ => "")
      -- Go's observation without the envelope number
      let gObs := " ".intercalate (ow.filter fun w => (w.splitOn "=").head! != "env")
      let ok := mObs == gObs
      let envs := if (kvGet ow "env").isSome then
          s.envs.push (match o.res with | .ok e => (some e, some p) | _ => (none, some p)) else s.envs
      -- C17 monitor on Go's own observation
      let goOk := goRes == "ok"
      let goDirty := ((kvGet ow "dirty").bind String.toNat?).getD 0
      let contract := kid == "same" && key == "ok"
      let want := AsherahVerif.KmsSpec.wrapOk cloud clients
      let wantEntries : List String := match AsherahVerif.KmsSpec.generator cloud clients with
        | some g => ((AsherahVerif.KmsSpec.wrapEntries cloud clients g f.newKey).map (·.region)).toArray.qsort (· < ·) |>.toList
        | none => []
      let m1 := if contract && goOk != want then some "wrap must succeed exactly when some region can generate a data key" else none
      let m2 := if contract && goOk && (goEntries.toArray.qsort (· < ·)).toList != wantEntries then
          some s!"envelope entries differ from the regions that succeeded (want {showList wantEntries})" else none
      let m3 := if goDirty > 0 then some "plaintext data key not wiped when EncryptKey returned" else none
      let mons := [m1, m2, m3].filterMap id
      let msgs := (if ok then #[] else #[s!"MISMATCH line {s.lineNo}: {opS} go=[{gObs}] model=[{mObs}]"]) ++
        (mons.map fun m => s!"MONITOR-FAIL line {s.lineNo}: C17 {m}: {opS} go=[{gObs}]").toArray
      ({ s with envs := envs, ops := s.ops + 1, wraps := s.wraps + 1,
                wrapFail := s.wrapFail + (if goOk then 0 else 1),
                wrapPartial := s.wrapPartial + (if goOk && goEntries.length < clients.length then 1 else 0),
                mism := s.mism + (if ok then 0 else 1), monFail := s.monFail + mons.length }, msgs)
    | _, _, _, _, _, _, _ => bad s "bad-op" line
  | "craft" :: _ =>
    match (kvGet ws "ek"), (kvGet ws "keks") with
    | some ek, some keks =>
      match parseCraft ek keks with
      | some e =>
        let ok := obsS == s!"env={s.envs.size}"
        ({ s with envs := s.envs.push (some e, none), ops := s.ops + 1, mism := s.mism + (if ok then 0 else 1) },
         if ok then #[] else #[s!"MISMATCH line {s.lineNo}: envelope numbering {line}"])
      | none => bad s "bad-op" line
    | _, _ => bad s "bad-op" line
  | "unwrap" :: name :: _ =>
    match s.plugs.find? (·.name == name), kvGet ws "env", kvGet ws "dec" with
    | some ⟨_, p, some clients⟩, some envS, some dec =>
      let envE : Option (Option Envelope × Option Plugin) :=
        if envS == "garbage" then some (none, none) else envS.toNat?.bind fun i => s.envs[i]?
      match envE with
      | none => bad s "bad-op (no such envelope)" line
      | some (env, producer) =>
        if envS != "garbage" && env.isNone then ({ s with ops := s.ops + 1 }, #[]) else   -- the wrap itself was already reported
        let f := faultsOf "" "" dec "same" ⟨0, true⟩
        let cloud := f.cloud
        let o := decryptKey p (wipeOf p) cloud clients env
        let dirtyM := (o.bufs.filter (!·.wiped)).length
        let mObs := s!"{showUnwrapRes o.res} calls={showCalls o.calls} bufs={o.bufs.length} dirty={dirtyM}"
        let ok := mObs == obsS
        -- monitor on Go's own observation
        let goDirty := ((kvGet ow "dirty").bind String.toNat?).getD 0
        let goCalls := (kvGet ow "calls").getD "?"
        let (wantRes, wantCalls) : String × String := match env with
          | none => ("err:unmarshal", "-")
          | some e =>
            let look := lookup p e.keks
            ((match AsherahVerif.KmsSpec.unwrapResult look cloud e.encKey clients with
              | some pt => "ok:p" ++ toString pt | none => "err:nodecrypt"),
             showList ((AsherahVerif.KmsSpec.tried look cloud e.encKey clients).map fun c => "dec:" ++ c.region))
        let m1 := if goRes != wantRes then some s!"unwrap result must be {wantRes}" else none
        let m2 := if goCalls != wantCalls then some s!"regions must be tried in client order up to the first able one ({wantCalls})" else none
        let mons := [m1, m2].filterMap id
        let c10 := goDirty > 0
        let msgs := (if ok then #[] else #[s!"MISMATCH line {s.lineNo}: {opS} go=[{obsS}] model=[{mObs}]"]) ++
          (mons.map fun m => s!"MONITOR-FAIL line {s.lineNo}: C17 {m}: {opS} go=[{obsS}]").toArray ++
          (if c10 && s.c10Fail < 200 then #[s!"MONITOR-FAIL line {s.lineNo}: C10 KMS plaintext data key still readable after DecryptKey returned ({goDirty} buffer(s)): {opS} go=[{obsS}]"] else #[])
        let nCalls := (parseList goCalls).length
        ({ s with ops := s.ops + 1, unwraps := s.unwraps + 1,
                  unwrapFail := s.unwrapFail + (if goRes.startsWith "ok" then 0 else 1),
                  fallbacks := s.fallbacks + (if goRes.startsWith "ok" && nCalls > 1 then 1 else 0),
                  interop := s.interop + (match producer with | some q => if q != p then 1 else 0 | none => 0),
                  tampered := s.tampered + (if producer.isNone then 1 else 0),
                  dirty := s.dirty + goDirty, c10Fail := s.c10Fail + (if c10 then 1 else 0),
                  mism := s.mism + (if ok then 0 else 1), monFail := s.monFail + mons.length }, msgs)
    | _, _, _ => bad s "bad-op" line
  | _ => bad s "bad-op" line

def finish (s : St) : Array String :=
  #[s!"SUMMARY engine=kms cases={s.cases} ops={s.ops} mismatches={s.mism} monitor_fail={s.monFail} c10_fail={s.c10Fail} dirty_plaintexts={s.dirty} wraps={s.wraps} wrap_partial={s.wrapPartial} wrap_fail={s.wrapFail} unwraps={s.unwraps} fallbacks={s.fallbacks} unwrap_fail={s.unwrapFail} interop={s.interop} tampered={s.tampered} wipe_v1={if wipeOf .v1 then 1 else 0} wipe_v2={if wipeOf .v2 then 1 else 0}"]

def engine : Engine St := { init := {}, step := step, finish := finish }

end AsherahVerif.Driver.KmsEngine
