import AsherahVerif.Model.Aes
import AsherahVerif.Model.Codec
import AsherahVerif.Driver.Loop
/-
Line protocol of engine `fmt` (C18; byte-level parts of C07/C01).  Written by go/cmd/hxfmt, one
`op => observation` per line; operands hex (`-` = empty), ids/JSON texts are hex of their UTF-8.

raw AEAD
  enc <key> <nonce> <pt>            => ok:<c> | err:<class>          cryptoFunc.Encrypt, random source pinned to <nonce>
  dec <key> <c>                     => ok:<pt> | err:<class> | panic cryptoFunc.Decrypt
(a) SDK writes / reference reads
  case <i> <seed>                   forget the rows of the previous case (the pair regenerates the case)
  row <id> <created> <json>         one metastore row as the SDK stores it (json.Marshal of the record)
  chain <master> <part> <svc> <prod> <sfx|nil> <drrjson> => ok:<payload>
(b) reference writes / SDK reads (two passes; `md_fmt answer` is the reference ENCODER)
  build <n> <master> <sk> <ik> <drk> <n1> <n2> <n3> <n4> <part> <svc> <prod> <sfx|nil> <skc> <ikc> <drkc> <skrev> <ikrev> <pt>
        answered by   built <n> <skid> <skc> <skrowjson> <ikid> <ikc> <ikrowjson> <drrjson>
  lseal <n> <key> <nonce> <pt>      answered by   lsealed <n> <c>
  sdkdec <n> <pt> => ok:<pt'> | err:…      the real SDK's Decrypt of the built hierarchy
  goopen <n> <pt> => ok:<pt'> | err:…      cryptoFunc.Decrypt of the reference's layout
(d) carriers — record text: EKR = <rev> <created> <keyhex> <parent>, parent = nil | <idhex>@<created>;
                            DRR = <datahex> nil | <datahex> <EKR>
  json-ekr <EKR> => <json>          json-drr <DRR> => <json>
  unjson-ekr <json> => ekr:… | err  unjson-drr <json> => drr:… | err
  sql-store <id> <created> <EKR> => <id> <unix> <key_record text>      sql-load <text> => ekr:… | err
  ddb1-store / ddb2-store <id> <created> <EKR> => <flat item>
  ddb1-load / ddb2-load <flat item> => ekr:… id:<hex> | err
  pb-to <DRR> => pb:<data>:<created>:<key>:<pcreated>:<pid> | panic    pb-from <PB> => drr:…
  keyid <part> <svc> <prod> <sfx|nil> => <skid> <ikid>

`MISMATCH line N` = reference and Go disagree on an encoding; `MONITOR-FAIL line N` = an interop
failure with a concrete input: the reference could not recover what the SDK wrote (or names a key
differently), the SDK could not read what the reference wrote, or Go's JSON for a record does not
decode back to that record under the documented format.
-/
namespace AsherahVerif.Driver.FmtEngine
open AsherahVerif AsherahVerif.Gcm AsherahVerif.Codec AsherahVerif.Driver

/-! ### operand syntax -/

def hexVal1 (c : Char) : Option Nat :=
  if '0' ≤ c ∧ c ≤ '9' then some (c.toNat - 48)
  else if 'a' ≤ c ∧ c ≤ 'f' then some (c.toNat - 87)
  else if 'A' ≤ c ∧ c ≤ 'F' then some (c.toNat - 55) else none

def unhexAux : List Char → List UInt8 → Option (List UInt8)
  | [], acc => some acc.reverse
  | a :: b :: r, acc => do
    let x ← hexVal1 a; let y ← hexVal1 b
    unhexAux r (UInt8.ofNat (x * 16 + y) :: acc)
  | _, _ => none

def unhex (s : String) : Option Bytes := if s == "-" then some [] else unhexAux s.toList []

def hexDigit1 (n : Nat) : Char := if n < 10 then Char.ofNat (48 + n) else Char.ofNat (87 + n)

def hex (b : Bytes) : String :=
  if b.isEmpty then "-" else
  String.ofList (b.foldr (fun x acc => hexDigit1 (x.toNat / 16) :: hexDigit1 (x.toNat % 16) :: acc) [])

/-- hex of UTF-8 → characters. -/
def unhexStr (s : String) : Option Str := do
  let b ← unhex s
  let t ← String.fromUTF8? (ByteArray.mk b.toArray)
  pure t.toList

def hexStr (s : Str) : String := hex (String.ofList s).toUTF8.toList

def sfxOf (s : String) : Option (Option Str) :=
  if s == "nil" then some none else (unhexStr s).map some

def int64Of (s : String) : Option Int64 := s.toInt?.bind int64OfInt

def parseParent (s : String) : Option (Option KeyMeta) :=
  if s == "nil" then some none else
  match s.splitOn "@" with
  | [i, c] => do let id ← unhexStr i; let c ← int64Of c; pure (some ⟨id, c⟩)
  | _ => none

def parseEKR : List String → Option EKR
  | [r, c, k, p] => do
    let c ← int64Of c; let k ← unhex k; let p ← parseParent p
    pure ⟨r == "1", c, k, p⟩
  | _ => none

def parseDRR : List String → Option DRR
  | [d, "nil"] => do pure ⟨none, ← unhex d⟩
  | d :: rest => do let e ← parseEKR rest; pure ⟨some e, ← unhex d⟩
  | _ => none

def showParent : Option KeyMeta → String
  | none => "nil"
  | some m => s!"{hexStr m.id}@{m.created.toInt}"

def showEKR (sep : String) (e : EKR) : String :=
  sep.intercalate [if e.revoked then "1" else "0", toString e.created.toInt, hex e.key, showParent e.parent]

def ekrObs (e : EKR) : String := "ekr:" ++ showEKR ":" e

def drrObs (d : DRR) : String :=
  match d.key with
  | none => s!"drr:{hex d.data}:nil"
  | some e => s!"drr:{hex d.data}:{showEKR ":" e}"

def showRes : Except Err Bytes → String
  | .ok b => "ok:" ++ hex b
  | .error e => "err:" ++ e.name

/-! ### flat attribute trees -/

def insertAV : List Str → AV → List (Str × AV) → List (Str × AV)
  | [], _, kvs => kvs
  | [k], leaf, kvs =>
    match leaf, lookup k kvs with
    | .m _, some _ => kvs                       -- a map created on demand by its children stays
    | _, _ => kvs.filter (fun p => p.1 ≠ k) ++ [(k, leaf)]
  | k :: rest, leaf, kvs =>
    let sub := match lookup k kvs with
      | some (.m s) => s
      | _ => []
    kvs.filter (fun p => p.1 ≠ k) ++ [(k, .m (insertAV rest leaf sub))]

def parseLeaf (kind val : String) : Option AV :=
  match kind with
  | "S" => (unhexStr (if val == "" then "-" else val)).map .s
  | "N" => (unhexStr (if val == "" then "-" else val)).map .n
  | "B" => (unhex (if val == "" then "-" else val)).map .b
  | "BOOL" => some (.bool (val == "1"))
  | "NULL" => some .null
  | "M" => some (.m [])
  | _ => none

def unflat (text : String) : Option AV :=
  if text == "-" then some (.m []) else
  (text.splitOn ";").foldlM (fun (acc : AV) ent =>
    match acc, ent.splitOn "=" with
    | .m kvs, [path, tv] =>
      match tv.splitOn ":" with
      | [kind, val] => do
        let leaf ← parseLeaf kind val
        pure (.m (insertAV ((path.splitOn ".").map String.toList) leaf kvs))
      | _ => none
    | _, _ => none) (.m [])

partial def flatLines (path : String) : AV → List String
  | .s v => [s!"{path}=S:{hexStr v}"]
  | .n v => [s!"{path}=N:{hexStr v}"]
  | .b v => [s!"{path}=B:{hex v}"]
  | .bool b => [s!"{path}=BOOL:{if b then "1" else "0"}"]
  | .null => [s!"{path}=NULL:"]
  | .l _ => [s!"{path}=L:?"]
  | .m kvs =>
    (if path == "" then [] else [s!"{path}=M:"]) ++
    kvs.flatMap (fun (k, v) => flatLines (if path == "" then String.ofList k else path ++ "." ++ String.ofList k) v)

def flatText (root : AV) : String :=
  let ls := (flatLines "" root).toArray.qsort (· < ·)
  if ls.isEmpty then "-" else ";".intercalate ls.toList

/-! ### state -/

structure St where
  lineNo : Nat := 0
  ops : Nat := 0
  cases : Nat := 0
  mism : Nat := 0
  monFail : Nat := 0
  rows : List Row := []
  aead : Nat := 0
  aeadErr : Nat := 0
  chains : Nat := 0
  sdkdec : Nat := 0
  goopen : Nat := 0
  json : Nat := 0
  unjson : Nat := 0
  sql : Nat := 0
  ddb : Nat := 0
  pb : Nat := 0
  keyids : Nat := 0
  revokedRows : Nat := 0
  suffixed : Nat := 0
  bytes : Nat := 0

inductive Verdict where
  | same
  | mismatch (model : String)
  | monitor (why : String)
  | bad

def cmp (mine obs : String) : Verdict := if mine == obs then .same else .mismatch mine

def jsonOf (s : Str) : String := hexStr s

/-- structural equality of JSON values (member order included: the documented emission order). -/
partial def jvEq : JV → JV → Bool
  | .null, .null => true
  | .bool a, .bool b => a == b
  | .num a, .num b => a == b
  | .str a, .str b => a == b
  | .arr a, .arr b => a.length == b.length && (a.zip b).all fun (x, y) => jvEq x y
  | .obj a, .obj b => a.length == b.length && (a.zip b).all fun ((k, x), (l, y)) => k == l && jvEq x y
  | _, _ => false

/-- Go's JSON text for a record against the reference value: same bytes / same value but other
bytes (escaping, white space: a MISMATCH of the two encoders) / another shape (members, order,
presence: the documented format is violated, with this record as the failing input). -/
def jsonVerdict (mine : String) (want : JV) (obs : String) : Verdict :=
  if mine == obs then .same else
  match (unhexStr obs).bind parseJson with
  | some v => if jvEq v want then .mismatch mine
              else .monitor "Go's JSON for this record has another shape (members / order / presence) than the documented one"
  | none => .monitor "Go's JSON for this record is not readable as JSON by the reference"

/-- a decoding op: when the input is exactly what the reference ENCODER emits for the record it decodes to
(canonical, documented form) and Go reads something else, the SDK cannot read reference output — a
concrete failing input; on other (variant) inputs a difference is a disagreement of the two decoders. -/
def loadVerdict (mine obs : String) (canonical : Bool) : Verdict :=
  if mine == obs then .same
  else if canonical then .monitor s!"the SDK reads a documented-form input differently from the reference: {obs.take 80}"
  else .mismatch mine

/-- an encoding op: when the reference DECODER does not get the record back from what Go stored, the
stored form is not the documented one — a concrete failing input; otherwise a difference of encoders. -/
def storeVerdict (mine obs : String) (readable : Bool) : Verdict :=
  if mine == obs then .same
  else if readable then .mismatch mine
  else .monitor s!"the reference decoder does not recover the record from what Go stores: {obs.take 100}"

def pbObs : PbOut → String
  | .panic => "panic"
  | .ok p =>
    match p.key with
    | none => s!"pb:{hex p.data}:nil"
    | some k =>
      match k.parent with
      | none => s!"pb:{hex p.data}:{k.created.toInt}:{hex k.key}:nil"
      | some m => s!"pb:{hex p.data}:{k.created.toInt}:{hex k.key}:{m.created.toInt}:{hexStr m.keyId}"

def parsePB : List String → Option PbDRR
  | [d, "nil"] => do pure ⟨none, ← unhex d⟩
  | [d, c, k, "nil"] => do pure ⟨some ⟨← int64Of c, ← unhex k, none⟩, ← unhex d⟩
  | [d, c, k, pc, pid] => do pure ⟨some ⟨← int64Of c, ← unhex k, some ⟨← int64Of pc, ← unhexStr pid⟩⟩, ← unhex d⟩
  | _ => none

/-- the chain op: decrypt with the reference, and check the key ids against the documented formats. -/
def chainVerdict (rows : List Row) (ws : List String) (obs : String) : Option Verdict :=
  match ws with
  | [master, part, svc, prod, sfx, drrj] => do
    let master ← unhex master; let part ← unhexStr part; let svc ← unhexStr svc; let prod ← unhexStr prod
    let sfx ← sfxOf sfx; let drrj ← unhexStr drrj
    let mine := match decryptChain Aes.cipher rows master drrj with
      | .ok b => "ok:" ++ hex b
      | .error e => "err:" ++ e.name
    if mine != obs then
      pure (.monitor s!"reference decoder does not recover the SDK's payload: {mine.take 60} (SDK payload {obs.take 40})")
    else
      let wantIk := ikId part svc prod sfx
      let wantSk := skId svc prod sfx
      let ok : Bool := match decodeDRR drrj with
        | some ⟨some ⟨_, _, _, some pm⟩, _⟩ =>
          decide (pm.id = wantIk) &&
          (match findRow rows pm.id pm.created with
           | some r => match sqlRowDecode r with
             | some ⟨_, _, _, some sm⟩ => decide (sm.id = wantSk)
             | _ => false
           | none => false)
        | _ => false
      if ok then pure .same else pure (.monitor s!"key ids differ from the documented format: want {String.ofList wantIk} under {String.ofList wantSk}")
  | _ => none

def evalOp (s : St) (ws : List String) (obs : String) : St × Verdict :=
  let ret (s : St) (v : Option Verdict) : St × Verdict := (s, v.getD .bad)
  match ws with
  | ["enc", k, n, p] =>
    let v := do
      let k ← unhex k; let n ← unhex n; let p ← unhex p
      pure (cmp (showRes (goEncrypt Aes.cipher k n p)) obs)
    ret { s with aead := s.aead + 1, aeadErr := s.aeadErr + (if obs.startsWith "err" then 1 else 0) } v
  | ["dec", k, c] =>
    let v := do
      let k ← unhex k; let c ← unhex c
      pure (cmp (showRes (goDecrypt Aes.cipher k c)) obs)
    ret { s with aead := s.aead + 1, aeadErr := s.aeadErr + (if obs.startsWith "err" then 1 else 0) } v
  | ["case", _, _] => ({ s with rows := [], cases := s.cases + 1 }, .same)
  | ["row", id, c, js] =>
    match (do let id ← unhexStr id; let c ← int64Of c; let js ← unhexStr js; pure (⟨id, c, js⟩ : Row)) with
    | some r =>
      let rev := match sqlRowDecode r with
        | some e => if e.revoked then 1 else 0
        | none => 0
      ({ s with rows := s.rows ++ [r], revokedRows := s.revokedRows + rev }, .same)
    | none => (s, .bad)
  | "chain" :: rest =>
    ret { s with chains := s.chains + 1, suffixed := s.suffixed + (if rest.getD 4 "nil" != "nil" then 1 else 0) }
      (chainVerdict s.rows rest obs)
  | ["sdkdec", _, pt] =>
    ({ s with sdkdec := s.sdkdec + 1 },
      if obs == "ok:" ++ pt then .same else .monitor s!"the SDK does not decrypt what the reference encoder wrote: {obs.take 100}")
  | ["goopen", _, pt] =>
    ({ s with goopen := s.goopen + 1 },
      if obs == "ok:" ++ pt then .same else .monitor s!"cryptoFunc.Decrypt does not open the reference layout: {obs.take 60}")
  | "json-ekr" :: rest =>
    ret { s with json := s.json + 1 } do
      let e ← parseEKR rest
      pure (jsonVerdict (jsonOf (encodeEKR e)) e.toJson obs)
  | "json-drr" :: rest =>
    ret { s with json := s.json + 1 } do
      let d ← parseDRR rest
      pure (jsonVerdict (jsonOf (encodeDRR d)) d.toJson obs)
  | ["unjson-ekr", js] =>
    ret { s with unjson := s.unjson + 1 } do
      let t ← unhexStr js
      pure (match decodeEKR t with
        | some e => loadVerdict (ekrObs e) obs (encodeEKR e == t)
        | none => cmp "err" obs)
  | ["unjson-drr", js] =>
    ret { s with unjson := s.unjson + 1 } do
      let t ← unhexStr js
      pure (match decodeDRR t with
        | some d => loadVerdict (drrObs d) obs (encodeDRR d == t)
        | none => cmp "err" obs)
  | "sql-store" :: id :: c :: rest =>
    ret { s with sql := s.sql + 1 } do
      let idS ← unhexStr id; let c ← int64Of c; let e ← parseEKR rest
      let r := sqlRowOf idS c e
      let readable := match words obs with
        | [i, c', t] => i == hexStr idS && c' == toString c.toInt && ((unhexStr t).bind decodeEKR) == some e
        | _ => false
      pure (storeVerdict s!"{hexStr r.id} {r.created.toInt} {hexStr r.keyRecord}" obs readable)
  | ["sql-load", js] =>
    ret { s with sql := s.sql + 1 } do
      let t ← unhexStr js
      pure (match sqlRowDecode ⟨[], 0, t⟩ with
        | some e => loadVerdict (ekrObs e) obs (encodeEKR e == t)
        | none => cmp "err" obs)
  | "ddb1-store" :: id :: c :: rest =>
    ret { s with ddb := s.ddb + 1 } do
      let idS ← unhexStr id; let c ← int64Of c; let e ← parseEKR rest
      let readable := match unflat obs with
        | some (.m kvs) => ((lookup nKeyRecord kvs).bind avToEKR) == some e && avStr kvs nId == some idS && avInt64 kvs nCreated == some c
        | _ => false
      pure (storeVerdict (flatText (itemToAV1 idS c e)) obs readable)
  | "ddb2-store" :: id :: c :: rest =>
    ret { s with ddb := s.ddb + 1 } do
      let idS ← unhexStr id; let c ← int64Of c; let e ← parseEKR rest
      let readable := match unflat obs with
        | some item => avToItem item == some (idS, e) && (match item with | .m kvs => avInt64 kvs nCreated == some c | _ => false)
        | none => false
      pure (storeVerdict (flatText (itemToAV idS c e)) obs readable)
  | ["ddb1-load", flat] =>
    ret { s with ddb := s.ddb + 1 } do
      let item ← unflat flat
      -- aws-v1 Load hands only the KeyRecord attribute to the unmarshaler; the record id is not set
      pure (match item with
        | .m kvs => match lookup nKeyRecord kvs with
          | some kr => (match avToEKR kr with
            | some e => loadVerdict (ekrObs e ++ " id:-") obs (flatText (.m [(nKeyRecord, ekrToAV1 e)]) == flatText (.m [(nKeyRecord, kr)]))
            | none => cmp "err" obs)
          | none => cmp "err" obs
        | _ => cmp "err" obs)
  | ["ddb2-load", flat] =>
    ret { s with ddb := s.ddb + 1 } do
      let item ← unflat flat
      pure (match avToItem item, item with
        | some (id, e), .m kvs =>
          loadVerdict (ekrObs e ++ " id:" ++ hexStr id) obs
            (match lookup nKeyRecord kvs with
             | some kr => flatText (.m [(nKeyRecord, ekrToAV e)]) == flatText (.m [(nKeyRecord, kr)])
             | none => false)
        | _, _ => cmp "err" obs)
  | "pb-to" :: rest =>
    ret { s with pb := s.pb + 1 } do
      let d ← parseDRR rest
      let mine := pbObs (toPb d)
      let readable := match toPb d, ((obs.drop 3).toString).splitOn ":" with
        | .ok p, fields => (parsePB fields).map fromPb == some (fromPb p)
        | .panic, _ => true
      pure (storeVerdict mine obs readable)
  | "pb-from" :: rest =>
    ret { s with pb := s.pb + 1 } do
      let p ← parsePB rest
      pure (loadVerdict (drrObs (fromPb p)) obs true)
  | ["keyid", part, svc, prod, sfx] =>
    ret { s with keyids := s.keyids + 1 } do
      let part ← unhexStr part; let svc ← unhexStr svc; let prod ← unhexStr prod; let sfx ← sfxOf sfx
      pure (cmp s!"{hexStr (skId svc prod sfx)} {hexStr (ikId part svc prod sfx)}" obs)
  | _ => (s, .bad)

def step (s : St) (line : String) : St × Array String :=
  let s := { s with lineNo := s.lineNo + 1 }
  if line.startsWith "#" then (s, #[]) else
  let (op, obs) := splitObs line
  let ws := words op
  let (s, v) := evalOp s ws obs
  let s := { s with ops := s.ops + 1, bytes := s.bytes + line.length / 2 }
  let opName := ws.head?.getD ""
  match v with
  | .same => (s, #[])
  | .mismatch mine =>
    ({ s with mism := s.mism + 1 }, #[s!"MISMATCH line {s.lineNo}: {opName} go={obs.take 120} model={mine.take 120}"])
  | .monitor why => ({ s with monFail := s.monFail + 1 }, #[s!"MONITOR-FAIL line {s.lineNo}: {opName} {why}"])
  | .bad => ({ s with mism := s.mism + 1 }, #[s!"MISMATCH line {s.lineNo}: bad-op {op.take 80}"])

/-! ### self test (labelled as a TEST, not a theorem): NIST GCM test case 15 and RFC 4648 vectors -/

def selfTest : List String :=
  let key := unhex "feffe9928665731c6d6a8f9467308308feffe9928665731c6d6a8f9467308308"
  let iv := unhex "cafebabefacedbaddecaf888"
  let pt := unhex "d9313225f88406e5a55909c5aff5269a86a7a9531534f7da2e4c303d8a318a721c3c0c95956809532fcf0e2449a6b525b16aedf5aa0de657ba637b391aafd255"
  let want := "522dc1f099567d07f47f37a32a84427d643a8cdcbfe5c0c97598a2bd2555d1aa8cb08e48590dbb3da7b08b1056828838c5f61e6393ba7a0abcc9f662898015adb094dac5d93471bdec1a502270e3cc6ccafebabefacedbaddecaf888"
  let gcmOk := match key, iv, pt with
    | some k, some n, some p => showRes (goEncrypt Aes.cipher k n p) == "ok:" ++ want
    | _, _, _ => false
  let b64Ok := String.ofList (b64Encode "foobar".toUTF8.toList) == "Zm9vYmFy" &&
    String.ofList (b64Encode "fooba".toUTF8.toList) == "Zm9vYmE=" &&
    String.ofList (b64Encode "foob".toUTF8.toList) == "Zm9vYg==" &&
    b64Decode "Zm9vYg==".toList == some "foob".toUTF8.toList
  (if gcmOk then [] else ["MISMATCH line 0: selftest NIST AES-256-GCM test case 15 fails in the Lean model"]) ++
  (if b64Ok then [] else ["MISMATCH line 0: selftest RFC 4648 base64 vectors fail in the Lean model"])

def finish (s : St) : Array String :=
  let st := selfTest
  let mism := s.mism + st.length
  st.toArray ++
  #[s!"SUMMARY engine=fmt cases={s.cases} ops={s.ops} mismatches={mism} monitor_fail={s.monFail} aead={s.aead} aead_err={s.aeadErr} chains={s.chains} sdkdec={s.sdkdec} goopen={s.goopen} json={s.json} unjson={s.unjson} sql={s.sql} ddb={s.ddb} pb={s.pb} keyids={s.keyids} revoked_rows={s.revokedRows} suffixed={s.suffixed} bytes={s.bytes}"]

def engine : Engine St := { init := {}, step := step, finish := finish }

/-! ### answer mode: the reference ENCODER -/

def answer (line : String) : Option String :=
  match words line with
  | ["build", n, master, sk, ik, drk, n1, n2, n3, n4, part, svc, prod, sfx, skc, ikc, drkc, skrev, ikrev, pt] => do
    let r : BuildReq := {
      master := ← unhex master, sk := ← unhex sk, ik := ← unhex ik, drk := ← unhex drk,
      n1 := ← unhex n1, n2 := ← unhex n2, n3 := ← unhex n3, n4 := ← unhex n4,
      partition := ← unhexStr part, service := ← unhexStr svc, product := ← unhexStr prod, suffix := ← sfxOf sfx,
      skCreated := ← int64Of skc, ikCreated := ← int64Of ikc, drkCreated := ← int64Of drkc,
      skRevoked := skrev == "1", ikRevoked := ikrev == "1", payload := ← unhex pt }
    match buildChain Aes.cipher r with
    | .ok b =>
      pure s!"built {n} {hexStr b.skRow.id} {b.skRow.created.toInt} {hexStr b.skRow.keyRecord} {hexStr b.ikRow.id} {b.ikRow.created.toInt} {hexStr b.ikRow.keyRecord} {hexStr b.drr}"
    | .error e => pure s!"build-error {n} {e.name}"
  | ["lseal", n, k, nonce, pt] => do
    let k ← unhex k; let nonce ← unhex nonce; let pt ← unhex pt
    match goEncrypt Aes.cipher k nonce pt with
    | .ok c => pure s!"lsealed {n} {hex c}"
    | .error e => pure s!"lseal-error {n} {e.name}"
  | _ => none

partial def answerLoop (inp out : IO.FS.Stream) : IO Unit := do
  let line ← inp.getLine
  if line.isEmpty then out.flush; return ()
  let line := (line.dropEndWhile (fun c => c == '\n' || c == '\r')).toString
  if !(line.isEmpty || line.startsWith "#") then
    match answer line with
    | some a => out.putStrLn a
    | none => out.putStrLn s!"bad-request {line.take 60}"
  answerLoop inp out

end AsherahVerif.Driver.FmtEngine
