import AsherahVerif.Model.Aes
import AsherahVerif.Driver.Loop
/-
Line protocol of engine `fmt` (C18; byte-level parts of C07/C01).  PHASE 1: raw AEAD.

  enc <key> <nonce> <pt>   => ok:<c> | err:<class>      cryptoFunc.Encrypt with the random source pinned to <nonce>
  dec <key> <c>            => ok:<pt> | err:<class> | panic   cryptoFunc.Decrypt
(all operands hex, `-` = empty).  The driver evaluates the Lean model (`goEncrypt/goDecrypt` over
`Aes.cipher`) on the same operands and prints `MISMATCH line N: …` when the observations differ.
-/
namespace AsherahVerif.Driver.FmtEngine
open AsherahVerif AsherahVerif.Gcm AsherahVerif.Driver

def hexVal (c : Char) : Option Nat :=
  if '0' ≤ c ∧ c ≤ '9' then some (c.toNat - 48)
  else if 'a' ≤ c ∧ c ≤ 'f' then some (c.toNat - 87)
  else if 'A' ≤ c ∧ c ≤ 'F' then some (c.toNat - 55) else none

def unhexAux : List Char → List UInt8 → Option (List UInt8)
  | [], acc => some acc.reverse
  | a :: b :: r, acc => do
    let x ← hexVal a; let y ← hexVal b
    unhexAux r (UInt8.ofNat (x * 16 + y) :: acc)
  | _, _ => none

def unhex (s : String) : Option Bytes := if s == "-" then some [] else unhexAux s.toList []

def hexDigit (n : Nat) : Char := if n < 10 then Char.ofNat (48 + n) else Char.ofNat (87 + n)

def hex (b : Bytes) : String :=
  if b.isEmpty then "-" else
  String.ofList (b.foldr (fun x acc => hexDigit (x.toNat / 16) :: hexDigit (x.toNat % 16) :: acc) [])

def showRes : Except Err Bytes → String
  | .ok b => "ok:" ++ hex b
  | .error e => "err:" ++ e.name

structure St where
  lineNo : Nat := 0
  ops : Nat := 0
  cases : Nat := 0
  mism : Nat := 0
  monFail : Nat := 0
  encOk : Nat := 0
  decOk : Nat := 0
  decErr : Nat := 0
  bytes : Nat := 0

def evalOp (ws : List String) : Option String :=
  match ws with
  | ["enc", k, n, p] => do
    let k ← unhex k; let n ← unhex n; let p ← unhex p
    pure (showRes (goEncrypt Aes.cipher k n p))
  | ["dec", k, c] => do
    let k ← unhex k; let c ← unhex c
    pure (showRes (goDecrypt Aes.cipher k c))
  | _ => none

def step (s : St) (line : String) : St × Array String :=
  let s := { s with lineNo := s.lineNo + 1 }
  if line.startsWith "#" then (s, #[]) else
  let (op, obs) := splitObs line
  let ws := words op
  match evalOp ws with
  | none => ({ s with ops := s.ops + 1, mism := s.mism + 1 }, #[s!"MISMATCH line {s.lineNo}: bad-op {op.take 60}"])
  | some mine =>
    let s := { s with ops := s.ops + 1, cases := s.cases + 1, bytes := s.bytes + line.length / 2 }
    let s := match ws.head? with
      | some "enc" => if mine.startsWith "ok" then { s with encOk := s.encOk + 1 } else s
      | some "dec" => if mine.startsWith "ok" then { s with decOk := s.decOk + 1 } else { s with decErr := s.decErr + 1 }
      | _ => s
    if mine == obs then (s, #[])
    else ({ s with mism := s.mism + 1 },
          #[s!"MISMATCH line {s.lineNo}: {(ws.head?.getD "")} go={obs.take 80} model={mine.take 80}"])

def finish (s : St) : Array String :=
  #[s!"SUMMARY engine=fmt cases={s.cases} ops={s.ops} mismatches={s.mism} monitor_fail={s.monFail} enc_ok={s.encOk} dec_ok={s.decOk} dec_err={s.decErr} bytes={s.bytes}"]

def engine : Engine St := { init := {}, step := step, finish := finish }

end AsherahVerif.Driver.FmtEngine
