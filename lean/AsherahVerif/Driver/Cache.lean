import AsherahVerif.Model.Cache
import AsherahVerif.Spec.CacheSpec
import AsherahVerif.Generated.CacheConst
import AsherahVerif.Driver.Loop
/-
Line protocol of engine `cache` (C15).  Input lines are what the Go harness wrote:
  new <policy> <cap> <expiry> <sync>
  set k v | get k | del k | len | cap | tick d | close      each followed by " => <res> <cbs>"
where <res> ∈ unit | val:<n> | miss | true | false | num:<n> | panic and <cbs> is `-` or `k:v,k:v,…`
(the eviction callbacks the implementation delivered, in order).
The driver executes the model on the same operations and prints one `MISMATCH …` line per
operation whose observation differs, then a summary.  For TinyLFU with an admission window the
sketch comparison is an oracle: the driver looks for an oracle answer under which the model evicts
what Go evicted; if there is none, that is a mismatch.
In asynchronous mode the implementation's callbacks may lag by at most one (unbuffered channel,
single consumer), so the streams are compared cumulatively: Go's must be a prefix of the model's
with at most one element missing, and equal after `close`.
-/
namespace AsherahVerif.Driver.CacheEngine
open AsherahVerif.Cache AsherahVerif.Driver

structure St where
  c : Option Cache := none
  obs : Option AsherahVerif.CacheSpec.Obs := none   -- monitor state (sync cases)
  detPolicy : Bool := true
  monFail : Nat := 0
  sync : Bool := true
  dead : Bool := false            -- after a panic the case is over
  goCum : Array (Nat × Nat) := #[]
  moCum : Array (Nat × Nat) := #[]
  lineNo : Nat := 0
  ops : Nat := 0
  cases : Nat := 0
  mism : Nat := 0
  evictions : Nat := 0
  hits : Nat := 0
  expiries : Nat := 0
  oracleTrue : Nat := 0

def floorMul (n : Nat) (r : Float) : Nat := (Float.floor (n.toFloat * r)).toUInt64.toNat

def mkCache (pol : String) (cap expiry : Nat) : Option Cache :=
  let pr := AsherahVerif.Generated.CacheConst.protectedRatio
  let ar := AsherahVerif.Generated.CacheConst.admissionRatio
  match pol with
  | "lru" => some (mk .lru cap expiry 0 0)
  | "lfu" => some (mk .lfu cap expiry 0 0)
  | "slru" => some (mk .slru cap expiry (floorMul cap pr) 0)
  | "tinylfu" =>
    let w := floorMul cap ar
    some (mk .tinylfu cap expiry (floorMul (cap - w) pr) w)
  | _ => none

def parseCbs (s : String) : Option (List (Nat × Nat)) :=
  if s == "-" then some [] else
  (s.splitOn ",").mapM fun kv =>
    match kv.splitOn ":" with
    | [k, v] => do let k ← k.toNat?; let v ← v.toNat?; pure (k, v)
    | _ => none

def showCbs (l : List (Nat × Nat)) : String :=
  if l.isEmpty then "-" else ",".intercalate (l.map fun (k, v) => s!"{k}:{v}")

def showRes : Res → String
  | .unit => "unit" | .val v => s!"val:{v}" | .miss => "miss" | .bool b => if b then "true" else "false"
  | .num n => s!"num:{n}" | .panic => "panic"

def parseOp (ws : List String) : Option Op :=
  match ws with
  | ["set", k, v] => do pure (.set (← k.toNat?) (← v.toNat?))
  | ["get", k] => do pure (.get (← k.toNat?))
  | ["del", k] => do pure (.del (← k.toNat?))
  | ["len"] => some .len
  | ["cap"] => some .capacity
  | ["tick", d] => do pure (.tick (← d.toNat?))
  | ["close"] => some .close
  | _ => none

/-- choose oracle answers so that the model's close evicts in Go's order, if possible. -/
def closeChoices : Nat → Cache → List Nat → List Bool
  | 0, _, _ => []
  | n + 1, c, want =>
    if c.items.isEmpty then [] else
    let pick (b : Bool) : Option (Cache × Nat) :=
      match evict c b with
      | some (c', [(k, _)]) => some (c', k)
      | _ => none
    match want with
    | [] => []
    | w :: ws =>
      match pick false with
      | some (c', k) =>
        if k == w then false :: closeChoices n c' ws
        else match pick true with
          | some (c'', k') => if k' == w then true :: closeChoices n c'' ws else false :: closeChoices n c' ws
          | none => false :: closeChoices n c' ws
      | none => []

def isPrefixLag (go mo : Array (Nat × Nat)) : Bool :=
  go.size ≤ mo.size ∧ mo.size ≤ go.size + 1 ∧ (mo.extract 0 go.size == go)

def step (s : St) (line : String) : St × Array String :=
  let s := { s with lineNo := s.lineNo + 1 }
  let (opS, obsS) := splitObs line
  let ws := words opS
  match ws with
  | ["new", pol, cap, expiry, sync] =>
    match cap.toNat?, expiry.toNat?, mkCache pol 0 0 with
    | some cap, some expiry, some _ =>
      ({ s with c := mkCache pol cap expiry, sync := sync == "1", dead := false, goCum := #[], moCum := #[],
                obs := some { cap := cap }, detPolicy := pol != "tinylfu",
                cases := s.cases + 1 }, #[])
    | _, _, _ => ({ s with mism := s.mism + 1 }, #[s!"MISMATCH line {s.lineNo}: bad-op {line}"])
  | _ =>
    match s.c, parseOp ws with
    | some c, some op =>
      if s.dead then ({ s with mism := s.mism + 1 }, #[s!"MISMATCH line {s.lineNo}: operation after panic: {line}"]) else
      match words obsS with
      | [goRes, goCbsS] =>
        match parseCbs goCbsS with
        | none => ({ s with mism := s.mism + 1 }, #[s!"MISMATCH line {s.lineNo}: bad-obs {line}"])
        | some goCbs =>
          -- oracle selection (only matters for TinyLFU with a window)
          -- the oracle answers are computed as data first (a closure defined by `match` would
          -- recompute them at every call)
          let choices : List Bool :=
            match op with
            | .set _ _ =>
              let o0 := Cache.step c op (fun _ => false)
              if s.sync && o0.cbs != goCbs then [true] else [false]
            | .close =>
              if s.sync then
                (closeChoices c.items.length { c with closing := true } (goCbs.map (·.1))).reverse
              else []
            | _ => []
          let n := c.items.length
          let orc : Nat → Bool :=
            if op == .close then fun i => choices.getD (i + choices.length - n) false
            else fun _ => choices.headD false
          let o := Cache.step c op orc
          let s := { s with c := some o.cache, ops := s.ops + 1,
                            evictions := s.evictions + o.cbs.length,
                            hits := s.hits + (match o.res with | .val _ => 1 | _ => 0),
                            expiries := s.expiries + (match op, o.res, o.cbs with | .get _, .miss, [_] => 1 | _, _, _ => 0),
                            oracleTrue := s.oracleTrue + (if orc 0 then 1 else 0),
                            dead := o.res == Res.panic || goRes == "panic" }
          -- the property monitor runs on the implementation's own observation (synchronous cases)
          let goResV : Option Res :=
            match goRes.splitOn ":" with
            | ["unit"] => some .unit | ["miss"] => some .miss | ["true"] => some (.bool true)
            | ["false"] => some (.bool false) | ["panic"] => some .panic
            | ["val", v] => v.toNat?.map .val | ["num", n] => n.toNat?.map .num | _ => none
          let (obs', monOk) :=
            if !s.sync then (s.obs, goRes != "panic" && goRes != "deadlock")
            else match s.obs, goResV with
              | some ob, some r => match ob.step op r goCbs with
                | some ob' => (some ob', true)
                | none => (none, false)
              | none, _ => (none, true)      -- already reported for this case
              | _, none => (none, false)
          let s := { s with obs := obs' }
          let resOk := showRes o.res == goRes
          let s := { s with goCum := s.goCum ++ goCbs.toArray, moCum := s.moCum ++ o.cbs.toArray }
          let cbOk :=
            if o.res == Res.panic then true
            else if s.sync then o.cbs == goCbs
            else if op == .close then s.goCum == s.moCum
            else isPrefixLag s.goCum s.moCum
          let corrOk := resOk && cbOk
          let monFail := !monOk || (!corrOk && s.detPolicy)
          let msgs : Array String :=
            (if corrOk then #[] else
              #[s!"MISMATCH line {s.lineNo}: {opS} go=[{goRes} {goCbsS}] model=[{showRes o.res} {showCbs o.cbs}]"]) ++
            (if monFail then
              #[s!"MONITOR-FAIL line {s.lineNo}: {opS} go=[{goRes} {goCbsS}] " ++
                (if !monOk then "bounded-map specification violated by the implementation's trace"
                 else "victim/result differs from the policy's definition")] else #[])
          ({ s with mism := s.mism + (if corrOk then 0 else 1), monFail := s.monFail + (if monFail then 1 else 0) }, msgs)
      | _ => ({ s with mism := s.mism + 1 }, #[s!"MISMATCH line {s.lineNo}: bad-obs {line}"])
    | _, _ => ({ s with mism := s.mism + 1 }, #[s!"MISMATCH line {s.lineNo}: bad-op {line}"])

def finish (s : St) : Array String :=
  #[s!"SUMMARY engine=cache cases={s.cases} ops={s.ops} mismatches={s.mism} monitor_fail={s.monFail} evictions={s.evictions} hits={s.hits} expiries={s.expiries} oracle_true={s.oracleTrue}"]

def engine : Engine St := { init := {}, step := step, finish := finish }

end AsherahVerif.Driver.CacheEngine
