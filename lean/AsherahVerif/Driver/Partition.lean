import AsherahVerif.Model.Partition
import AsherahVerif.Driver.Loop
import Std.Data.HashMap
/-
Line protocol of engine `partition` (C06).  Input: what go/cmd/hxpartition observed on the REAL SDK
(byte strings are "x"+hex):

  new <svc> <prod> <sfx> <cache>   fresh metastore + factory; <sfx> "-" = the metastore has no
                                   GetRegionSuffix, otherwise it reports these bytes (possibly none);
                                   <cache> none|session|shared (information only: no theorem and no
                                   prediction depends on it — the guard decides before any lookup)
  enc <q>       => ok ik=<id> sk=<id> | refused | err   GetSession(q).Encrypt(payload q); ik = the record's
                                                        ParentKeyMeta.ID, sk = the stored IK row's parent id
  open <p>      => ok | refused                         GetSession(p) becomes the current session
  own           => plain | …                            current session encrypts+decrypts its own payload
  dec <q>       => err | plain | other | panic          current session decrypts the record produced for q
  decall <tag>  => n=<N> notok=<q>:<obs>,…|-            the same for ALL records (registration order), only
                                                        the non-error outcomes listed
  decx <q> <id> <created|=> => …                        record of q with ParentKeyMeta{id, created}
  decnil key|parent => err                              record without Key / ParentKeyMeta
  collide <q>   => <obs> id=<id> created=<n> own=<id> owncreated=<n> | skip
  ck <id> <n>   => <bytes>                              cacheKey(id, n)

The driver recomputes, from the model (`AsherahVerif.Partition`): whether GetSession refuses, both key
ids, and the guard decision of `DecryptDataRowRecord` for the id the implementation's record really
carries.  Prediction for `dec`: guard rejects ⇒ `err`; guard accepts ⇒ `plain` (the record is
genuine, its IK row is in the store and all partitions of a factory share the system key, so what
follows the guard — E3's business — returns the producer's payload).  A differing observation is a
`MISMATCH`.

Monitor (applied to the implementation's own observation, independent of the model's prediction):
a session for p that is handed a record produced for q ≠ p must answer `err`; `GetSession("")` must be
refused.  Each failure is printed as

  MONITOR-FAIL line N: <op> => <obs> signature: <signature> replay: <minimal op lines joined by " ;; ">

The signature names the configuration and how the foreign id relates to the session's ids:
  `suffixed-partition foreign-id-has-session-unsuffixed-ik-id-as-prefix outcome=plain`   ← defect F-4, only this
  `suffixed-partition foreign-id-unrelated outcome=…`, `default-partition … outcome=…`,
  `crafted-record …`, `cache-key-collision …`, `empty-partition-id-accepted`             ← anything else
-/
namespace AsherahVerif.Driver.PartitionEngine
open AsherahVerif.Partition AsherahVerif.Driver

def hexVal (c : Char) : Option Nat :=
  if '0' ≤ c ∧ c ≤ '9' then some (c.toNat - 48)
  else if 'a' ≤ c ∧ c ≤ 'f' then some (c.toNat - 87)
  else none

def parseHexChars : List Char → Option Bytes
  | [] => some []
  | [_] => none
  | a :: b :: rest => do
    let x ← hexVal a
    let y ← hexVal b
    let t ← parseHexChars rest
    pure (UInt8.ofNat (x * 16 + y) :: t)

/-- "x"+hex → bytes -/
def parseBytes (s : String) : Option Bytes :=
  match s.toList with
  | 'x' :: rest => parseHexChars rest
  | _ => none

def hexDigit (n : Nat) : Char := if n < 10 then Char.ofNat (48 + n) else Char.ofNat (87 + n)

def showBytes (b : Bytes) : String :=
  String.ofList ('x' :: b.flatMap fun u => [hexDigit (u.toNat / 16), hexDigit (u.toNat % 16)])

structure Cur where
  px : String
  p : Bytes
  part : Part
  v : Validator
  openLine : String
  warmed : Bool := false

structure St where
  f : Option Factory := none
  newLine : String := ""
  encs : Std.HashMap String (String × Bytes) := {}     -- q ↦ (its enc line, the ik id the implementation wrote)
  order : Array (String × Bytes × Bytes) := #[]         -- (q, q bytes, observed ik id) in registration order
  cur : Option Cur := none
  lineNo : Nat := 0
  cases : Nat := 0
  ops : Nat := 0
  mism : Nat := 0
  monFail : Nat := 0
  pairs : Nat := 0
  foreign : Nat := 0
  related : Nat := 0       -- foreign pairs where one id is a prefix of the other
  accepted : Nat := 0      -- foreign pairs the model's guard lets through
  ownOk : Nat := 0
  refused : Nat := 0
  sfxCases : Nat := 0
  crafted : Nat := 0
  craftedPass : Nat := 0
  ck : Nat := 0
  f4 : Nat := 0
  otherFail : Nat := 0

/-- at most this many lines of each kind are printed (all are counted in the summary). -/
def printCap : Nat := 200

def mismatch (s : St) (msg : String) : St × Array String :=
  ({ s with mism := s.mism + 1 }, if s.mism < printCap then #[s!"MISMATCH line {s.lineNo}: {msg}"] else #[])

def isSfx : Part → Bool
  | .sfx .. => true
  | .dflt .. => false

def unsuffixedIk : Part → Bytes
  | .sfx p sv pr _ => ikId p sv pr
  | .dflt p sv pr => ikId p sv pr

/-- how a failing foreign decrypt is named (see the file header). -/
def signature (c : Cur) (foreignIk : Bytes) (obs : String) : String :=
  let scheme := if isSfx c.part then "suffixed-partition" else "default-partition"
  let rel :=
    if isSfx c.part && (unsuffixedIk c.part).isPrefixOf foreignIk && foreignIk != c.part.intermediateKeyID
    then "foreign-id-has-session-unsuffixed-ik-id-as-prefix" else "foreign-id-unrelated"
  s!"{scheme} {rel} outcome={obs}"

def f4Signature : String := "suffixed-partition foreign-id-has-session-unsuffixed-ik-id-as-prefix outcome=plain"

def replayOf (s : St) (c : Cur) (qx : String) (last : String) : String :=
  let encL := match s.encs[qx]? with | some (l, _) => [l] | none => []
  " ;; ".intercalate ([s.newLine] ++ encL ++ [c.openLine] ++ (if c.warmed then ["own => plain"] else []) ++ [last])

def monitorFail (s : St) (opS obs sig replay : String) : St × Array String :=
  let isF4 := sig == f4Signature
  let shown := if isF4 then s.f4 < printCap else s.otherFail < printCap
  ({ s with monFail := s.monFail + 1, f4 := s.f4 + (if isF4 then 1 else 0), otherFail := s.otherFail + (if isF4 then 0 else 1) },
   if shown then #[s!"MONITOR-FAIL line {s.lineNo}: {opS} => {obs} signature: {sig} replay: {replay}"] else #[])

/-- one (session p, record of q) pair: prediction + monitor. Returns the new state and messages. -/
def checkPair (s : St) (c : Cur) (qx : String) (q ik : Bytes) (obs : String) (asLine : String) : St × Array String :=
  let acc := c.v.accepts ik
  let expected := if acc then "plain" else "err"
  let isForeign := q != c.p
  let s := { s with pairs := s.pairs + 1,
                    foreign := s.foreign + (if isForeign then 1 else 0),
                    related := s.related + (if isForeign && (q.isPrefixOf c.p || c.p.isPrefixOf q) then 1 else 0),
                    accepted := s.accepted + (if isForeign && acc then 1 else 0),
                    ownOk := s.ownOk + (if !isForeign && obs == "plain" then 1 else 0) }
  let (s, m1) := if obs == expected then (s, #[]) else
    mismatch s s!"{asLine} go=[{obs}] model=[{expected}] session={c.px}"
  let (s, m2) := if isForeign && obs != "err" then
      monitorFail s asLine obs (signature c ik obs) (replayOf s c qx s!"{asLine} => {obs}")
    else (s, #[])
  (s, m1 ++ m2)

def kvOf (ws : List String) (k : String) : Option String :=
  ws.findSome? fun w => if w.startsWith (k ++ "=") then some ((w.drop (k.length + 1)).toString) else none

def step (s : St) (line : String) : St × Array String :=
  let s := { s with lineNo := s.lineNo + 1 }
  if line.startsWith "#" then (s, #[]) else
  let (opS, obsS) := splitObs line
  let ws := words opS
  let obsW := words obsS
  let obs := obsW.headD ""
  let s := { s with ops := s.ops + 1 }
  match ws with
  | ["new", svc, prod, sfx, _cache] =>
    match parseBytes svc, parseBytes prod, (if sfx == "-" then some none else (parseBytes sfx).map some) with
    | some sv, some pr, some sx =>
      let f : Factory := { service := sv, product := pr, regionSuffix := sx }
      ({ s with f := some f, newLine := line, encs := {}, order := #[], cur := none, cases := s.cases + 1,
                sfxCases := s.sfxCases + (if isSfx (newPartition f []) then 1 else 0) }, #[])
    | _, _, _ => mismatch s s!"bad-op {line}"
  | ["ck", idx, n] =>
    match parseBytes idx, n.toInt? with
    | some id, some c =>
      let m := showBytes (cacheKey id c)
      let s := { s with ck := s.ck + 1 }
      if m == obs then (s, #[]) else mismatch s s!"{opS} go=[{obs}] model=[{m}]"
    | _, _ => mismatch s s!"bad-op {line}"
  | _ =>
  match s.f with
  | none => mismatch s s!"operation before new: {line}"
  | some f =>
  match ws with
  | ["enc", qx] =>
    match parseBytes qx with
    | none => mismatch s s!"bad-op {line}"
    | some q =>
      let expected := match getSession f q with
        | none => "refused"
        | some part => s!"ok ik={showBytes part.intermediateKeyID} sk={showBytes part.systemKeyID}"
      let s := if obs == "refused" then { s with refused := s.refused + 1 } else s
      let s := match obs, (kvOf obsW "ik").bind parseBytes with
        | "ok", some ik => { s with encs := s.encs.insert qx (line, ik), order := s.order.push (qx, q, ik) }
        | _, _ => s
      let (s, m1) := if obsS == expected then (s, #[]) else mismatch s s!"{opS} go=[{obsS}] model=[{expected}]"
      let (s, m2) := if q == [] && obs != "refused" then
          monitorFail s opS obsS "empty-partition-id-accepted" (" ;; ".intercalate [s.newLine, line])
        else (s, #[])
      (s, m1 ++ m2)
  | ["open", px] =>
    match parseBytes px with
    | none => mismatch s s!"bad-op {line}"
    | some p =>
      let sess := getSession f p
      let expected := if sess.isSome then "ok" else "refused"
      let s := if obs == "refused" then { s with refused := s.refused + 1 } else s
      let s := { s with cur := if obs == "ok" then
                    sess.map fun part => { px := px, p := p, part := part, v := part.validator, openLine := line }
                  else none }
      let (s, m1) := if obs == expected then (s, #[]) else mismatch s s!"{opS} go=[{obs}] model=[{expected}]"
      let (s, m2) := if p == [] && obs != "refused" then
          monitorFail s opS obs "empty-partition-id-accepted" (" ;; ".intercalate [s.newLine, line])
        else (s, #[])
      (s, m1 ++ m2)
  | _ =>
  match s.cur with
  | none =>
    -- no current session (refused or not opened): the harness answers `nosession`
    if obs == "nosession" || obs == "skip" then (s, #[]) else mismatch s s!"operation without a session: {line}"
  | some c =>
  match ws with
  | ["own"] =>
    let s := { s with cur := some { c with warmed := true } }
    if obs == "plain" then ({ s with ownOk := s.ownOk + 1 }, #[]) else mismatch s s!"own go=[{obs}] model=[plain] session={c.px}"
  | ["dec", qx] =>
    match s.encs[qx]?, parseBytes qx with
    | some (_, ik), some q => checkPair s c qx q ik obs opS
    | _, _ => if obs == "norecord" then (s, #[]) else mismatch s s!"{line}: no record was registered for that id"
  | ["decall", _tag] =>
    let notok : Option (List (String × String)) :=
      match kvOf obsW "notok" with
      | none => none
      | some "-" => some []
      | some l => (l.splitOn ",").mapM fun e => match e.splitOn ":" with | [q, o] => some (q, o) | _ => none
    match notok, (kvOf obsW "n").bind String.toNat? with
    | some notok, some n =>
      if n != s.order.size then mismatch s s!"decall: go decrypted {n} records, {s.order.size} are registered" else
      let tbl : Std.HashMap String String := Std.HashMap.ofList notok
      let known := notok.all fun (q, _) => s.encs.contains q
      if !known || tbl.size != notok.length then mismatch s s!"decall: unknown or repeated id in {obsS}" else
      s.order.foldl (init := (s, #[])) fun (s, ms) (qx, q, ik) =>
        let o := (tbl[qx]?).getD "err"
        let (s, m) := checkPair s c qx q ik o s!"dec {qx}"
        (s, ms ++ m)
    | _, _ => mismatch s s!"bad-obs {line}"
  | ["decx", qx, idx, _created] =>
    match parseBytes qx, parseBytes idx with
    | some q, some id =>
      if !s.encs.contains qx then (if obs == "norecord" then (s, #[]) else mismatch s s!"{line}: no record") else
      let acc := c.v.accepts id
      let s := { s with crafted := s.crafted + 1, craftedPass := s.craftedPass + (if acc then 1 else 0) }
      let (s, m1) := if !acc && obs != "err" then mismatch s s!"{opS} go=[{obs}] model=[err] (guard rejects) session={c.px}" else (s, #[])
      let (s, m2) := if q != c.p && obs != "err" then
          monitorFail s opS obs s!"crafted-record {signature c id obs}" (replayOf s c qx line)
        else (s, #[])
      (s, m1 ++ m2)
    | _, _ => mismatch s s!"bad-op {line}"
  | ["decnil", which] =>
    let drr : Drr := if which == "parent" then { key := some { parentKeyMeta := none } } else { key := none }
    let expected := match decryptGuard c.part drr with | .proceed _ => "?" | _ => "err"
    if obs == expected then (s, #[]) else mismatch s s!"{opS} go=[{obs}] model=[{expected}]"
  | ["collide", qx] =>
    if obs == "skip" then (s, #[]) else
    match parseBytes qx, (kvOf obsW "id").bind parseBytes, (kvOf obsW "created").bind String.toInt?,
          (kvOf obsW "own").bind parseBytes, (kvOf obsW "owncreated").bind String.toInt? with
    | some q, some id, some cr, some own, some ocr =>
      let acc := c.v.accepts id
      let s := { s with crafted := s.crafted + 1, craftedPass := s.craftedPass + (if acc then 1 else 0) }
      let (s, m0) := if own == c.part.intermediateKeyID then (s, #[]) else
        mismatch s s!"collide: own ik id go=[{showBytes own}] model=[{showBytes c.part.intermediateKeyID}]"
      let (s, m1) := if cacheKey id cr == cacheKey own ocr && (id, cr) != (own, ocr) then (s, #[]) else
        mismatch s s!"collide: the model's cacheKey does not collide for {line}"
      let (s, m2) := if !acc && obs != "err" then mismatch s s!"{opS} go=[{obs}] model=[err] (guard rejects) session={c.px}" else (s, #[])
      let (s, m3) := if q != c.p && obs != "err" then
          monitorFail s opS obs s!"cache-key-collision {signature c id obs}" (replayOf s c qx s!"collide {qx}")
        else (s, #[])
      (s, m0 ++ m1 ++ m2 ++ m3)
    | _, _, _, _, _ => mismatch s s!"bad-obs {line}"
  | _ => mismatch s s!"bad-op {line}"

def finish (s : St) : Array String :=
  #[s!"SUMMARY engine=partition cases={s.cases} ops={s.ops} mismatches={s.mism} monitor_fail={s.monFail} " ++
    s!"pairs={s.pairs} foreign={s.foreign} related={s.related} accepted_foreign={s.accepted} f4={s.f4} other_fail={s.otherFail} own_ok={s.ownOk} " ++
    s!"refused={s.refused} suffixed_cases={s.sfxCases} crafted={s.crafted} crafted_pass_guard={s.craftedPass} cachekeys={s.ck}"]

def engine : Engine St := { init := {}, step := step, finish := finish }

end AsherahVerif.Driver.PartitionEngine
