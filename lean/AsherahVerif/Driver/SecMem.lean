import AsherahVerif.Model.SecMem
import AsherahVerif.Spec.SecMemSpec
import AsherahVerif.Spec.SecMemCode
import AsherahVerif.Driver.Loop
/-
Line protocol of engine `secmem` (C11, C12).  Input lines are what go/cmd/hxsecmem wrote:

  world <shadow|real>                              starts a case (fresh World, in-use counter 0)
  new <pm|mg> <len> [flt=…] | rand <pm|mg> <len> [flt=…]
  with <sid> <nest> [flt=…] | withf <sid> <nest> [flt=…] | reader <sid> | read <rid> <k> [flt=…]
  close <sid> [flt=…] | isclosed <sid>
each followed by ` => res=<ok|err|closed|panic> [mc=<call>,… pg=<page>] [src=<wiped|kept>] inuse=<n> cnt=<n>
                     [seen=<zero|orig|rand|other>] [n=<k> eof=<b>] [flag=<b>] [in=<page>] [after=<smaps>]`
  <call> = <alloc|lock|protect-none|protect-ro|protect-rw|unlock|free|rand>:<ok|FAIL|ERR>:<content class at the call>
           (FAIL = injected fault, ERR = the real primitive failed)
  <page> = `-` | <M|->,<L|->,<none|ro|rw>,<zero|orig|rand|other|?|unmapped>     (shadow page table)
  in/after in the real world = <perms>,<lo|-->,<dd|--> of /proc/self/smaps at the address seen in the callback | unmapped
  conc <impl> <len> readers=… closers=… iters=… nest=… seed=… => exit=<status> ok=… closederr=… othererr=… badbytes=… …
  rlimit <impl> <len> => res=… src=… inuse=…      (creation under RLIMIT_MEMLOCK=0 in an unprivileged child)

sids number the successfully created secrets of the world, rids its readers.  The driver derives the
fault oracle from the ok/FAIL flags the harness observed (library-internal calls of memguard, which
the interface cannot reach, answer "succeeds"), executes the model on the same operation, prints one
`MISMATCH line N: …` per differing observation and one `MONITOR-FAIL line N: <op> :: <clauses>` per
operation whose IMPLEMENTATION observation violates a clause of Spec/SecMemSpec.lean.
-/
namespace AsherahVerif.Driver.SecMemEngine
open AsherahVerif.SecMem AsherahVerif.SecMemSpec AsherahVerif.Driver

structure St where
  w : World := { cfg := theCfg, pf := theProto }
  mon : Mon := {}
  shadow : Bool := true
  active : Bool := false
  lineNo : Nat := 0
  cases : Nat := 0
  ops : Nat := 0
  mism : Nat := 0
  monFail : Nat := 0
  faults : Nat := 0          -- injected faults that fired
  failPaths : Nat := 0       -- operations that took a failure path (result ≠ ok)
  smaps : Nat := 0           -- page states read from /proc/self/smaps and compared
  inside : Nat := 0          -- callbacks observed from inside
  conc : Nat := 0            -- concurrent child runs
  concOps : Nat := 0
  notes : Nat := 0           -- C10 observations (source buffer not wiped)

def kvOf (ws : List String) : List (String × String) :=
  ws.filterMap fun w => match w.splitOn "=" with
    | k :: v :: rest => some (k, "=".intercalate (v :: rest))
    | _ => none

def get (kv : List (String × String)) (k : String) : Option String := (kv.find? (·.1 == k)).map (·.2)

def showRes : Res → String
  | .ok => "ok" | .err => "err" | .closedErr => "closed" | .panic => "panic" | .deadlock => "deadlock" | .crash => "crash"

def parseRes : String → Option Res
  | "ok" => some .ok | "err" => some .err | "closed" => some .closedErr | "panic" => some .panic
  | "crash" => some .crash | "deadlock" => some .deadlock | _ => none

def showProt : Prot → String | .none => "none" | .ro => "ro" | .rw => "rw"
def parseProt : String → Option Prot
  | "none" => some .none | "ro" => some .ro | "rw" => some .rw | _ => none

def showCC : Content → String | .zero => "zero" | .orig _ => "orig" | .rand _ => "rand"

/-- a content class of the harness as a model content, relative to the secret `id` it should be. -/
def contentOf (cls : String) (id : Nat) : Option Content :=
  match cls with
  | "zero" => some .zero | "orig" => some (.orig id) | "rand" => some (.rand id)
  | "other" => some (.rand (id + 1000000)) | _ => none

def primName (impl : Impl) : Prim → String
  | .alloc => "alloc" | .lock => "lock" | .protect p => "protect-" ++ showProt p | .unlock => "unlock"
  | .free => "free" | .freeInner => (match impl with | .mg => "free" | .pm => "free-inner") | .rand => "rand"
  | .allocG => "allocG" | .freeG => "freeG" | .canary => "canary" | .guard => "guard"

def parsePrim (impl : Impl) : String → Option Prim
  | "alloc" => some .alloc | "lock" => some .lock | "protect-none" => some (.protect .none)
  | "protect-ro" => some (.protect .ro) | "protect-rw" => some (.protect .rw) | "unlock" => some .unlock
  | "free" => some (match impl with | .mg => .freeInner | .pm => .free) | "rand" => some .rand | _ => none

structure GoCall where
  name : String
  status : String
  cls : String

def parseMc (s : String) : List GoCall :=
  if s == "-" || s == "" then [] else
  (s.splitOn ",").filterMap fun c => match c.splitOn ":" with
    | [n, st, cl] => some ⟨n, st, cl⟩
    | _ => none

def allCalls (evs : List Ev) : List Call := evs.filterMap fun | .call c => some c | _ => none
def ifaceCalls (evs : List Ev) : List Call := (allCalls evs).filter (!·.lib)

/-- put the observed interface flags on the model's interface-call positions (library calls succeed). -/
def assign : List Call → List Bool → List Bool
  | [], fs => fs
  | c :: cs, fs =>
    if c.lib then false :: assign cs fs
    else match fs with
      | [] => []
      | f :: ft => f :: assign cs ft

def fit (runEvs : List Bool → List Ev) (flags : List Bool) : Nat → List Bool → List Bool
  | 0, o => o
  | n + 1, o =>
    let o' := assign (allCalls (runEvs o)) flags
    if o' == o then o else fit runEvs flags n o'

def parseImpl : String → Option Impl | "pm" => some .pm | "mg" => some .mg | _ => none

def parseOp (ws : List String) : Option Op :=
  match ws with
  | ["new", i, n] => do pure (.new (← parseImpl i) (← n.toNat?))
  | ["rand", i, n] => do pure (.rand (← parseImpl i) (← n.toNat?))
  | ["with", s, d] => do pure (.withB (← s.toNat?) (← d.toNat?))
  | ["withf", s, d] => do pure (.withF (← s.toNat?) (← d.toNat?))
  -- the innermost callback panics (caught by the harness): the deferred releases run all the same
  | ["withp", s, d] => do pure (.withB (← s.toNat?) (← d.toNat?))
  | ["withfp", s, d] => do pure (.withF (← s.toNat?) (← d.toNat?))
  | ["reader", s] => do pure (.newReader (← s.toNat?))
  | ["read", r, k] => do pure (.read (← r.toNat?) (← k.toNat?))
  | ["close", s] => do pure (.close (← s.toNat?))
  | ["isclosed", s] => do pure (.isClosed (← s.toNat?))
  | _ => none

/-- implementation and identity of the secret an operation concerns. -/
def opSecret (w : World) : Op → Option (Impl × Nat)
  | .new i _ | .rand i _ => some (i, w.nextId)
  | .withB s _ | .withF s _ | .newReader s | .close s | .isClosed s => (w.secs[s]?).map fun x => (x.impl, x.id)
  | .read r _ => (w.readers[r]?).bind fun (s, _) => (w.secs[s]?).map fun x => (x.impl, x.id)

/-- shadow page string `M,L,none,orig` → page (content relative to `id`); `none` content = not observable. -/
def parsePage (s : String) (id : Nat) : Option (Page × Bool) :=
  match s.splitOn "," with
  | [m, l, p, c] =>
    match parseProt p with
    | some pr =>
      let known := (contentOf c id).isSome
      some ({ mapped := m == "M", locked := l == "L", dontdump := l == "L", prot := pr,
              content := (contentOf c id).getD .zero, guards := false }, known || m != "M")
    | none => none
  | _ => none

/-- smaps string `r--,lo,dd` | `unmapped` → page. -/
def parseSmaps (s : String) (content : Content) : Option Page :=
  if s == "unmapped" then some { Page.absent with content := content } else
  match s.splitOn "," with
  | [perms, lo, dd] =>
    let pr : Option Prot := match perms with
      | "---" => some .none | "r--" => some .ro | "rw-" => some .rw | _ => none
    pr.map fun p => { mapped := true, locked := lo == "lo", dontdump := dd == "dd", prot := p, content := content, guards := false }
  | _ => none

def showPageShadow (p : Page) : String :=
  if !p.mapped then "-,-,_,unmapped" else
  s!"M,{if p.locked then "L" else "-"},{showProt p.prot},{showCC p.content}"

def showPageReal (p : Page) : String :=
  if !p.mapped then "unmapped" else
  let perms := match p.prot with | .none => "---" | .ro => "r--" | .rw => "rw-"
  s!"{perms},{if p.locked then "lo" else "--"},{if p.dontdump then "dd" else "--"}"

def pageEqShadow (m g : Page) (known : Bool) : Bool :=
  if !m.mapped then !g.mapped
  else g.mapped && m.locked == g.locked && m.prot == g.prot && (!known || m.content == g.content)

def pageEqReal (m g : Page) : Bool :=
  if !m.mapped then !g.mapped || !g.locked      -- the address range may have been reused by an unrelated mapping
  else g.mapped && m.locked == g.locked && m.prot == g.prot && m.dontdump == g.dontdump

def bump (s : St) (bad : Bool) : St := if bad then { s with mism := s.mism + 1 } else s

def secOp (s : St) (line opS obsS : String) (op : Op) : St × Array String :=
  let kv := kvOf (words obsS)
  match opSecret s.w op, (get kv "res").bind parseRes with
  | none, _ => ({ s with mism := s.mism + 1 }, #[s!"MISMATCH line {s.lineNo}: bad-op {line}"])
  | _, none => ({ s with mism := s.mism + 1 }, #[s!"MISMATCH line {s.lineNo}: bad-obs {line}"])
  | some (impl, id), some goRes =>
    let goMc := parseMc ((get kv "mc").getD "-")
    let flags := goMc.map (·.status == "FAIL")
    let oracle := fit (fun o => (s.w.step op o).2.evs) flags (flags.length + 3) []
    let (w', mo) := s.w.step op oracle
    -- ---------------- model vs implementation ----------------
    let mCalls := ifaceCalls mo.evs
    let callsOk := !s.shadow ||
      (mCalls.length == goMc.length &&
       (mCalls.zip goMc).all fun (m, g) =>
         primName impl m.prim == g.name && m.ok == (g.status == "ok") &&
         (match contentOf g.cls id with | some c => c == m.before | none => g.cls == "?" || g.cls == "-"))
    let goPage : Option (Page × Bool) := (get kv "pg").bind fun p => if p == "-" then some (Page.absent, true) else parsePage p id
    let pageOk := !s.shadow || (match goPage, mo.page with
      | some (g, known), some m => pageEqShadow m g known
      | none, none => true
      | _, _ => get kv "pg" == none)
    let resOk := showRes mo.res == showRes goRes
    let srcOk := match op, get kv "src" with
      | .new _ n, some v => n == 0 || (v == "wiped") == mo.srcWiped
      | _, _ => true
    let inuseOk := (get kv "inuse").bind String.toInt? == some w'.inuse
    let cntOk := (get kv "cnt").bind String.toNat? == some mo.counter
    let seenOk := match get kv "seen", mo.seen with
      | some g, some (.bytes c) => contentOf g id == some c
      | some _, _ => false
      | none, _ => true
    let nOk := match op with
      | .read _ _ => (get kv "n").bind String.toNat? == some mo.n && get kv "eof" == some (if mo.eof then "true" else "false")
      | _ => true
    let flagOk := match op with
      | .isClosed _ => get kv "flag" == some (if mo.flag then "true" else "false")
      | _ => true
    let goIn : Option Page := (get kv "in").bind fun v =>
      if s.shadow then (parsePage v id).map (·.1) else parseSmaps v (.zero)
    let inOk := match goIn, mo.inside with
      | some g, some m => if s.shadow then pageEqShadow m g true else pageEqReal m g
      | none, _ => true
      | some _, none => false
    let goAfter : Option Page := (get kv "after").bind fun v => parseSmaps v (.zero)
    let afterOk := match goAfter, mo.page with
      | some g, some m => pageEqReal m g
      | none, _ => true
      | some _, none => false
    let bad : List String :=
      (if resOk then [] else [s!"res go={showRes goRes} model={showRes mo.res}"]) ++
      (if callsOk then [] else [s!"calls go=[{(get kv "mc").getD "-"}] model=[{",".intercalate (mCalls.map fun c => s!"{primName impl c.prim}:{if c.ok then "ok" else "fail"}:{showCC c.before}")}]"]) ++
      (if pageOk then [] else [s!"page go={(get kv "pg").getD "-"} model={(mo.page.map showPageShadow).getD "-"}"]) ++
      (if srcOk then [] else [s!"src go={(get kv "src").getD "-"} model={if mo.srcWiped then "wiped" else "kept"}"]) ++
      (if inuseOk then [] else [s!"inuse go={(get kv "inuse").getD "-"} model={w'.inuse}"]) ++
      (if cntOk then [] else [s!"counter go={(get kv "cnt").getD "-"} model={mo.counter}"]) ++
      (if seenOk then [] else [s!"seen go={(get kv "seen").getD "-"}"]) ++
      (if nOk then [] else [s!"read go=n:{(get kv "n").getD "-"},eof:{(get kv "eof").getD "-"} model=n:{mo.n},eof:{mo.eof}"]) ++
      (if flagOk then [] else [s!"flag go={(get kv "flag").getD "-"} model={mo.flag}"]) ++
      (if inOk then [] else [s!"inside go={(get kv "in").getD "-"} model={(mo.inside.map (if s.shadow then showPageShadow else showPageReal)).getD "-"}"]) ++
      (if afterOk then [] else [s!"after go={(get kv "after").getD "-"} model={(mo.page.map showPageReal).getD "-"}"])
    -- ---------------- the monitor on the implementation's own observation ----------------
    let goEvs : List Ev := goMc.filterMap fun g =>
      (parsePrim impl g.name).map fun p =>
        Ev.call { prim := p, ok := g.status == "ok", lib := false, before := (contentOf g.cls id).getD .zero }
    let stray := goMc.any fun g => g.cls == "unmapped" || g.cls == "unknown"
    let goSeen : Option Seen := (get kv "seen").bind fun g => (contentOf g id).map Seen.bytes
    let view : View :=
      { res := goRes, evs := goEvs,
        page := if s.shadow then goPage.map (·.1) else goAfter.map fun p => { p with content := (mo.page.map (·.content)).getD .zero },
        pageKnown := if s.shadow then (goPage.map (·.2)).getD true else false,
        inside := goIn, seen := goSeen,
        inuse := ((get kv "inuse").bind String.toInt?).getD 0,
        counter := ((get kv "cnt").bind String.toNat?).getD 0,
        flag := get kv "flag" == some "true", stray := stray,
        called := goSeen.isSome || goIn.isSome || ((get kv "n").bind String.toNat?).getD 0 > 0 || get kv "eof" == some "true" }
    let (mon', clauses0) := s.mon.step s.shadow op view
    -- the real world observes the page only at an address learnt inside a callback
    let clauses := if s.shadow then clauses0 else
      clauses0.filter fun c => !(c == "inside_readonly" && goIn.isNone) && !(c == "reader_sees_original" && goSeen.isNone && goRes == .ok && (match op with | .read _ _ => true | _ => false))
    -- CreateRandom under a random source that returns one byte per Read (legal for an io.Reader): the
    -- secret must still be filled completely (the model's `rand` assumes exactly that)
    let clauses := clauses ++ (if get kv "entropy" == some "short" then ["random_fills_whole_secret"] else [])
    let srcNote := match op, get kv "src" with
      | .new _ n, some "kept" => decide (n > 0)
      | _, _ => false
    let s' := { s with w := w', mon := mon', ops := s.ops + 1,
                       faults := s.faults + (flags.filter fun b => b).length,
                       failPaths := s.failPaths + (if goRes != .ok then 1 else 0),
                       smaps := s.smaps + (if !s.shadow then (if goIn.isSome then 1 else 0) + (if goAfter.isSome then 1 else 0) else 0),
                       inside := s.inside + (if goIn.isSome then 1 else 0),
                       notes := s.notes + (if srcNote then 1 else 0),
                       mism := s.mism + (if bad.isEmpty then 0 else 1),
                       monFail := s.monFail + (if clauses.isEmpty then 0 else 1) }
    let msgs : Array String :=
      (if bad.isEmpty then #[] else #[s!"MISMATCH line {s.lineNo}: {opS} :: {"; ".intercalate bad}"]) ++
      (if clauses.isEmpty then #[] else #[s!"MONITOR-FAIL line {s.lineNo}: {opS} :: {" ".intercalate clauses}"]) ++
      (if srcNote then #[s!"NOTE-C10 line {s.lineNo}: {opS} :: the buffer passed to New was not wiped (res={showRes goRes})"] else #[])
    (s', msgs)

/-- a concurrent child run: only real effects count. -/
def concOp (s : St) (opS obsS : String) : St × Array String :=
  let kv := kvOf (words obsS)
  let okv := kvOf (words opS)
  let num (k : String) : Nat := ((get kv k).bind String.toNat?).getD 0
  let onum (k : String) : Nat := ((get okv k).bind String.toNat?).getD 0
  let readers := onum "readers"; let closers := onum "closers"; let iters := onum "iters"
  let clauses : List String :=
    (if get kv "exit" == some "0" then [] else [s!"no_crash:exit={(get kv "exit").getD "-"}"]) ++
    (if get kv "exit" != some "0" then [] else
      (if num "othererr" == 0 then [] else ["error_without_fault"]) ++
      (if num "badbytes" == 0 then [] else ["reader_sees_original"]) ++
      (if num "closeerrs" == 0 then [] else ["close_returns_nil"]) ++
      (if num "running_after_close" == 0 && num "start_after_close" == 0 then [] else ["close_waits"]) ++
      (if num "counter" == 0 then [] else ["counter_balanced"]) ++
      (if get kv "closed" == some "true" then [] else ["closed_after_close"]) ++
      (if get kv "inuse" == some "0" then [] else ["inuse_balanced"]) ++
      (if num "closerets" == closers then [] else ["close_returns_nil"]) ++
      (if num "ok" + num "closederr" + num "othererr" == readers * iters then [] else ["every_read_returns"]) ++
      (if closers == 0 && num "closederr" != 0 then ["access_after_close_is_error:spurious"] else []))
  ({ s with conc := s.conc + 1, concOps := s.concOps + readers * iters + closers, ops := s.ops + 1,
            monFail := s.monFail + (if clauses.isEmpty then 0 else 1) },
   if clauses.isEmpty then #[] else #[s!"MONITOR-FAIL line {s.lineNo}: {opS} :: {" ".intercalate clauses}"])

/-- creation under RLIMIT_MEMLOCK = 0: the first Lock fails (pm: interface call 2; mg: library call 2). -/
def rlimitOp (s : St) (opS obsS : String) (impl : Impl) (len : Nat) : St × Array String :=
  let kv := kvOf (words obsS)
  let c := create theCfg impl false 0 len [false, true]
  let goRes := (get kv "res").getD "-"
  let bad := goRes != showRes c.res || (get kv "src" == some "wiped") != c.srcWiped || get kv "inuse" != some "0"
  let clauses : List String :=
    (if goRes == "panic" then ["create_fail_is_error:panic"] else []) ++
    (if goRes == "ok" then ["create_fail_is_error"] else []) ++
    (if get kv "inuse" == some "0" then [] else ["inuse_balanced"])
  let note := get kv "src" == some "kept"
  ({ s with ops := s.ops + 1, faults := s.faults + 1, failPaths := s.failPaths + 1,
            mism := s.mism + (if bad then 1 else 0), notes := s.notes + (if note then 1 else 0),
            monFail := s.monFail + (if clauses.isEmpty then 0 else 1) },
   (if bad then #[s!"MISMATCH line {s.lineNo}: {opS} :: go=[{obsS}] model=[res={showRes c.res} src={if c.srcWiped then "wiped" else "kept"} inuse=0]"] else #[]) ++
   (if clauses.isEmpty then #[] else #[s!"MONITOR-FAIL line {s.lineNo}: {opS} :: {" ".intercalate clauses}"]) ++
   (if note then #[s!"NOTE-C10 line {s.lineNo}: {opS} :: the buffer passed to New was not wiped (res={goRes})"] else #[]))

def step (s : St) (line : String) : St × Array String :=
  let s := { s with lineNo := s.lineNo + 1 }
  if line.startsWith "#" then (s, #[]) else
  let (opS, obsS) := splitObs line
  let ws := (words opS).filter (!·.startsWith "flt=")
  match ws with
  | ["world", kind] =>
    ({ s with w := { cfg := theCfg, pf := theProto }, mon := {}, shadow := kind != "real", active := true, cases := s.cases + 1 }, #[])
  | "conc" :: _ => concOp s opS obsS
  | ["rlimit", i, n] =>
    match parseImpl i, n.toNat? with
    | some impl, some len => rlimitOp s opS obsS impl len
    | _, _ => ({ s with mism := s.mism + 1 }, #[s!"MISMATCH line {s.lineNo}: bad-op {line}"])
  | _ =>
    match parseOp ws with
    | some op =>
      if !s.active then ({ s with mism := s.mism + 1 }, #[s!"MISMATCH line {s.lineNo}: operation outside a world: {line}"])
      else secOp s line opS obsS op
    | none => ({ s with mism := s.mism + 1 }, #[s!"MISMATCH line {s.lineNo}: bad-op {line}"])

def finish (s : St) : Array String :=
  #[s!"SUMMARY engine=secmem cases={s.cases} ops={s.ops} mismatches={s.mism} monitor_fail={s.monFail} faults_fired={s.faults} failure_paths={s.failPaths} smaps_checks={s.smaps} inside_observations={s.inside} conc_runs={s.conc} conc_ops={s.concOps} c10_notes={s.notes} cfg={if theCfg == Cfg.asFound then "as-found" else if theCfg == Cfg.repaired then "repaired" else if theCfg == Cfg.repairedPm then "repaired-pm" else "mixed"}"]

def engine : Engine St := { init := {}, step := step, finish := finish }

end AsherahVerif.Driver.SecMemEngine
