import Std.Data.HashMap
import AsherahVerif.Model.ServerTree
import AsherahVerif.Spec.ServerSpec
import AsherahVerif.Driver.Loop
/-
Line protocol of engine `server` (C19).  Input lines are what go/cmd/hxserver wrote while driving the
real `AppEncryption.Session` through an in-memory stream:

  stream <n> cache=<0|1> [conc=<group>]          a new stream (one handler); `n` names its records
  gs <A|B|C|empty|nilmsg>            => resp=<kind>      get-session (empty id / GetSession message absent)
  enc <payload-id|nilmsg> [sendfail] => resp=enc rec#<n>.<k>
  dec rec#<n>.<k> | foreign#<n>.<k> | corrupt#<n>.<k>:<field> | empty | nilmsg [sendfail] => resp=<kind>
  empty [sendfail]                   => resp=nil           request with no oneof member
  eof | recverr | abort              => ret=<nil|err|panic> sent=<number of Send calls>

  <kind> = ok | enc rec#<n>.<k> | dec:eq | dec:neq | err:uninit | err:already | err:sdk | nil | panic | none
  `sendfail`: the stream's Send of this response returns an error.  `abort`: the stream ended before the
  scripted end (panic in a request, or after a failed Send).  rec#<n>.<k> = the k-th record stream n received.

The driver replays every stream on the model `Server.run`/`step` instantiated with the guards regenerated
from the current tree (`Server.currentGuards`) and the simulated SDK, and prints
  MISMATCH line N: …      the model's observation differs from the implementation's
  MONITOR-FAIL line N: …  the implementation's own trace violates C19 (Spec/ServerSpec.lean: `Phase.step`, `endOk`)
  SUMMARY engine=server cases=… ops=… mismatches=… monitor_fail=… nil_guard=<0|1> <distribution counters>
-/
namespace AsherahVerif.Driver.ServerEngine
open AsherahVerif.Server AsherahVerif.ServerSpec AsherahVerif.Driver

abbrev RecId := Nat × Nat

structure St where
  lineNo : Nat := 0
  ops : Nat := 0
  cases : Nat := 0
  mism : Nat := 0
  monFail : Nat := 0
  -- the current stream
  inStream : Bool := false
  sid : Nat := 0
  hst : HState Nat := .uninit                 -- model state
  tick : Nat := 0
  dead : Bool := false                        -- the model panicked
  ended : Bool := true                        -- terminator seen
  sendFailed : Bool := false
  nreq : Nat := 0
  modelSent : Nat := 0
  own : Nat := 0
  phase : Option Phase := some .noSession     -- monitor; `none` = already reported for this stream
  -- across streams
  recs : Std.HashMap RecId SimRecord := {}    -- the model's records
  monRecs : Std.HashMap RecId (Option Nat) := {}   -- observer: partition of the session that produced it
  -- distribution
  sessions : Nat := 0
  rejected : Nat := 0
  roundtrips : Nat := 0
  refusals : Nat := 0
  protoErrs : Nat := 0
  panics : Nat := 0
  nilResp : Nat := 0
  sendFails : Nat := 0
  recvErrs : Nat := 0
  afterReject : Nat := 0
  nontrivial : Nat := 0                        -- requests counted once if they fall in any class above

def partOf : String → Option Nat
  | "A" => some 1 | "B" => some 2 | "C" => some 3 | "empty" => some 0 | "nilmsg" => some 0
  | _ => none

def parseRecId (s : String) : Option RecId :=
  match s.splitOn "." with
  | [a, b] => do pure ((← a.toNat?), (← b.toNat?))
  | _ => none

inductive DecArg where
  | known (id : RecId)            -- rec# / foreign#
  | corrupt (id : RecId)
  | empty

def parseDecArg (s : String) : Option DecArg :=
  if s == "empty" || s == "nilmsg" then some .empty
  else match s.splitOn "#" with
    | ["rec", id] => (parseRecId id).map .known
    | ["foreign", id] => (parseRecId id).map .known
    | ["corrupt", rest] =>
      match rest.splitOn ":" with
      | [id, f] => if f ∈ ["data", "key", "keyid", "pcreated", "nopmeta", "emptykey", "nokey"] then (parseRecId id).map .corrupt else none
      | _ => none
    | _ => none

inductive ParsedOp where
  | gs (id : Nat)
  | enc (p : Nat)
  | dec (a : DecArg)
  | empty

def parseOp (ws : List String) : Option (ParsedOp × Bool) :=
  let (ws, sf) := if ws.getLast? == some "sendfail" then (ws.dropLast, true) else (ws, false)
  match ws with
  | ["gs", p] => (partOf p).map fun id => (.gs id, sf)
  | ["enc", "nilmsg"] => some (.enc 0, sf)
  | ["enc", p] => p.toNat?.map fun n => (.enc n, sf)
  | ["dec", a] => (parseDecArg a).map fun a => (.dec a, sf)
  | ["empty"] => some (.empty, sf)
  | _ => none

def showErr : ErrKind → String
  | .uninitialized => "err:uninit" | .alreadyInitialized => "err:already" | .sdk => "err:sdk"

def parseObs (s : String) : Option MObs :=
  match words s with
  | ["resp=ok"] => some .ok
  | ["resp=enc", _] => some .enc
  | ["resp=dec:eq"] => some .decEq
  | ["resp=dec:neq"] => some .decNeq
  | ["resp=err:uninit"] => some (.err .uninitialized)
  | ["resp=err:already"] => some (.err .alreadyInitialized)
  | ["resp=err:sdk"] => some (.err .sdk)
  | ["resp=nil"] => some .nil
  | ["resp=panic"] => some .panic
  | ["resp=none"] => some .none
  | _ => none

def showRet : Ret → String
  | .nil => "nil" | .err => "err" | .panic => "panic"

def bad (s : St) (line : String) (why : String) : St × Array String :=
  ({ s with mism := s.mism + 1 }, #[s!"MISMATCH line {s.lineNo}: {why}: {line}"])

def step (s : St) (line : String) : St × Array String :=
  let s := { s with lineNo := s.lineNo + 1 }
  let (opS, obsS) := splitObs line
  let ws := words opS
  match ws with
  | "stream" :: n :: _ =>
    match n.toNat? with
    | none => bad s line "bad-op"
    | some n =>
      let pre : Array String :=
        if s.ended then #[] else #[s!"MISMATCH line {s.lineNo}: stream {s.sid} has no terminator line"]
      ({ s with inStream := true, sid := n, hst := .uninit, tick := 0, dead := false, ended := false,
                sendFailed := false, nreq := 0, modelSent := 0, own := 0, phase := some .noSession,
                cases := s.cases + 1, mism := s.mism + pre.size }, pre)
  | [term] =>
    if term == "eof" || term == "recverr" || term == "abort" then
      if !s.inStream || s.ended then bad s line "terminator outside a stream" else
      match words obsS with
      | [retS, sentS] =>
        match (sentS.splitOn "=") with
        | ["sent", nS] =>
          match nS.toNat? with
          | none => bad s line "bad-obs"
          | some goSent =>
            -- the model's end of stream
            let modelRet : Option Ret :=
              if s.dead then some .panic
              else if s.sendFailed then some (finish (Id := Nat) (Payload := Nat) (Record := SimRecord) currentGuards s.hst .err).ret
              else if term == "eof" then some (finish (Id := Nat) (Payload := Nat) (Record := SimRecord) currentGuards s.hst .nil).ret
              else if term == "recverr" then some (finish (Id := Nat) (Payload := Nat) (Record := SimRecord) currentGuards s.hst .err).ret
              else none     -- the implementation stopped where the model sees no reason to
            let modelS := match modelRet with
              | some r => s!"ret={showRet r} sent={s.modelSent}"
              | none => s!"ret=? sent={s.modelSent}"
            let corrOk := modelS == s!"{retS} sent={goSent}"
            -- the monitor
            let goRet : Option Ret := match retS with
              | "ret=nil" => some .nil | "ret=err" => some .err | "ret=panic" => some .panic | _ => none
            let monOk := match goRet with
              | some r => endOk (term == "recverr" || s.sendFailed) s.nreq goSent r
              | none => false
            let reportMon := !monOk && s.phase.isSome
            let why :=
              if retS == "ret=panic" then "the handler panicked (a panic in a gRPC handler goroutine terminates the sidecar process)"
              else s!"expected sent={s.nreq} and ret={if term == "recverr" || s.sendFailed then "err" else "nil"}"
            let msgs : Array String :=
              (if corrOk then #[] else #[s!"MISMATCH line {s.lineNo}: {opS} go=[{obsS}] model=[{modelS}]"]) ++
              (if reportMon then #[s!"MONITOR-FAIL line {s.lineNo}: {opS} go=[{obsS}] requests={s.nreq}: {why}"] else #[])
            ({ s with ended := true, inStream := false,
                      mism := s.mism + (if corrOk then 0 else 1),
                      monFail := s.monFail + (if reportMon then 1 else 0),
                      panics := s.panics + (if retS == "ret=panic" then 1 else 0),
                      recvErrs := s.recvErrs + (if term == "recverr" then 1 else 0) }, msgs)
        | _ => bad s line "bad-obs"
      | _ => bad s line "bad-obs"
    else if term == "empty" then stepReq s line opS obsS ws
    else bad s line "bad-op"
  | _ => stepReq s line opS obsS ws
where
  stepReq (s : St) (line opS obsS : String) (ws : List String) : St × Array String :=
    if !s.inStream || s.ended then bad s line "request outside a stream" else
    match parseOp ws, parseObs obsS with
    | none, _ => bad s line "bad-op"
    | _, none => bad s line "bad-obs"
    | some (op, sf), some goObs =>
      if s.dead then bad s line "request after the model panicked" else
      if s.sendFailed then bad s line "request after a failed Send" else
      -- the request for the model, the classified request for the monitor
      let corruptRec : SimRecord := ⟨0, 0, false⟩
      let (req, mreq, unknown) : Request Nat Nat SimRecord × MReq × Bool :=
        match op with
        | .gs id => (.getSession id, .gs id, false)
        | .enc p => (.encrypt p, .enc, false)
        | .empty => (.empty, .empty, false)
        | .dec .empty => (.decrypt corruptRec, .dec none, false)
        | .dec (.corrupt id) =>
          match s.recs[id]? with
          | some r => (.decrypt { r with genuine := false }, .dec none, false)
          | none => (.decrypt corruptRec, .dec none, true)
        | .dec (.known id) =>
          let m := (s.monRecs[id]?).join
          match s.recs[id]? with
          | some r => (.decrypt r, .dec m, false)
          | none => (.decrypt corruptRec, .dec m, true)
      if unknown then bad s line "record unknown to the model" else
      let wasRejected := s.hst == HState.failedInit
      let s := { s with ops := s.ops + 1, nreq := s.nreq + 1,
                        afterReject := s.afterReject + (if wasRejected then 1 else 0) }
      -- model
      let out := Server.step currentGuards simSdk s.tick s.hst req
      let (modelObs, s) : String × St :=
        match out with
        | .panic => ("resp=panic", { s with dead := true })
        | .reply st' resp =>
          let txt := match resp with
            | .ok => "resp=ok"
            | .enc _ => s!"resp=enc rec#{s.sid}.{s.own}"
            | .dec _ => (match absResp req resp with | .decEq => "resp=dec:eq" | _ => "resp=dec:neq")
            | .err k => "resp=" ++ showErr k
            | .nilMsg => "resp=nil"
          let s := match resp with
            | .enc r => { s with recs := s.recs.insert (s.sid, s.own) r, own := s.own + 1 }
            | _ => s
          (txt, { s with hst := st', tick := s.tick + 1, modelSent := s.modelSent + 1, sendFailed := sf })
      let corrOk := modelObs == obsS
      -- monitor, on the implementation's observation
      let (phase', monOk) : Option Phase × Bool :=
        match s.phase with
        | none => (none, true)
        | some ph =>
          match ph.step mreq goObs with
          | some ph' => (some ph', true)
          | none => (none, false)
      -- observer's record table: who produced the record
      let s := match goObs, words obsS with
        | .enc, [_, r] =>
          match (r.splitOn "#") with
          | ["rec", id] =>
            match parseRecId id with
            | some id => { s with monRecs := s.monRecs.insert id (match s.phase with | some (.session p) => some p | _ => none) }
            | none => s
          | _ => s
        | _, _ => s
      let s := { s with phase := phase',
                        sessions := s.sessions + (if goObs == MObs.ok then 1 else 0),
                        rejected := s.rejected + (match op, goObs with | .gs _, .err .sdk => 1 | _, _ => 0),
                        roundtrips := s.roundtrips + (if goObs == MObs.decEq then 1 else 0),
                        refusals := s.refusals + (match op, goObs with | .dec _, .err .sdk => 1 | _, _ => 0),
                        protoErrs := s.protoErrs + (match goObs with | .err .uninitialized => 1 | .err .alreadyInitialized => 1 | _ => 0),
                        nilResp := s.nilResp + (if goObs == MObs.nil then 1 else 0),
                        sendFails := s.sendFails + (if sf then 1 else 0),
                        nontrivial := s.nontrivial +
                          (if wasRejected || sf || goObs == MObs.ok || goObs == MObs.decEq || goObs.isErr || goObs == MObs.panic then 1 else 0) }
      let why := match goObs with
        | .panic => "the handler panicked on this request (a panic in a gRPC handler goroutine terminates the sidecar process)"
        | .none => "no response was sent for this request"
        | _ => "response contradicts the stream protocol of C19"
      let msgs : Array String :=
        (if corrOk then #[] else #[s!"MISMATCH line {s.lineNo}: {opS} go=[{obsS}] model=[{modelObs}]"]) ++
        (if monOk then #[] else #[s!"MONITOR-FAIL line {s.lineNo}: {opS} go=[{obsS}] {why}"])
      ({ s with mism := s.mism + (if corrOk then 0 else 1), monFail := s.monFail + (if monOk then 0 else 1) }, msgs)

def finish (s : St) : Array String :=
  let pre : Array String := if s.ended then #[] else #[s!"MISMATCH line {s.lineNo}: stream {s.sid} has no terminator line"]
  pre ++ #[s!"SUMMARY engine=server cases={s.cases} ops={s.ops} mismatches={s.mism + pre.size} monitor_fail={s.monFail} " ++
    s!"nil_guard={if currentGuards.all then 1 else 0} sessions={s.sessions} rejected={s.rejected} roundtrips={s.roundtrips} " ++
    s!"refusals={s.refusals} proto_errors={s.protoErrs} after_reject={s.afterReject} panics={s.panics} nil={s.nilResp} " ++
    s!"sendfail={s.sendFails} recverr={s.recvErrs} nontrivial={s.nontrivial}"]

def engine : Engine St := { init := {}, step := step, finish := finish }

end AsherahVerif.Driver.ServerEngine
