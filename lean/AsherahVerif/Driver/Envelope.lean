import AsherahVerif.Model.Envelope
import AsherahVerif.Spec.EnvelopeMon
import AsherahVerif.Generated.CacheConst
import AsherahVerif.Driver.Loop
/-
Line protocol of engine `envelope` (C01–C05, C07, C09, C10, C20). Lines written by go/cmd/hxenv:

  new                                                        start of a case (fresh world)
  fac <f> expire=<ns> revoke=<ns> prec=<ns> sk=<spec> ik=<spec> shared=<0|1>
        spec ∈ none | simple | lru:N | lfu:N | slru:N | tinylfu:N
  sess <f> <s> <partition>
  enc <s> <payload-id> flt=<-|tok,tok,…>
  dec <s> <record#> flt=<…> mut=<-|flipdata:b|flipkey:b|truncdata:n|trunckey:n|nokey|noparent|nildata|
                                 splicedata:m|splicekey:m|spliceparent:m|parentcreated:k|parentsk>
  cls <s> | fcls <f> | adv <ns> | rev <sk|ikP> <created> | rowmut <kid> <created> <noparent|junk|short> | end

each followed by ` => <observation>`:
  res=ok|err|none|panic [drr=<n> ik=<created> chain=<0|1>] [pay=<id|other>]
    | calls=<comma list> | sec=<new>:<closed>:<live>:<multi-closed>:<access-after-close> | dirty=<n> | rows=<n>
Creation stamps are printed relative to the virtual epoch 1700000000 s.
The driver replays the operations on the model, compares field by field
(`MISMATCH line N field=<res|calls|sec|dirty|rows|log> …`) and runs the per-property monitors of
Spec/EnvelopeMon.lean on the implementation's own observations (`MONITOR-FAIL line N prop=Cxx …`).
-/
namespace AsherahVerif.Driver.EnvEngine
open AsherahVerif.Env AsherahVerif.Driver AsherahVerif.EnvMon

def t0 : Int := 1700000000

structure St where
  w : World := { now := 1700000000 * 1000000000 }
  drrs : Array (Drr × Nat × Nat) := #[]          -- record, payload, partition
  sessOpen : Array Bool := #[]
  facOpen : Array Bool := #[]
  mon : Mon := {}
  dead : Bool := false
  lineNo : Nat := 0
  cases : Nat := 0
  ops : Nat := 0
  mism : Nat := 0
  monFail : Nat := 0
  -- distribution
  nEncOk : Nat := 0
  nDecOk : Nat := 0
  nErr : Nat := 0
  nFaulted : Nat := 0
  nRotations : Nat := 0
  nReloads : Nat := 0
  nMut : Nat := 0
  nRevoke : Nat := 0
  nEvictHint : Nat := 0

def kv (ws : List String) (k : String) : Option String :=
  ws.findSome? fun x => match x.splitOn "=" with
    | [a, b] => if a == k then some b else none
    | _ => none

def floorMul (n : Nat) (r : Float) : Nat := (Float.floor (n.toFloat * r)).toUInt64.toNat

def parseKind (s : String) : Option (Bool × Option (Cache.Kind × Nat)) :=
  match s.splitOn ":" with
  | ["none"] => some (false, none)
  | ["simple"] => some (true, none)
  | [p, n] => do
    let n ← n.toNat?
    let k ← match p with
      | "lru" => some Cache.Kind.lru | "lfu" => some .lfu | "slru" => some .slru | "tinylfu" => some .tinylfu
      | _ => none
    pure (true, some (k, n))
  | _ => none

/-- (protected capacity, window capacity) as pkg/cache computes them. -/
def caps (k : Option (Cache.Kind × Nat)) : Nat × Nat :=
  let pr := AsherahVerif.Generated.CacheConst.protectedRatio
  let ar := AsherahVerif.Generated.CacheConst.admissionRatio
  match k with
  | some (.slru, n) => (floorMul n pr, 0)
  | some (.tinylfu, n) => let w := floorMul n ar; (floorMul (n - w) pr, w)
  | _ => (0, 0)

def parseFaults (s : String) : List Fault :=
  if s == "-" || s == "" then [] else
  (s.splitOn ",").map fun t => match t with
    | "err" => .err | "dup" => .dup | "errw" => .errw | _ => .ok

def showKid : KeyId → String
  | .sk => "sk"
  | .ik p => s!"ik{p}"

def parseKid (s : String) : Option KeyId :=
  if s == "sk" then some .sk
  else if s.startsWith "ik" then (s.drop 2).toNat?.map .ik else none

def showPt : Pt → String
  | .payload _ => "p"
  | .key m => s!"k{m}"

def showCall : Call → String
  | .load m found failed => s!"L:{showKid m.kid}@{m.created - t0}:" ++ (if failed then "err" else if found then "1" else "0")
  | .loadLatest k found failed =>
    s!"LL:{showKid k}:" ++ (if failed then "err" else match found with | some c => toString (c - t0) | none => "-")
  | .store m res => s!"S:{showKid m.kid}@{m.created - t0}:" ++ (if res then "1" else "0")
  | .kmsEnc failed => if failed then "KE:err" else "KE:ok"
  | .kmsDec failed => if failed then "KD:err" else "KD:ok"
  | .aeadEnc k pt failed => s!"AE:m{k}:{showPt pt}:" ++ (if failed then "err" else "ok")
  | .aeadDec k res => s!"AD:m{k}:" ++ (match res with | some pt => showPt pt | none => "fail")
  | .newSecret failed => if failed then "NS:err" else "NS:ok"
  | .randSecret failed => if failed then "RS:err" else "RS:ok"

def secLine (w : World) : String :=
  s!"sec={w.secrets.length}:{closedSecrets w}:{liveSecrets w}:{multiClosed w}:{accessesAfterClose w}"

def chainPresent (w : World) (d : Drr) : Nat :=
  match d.key with
  | some dk => match dk.parent with
    | some p => match findRow w.store p with
      | some r => match r.parent with
        | some sp => if (findRow w.store sp).isSome then 1 else 0
        | none => 0
      | none => 0
    | none => 0
  | none => 0

/-- after the observation of an operation has been taken, the dirty buffers are forgotten
(the harness re-reads only the slices of the operation that just returned). -/
def tail (w : World) : String × World :=
  (s!" | calls={",".intercalate (w.log.map showCall)} | {secLine w} | dirty={dirtyBufs w} | rows={w.store.length} | log=clean",
   { w with bufs := [] })

def mutate (drrs : Array (Drr × Nat × Nat)) (d : Drr) (mutS : String) : Drr :=
  let other (m : String) : Option Drr := m.toNat?.bind fun i => drrs[i]?.map (·.1)
  let onKey (f : DrrKey → DrrKey) : Drr := { d with key := d.key.map f }
  match mutS.splitOn ":" with
  | ["-"] => d
  | ["flipdata", _] | ["truncdata", _] | ["nildata"] => { d with data := .junk 0 }
  | ["flipkey", _] | ["trunckey", _] => onKey fun k => { k with enc := .junk 1 }
  | ["nokey"] => { d with key := none }
  | ["noparent"] => onKey fun k => { k with parent := none }
  | ["splicedata", m] => match other m with | some o => { d with data := o.data } | none => d
  | ["splicekey", m] => match other m with
    | some o => onKey fun k => { k with enc := (o.key.map (·.enc)).getD k.enc }
    | none => d
  | ["spliceparent", m] => match other m with
    | some o => onKey fun k => { k with parent := (o.key.bind (·.parent)) }
    | none => d
  | ["parentcreated", n] => onKey fun k => { k with parent := k.parent.map fun p => { p with created := p.created + (n.toNat?.getD 0) } }
  | ["parentsk"] => onKey fun k => { k with parent := k.parent.map fun p => { p with kid := .sk } }
  | _ => d

def fieldsOf (obs : String) : List (String × String) :=
  match obs.splitOn " | " with
  | [] => []
  | r :: rest => ("res", r) :: rest.map fun f =>
      match f.splitOn "=" with
      | k :: vs => (k, "=".intercalate vs)
      | [] => ("", f)

def diffFields (go mo : String) : List String :=
  let g := fieldsOf go
  let m := fieldsOf mo
  (g.zip m).filterMap fun ((k, a), (_, b)) => if a == b then none else some k

def step (s : St) (line : String) : St × Array String :=
  let s := { s with lineNo := s.lineNo + 1 }
  if line == "new" then
    ({ s with w := { now := t0 * nsPerSec }, drrs := #[], sessOpen := #[], facOpen := #[], mon := {}, dead := false,
              cases := s.cases + 1 }, #[])
  else
  let (opS, goObs) := splitObs line
  let ws := words opS
  if s.dead then (s, #[]) else
  if goObs == "skip" then (s, #[]) else
  let bad : St × Array String := ({ s with mism := s.mism + 1 }, #[s!"MISMATCH line {s.lineNo} field=op bad-op {line}"])
  let arg (i : Nat) : Nat := ((ws.getD i "").toNat?).getD 0
  let rel := (kv ws "flt").getD "-"
  let faults := parseFaults rel
  -- run the model; `obs` is the model's observation string
  let r : Option (String × St) :=
    match ws.head? with
    | some "fac" => do
      let (skOn, skKind) ← parseKind ((kv ws "sk").getD "")
      let (ikOn, ikKind) ← parseKind ((kv ws "ik").getD "")
      let p : Policy := {
        expireAfter := ((kv ws "expire").bind (·.toInt?)).getD 0,
        revokeInterval := ((kv ws "revoke").bind (·.toInt?)).getD 0,
        precision := ((kv ws "prec").bind (·.toInt?)).getD 0,
        cacheSK := skOn, cacheIK := ikOn, sharedIK := (kv ws "shared") == some "1",
        skKind := skKind, ikKind := ikKind }
      let (spc, swc) := caps skKind
      let (ipc, iwc) := caps ikKind
      let (_, w) := applyOp s.w (.newFactory p spc swc ipc iwc)
      pure ("res=ok", { s with w := w, facOpen := s.facOpen.push true,
                                mon := s.mon.addFactory p })
    | some "sess" =>
      let f := arg 1
      let fac := s.w.facs.getD f default
      let (ipc, iwc) := caps fac.pol.ikKind
      let (_, w) := applyOp s.w (.getSession f (arg 3) ipc iwc)
      some ("res=ok", { s with w := w, sessOpen := s.sessOpen.push true, mon := s.mon.addSession f (arg 3) })
    | some "enc" =>
      let (r, w) := applyOp s.w (.encrypt (arg 1) (arg 2) faults)
      let (obs, drrs) := match r with
        | .record d =>
          let part := (w.sessions.getD (arg 1) default).part
          let ik := ((d.key.bind (·.parent)).map (·.created)).getD 0
          let skc : String := match (d.key.bind (·.parent)).bind (findRow w.store) with
            | some r => match r.parent with | some sp => toString (sp.created - t0) | none => "-"
            | none => "-"
          (s!"res=ok drr={s.drrs.size} ik={ik - t0} skc={skc} chain={chainPresent w d}", s.drrs.push (d, arg 2, part))
        | .error .panic => ("res=panic", s.drrs)
        | _ => ("res=err", s.drrs)
      let (t, w) := tail w
      some (obs ++ t, { s with w := w, drrs := drrs })
    | some "dec" =>
      match s.drrs[arg 2]? with
      | none => none
      | some (d, pay, _) =>
        let d' := mutate s.drrs d ((kv ws "mut").getD "-")
        let (r, w) := applyOp s.w (.decrypt (arg 1) d' faults)
        let obs := match r with
          | .payload p => if p == pay then s!"res=ok pay={pay}" else "res=ok pay=other"
          | .error .panic => "res=panic"
          | _ => "res=err"
        let (t, w) := tail w
        some (obs ++ t, { s with w := w })
    | some "cls" =>
      let (_, w) := applyOp s.w (.closeSession (arg 1))
      let (t, w) := tail w
      some ("res=ok" ++ t, { s with w := w, sessOpen := s.sessOpen.setIfInBounds (arg 1) false })
    | some "fcls" =>
      let (_, w) := applyOp s.w (.closeFactory (arg 1))
      let (t, w) := tail w
      some ("res=ok" ++ t, { s with w := w, facOpen := s.facOpen.setIfInBounds (arg 1) false })
    | some "adv" =>
      let (_, w) := applyOp s.w (.advance (arg 1))
      some ("res=ok", { s with w := w })
    | some "rev" => do
      let k ← parseKid (ws.getD 1 "")
      let c : Int := ((ws.getD 2 "").toInt?).getD 0 + t0
      if (findRow s.w.store ⟨k, c⟩).isSome then
        let (_, w) := applyOp s.w (.revoke ⟨k, c⟩)
        pure ("res=ok", { s with w := w })
      else pure ("res=none", s)
    | some "rowmut" => do
      let k ← parseKid (ws.getD 1 "")
      let c : Int := ((ws.getD 2 "").toInt?).getD 0 + t0
      if (findRow s.w.store ⟨k, c⟩).isSome then
        let (_, w) := applyOp s.w (.corruptRow ⟨k, c⟩ (ws.getD 3 "" == "noparent"))
        pure ("res=ok", { s with w := w })
      else pure ("res=none", s)
    | some "end" =>
      -- close what is still open: sessions first, then factories
      let w := (List.range s.sessOpen.size).foldl (fun w i =>
        if s.sessOpen[i]! then (applyOp w (.closeSession i)).2 else w) s.w
      let w := (List.range s.facOpen.size).foldl (fun w i =>
        if s.facOpen[i]! then (applyOp w (.closeFactory i)).2 else w) w
      some (s!"res=ok | {secLine w} | inuse=0", { s with w := w })
    | _ => none
  match r with
  | none => bad
  | some (moObs, s') =>
    let s' := { s' with ops := s'.ops + 1 }
    let diffs := diffFields goObs moObs
    let msgs1 : Array String :=
      if goObs == moObs then #[] else
        #[s!"MISMATCH line {s.lineNo} field={",".intercalate (if diffs.isEmpty then ["shape"] else diffs)} {opS} go=[{goObs}] model=[{moObs}]"]
    -- monitors on the implementation's observation
    let (monNext, fails) := s'.mon.observe ws (fieldsOf goObs) s'.w.now
    let msgs2 := fails.toArray.map fun (p, what) => s!"MONITOR-FAIL line {s.lineNo} prop={p} {opS} go=[{goObs}] {what}"
    let goRes := ((fieldsOf goObs).lookup "res").getD ""
    let isOp (n : String) : Bool := ws.head? == some n
    let hasStore : Bool := s'.w.log.any fun c => match c with | .store _ true => true | _ => false
    let hasRead : Bool := s'.w.log.any fun c => match c with | .load _ _ _ => true | .loadLatest _ _ _ => true | _ => false
    let s2 : St := { s' with
      mon := monNext
      mism := s'.mism + msgs1.size
      monFail := s'.monFail + msgs2.size
      dead := goRes.startsWith "res=panic" || moObs.startsWith "res=panic"
      nEncOk := s'.nEncOk + (if isOp "enc" && goObs.startsWith "res=ok" then 1 else 0)
      nDecOk := s'.nDecOk + (if isOp "dec" && goObs.startsWith "res=ok" then 1 else 0)
      nErr := s'.nErr + (if goObs.startsWith "res=err" then 1 else 0)
      nFaulted := s'.nFaulted + (if faults.any (· != .ok) then 1 else 0)
      nRotations := s'.nRotations + (if isOp "enc" && hasStore then 1 else 0)
      nReloads := s'.nReloads + (if (isOp "enc" || isOp "dec") && hasRead then 1 else 0)
      nMut := s'.nMut + (if ((kv ws "mut").getD "-") != "-" then 1 else 0)
      nRevoke := s'.nRevoke + (if isOp "rev" then 1 else 0) }
    (s2, msgs1 ++ msgs2)

def finish (s : St) : Array String :=
  #[s!"SUMMARY engine=envelope cases={s.cases} ops={s.ops} mismatches={s.mism} monitor_fail={s.monFail} enc_ok={s.nEncOk} dec_ok={s.nDecOk} errors={s.nErr} faulted_ops={s.nFaulted} key_creations={s.nRotations} metastore_reads={s.nReloads} mutated_records={s.nMut} revocations={s.nRevoke}"]

def engine : Engine St := { init := {}, step := step, finish := finish }

end AsherahVerif.Driver.EnvEngine
