/-
Generic line-protocol loop shared by all engines of `modeldriver`.
An engine consumes one input line at a time and answers with zero or more output lines.
-/
namespace AsherahVerif.Driver

structure Engine (σ : Type) where
  init : σ
  step : σ → String → σ × Array String
  finish : σ → Array String

partial def loop {σ : Type} (e : Engine σ) (inp : IO.FS.Stream) (out : IO.FS.Stream) (s : σ) : IO Unit := do
  let line ← inp.getLine
  if line.isEmpty then
    for l in e.finish s do out.putStrLn l
    out.flush
    return ()
  let line := (line.dropEndWhile (fun c => c == '\n' || c == '\r')).toString
  if line.isEmpty then loop e inp out s else
  let (s', outs) := e.step s line
  for l in outs do out.putStrLn l
  loop e inp out s'

def runEngine {σ : Type} (e : Engine σ) : IO Unit := do
  let inp ← IO.getStdin
  let out ← IO.getStdout
  loop e inp out e.init

/-- split `"op args => observation"` into the two halves (observation may be absent). -/
def splitObs (line : String) : String × String :=
  match line.splitOn " => " with
  | [a] => (a, "")
  | a :: rest => (a, " => ".intercalate rest)
  | [] => ("", "")

def words (s : String) : List String := (s.splitOn " ").filter (· ≠ "")

end AsherahVerif.Driver
