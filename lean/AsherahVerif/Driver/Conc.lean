import AsherahVerif.Model.KeyRef
import AsherahVerif.Generated.KeyCacheFacts
import AsherahVerif.Model.SessCache
import AsherahVerif.Generated.SessCacheFacts
/-
`md_conc keyref <nKeys> <maxHeld> <maxObjs> <depth>`: bounded breadth-first exploration of the
key-reference protocol model instantiated with the protocol facts REGENERATED from key_cache.go.
It supports the search for a violating schedule when a fact changes (the theorems of Props/C08 are
what decides the property for the facts of the current source) and reports how much was explored.
-/
namespace AsherahVerif.Driver.Conc
open AsherahVerif.KeyRef

def showStep : Step → String
  | .hit k => s!"hit({k})" | .incr o => s!"incr({o})" | .merge k => s!"merge({k})"
  | .load k v a => s!"load({k},evict={match v with | some x => toString x | none => "-"},{if a then "async" else "sync"})"
  | .use o => s!"use({o})" | .release o => s!"release({o})" | .deliver => "deliver"

def keyref (args : List String) : String :=
  let n (i : Nat) (d : Nat) : Nat := ((args.getD i "").toNat?).getD d
  let F := AsherahVerif.Generated.KeyCacheFacts.facts
  let (states, trans, viol) := bfs F (n 0 2) (n 1 2) (n 2 4) (n 3 7)
  let v := match viol with
    | none => "none"
    | some sched => ",".intercalate (sched.map showStep)
  let fs := s!"incrUnderReadLock={F.incrUnderReadLock},slowPathUnderWriteLock={F.slowPathUnderWriteLock},latestUnderWriteLock={F.latestUnderWriteLock},evictReleasesCacheRef={F.evictReleasesCacheRef},replaceReleasesOld={F.replaceReleasesOld}"
  s!"BFS engine=keyref facts={fs} states={states} transitions={trans} violation={v}"

def showSStep : AsherahVerif.SessCache.Step → String
  | .getHit p => s!"getHit({p})"
  | .getLoad p v e => s!"getLoad({p},evict={match v with | some x => toString x | none => "-"},{if e then "expired" else "miss"})"
  | .incr s => s!"incr({s})" | .use s => s!"use({s})" | .close s => s!"close({s})" | .remove s => s!"remove({s})"
  | .factoryClose => "factoryClose"

def sesscache (args : List String) : String :=
  let n (i : Nat) (d : Nat) : Nat := ((args.getD i "").toNat?).getD d
  let F := AsherahVerif.Generated.SessCacheFacts.facts
  let (states, trans, viol) := AsherahVerif.SessCache.bfs F (n 0 2) (n 1 2) (n 2 4) (n 3 7)
  let v := match viol with
    | none => "none"
    | some sched => ",".intercalate (sched.map showSStep)
  let fs := s!"incrUnderCacheMutex={F.incrUnderCacheMutex},removeWaitsForZero={F.removeWaitsForZero},evictSpawnsRemover={F.evictSpawnsRemover},closeOnlyDecrements={F.closeOnlyDecrements}"
  s!"BFS engine=sesscache facts={fs} states={states} transitions={trans} violation={v}"

end AsherahVerif.Driver.Conc
