import AsherahVerif.Model.MetastoreInst
import AsherahVerif.Spec.MetastoreSpec
import AsherahVerif.Driver.Loop
/-
Line protocol of engine `metastore` (C13).  Input lines are what go/cmd/hxmetastore wrote:

  be <memory|sql:<default|mysql|postgres|oracle>|ddb1|ddb2> table=<-|x<hex>> suffix=<0|1> region=<r> => suffix=x<hex>
  store x<id> <created> <rec>   => <true|false|false+err:<class>|panic> req=<canonical requests the fake saw>
  load x<id> <created>          => <none|rec:<rec>|err:<class>|panic> req=…
  latest x<id>                  => <none|rec:<rec>|err:<class>|panic> req=…
  lag <k>                       => ok
  fault                         => ok

<rec> = x<id>,<revoked 0|1>,<created>,x<key bytes>,<-|x<parent id>@<parent created>>, strings as hex of UTF-8.

The driver executes the model — instantiated with the literals regenerated from /repo
(`Metastore.G.facts`) — on the same operations and prints `MISMATCH line N` when the result or the
canonical request differs from the implementation's, and `MONITOR-FAIL line N` when the
implementation's own trace violates the specification table (`Spec/MetastoreSpec.lean`).
-/
namespace AsherahVerif.Driver.MetastoreEngine
open AsherahVerif.Metastore AsherahVerif.Driver

/-! ### canonical printing (must agree with go/internal/fakeddb, go/internal/fakesql, hxmetastore) -/

def hexNibble (n : Nat) : Char := if n < 10 then Char.ofNat (48 + n) else Char.ofNat (87 + n)

def hexBytes (bs : List UInt8) : String :=
  String.ofList ('x' :: bs.flatMap fun b => [hexNibble (b.toNat / 16), hexNibble (b.toNat % 16)])

def hx (s : String) : String := hexBytes s.toUTF8.toList

def unhexBytes (s : String) : Option (List UInt8) :=
  match s.toList with
  | 'x' :: cs =>
    let rec go : List Char → Option (List UInt8)
      | [] => some []
      | a :: b :: rest => do
        let x ← hexVal a; let y ← hexVal b; let r ← go rest
        pure (UInt8.ofNat (x * 16 + y) :: r)
      | _ => none
    go cs
  | _ => none

def unhx (s : String) : Option String := do
  let bs ← unhexBytes s
  String.fromUTF8? (ByteArray.mk bs.toArray)

def showInt (i : Int) : String := String.ofList (fmtInt i)

def showRec (r : Rec) : String :=
  hx r.id ++ "," ++ (if r.revoked then "1" else "0") ++ "," ++ showInt r.created ++ "," ++ hexBytes r.key ++ "," ++
    (match r.parent with | some k => hx k.id ++ "@" ++ showInt k.created | none => "-")

def parseIntS (s : String) : Option Int := parseInt s.toList

def parseRec (s : String) : Option Rec :=
  match s.splitOn "," with
  | [id, rev, c, key, p] => do
    let id ← unhx id
    let c ← parseIntS c
    let key ← unhexBytes key
    let rev ← (if rev == "1" then some true else if rev == "0" then some false else none)
    let parent ← (if p == "-" then some none else
      match p.splitOn "@" with
      | [pid, pc] => do let pid ← unhx pid; let pc ← parseIntS pc; pure (some (KeyMeta.mk pid pc))
      | _ => none)
    pure ⟨id, rev, c, key, parent⟩
  | _ => none

partial def showAV : AV → String
  | .s v => "S(" ++ hx v ++ ")"
  | .n v => "N(" ++ v ++ ")"
  | .bool b => if b then "BOOL(true)" else "BOOL(false)"
  | .null => "NULL"
  | .m kvs => "M" ++ showItem kvs
where
  showItem (kvs : List (String × AV)) : String :=
    let sorted := isort (fun (a b : String × AV) => decide (a.1 < b.1)) kvs
    "{" ++ ",".intercalate (sorted.map fun (k, v) => k ++ ":" ++ showAV v) ++ "}"

def showNames (kvs : List (String × String)) : String :=
  let sorted := isort (fun (a b : String × String) => decide (a.1 < b.1)) kvs
  "{" ++ ",".intercalate (sorted.map fun (k, v) => k ++ ":" ++ v) ++ "}"

def showOptBool : Option Bool → String
  | none => "nil" | some true => "true" | some false => "false"

def showSqlVal : SqlVal → String
  | .str s => "s:" ++ hx s
  | .time t => "t:" ++ showInt t

/-- the request as the fake prints it; for SQL the fake prints `unparsed` when the statement does not
parse and sees nothing when `database/sql` rejects the argument count -/
def showReq (dialect : Dialect) : Req → Option String
  | .sql q args =>
    match parseSql dialect q with
    | none => some ("sql|" ++ q ++ "|unparsed")
    | some st =>
      if st.nparams ≠ args.length then none
      else some ("sql|" ++ q ++ "|[" ++ ",".intercalate (args.map showSqlVal) ++ "]")
  | .put table item cond =>
    some ("put|table=" ++ table ++ "|cond=" ++ cond.getD "nil" ++ "|names=nil|item=" ++ showAV.showItem item)
  | .get table key consistent proj names =>
    some ("get|table=" ++ table ++ "|key=" ++ showAV.showItem key ++ "|consistent=" ++ showOptBool consistent ++ "|proj=" ++ proj ++
      "|names=" ++ showNames names)
  | .query table keyCond names values consistent forward limit proj =>
    some ("query|table=" ++ table ++ "|keycond=" ++ keyCond ++ "|names=" ++ showNames names ++ "|values=" ++ showAV.showItem values ++
      "|consistent=" ++ showOptBool consistent ++ "|forward=" ++ showOptBool forward ++ "|limit=" ++
      (match limit with | some l => showInt l | none => "nil") ++ "|proj=" ++ proj)

def showReqs (dialect : Dialect) (rs : List Req) : String :=
  let ps := rs.filterMap (showReq dialect)
  if ps.isEmpty then "-" else ";".intercalate ps

def showErr : Err → String
  | .dup => "dup" | .cond => "cond" | .injected => "injected" | .syntax => "syntax" | .table => "table"
  | .column => "column" | .type => "type" | .validation => "validation" | .decode => "decode" | .other => "other"

def showRes : Res → String
  | .stored ok none => if ok then "true" else "false"
  | .stored ok (some e) => (if ok then "true" else "false") ++ "+err:" ++ showErr e
  | .loaded none => "none"
  | .loaded (some r) => "rec:" ++ showRec r
  | .fail e => "err:" ++ showErr e
  | .panic => "panic"

/-- the implementation's answer, for the monitor -/
def parseGoObs (s : String) : Option GoObs :=
  if s == "true" then some (.stored true false)
  else if s == "false" then some (.stored false false)
  else if s.startsWith "false+err:" then some (.stored false true)
  else if s.startsWith "true+err:" then some (.stored true true)
  else if s == "none" then some .absent
  else if s == "panic" then some .panic
  else if s.startsWith "err:" then some .err
  else if s.startsWith "rec:" then (parseRec (s.drop 4).toString).map .record
  else none

/-! ### engine -/

inductive Be
  | mem (m : Mem)
  | sql (ms : SqlMs) (db : Sql)
  | ddb (v : Nat) (table : String) (d : Ddb)

structure St where
  be : Option Be := none
  mon : Option Mon := none         -- none after a reported violation (one report per case)
  lag : Nat := 0
  fault : Bool := false
  dead : Bool := false
  lineNo : Nat := 0
  cases : Nat := 0
  ops : Nat := 0
  mism : Nat := 0
  monFail : Nat := 0
  storesNew : Nat := 0
  storesDup : Nat := 0
  loadHits : Nat := 0
  latestHits : Nat := 0
  faults : Nat := 0
  lagged : Nat := 0
  nMem : Nat := 0
  nSql : Nat := 0
  nDdb1 : Nat := 0
  nDdb2 : Nat := 0

def F : Facts := G.facts

def codecOf (v : Nat) : DdbLits × DdbCodec :=
  if v = 1 then (F.v1, codecV1 F.v1 F.v1Enc F.rowNames) else (F.v2, codecV2 F.v2Item F.v2Names)

def mkBackend (kind table : String) : Option Be :=
  let topt : Option (Option String) := if table == "-" then some none else (unhx table).map some
  match topt with
  | none => none
  | some topt =>
    if kind == "memory" then some (.mem {})
    else if kind == "sql:default" then some (.sql (newSqlMs F.sql none) (docSql .mysql))
    else if kind == "sql:mysql" then some (.sql (newSqlMs F.sql (some F.sql.mysql)) (docSql .mysql))
    else if kind == "sql:postgres" then some (.sql (newSqlMs F.sql (some F.sql.postgres)) (docSql .postgres))
    else if kind == "sql:oracle" then some (.sql (newSqlMs F.sql (some F.sql.oracle)) (docSql .oracle))
    else if kind == "ddb1" then
      let name := ddbTableName F.v1 topt
      -- the harness creates the fake's table under the documented default name or the configured one
      some (.ddb 1 name (docTable (match topt with | some t => if t = "" then "EncryptionKey" else t | none => "EncryptionKey")))
    else if kind == "ddb2" then
      let name := ddbTableName F.v2 topt
      some (.ddb 2 name (docTable (match topt with | some t => if t = "" then "EncryptionKey" else t | none => "EncryptionKey")))
    else none

def parseOp (ws : List String) : Option Op :=
  match ws with
  | ["store", id, c, rec] => do pure (.store (← unhx id) (← parseIntS c) (← parseRec rec))
  | ["load", id, c] => do pure (.load (← unhx id) (← parseIntS c))
  | ["latest", id] => do pure (.latest (← unhx id))
  | _ => none

def bad (s : St) (line : String) (what : String) : St × Array String :=
  ({ s with mism := s.mism + 1 }, #[s!"MISMATCH line {s.lineNo}: {what} {line}"])

def step (s : St) (line : String) : St × Array String :=
  let s := { s with lineNo := s.lineNo + 1 }
  if line.startsWith "#" then (s, #[]) else
  let (opS, obsS) := splitObs line
  let ws := words opS
  match ws with
  | ["be", kind, table, suffix, region] =>
    if !(table.startsWith "table=" ∧ suffix.startsWith "suffix=" ∧ region.startsWith "region=") then bad s line "bad-op" else
    let table := (table.drop 6).toString
    let sfx := (suffix.drop 7).toString == "1"
    let region := (region.drop 7).toString
    match mkBackend kind table with
    | none => bad s line "bad-op"
    | some be =>
      let isDdb : Bool := match be with | .ddb .. => true | _ => false
      -- v1: `*config.Config.Region` when enabled; v2: `svc.Options().Region` when enabled
      let want := "suffix=" ++ hx (if isDdb ∧ sfx then region else "")
      let s := { s with be := some be, mon := some { persistent := (match be with | .mem _ => false | _ => true) },
                        lag := 0, fault := false, dead := false, cases := s.cases + 1,
                        nMem := s.nMem + (match be with | .mem _ => 1 | _ => 0),
                        nSql := s.nSql + (match be with | .sql .. => 1 | _ => 0),
                        nDdb1 := s.nDdb1 + (match be with | .ddb 1 .. => 1 | _ => 0),
                        nDdb2 := s.nDdb2 + (match be with | .ddb 2 .. => 1 | _ => 0) }
      if obsS == want then (s, #[])
      else ({ s with mism := s.mism + 1 }, #[s!"MISMATCH line {s.lineNo}: {opS} go=[{obsS}] model=[{want}]"])
  | ["lag", k] =>
    match k.toNat? with
    | some k => ({ s with lag := k }, #[])
    | none => bad s line "bad-op"
  | ["fault"] | ["fault", "plain"] =>
    -- the in-memory metastore has no backend request to fail; `plain` = the failure surfaces as a
    -- plain error value without an API error code (the model does not distinguish: the request failed)
    match s.be with
    | some (.mem _) => (s, #[])
    | some _ => ({ s with fault := true }, #[])
    | none => bad s line "bad-op"
  | _ =>
    match s.be, parseOp ws with
    | some be, some op =>
      if s.dead then bad s line "operation after panic:" else
      match obsS.splitOn " req=" with
      | goRes :: reqParts =>
        let goReq := " req=".intercalate reqParts
        let env : Env := { fault := s.fault, lag := s.lag }
        let (be', res, reqS) : Be × Res × String :=
          match be with
          | .mem m => let (m', r) := m.step op; (.mem m', r, "-")
          | .sql ms db => let o := sqlStep F.rowNames ms db env op; (.sql ms o.st, o.res, showReqs db.dialect o.reqs)
          | .ddb v table d =>
            let (L, C) := codecOf v
            let o := ddbStep L C table d env op
            (.ddb v table o.st, o.res, showReqs .mysql o.reqs)
        let modelRes := showRes res
        let corrOk := modelRes == goRes && reqS == goReq
        -- the monitor runs on the implementation's own answer
        let (mon', monOk) : Option Mon × Bool :=
          match s.mon, parseGoObs goRes with
          | some m, some o => match m.step op s.fault o with
            | some m' => (some m', true)
            | none => (none, false)
          | none, _ => (none, true)               -- already reported for this case
          | some _, none => (none, false)
        let isStore : Bool := match op with | .store .. => true | _ => false
        let s := { s with be := some be', mon := mon', fault := false, ops := s.ops + 1,
                          dead := res == Res.panic || goRes == "panic",
                          storesNew := s.storesNew + (if goRes == "true" then 1 else 0),
                          storesDup := s.storesDup + (if isStore ∧ !s.fault ∧ goRes.startsWith "false" then 1 else 0),
                          loadHits := s.loadHits + (match op with | .load .. => if goRes.startsWith "rec:" then 1 else 0 | _ => 0),
                          latestHits := s.latestHits + (match op with | .latest .. => if goRes.startsWith "rec:" then 1 else 0 | _ => 0),
                          faults := s.faults + (if s.fault then 1 else 0),
                          lagged := s.lagged + (if s.lag > 0 ∧ !isStore then 1 else 0) }
        let msgs : Array String :=
          (if corrOk then #[] else
            #[s!"MISMATCH line {s.lineNo}: {opS} go=[{goRes} req={goReq}] model=[{modelRes} req={reqS}]"]) ++
          (if monOk then #[] else
            #[s!"MONITOR-FAIL line {s.lineNo}: {opS} go=[{goRes}] insert-only read-your-writes table specification violated by the implementation's trace"])
        ({ s with mism := s.mism + (if corrOk then 0 else 1), monFail := s.monFail + (if monOk then 0 else 1) }, msgs)
      | [] => bad s line "bad-obs"
    | _, _ => bad s line "bad-op"

def finish (s : St) : Array String :=
  #[s!"SUMMARY engine=metastore cases={s.cases} ops={s.ops} mismatches={s.mism} monitor_fail={s.monFail} stores_new={s.storesNew} stores_dup={s.storesDup} load_hits={s.loadHits} latest_hits={s.latestHits} faults={s.faults} lagged_reads={s.lagged} memory={s.nMem} sql={s.nSql} ddb1={s.nDdb1} ddb2={s.nDdb2}"]

def engine : Engine St := { init := {}, step := step, finish := finish }

end AsherahVerif.Driver.MetastoreEngine
