import AsherahVerif.Model.KeyRace
import AsherahVerif.Driver.Loop
/-
`md_conc race`: replay of the gate-metastore schedules of go/cmd/hxrace on Model/KeyRace.lean (C14).
Every released metastore call and every result is compared with the model; the C14 monitor runs on
the implementation's own observations (all processes succeed, each used IK and its SK are stored,
every record decrypts in a fresh process, no initial row was modified or removed).
-/
namespace AsherahVerif.Driver.Race
open AsherahVerif.KeyRace AsherahVerif.Driver


def t0 : Int := 1700000000

structure RSt where
  pol : Policy := { now := 0, expireAfter := 0, precision := 0 }
  st : St := { store := [], procs := [], serial := [] }
  n : Nat := 0
  started : Bool := false
  initRows : List String := []
  ends : List (Nat × Option (Int × String)) := []     -- implementation results
  lineNo : Nat := 0
  races : Nat := 0
  steps : Nat := 0
  mism : Nat := 0
  monFail : Nat := 0
  dupInserts : Nat := 0
  adopted : Nat := 0

def kvs (ws : List String) (k : String) : String :=
  (ws.findSome? fun x => match x.splitOn "=" with
    | [a, b] => if a == k then some b else none
    | _ => none).getD ""

def showRow (r : Row) : String :=
  s!"{match r.kid with | .sk => "sk" | .ik => "ik"}@{r.created - t0}:{if r.revoked then 1 else 0}:{match r.kid with | .sk => 0 | .ik => r.parent - t0}"

def sortStrings (l : List String) : List String := (l.toArray.qsort (· < ·)).toList

def step (s : RSt) (line : String) : RSt × Array String :=
  let s := { s with lineNo := s.lineNo + 1 }
  let ws := words line
  match ws with
  | "race" :: _ :: rest =>
    let n := (kvs rest "n").toNat?.getD 2
    let now := (kvs rest "now").toInt?.getD 0
    let pol : Policy := { now := t0 * nsPerSec + now, expireAfter := (kvs rest "expire").toInt?.getD 0,
                          precision := (kvs rest "prec").toInt?.getD 0 }
    ({ s with pol := pol, st := init [] n, n := n, started := false, initRows := [], ends := [], races := s.races + 1 }, #[])
  | ["row", k, c, rev, par] =>
    let c := c.toInt?.getD 0 + t0
    let serial := s.st.store.length
    let r : Row := { kid := if k == "sk" then .sk else .ik, created := c, revoked := rev == "1", mat := (99, serial),
                     parent := if k == "sk" then 0 else par.toInt?.getD 0 + t0 }
    ({ s with st := { s.st with store := s.st.store ++ [r] }, initRows := s.initRows ++ [showRow r] }, #[])
  | ["step", pid, call] =>
    let i := pid.toNat?.getD 0
    let mo := describe s.pol s.st i t0
    let st' := (AsherahVerif.KeyRace.step s.pol s.st i).getD s.st
    let msgs := if mo == call then #[] else #[s!"MISMATCH line {s.lineNo} field=call p{i} go=[{call}] model=[{mo}]"]
    ({ s with st := st', steps := s.steps + 1, mism := s.mism + msgs.size,
              dupInserts := s.dupInserts + (if call.startsWith "S:" && call.endsWith ":0" then 1 else 0) }, msgs)
  | "end" :: pid :: rest =>
    let i := pid.toNat?.getD 0
    let mo : String := match s.st.procs[i]? with
      | some (Pc.done u) => s!"ok ik={u.ikCreated - t0} skc={u.skCreated - t0}"
      | some Pc.failed => "err"
      | _ => "unfinished"
    let go := " ".intercalate rest
    let msgs := if mo == go then #[] else #[s!"MISMATCH line {s.lineNo} field=result p{i} go=[{go}] model=[{mo}]"]
    let res : Option (Int × String) := if rest.head? == some "ok" then some ((kvs rest "ik").toInt?.getD 0, kvs rest "skc") else none
    let fail := if res.isNone then #[s!"MONITOR-FAIL line {s.lineNo} prop=C14 p{i} failed to encrypt although the metastore accepted its calls"] else #[]
    ({ s with ends := s.ends ++ [(i, res)], mism := s.mism + msgs.size, monFail := s.monFail + fail.size }, msgs ++ fail)
  | ["final", rows, xdec] =>
    let goRows := sortStrings (((match rows.splitOn "=" with | [_, v] => v | _ => "").splitOn ",").filter (· ≠ ""))
    let moRows := sortStrings (s.st.store.map showRow)
    let m1 : Array String := if goRows == moRows then #[] else #[s!"MISMATCH line {s.lineNo} field=rows go=[{goRows}] model=[{moRows}]"]
    -- monitor on the implementation's own observations
    let missingInit := s.initRows.filter fun r => !goRows.contains r
    let f1 : Array String := if missingInit.isEmpty then #[] else #[s!"MONITOR-FAIL line {s.lineNo} prop=C14 stored key records were modified or removed: {missingInit}"]
    let f2 := s.ends.toArray.filterMap fun (i, res) => match res with
      | some (ik, skc) =>
        let ikRow := goRows.find? fun r => r.startsWith s!"ik@{ik}:"
        match ikRow with
        | none => some s!"MONITOR-FAIL line {s.lineNo} prop=C14 p{i} encrypted under IK@{ik} which is not stored"
        | some r =>
          if (goRows.any fun x => x.startsWith s!"sk@{skc}:") && r.endsWith s!":{skc}" then none
          else some s!"MONITOR-FAIL line {s.lineNo} prop=C14 p{i}: the SK@{skc} of its IK is not stored"
      | none => none
    let f3 : Array String := if xdec == "xdec=ok" then #[] else #[s!"MONITOR-FAIL line {s.lineNo} prop=C14 a record produced in the race does not decrypt in a fresh process"]
    let uniq : List Int := (s.ends.filterMap (fun e => e.2)).map (fun e => e.1)
    let adopted : Nat := if uniq.length > 1 then 1 else 0
    ({ s with mism := s.mism + m1.size, monFail := s.monFail + f1.size + f2.size + f3.size, adopted := s.adopted + adopted },
     m1 ++ f1 ++ f2 ++ f3)
  | _ => ({ s with mism := s.mism + 1 }, #[s!"MISMATCH line {s.lineNo} field=op bad-op {line}"])

def finish (s : RSt) : Array String :=
  #[s!"SUMMARY engine=race cases={s.races} ops={s.steps} mismatches={s.mism} monitor_fail={s.monFail} refused_inserts={s.dupInserts} multi_process_races={s.adopted}"]

def engine : Engine RSt := { init := {}, step := step, finish := finish }

end AsherahVerif.Driver.Race
