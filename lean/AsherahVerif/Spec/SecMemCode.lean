import AsherahVerif.Model.SecMem
import AsherahVerif.Generated.SecMem
import AsherahVerif.Expected.SecMem
/-
The parameters of Model/SecMem.lean as they are in /repo NOW: read off the regenerated skeletons
(Generated/SecMem.lean) by the token tests of Expected/SecMem.lean.  Used by the driver (to run the
model of the code that exists) and by Props/C11, Props/C12 (which prove that the regenerated
skeletons are among the expected shapes and what the parameters are).
-/
namespace AsherahVerif.SecMem
open AsherahVerif

def theCfgTokens : Expected.SecMem.CfgTokens :=
  Expected.SecMem.cfgTokens Generated.SecMem.pmNew Generated.SecMem.pmCreateRandomInner Generated.SecMem.mgNewFromBuffer

/-- the F-6 flags of the code as it is now. -/
def theCfg : Cfg :=
  ⟨theCfgTokens.wipeArgOnNewFail, theCfgTokens.wipeOnNewProtectFail, theCfgTokens.wipeOnRandFail,
   theCfgTokens.wipeOnRandProtectFail, theCfgTokens.mgWipeOnProtectFail⟩

def thePmTokens : Expected.SecMem.ProtoTokens :=
  Expected.SecMem.protoTokens Generated.SecMem.pmAccess Generated.SecMem.pmRelease Generated.SecMem.pmClose
    Generated.SecMem.pmCloseInner "s.close" "if(s.closing||s.closed){"

def theMgTokens : Expected.SecMem.ProtoTokens :=
  Expected.SecMem.protoTokens Generated.SecMem.mgAccess Generated.SecMem.mgRelease Generated.SecMem.mgClose
    [] "s.buffer.Destroy" "if(s.closing||!s.buffer.IsAlive()){"

/-- the protocol facts of both packages as they are now (the model uses one `Proto` for both). -/
def theProto : Proto :=
  { accessChecksClosing := thePmTokens.accessChecksClosing && thePmTokens.accessUnderMutex && thePmTokens.counterIncrUnderMutex &&
      theMgTokens.accessChecksClosing && theMgTokens.accessUnderMutex && theMgTokens.counterIncrUnderMutex
    closeWaits := thePmTokens.closeWaitsForZeroReaders && thePmTokens.closeSetsClosingFirst && thePmTokens.wipeBeforeUnlock &&
      theMgTokens.closeWaitsForZeroReaders && theMgTokens.closeSetsClosingFirst
    releaseBroadcasts := thePmTokens.releaseBroadcasts && thePmTokens.releaseUnderMutex &&
      theMgTokens.releaseBroadcasts && theMgTokens.releaseUnderMutex }

end AsherahVerif.SecMem
