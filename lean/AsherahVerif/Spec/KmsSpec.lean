import AsherahVerif.Model.Kms
/-
C17 specification / monitor: what the property says about one wrap or unwrap, written without the
plugins' loops.  The driver evaluates these on the *implementation's* observations
(`MONITOR-FAIL` when they disagree); Props/C17.lean proves the model satisfies them for every input.

  * `opens`        — client `c` can turn the envelope into a key: it finds an entry for its region,
                     its KMS opens that entry, and the data key it gets opens the sealed key;
  * `unwrapResult` — DecryptKey must return what the first configured client that `opens` gets;
  * `tried`        — the KMS Decrypt calls it may make: the clients that have an entry, in client
                     order, up to and including the first one that `opens`;
  * `wrapOk`, `wrapEntries` — EncryptKey succeeds iff some client can generate a data key, and
                     (KMS contract: the generator reports its own ARN, the key is usable) the envelope
                     has exactly one entry for the generator and for every region whose Encrypt succeeded.
-/
namespace AsherahVerif.KmsSpec
open AsherahVerif.Kms

def opens (look : String → Option Kek) (cloud : Cloud) (ek : Ct) (c : Client) : Option Nat :=
  (look c.region).bind fun k => (cloud.dec c k.blob).bind fun dk => aeadOpen ek dk

def hasEntry (look : String → Option Kek) (c : Client) : Bool := (look c.region).isSome

def unwrapResult (look : String → Option Kek) (cloud : Cloud) (ek : Ct) (clients : List Client) : Option Nat :=
  clients.findSome? (opens look cloud ek)

/-- everything before the first element satisfying `p`, and that element. -/
def takeThrough {α : Type} (p : α → Bool) : List α → List α
  | [] => []
  | a :: as => if p a then [a] else a :: takeThrough p as

def tried (look : String → Option Kek) (cloud : Cloud) (ek : Ct) (clients : List Client) : List Client :=
  takeThrough (fun c => (opens look cloud ek c).isSome) (clients.filter (hasEntry look))

def wrapOk (cloud : Cloud) (clients : List Client) : Bool := clients.any fun c => (cloud.gen c).isSome

/-- the generating client: the first one whose GenerateDataKey succeeds. -/
def generator (cloud : Cloud) (clients : List Client) : Option Client := clients.find? fun c => (cloud.gen c).isSome

/-- regions that must have an entry: every client with the generator's master key, and every other
client whose Encrypt of the data key succeeds. -/
def wrapEntries (cloud : Cloud) (clients : List Client) (g : Client) (key : DataKey) : List Client :=
  clients.filter fun c => c.arn = g.arn ∨ (cloud.enc c key).isSome

end AsherahVerif.KmsSpec
