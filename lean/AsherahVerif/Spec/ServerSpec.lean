import AsherahVerif.Model.Server
/-
C19 monitor: the sidecar's stream protocol as seen by a client that only sees its requests and the
responses (no handler state).  `Phase.step` returns `none` when an observed response contradicts the
property:
  * a panic, or a request left without a response;
  * encrypt / decrypt answered with anything but an error response while no get-session has been
    answered `ok` on this stream (before any get-session, or after a rejected one);
  * a get-session after an earlier get-session (accepted or rejected) not answered with an error;
  * the first get-session: empty partition id not refused, non-empty id not accepted (the harness'
    metastore and KMS never fail);
  * with a session for partition p: encrypt not answered with a record; decrypt of a record a session
    of partition p produced not answered with the original payload; decrypt of a record of another
    partition, or of anything no session produced (corrupted, empty), not answered with an error;
  * a request with no oneof member answered with anything but a nil/empty message or an error.
The driver executes it on the implementation's traces (`MONITOR-FAIL`), and Props/C19
(`model_trace_conforms`) proves that it accepts every trace of the repaired model.
-/
namespace AsherahVerif.ServerSpec
open AsherahVerif.Server

/-- a request as classified by the observer; `dec rp`: `rp = some q` if the record came out of an
encrypt response on a stream whose session was for partition `q`, unmodified; `none` otherwise -/
inductive MReq where
  | gs (id : Nat)          -- 0 = empty partition id
  | enc
  | dec (recPart : Option Nat)
  | empty
deriving DecidableEq, Repr

inductive MObs where
  | ok
  | enc
  | decEq
  | decNeq
  | err (k : ErrKind)
  | nil
  | panic
  /-- no `Send` for this request although the stream went on / ended normally -/
  | none
deriving DecidableEq, Repr

inductive Phase where
  | noSession
  | session (p : Nat)
  /-- a get-session was refused on this stream -/
  | rejected
deriving DecidableEq, Repr

def MObs.isErr : MObs → Bool
  | .err _ => true
  | _ => false

def Phase.step (ph : Phase) (q : MReq) (a : MObs) : Option Phase :=
  match q with
  | .gs id =>
    match ph with
    | .noSession =>
      if id = 0 then (if a.isErr then some .rejected else none)
      else (if a = .ok then some (.session id) else none)
    | _ => if a.isErr then some ph else none
  | .enc =>
    match ph with
    | .session _ => if a = .enc then some ph else none
    | _ => if a.isErr then some ph else none
  | .dec rp =>
    match ph with
    | .session p => if rp = some p then (if a = .decEq then some ph else none)
                    else (if a.isErr then some ph else none)
    | _ => if a.isErr then some ph else none
  | .empty => if a = .nil ∨ a.isErr then some ph else none

/-- the whole stream: `false` as soon as one observation is refused -/
def Phase.accepts : Phase → List (MReq × MObs) → Bool
  | _, [] => true
  | ph, (q, a) :: rest =>
    match ph.step q a with
    | none => false
    | some ph' => ph'.accepts rest

/-- end of stream: `Stream` returns nil after EOF, the transport's error otherwise, having called
`Send` once per request it received -/
def endOk (transportError : Bool) (requests sent : Nat) (ret : Ret) : Bool :=
  sent == requests && ret == (if transportError then Ret.err else Ret.nil)

/-! abstraction of the model (with `simSdk`) to the observer's vocabulary -/

def absReq : Request Nat Nat SimRecord → MReq
  | .getSession id => .gs id
  | .encrypt _ => .enc
  | .decrypt r => .dec (if r.genuine then some r.part else none)
  | .empty => .empty

def absResp : Request Nat Nat SimRecord → Response Nat SimRecord → MObs
  | _, .ok => .ok
  | _, .enc _ => .enc
  | .decrypt r, .dec p => if p = r.payload then .decEq else .decNeq
  | _, .dec _ => .decNeq
  | _, .err k => .err k
  | _, .nilMsg => .nil

def absState : HState Nat → Phase
  | .uninit => .noSession
  | .ready s => .session s
  | .failedInit => .rejected

end AsherahVerif.ServerSpec
