import AsherahVerif.Model.Envelope
/-
Per-property monitors for the envelope engine, executed by the driver on the IMPLEMENTATION's
observations (never on the model's): a `MONITOR-FAIL` is a concrete history on which the real code
violates the property.  They are deliberately independent of the model's cache machinery: they
only track what an observer of the public API, the metastore and the clock knows.

  C01  an unmodified record of the session's partition decrypts to its payload (no injected fault,
       no out-of-band row corruption in the case); inputs are never modified
  C02  a returned record's IK row and that row's SK row are in the metastore at return; an
       operation without injected faults succeeds
  C03  payloads are encrypted only under a key created in the same call and used for nothing else;
       keys form three levels (data / intermediate / system) and wrap only the level below
  C04  a returned record never names an IK that is expired at that time; an IK whose parent SK
       expired more than one revoke-check interval ago is not used
  C05  a revoked IK is not used later than one interval after the revocation, a key under a
       revoked SK not later than two (when a later stamp can be created)
  C07  a modified record yields an error or exactly the original payload; never a panic
  C09  no secret is closed twice or touched after close; with caching off nothing stays live;
       at the end of the case nothing is live
  C10  no heap slice that held plaintext key material is non-zero after the call
  C20  immediately repeating a successful operation on the same session makes no metastore / KMS call;
       a factory with an (unbounded) system-key cache unwraps one system key at most once per
       revoke-check interval
-/
namespace AsherahVerif.EnvMon
open AsherahVerif.Env

def t0 : Int := 1700000000

structure Rec where
  pay : Nat
  part : Nat
  ik : Int          -- creation stamp (relative) of the IK it names
deriving Repr

structure Mon where
  facs : Array Policy := #[]
  sess : Array (Nat × Nat) := #[]                 -- factory, partition
  recs : Array Rec := #[]
  revoked : List (String × Int × Int) := []       -- key id, created (relative), time of revocation
  corrupted : Bool := false                        -- a `rowmut` happened in this case
  faulted : Bool := false                          -- some operation of this case ran with injected faults
  storeFaulted : Bool := false                     -- … and one of them hit (or may have hit) a metastore WRITE
  ikSeen : List (Nat × String) := []                -- (cache owner, IK key) pairs ever brought into that owner's IK cache
  quiet : List (Nat × Nat) := []                    -- (owner, partition) with a clean successful encrypt since the clock last moved
  closedS : List Nat := []                          -- sessions closed so far
  closedF : List Nat := []                          -- factories closed so far
  anyRevoke : Bool := false
  mats : Nat := 0                                  -- materials created so far (RS:ok)
  level : List (Nat × Nat) := []                   -- material ↦ level (0 data, 1 intermediate, 2 system)
  usedForPayload : List Nat := []
  fills : List ((Nat × String × Int) × String) := []   -- (cache owner, IK id, created) ↦ how the owner's cache last got it
  newest : List ((Nat × String) × Int) := []        -- (cache owner, IK id) ↦ stamp its "latest" alias points to
  lastOp : Option (List String × Bool) := none     -- previous operation words, succeeded without faults?
  unwraps : List ((Nat × Int) × Int) := []          -- (factory, SK created) ↦ time of its last KMS unwrap
  multi : Nat := 0
  aac : Nat := 0
deriving Repr

def Mon.addFactory (m : Mon) (p : Policy) : Mon := { m with facs := m.facs.push p }
def Mon.addSession (m : Mon) (f part : Nat) : Mon := { m with sess := m.sess.push (f, part) }

/-- C09 `live_bound` on the implementation's ledger: when every cache of every open factory is bounded
(or switched off), the number of live secrets between operations cannot exceed the sum of the
capacities of the open caches (`none` = some open cache is unbounded: no bound to check). -/
def Mon.liveBound (m : Mon) : Option Nat :=
  let capOf (on : Bool) (k : Option (Cache.Kind × Nat)) : Option Nat :=
    if !on then some 0 else k.map (·.2)
  let facs := (List.range m.facs.size).filter fun f => !m.closedF.contains f
  facs.foldl (fun acc f =>
    let p := m.facs.getD f default
    let nSess := ((List.range m.sess.size).filter fun s => (m.sess.getD s (0, 0)).1 == f && !m.closedS.contains s).length
    match acc, capOf p.cacheSK p.skKind, capOf p.cacheIK p.ikKind with
    | some a, some sk, some ik => some (a + sk + (if p.sharedIK then ik else nSess * ik))
    | _, _, _ => none) (some 0)

def kvOf (ws : List String) (k : String) : String :=
  (ws.findSome? fun x => match x.splitOn "=" with
    | [a, b] => if a == k then some b else none
    | _ => none).getD ""

def resWords (fields : List (String × String)) : List String :=
  ((fields.lookup "res").getD "").splitOn " " |>.filter (· ≠ "")

def calls (fields : List (String × String)) : List String :=
  match fields.lookup "calls" with
  | some "" => []
  | some s => s.splitOn ","
  | none => []

def secOf (fields : List (String × String)) : List Nat :=
  match fields.lookup "sec" with
  | some s => (s.splitOn ":").filterMap (·.toNat?)
  | none => []

def isExternal (c : String) : Bool :=
  c.startsWith "L:" || c.startsWith "LL:" || c.startsWith "S:" || c.startsWith "KE" || c.startsWith "KD"

def levelOf (m : Mon) (k : Nat) : Option Nat := m.level.lookup k

/-- C03 bookkeeping over one operation's calls. -/
def checkCalls (m : Mon) (cs : List String) : Mon × List String :=
  cs.foldl (fun (acc : Mon × List String) c =>
    let (m, errs) := acc
    match c.splitOn ":" with
    | ["RS", "ok"] => ({ m with mats := m.mats + 1 }, errs)
    | ["AE", k, cls, _] =>
      match (k.drop 1).toNat? with
      | none => (m, errs ++ [s!"encryption under an unknown key: {c}"])
      | some kn =>
        if cls == "p" then
          let errs := if m.usedForPayload.contains kn then errs ++ [s!"data key m{kn} encrypts a second payload"] else errs
          let errs := match levelOf m kn with
            | some l => if l ≠ 0 then errs ++ [s!"payload encrypted under a level-{l} key m{kn}"] else errs
            | none => errs
          ({ m with usedForPayload := kn :: m.usedForPayload, level := (kn, 0) :: m.level }, errs)
        else
          match (cls.drop 1).toNat? with
          | none => (m, errs)
          | some pn =>
            -- key `pn` wrapped under key `kn`: level kn = level pn + 1
            let lp := (levelOf m pn)
            let lk := (levelOf m kn)
            match lp, lk with
            | some a, some b => (m, if b = a + 1 then errs else errs ++ [s!"key m{pn} (level {a}) wrapped under m{kn} (level {b})"])
            | some a, none => ({ m with level := (kn, a + 1) :: m.level }, if a + 1 > 2 then errs ++ [s!"key hierarchy deeper than three levels at m{kn}"] else errs)
            | none, some b => if b = 0 then (m, errs ++ [s!"key m{pn} wrapped under data key m{kn}"]) else ({ m with level := (pn, b - 1) :: m.level }, errs)
            | none, none => (m, errs)     -- decided when one of them gets a level
    | _ => (m, errs)) (m, [])

/-- C20: KMS unwraps per (factory, system key). The system key a `KD:ok` belongs to is the one
named by the closest preceding `L:sk@c:1` / `LL:sk:c` call of the operation. -/
def checkUnwraps (m : Mon) (f : Nat) (p : Policy) (cs : List String) (now : Int) : Mon × List String :=
  let (m, errs, _) := cs.foldl (fun (acc : Mon × List String × Option Int) c =>
    let (m, errs, cur) := acc
    match c.splitOn ":" with
    | ["L", k, "1"] => match k.splitOn "@" with
      | ["sk", cr] => (m, errs, cr.toInt?)
      | _ => (m, errs, cur)
    | ["LL", "sk", cr] => (m, errs, cr.toInt?)
    | ["KD", "ok"] =>
      match cur with
      | none => (m, errs, cur)
      | some cr =>
        let key := (f, cr)
        let errs := match m.unwraps.lookup key with
          | some t =>
            if now < t + p.revokeInterval && p.cacheSK && p.skKind.isNone then
              let stuck := keyTimestamp now p.precision ≤ cr + t0
              errs ++ [s!"system key SK@{cr} unwrapped by the KMS again after {now - t} ns (< revoke-check interval) by the same factory" ++
                (if stuck then " signature=latest-sk-invalid-within-its-stamp-window" else "")]
            else errs
          | none => errs
        ({ m with unwraps := (key, now) :: m.unwraps.filter (fun e => e.1 != key) }, errs, cur)
    | _ => (m, errs, cur)) (m, [], none)
  (m, errs)

def Mon.observe (m : Mon) (ws : List String) (fields : List (String × String)) (now : Int) :
    Mon × List (String × String) :=
  let rw := resWords fields
  let res := rw.headD ""
  let ok := res == "res=ok"
  let cs := calls fields
  let flt := kvOf ws "flt"
  let noFault := flt == "-" || flt == ""
  let sec := secOf fields
  let argN (i : Nat) : Nat := ((ws.getD i "").toNat?).getD 0
  let fails0 : List (String × String) := []
  -- generic: panic, input modification, secret discipline, dirty buffers
  let fails0 := if res == "res=panic" then fails0 ++ [("C07", "the operation panicked"), ("C01", "the operation panicked")] else fails0
  let fails0 := if res == "res=modified-input" then fails0 ++ [("C01", "the caller's payload / record was modified")] else fails0
  let fails0 := match fields.lookup "dirty" with
    | some d => if d != "0" then fails0 ++ [("C10", s!"{d} heap slice(s) still hold plaintext key material after the call")] else fails0
    | none => fails0
  let fails0 := match fields.lookup "log" with
    | some "leak" => fails0 ++ [("C03", "a debug log line written during the operation contains plaintext key material or the payload")]
    | some "nonce-reuse" => fails0 ++ [("C03", "an AEAD (key, nonce) pair was used for two encryptions (the nonce source repeats)")]
    | _ => fails0
  let fails0 := match sec, m.liveBound with
    | [_, _, live, _, _], some b =>
      if live > b && !m.faulted && !m.corrupted then
        fails0 ++ [("C09", s!"{live} secrets are live between operations although the open bounded caches can hold at most {b} keys")]
      else fails0
    | _, _ => fails0
  let (m, fails0) := match sec with
    | [_, _, _, multi, aac] =>
      let f := if multi > m.multi then fails0 ++ [("C09", "a secret was closed more than once")] else fails0
      let f := if aac > m.aac then f ++ [("C09", "a secret was accessed after it had been closed")] else f
      ({ m with multi := multi, aac := aac }, f)
    | _ => (m, fails0)
  let m := if noFault then m else { m with faulted := true }
  -- "the metastore accepts writes" (C04/C05) fails only when a Store of a faulted operation did not go
  -- through cleanly; faults on reads, the KMS, the AEAD or the allocator are no excuse for using an
  -- expired key
  let m := if !noFault && cs.any (fun c => c.startsWith "S:" && !c.endsWith ":1") then { m with storeFaulted := true } else m
  -- IK keys entering the IK cache of the operation's owner (loads, stores); the clock, a revocation, a
  -- row mutation or a fault end the "quiet" period
  let m := match ws.head? with
    | some "enc" | some "dec" =>
      let sN := ((ws.getD 1 "").toNat?).getD 0
      let (f, _) := m.sess.getD sN (0, 0)
      let pol := m.facs.getD f default
      let owner : Nat := if pol.sharedIK then 1000000 + f else sN
      let keys := cs.filterMap fun c =>
        if c.startsWith "L:ik" || c.startsWith "S:ik" then ((c.splitOn ":").getD 1 "") |> some
        else if c.startsWith "LL:ik" then (match c.splitOn ":" with | [_, id, st] => if st == "-" then none else some s!"{id}@{st}" | _ => none)
        else none
      let seen := keys.foldl (fun acc k => if acc.contains (owner, k) then acc else (owner, k) :: acc) m.ikSeen
      { m with ikSeen := seen, quiet := if noFault then m.quiet else [] }
    | some "adv" | some "rev" | some "rowmut" => { m with quiet := [] }
    | _ => m
  let (m, c03) := checkCalls m cs
  let fails0 := fails0 ++ c03.map fun e => ("C03", e)
  let (m, c20) :=
    if ws.head? == some "enc" || ws.head? == some "dec" then
      let f := (m.sess.getD (((ws.getD 1 "").toNat?).getD 0) (0, 0)).1
      if m.corrupted || m.faulted then (m, []) else checkUnwraps m f (m.facs.getD f default) cs now
    else (m, [])
  let fails0 := fails0 ++ c20.map fun e => ("C20", e)
  match ws.head? with
  | some "enc" =>
    let s := argN 1
    let (f, part) := m.sess.getD s (0, 0)
    let p := m.facs.getD f default
    let kvr (k : String) : Option Int := rw.findSome? fun x => match x.splitOn "=" with
      | [a, b] => if a == k then b.toInt? else none
      | _ => none
    let fails := fails0
    -- C02: no fault ⇒ success
    let fails := if noFault && !ok && !m.corrupted && res == "res=err" then fails ++ [("C02", "an operation without injected faults failed")] else fails
    let m' := { m with lastOp := some (ws, ok && noFault) }
    if !ok then (m', fails) else
    let ik := (kvr "ik").getD 0
    let fails := if (kvr "chain") == some 0 && !m.corrupted then fails ++ [("C02", "record returned although its key chain is not in the metastore")] else fails
    -- C04: IK not expired
    let timed := !m.storeFaulted && !m.corrupted     -- C04/C05 speak about a metastore that accepts writes
    let fails := if timed && isExpired now (ik + t0) p.expireAfter && p.precision ≤ p.expireAfter then
        fails ++ [("C04", s!"record names IK created {ik} which is expired at this time")] else fails
    let ikId := s!"ik{part}"
    let canStamp (c : Int) : Bool := keyTimestamp now p.precision > c + t0
    let owner : Nat := if p.sharedIK then 1000000 + f else s
    -- how did this owner's cache (last) obtain the IK it is using? (F-11 / F-12 signatures)
    let adoptedNow : Bool := cs.any (fun c => c.startsWith s!"S:{ikId}@" && c.endsWith ":0") && cs.contains s!"LL:{ikId}:{ik}"
    let loadedNow : Bool := cs.any fun c => c.startsWith s!"LL:{ikId}:"
    let fillKind : String :=
      if adoptedNow then "adopted-after-duplicate-insert"
      else if loadedNow then "normal"
      else ((m.fills.lookup (owner, ikId, ik)).getD "normal")
    let sig := if fillKind == "normal" then "" else s!" signature={fillKind}"
    -- C05: revoked IK
    let fails := match m.revoked.find? (fun (id, c, _) => id == ikId && c == ik) with
      | some (_, _, τ) => if timed && now > τ + p.revokeInterval && canStamp ik then
          fails ++ [("C05", s!"record names IK {ikId}@{ik} revoked more than one interval ago")] else fails
      | none => fails
    -- C05 / C04: parent SK revoked / expired
    let fails := match kvr "skc" with
      | some skc =>
        let f1 := match m.revoked.find? (fun (id, c, _) => id == "sk" && c == skc) with
          | some (_, _, τ) => if timed && now > τ + 2 * p.revokeInterval && canStamp ik && canStamp skc then
              fails ++ [("C05", s!"record names IK {ikId}@{ik} whose parent SK@{skc} was revoked more than two intervals ago{sig}")] else fails
          | none => fails
        let tE := (skc + t0) * nsPerSec + p.expireAfter
        if timed && now > tE + p.revokeInterval && canStamp ik && p.precision ≤ p.expireAfter then
          f1 ++ [("C04", s!"record names IK {ikId}@{ik} whose parent SK@{skc} expired more than one interval ago{sig}")] else f1
      | none => fails
    -- C09: the DRK secret is released before the call returns
    let fails := if cs.contains "RS:ok" then fails else fails
    -- C20: immediate repetition is silent
    let fails := match m.lastOp with
      | some (pw, true) =>
        if pw.take 2 == ws.take 2 && noFault && p.cacheIK && !m.anyRevoke && !m.corrupted && cs.any isExternal then
          fails ++ [("C20", "repeating a successful encrypt immediately still called the metastore / KMS")] else fails
      | _ => fails
    -- C20, working set fits: an owner's IK cache that never had to hold more distinct keys than its capacity
    -- has never evicted, so a partition it already served since the clock last moved is served silently
    let fits : Bool := match p.ikKind with
      | none => true
      | some (_, cap) => ((m.ikSeen.filter (·.1 == owner)).length ≤ cap)
    let fails := if noFault && p.cacheIK && fits && m.quiet.contains (owner, part) && !m.corrupted && !m.faulted && !m.anyRevoke &&
                    cs.any (fun c => c.startsWith s!"LL:{ikId}:" || c.startsWith s!"L:{ikId}@") then
        fails ++ [("C20", s!"the intermediate key of partition {part} was read from the metastore again although this cache served it since the clock last moved and its working set fits")]
      else fails
    ({ m' with recs := m.recs.push { pay := argN 2, part := part, ik := ik },
               quiet := if noFault && !m.quiet.contains (owner, part) then (owner, part) :: m.quiet else m.quiet,
               newest := ((owner, ikId), ik) :: m.newest.filter (fun (k, _) => k != (owner, ikId)),
               fills := ((owner, ikId, ik), fillKind) :: m.fills.filter (fun (k, _) => k != (owner, ikId, ik)) }, fails)
  | some "dec" =>
    let s := argN 1
    let n := argN 2
    let (f, part) := m.sess.getD s (0, 0)
    let p := m.facs.getD f default
    let mut_ := kvOf ws "mut"
    let genuine := mut_ == "-" || mut_ == ""
    let fails := fails0
    let m' := { m with lastOp := some (ws, ok && noFault) }
    match m.recs[n]? with
    | none => (m', fails)
    | some r =>
      let payOk := rw.contains s!"pay={r.pay}"
      let fails :=
        if genuine && noFault && r.part == part && !m.corrupted then
          if ok && payOk then fails else fails ++ [("C01", s!"genuine record #{n} of this partition did not decrypt to its payload")]
        else fails
      -- C05: records written under a revoked key (or under a key whose system key was revoked) stay decryptable
      let fails :=
        if genuine && noFault && r.part == part && !m.corrupted && !(ok && payOk) &&
           (m.revoked.any fun (id, c, _) => (id == s!"ik{part}" && c == r.ik) || id == "sk") then
          fails ++ [("C05", s!"record #{n}, written under a key that was revoked later, no longer decrypts")]
        else fails
      let fails := if ok && !payOk then fails ++ [("C07", "decrypt returned bytes other than the original payload")] else fails
      let fails := if !genuine && ok && !payOk then fails ++ [("C07", "modified record decrypted to other bytes")] else fails
      let fails := if r.part != part && ok then fails ++ [("C06", "record of another partition decrypted")] else fails
      -- remember that this session's cache may now alias this IK as "latest" (F-11)
      -- every IK of this partition the operation loaded by its exact stamp (a tampered record may name
      -- another stamp than the genuine one)
      let loadedStamps : List Int := cs.filterMap fun c =>
        if c.startsWith s!"L:ik{part}@" && c.endsWith ":1" then
          ((((c.splitOn "@").getD 1 "").splitOn ":").headD "").toInt?
        else none
      let owner : Nat := if p.sharedIK then 1000000 + f else s
      -- F-11 is: a key loaded by its exact stamp becomes the alias when the cache has NO alias for the id
      -- yet, or an OLDER one.  On an unbounded cache whose alias already points to a newer key nothing of
      -- the sort may happen: an encrypt under the old key afterwards is not that finding.
      -- (alias already AT this key: the decrypt's reload refreshes the very entry the encrypt path treats as
      -- latest - the same finding seen from the other side)
      let m' := loadedStamps.foldl (fun (m' : Mon) (ikc : Int) =>
        let key := (owner, s!"ik{part}", ikc)
        let cur := m'.newest.lookup (owner, s!"ik{part}")
        let aliasMoves : Bool := match cur with
          | none => true
          | some c => c < ikc
        let aliasHere : Bool := cur == some ikc
        if aliasMoves || aliasHere || p.ikKind.isSome then
          { m' with fills := (key, "latest-alias-installed-by-decrypt") :: m'.fills.filter (fun (k, _) => k != key),
                    newest := if aliasMoves then ((owner, s!"ik{part}"), ikc) :: m'.newest.filter (fun (k, _) => k != (owner, s!"ik{part}"))
                              else m'.newest }
        else
          { m' with fills := m'.fills.filter (fun (k, _) => k != key) }) m'
      let fails := match m.lastOp with
        | some (pw, true) =>
          if pw.take 3 == ws.take 3 && genuine && kvOf pw "mut" == mut_ && noFault && ok && p.cacheIK && !m.corrupted && cs.any isExternal then
            fails ++ [("C20", "repeating a successful decrypt immediately still called the metastore / KMS")] else fails
        | _ => fails
      (m', fails)
  | some "rev" =>
    let id := ws.getD 1 ""
    let c : Int := ((ws.getD 2 "").toInt?).getD 0
    if ok then
      let already := m.revoked.any fun (i, c', _) => i == id && c' == c
      ({ m with revoked := if already then m.revoked else (id, c, now) :: m.revoked,
                anyRevoke := true, lastOp := none }, fails0)
    else ({ m with lastOp := none }, fails0)
  | some "rowmut" => ({ m with corrupted := true, lastOp := none }, fails0)
  | some "adv" => ({ m with lastOp := none }, fails0)
  | some "cls" =>
    ({ m with lastOp := none, closedS := if ok then argN 1 :: m.closedS else m.closedS }, fails0)
  | some "fcls" =>
    ({ m with lastOp := none, closedF := if ok then argN 1 :: m.closedF else m.closedF }, fails0)
  | some "end" =>
    let fails := match sec with
      | [_, _, live, _, _] => if live > 0 then fails0 ++ [("C09", s!"{live} secret(s) still live after every session and factory was closed")] else fails0
      | _ => fails0
    (m, fails)
  | _ => ({ m with lastOp := none }, fails0)

end AsherahVerif.EnvMon
