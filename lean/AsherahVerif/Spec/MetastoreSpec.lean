import AsherahVerif.Model.Metastore
/-
C13 monitor: the specification table run on the IMPLEMENTATION's own observations (no backend
model involved).  Given the operation, whether the harness made the backend request fail, and what
the real metastore answered, `Mon.step` either advances or reports a violation:

* a Store answers `true` iff no record was stored under (id, created) before (and then the table
  gains exactly that record); a duplicate answers `false` (with or without an error) and changes nothing;
* a Load answers exactly the record stored under (id, created) — all persisted fields; the transient
  `ID` field too for the in-memory metastore — or nothing if there is none;
* a LoadLatest answers the stored record with the greatest `created` for the id;
* hence every completed Store is visible to every later read (the table contains all of them);
* an operation whose backend request failed answers an error and changes nothing; no operation panics.
-/
namespace AsherahVerif.Metastore

/-- what the real metastore answered -/
inductive GoObs
  | stored (ok : Bool) (err : Bool)
  | absent
  | record (r : Rec)
  | err
  | panic
deriving DecidableEq, Repr, Inhabited

structure Mon where
  table : Table := []
  persistent : Bool := true      -- SQL/DynamoDB: `ID` is not stored
deriving Repr, Inhabited

def Mon.norm (m : Mon) (r : Rec) : Rec := if m.persistent then r.eraseId else r

def Mon.expectRead (m : Mon) (want : Option Rec) (o : GoObs) : Bool :=
  match want, o with
  | Option.none, .absent => true
  | some r, .record g => m.norm g == m.norm r
  | _, _ => false

def Mon.step (m : Mon) (op : Op) (fault : Bool) (o : GoObs) : Option Mon :=
  if fault then
    match op, o with
    | .store .., .stored false true => some m
    | .load .., .err => some m
    | .latest .., .err => some m
    | _, _ => Option.none
  else
    match op, o with
    | .store id c r, .stored ok err =>
      let (t', fresh) := m.table.store id c r
      if fresh then (if ok ∧ !err then some { m with table := t' } else Option.none)
      else (if !ok then some m else Option.none)
    | .load id c, o => if m.expectRead (m.table.load id c) o then some m else Option.none
    | .latest id, o => if m.expectRead (m.table.loadLatest id) o then some m else Option.none
    | _, _ => Option.none

end AsherahVerif.Metastore
