import AsherahVerif.Model.SecMem
/-
C11 / C12 monitor: what an observer of ONE operation of the secure-memory API can check without
knowing the implementation — only the operation, its result, the memory primitives it issued (with
the page content each was issued on), the page state afterwards, the page state inside the reader
callback, and the in-use counter.  `Mon.step` returns the violated clauses (empty = fine).

It is executed by the driver on the IMPLEMENTATION's observations (a violated clause is a concrete
failing input: `MONITOR-FAIL`), and the theorems of Props/C12 and Props/C11 state the same clauses
about the model for all fault lists (`releasesClean`, `anyFailed`, `cleanupFailed` are the very
functions of Model/SecMem.lean).

Clauses (C12): create_fail_is_error, create_ok_is_protected, create_fail_leaves_no_secret,
access_fail_neutral, error_without_fault (later reads and Close work; Close can be retried),
wipe_before_release, inuse_balanced, use_after_free, no_crash.
Clauses (C11): inside_readonly, reader_sees_original, idle_noaccess, closed_unmapped,
access_after_close_is_error, close_idempotent (via error_without_fault), isclosed_flag.
-/
namespace AsherahVerif.SecMemSpec
open AsherahVerif.SecMem

/-- an operation's observation, in terms both the harness and the model can produce. -/
structure View where
  res : Res
  evs : List Ev := []            -- primitives seen (harness: the interface calls; model: all)
  page : Option Page := none     -- page of the secret concerned after the operation
  inside : Option Page := none   -- page inside the innermost reader callback
  seen : Option Seen := none     -- what that callback read
  inuse : Int := 0
  counter : Nat := 0
  flag : Bool := false
  called : Bool := false         -- the reader callback ran
  stray : Bool := false          -- a primitive was issued on memory that was already released
  pageKnown : Bool := true       -- false: page content not observable (real memory, PROT_NONE)
deriving Repr, Inhabited

structure MonSec where
  born : Content
  closing : Bool := false        -- a Close has been attempted
  closed : Bool := false         -- a Close has returned nil
  prot : Option Prot := none     -- protection last observed
deriving Repr, Inhabited

structure Mon where
  secs : List MonSec := []
  readers : List Nat := []
  live : Int := 0
  nextId : Nat := 0
deriving Repr, Inhabited

def Page.protected (pg : Page) (born : Content) (known : Bool) : Bool :=
  pg.mapped && pg.locked && pg.prot == .none && (!known || pg.content == born)

def MonSec.see (ms : MonSec) (v : View) : MonSec :=
  match v.page with
  | some pg => { ms with prot := some pg.prot }
  | none => ms

/-- clauses about a creation. -/
def createClauses (v : View) (born : Content) (shadow : Bool) : List String :=
  (if anyFailed v.evs && v.res == .ok then ["create_fail_is_error"] else []) ++
  (if v.res == .ok then
     match v.page with
     | some pg => if Page.protected pg born v.pageKnown then [] else ["create_ok_is_protected"]
     | none => if shadow then ["create_ok_is_protected"] else []
   else
     match v.page with
     | some pg =>
       (if pg.mapped && pg.content.isSecret then ["create_fail_leaves_no_secret:secret-left-mapped"] else []) ++
       (if !cleanupFailed v.evs && (pg.mapped || pg.locked) then ["create_fail_leaves_no_secret:left-mapped-or-locked"] else [])
     | none => []) ++
  (if v.res != .ok && !anyFailed v.evs && shadow then ["error_without_fault"] else [])

/-- the operation contains a failed attempt to open the secret (`Protect(ReadOnly)` failed). -/
def failedOpen : List Ev → Bool
  | [] => false
  | .call c :: t => (c.prim == .protect .ro && !c.ok) || failedOpen t
  | _ :: t => failedOpen t

/-- clauses about a reader operation (WithBytes / WithBytesFunc / Reader.Read) on secret `ms`. -/
def readClauses (v : View) (ms : MonSec) : List String :=
  (if ms.closing then
     (if v.res != .closedErr then ["access_after_close_is_error"] else [])
   else
     (if v.res != .ok && !anyFailed v.evs then ["error_without_fault"] else []) ++
     (if v.res == .ok then
        (match v.inside with
         | some pg => if pg.mapped && pg.locked && pg.prot == .ro then [] else ["inside_readonly"]
         | none => ["inside_readonly"]) ++
        (if v.seen == some (.bytes ms.born) then [] else ["reader_sees_original"])
      else []) ++
     -- a failed attempt to open the secret leaves it inaccessible with the reader count unchanged
     -- (inaccessible = as it was before the attempt; a page left readable by an earlier failed
     --  release stays as that release left it)
     (if failedOpen v.evs then
        (if v.called then ["access_fail_neutral:callback-ran"] else []) ++
        (if v.counter != 0 then ["access_fail_neutral:counter"] else []) ++
        (match v.page with
         | some pg => if pg.prot == .none || some pg.prot == ms.prot then [] else ["access_fail_neutral:prot"]
         | none => [])
      else [])) ++
  (if v.res == .ok && !ms.closed then
     match v.page with
     | some pg => if Page.protected pg ms.born v.pageKnown then [] else ["idle_noaccess"]
     | none => []
   else [])

def closeClauses (v : View) (ms : MonSec) : List String :=
  (if v.res != .ok && !anyFailed v.evs then ["error_without_fault"] else []) ++
  (if v.res == .ok then
     match v.page with
     | some pg => if pg.mapped then ["closed_unmapped"] else []
     | none => []
   else []) ++
  (if ms.closed && !v.evs.isEmpty then ["close_idempotent"] else [])

/-- common clauses. -/
def commonClauses (v : View) (live : Int) : List String :=
  (if releasesClean v.evs then [] else ["wipe_before_release"]) ++
  (if v.inuse == live then [] else ["inuse_balanced"]) ++
  (if v.stray then ["use_after_free"] else []) ++
  (if v.res == .crash then ["no_crash:SIGSEGV"] else []) ++
  (if v.res == .deadlock then ["no_crash:deadlock"] else [])

def Mon.step (m : Mon) (shadow : Bool) (op : Op) (v : View) : Mon × List String :=
  match op with
  | .new _ _ | .rand _ _ =>
    let born := match op with | .rand _ _ => Content.rand m.nextId | _ => Content.orig m.nextId
    let m1 := { m with nextId := m.nextId + 1 }
    let m2 := if v.res == .ok then { m1 with secs := m1.secs ++ [MonSec.see { born := born } v], live := m1.live + 1 } else m1
    (m2, createClauses v born shadow ++ commonClauses v m2.live)
  | .withB sid _ | .withF sid _ =>
    match m.secs[sid]? with
    | none => (m, ["bad-op"])
    | some ms => ({ m with secs := m.secs.set sid (ms.see v) }, readClauses v ms ++ commonClauses v m.live)
  | .newReader sid => ({ m with readers := m.readers ++ [sid] }, [])
  | .read rid _ =>
    match m.readers[rid]? with
    | none => (m, ["bad-op"])
    | some sid =>
      match m.secs[sid]? with
      | none => (m, ["bad-op"])
      | some ms =>
        -- a Read at EOF still opens the secret; what it copies is compared by the driver
        ({ m with secs := m.secs.set sid (ms.see v) }, (readClauses { v with seen := if v.res == .ok && v.seen == none then some (.bytes ms.born) else v.seen } ms).filter (· != "inside_readonly")
            ++ commonClauses v m.live)
  | .close sid =>
    match m.secs[sid]? with
    | none => (m, ["bad-op"])
    | some ms =>
      let nowClosed := v.res == .ok
      let ms' := { ms with closing := true, closed := ms.closed || nowClosed }
      let live' := if nowClosed && !ms.closed then m.live - 1 else m.live
      ({ m with secs := m.secs.set sid ms', live := live' }, closeClauses v ms ++ commonClauses v live')
  | .isClosed sid =>
    match m.secs[sid]? with
    | none => (m, ["bad-op"])
    | some ms =>
      (m, (if v.flag == ms.closed then [] else ["isclosed_flag"]) ++
          (if ms.closed then
             match v.page with
             | some pg => if pg.mapped then ["closed_unmapped"] else []
             | none => []
           else []) ++ commonClauses v m.live)

end AsherahVerif.SecMemSpec
