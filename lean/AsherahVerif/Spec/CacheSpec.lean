import AsherahVerif.Model.Cache
/-
C15 monitor: the bounded-map specification seen by an observer who only sees operations, results
and eviction callbacks (no policy state).  `Obs.step` returns `none` when an observation
contradicts the property:
  * a callback for an entry that is not cached, or with a value other than the one it held;
  * an entry still retrievable after its callback, or gone without one;
  * a `Get` that returns anything but the most recently set value of a cached key;
  * more entries than the capacity; a wrong `Len`; a `Delete` result that does not say whether
    the key was there; a `Close` that does not report every entry exactly once; a panic.
It is executed on the implementation's traces by the driver and (Props/C15) proved to accept every
trace of the model.
-/
namespace AsherahVerif.CacheSpec
open AsherahVerif.Cache

structure Obs where
  m : List (Nat × Nat) := []
  closed : Bool := false
  cap : Nat
deriving Repr

def find (m : List (Nat × Nat)) (k : Nat) : Option Nat := (m.find? (·.1 == k)).map (·.2)
def drop (m : List (Nat × Nat)) (k : Nat) : List (Nat × Nat) := m.filter (·.1 != k)

/-- remove the entries the callbacks report; `none` if a callback does not match a cached entry. -/
def leave : List (Nat × Nat) → List (Nat × Nat) → Option (List (Nat × Nat))
  | m, [] => some m
  | m, (k, v) :: cbs => if find m k = some v then leave (drop m k) cbs else none

def Obs.step (o : Obs) (op : Op) (res : Res) (cbs : List (Nat × Nat)) : Option Obs :=
  if res = Res.panic then none else
  match leave o.m cbs with
  | none => none
  | some m1 =>
    match op with
    | .tick _ => if cbs = [] ∧ res = .unit then some o else none
    | .len => if cbs = [] ∧ res = .num o.m.length then some o else none
    | .capacity => if cbs = [] then some o else none
    | .set k v =>
      if res ≠ .unit then none
      else if o.closed then (if cbs = [] then some o else none)
      else if (find o.m k).isSome ∧ cbs ≠ [] then none     -- overwriting needs no eviction
      else
        let m' := drop m1 k ++ [(k, v)]
        if m'.length ≤ o.cap then some { o with m := m' } else none
    | .get k =>
      match res with
      | .val v => if cbs = [] ∧ find o.m k = some v ∧ !o.closed then some o else none
      | .miss =>
        -- a miss is legitimate for an absent key, for a key that just left (expiry, reported),
        -- or on a closed cache
        if (find m1 k).isNone ∨ o.closed then some { o with m := m1 } else none
      | _ => none
    | .del k =>
      if cbs ≠ [] then none
      else if o.closed then (if res = .bool false then some o else none)
      else if res = .bool (find o.m k).isSome then some { o with m := drop o.m k } else none
    | .close =>
      if res ≠ .unit then none
      else if o.closed then (if cbs = [] then some o else none)
      else if m1 = [] then some { o with m := [], closed := true } else none

end AsherahVerif.CacheSpec
