import AsherahVerif.Model.Cache
