"""Shared by verifpy/props/C11.py and C12.py (engine E5 `secmem`): overlay generation, harness build,
running a list of harness invocations through the model driver md_secmem and classifying the output."""
import json, os
from verifpy.common import ROOT, REPO, GO, case_of

OVERLAY_SRC = os.path.join(GO, "cmd", "hxsecmem", "_overlay")
# test-only exports ADDED (never replacing anything) to three packages of go/securememory at build time
OVERLAY_FILES = {
    "go/securememory/internal/memcall/verif_export.go": "memcall_verif_export.go",
    "go/securememory/protectedmemory/verif_export.go": "protectedmemory_verif_export.go",
    "go/securememory/memguard/verif_export.go": "memguard_verif_export.go",
}


def build_harness(ctx):
    """generate the -overlay file into ctx.work (paths depend on VERIF_REPO) and build hxsecmem"""
    ov = {"Replace": {os.path.join(REPO, dst): os.path.join(OVERLAY_SRC, src) for dst, src in OVERLAY_FILES.items()}}
    for dst in ov["Replace"]:
        if os.path.exists(dst):
            ctx.corr_broken.append("overlay target %s already exists in the repository" % dst)
            return None
    path = os.path.join(ctx.work, "secmem-overlay.json")
    with open(path, "w") as f:
        json.dump(ov, f)
    return ctx.build_go("hxsecmem", overlay=path)


def run_traces(ctx, hx, runs, prop):
    """runs = [(name, harness args)]; returns [(name, summary)]"""
    traces = []
    for name, args in runs:
        tr = os.path.join(ctx.work, name + ".trace")
        if not ctx.run_harness(hx, args, tr, timeout=900):
            continue
        summ, mism, mon = ctx.run_driver("secmem", tr)
        traces.append((name, summ))
        ctx.cov["evaluations"] += summ.get("ops", 0) + summ.get("conc_ops", 0)
        ctx.cov["traces_validated_against_impl"] += summ.get("cases", 0) + summ.get("conc_runs", 0)
        ctx.cov["distinct_nontrivial"] += (summ.get("faults_fired", 0) + summ.get("failure_paths", 0) +
                                          summ.get("smaps_checks", 0) + summ.get("conc_runs", 0))
        for l in mon[:40]:
            ln = int(l.split()[2].rstrip(":"))
            ctx.monitor_fail.append({"what": l, "signature": "secmem " + l.split(": ", 1)[1],
                                     "case": case_of(tr, ln, start_re=r"^(world|conc|rlimit) ")})
        if mism and not mon:
            ln = int(mism[0].split()[2].rstrip(":"))
            ctx.corr_broken.append("model and go/securememory disagree (%d lines), first: %s\ncase:\n%s"
                                   % (len(mism), mism[0], case_of(tr, ln, start_re=r"^(world|conc|rlimit) ")))
        notes = [l for l in open(tr).read().splitlines()[:0]]
        if not ctx.cov["samples"]:
            ctx.cov["samples"] = [l[:300] for l in open(tr).read().splitlines()[:12]]
        if summ.get("c10_notes"):
            ctx.notes.setdefault("c10_source_not_wiped", 0)
            ctx.notes["c10_source_not_wiped"] += summ["c10_notes"]
        ctx.notes["cfg"] = summ.get("cfg", "?")
    return traces


TRUSTED = ["go/cmd/hxsecmem + Driver/SecMem.lean (differential correspondence; shadow memcall page table; /proc/self/smaps reader)",
           "go/cmd/extract secmem (go/ast skeletons of access/release/Close/close/New/createRandom/newSecret, memguard equivalents, memcall.Clean)",
           "build overlay adds three `//go:build verif` files (exports only) to go/securememory packages"]
ASSUMPTIONS = ["kernel page state (mlock, mprotect, MADV_DONTDUMP exclusion from core dumps) is observed through /proc/self/smaps, not proved",
               "system calls made inside github.com/awnumar/memguard and awnumar/memcall are modelled (library failure = core.Panic) but cannot be fault-injected through memcall.Interface; reached only via RLIMIT_MEMLOCK in a child process",
               "the Go scheduler is sampled (child-process runs with randomised yields); the interleaving theorems cover all schedules of the model whose atomic steps are the lock-delimited blocks of access/release/Close",
               "runtime finalizers (protectedmemory arms one per secret, also on objects orphaned by a failed creation) are not modelled",
               "sync.Mutex / sync.Cond semantics (mutual exclusion; Wait releases the lock and returns only after Broadcast) are trusted"]
