"""Shared body for the schedule-dependent properties decided by the interleaving models of
engine E4 (C08 key-reference protocol, C16 session cache): Lean theorems over a transition system
parameterised by protocol facts regenerated from the source, bounded exploration of that model
with the regenerated facts, and exploration of the REAL code under preemption-bounded and
randomised schedules through the sync points inserted by the build overlay (go/cmd/hxconc)."""
import os, re, subprocess
from verifpy.common import ROOT, BUILD, LEAN, sh, Lock
from verifpy.envelope import build_overlay

def preempt_part(ctx, prop, scenario_filter, accept=None):
    """run the preemption explorer on the scenarios matching the filter and collect this property's violations"""
    ov = build_overlay(ctx, sync=True)
    hx = ctx.build_go("hxconc", overlay=ov) if ov else None
    if not hx: return 0
    tr = os.path.join(ctx.work, "preempt-%s.out" % prop)
    if not ctx.run_harness(hx, ["-mode", "preempt", "-scenario", scenario_filter], tr, timeout=1500): return 0
    lines = open(tr).read().splitlines()
    n = 0
    for l in lines:
        if l.startswith("sched"): n += 1
        if l.endswith("VIOLATION") and (accept(l) if accept else ("prop=" + prop) in l):
            ctx.monitor_fail.append({"what": l[:400], "signature": "conc " + l[:200],
                                     "case": "# replay: build/hxconc -mode preempt -scenario %s (deterministic; the schedule is the line below)\n%s" % (scenario_filter, l)})
    ctx.cov["evaluations"] += n
    ctx.notes["preempt_schedules"] = n
    return n


def run(ctx, prop, modules, model, bfs_quick, bfs_thorough, scenario_filter, stress_quick, stress_thorough):
    ctx.extract()
    ctx.prove(modules)
    if ctx.tier == "thorough":
        ctx.leanchecker(modules)
    states = transitions = 0
    # bounded exploration of the model instantiated with the regenerated facts
    if ctx.build_driver("conc"):
        args = bfs_quick if ctx.tier == "quick" else bfs_thorough
        rc, out = sh([ctx.driver_path("conc")[1], model] + [str(a) for a in args], timeout=1500)
        m = re.search(r"BFS engine=\S+ facts=(\S+) states=(\d+) transitions=(\d+) violation=(.*)$", out.strip())
        if rc != 0 or not m:
            ctx.corr_broken.append("model exploration failed: " + out[-500:])
        else:
            states, transitions = int(m.group(2)), int(m.group(3))
            ctx.notes["model_facts"] = m.group(1)
            ctx.notes["model_bfs"] = {"args": args, "states": states, "transitions": transitions, "violation": m.group(4)}
            if m.group(4) != "none":
                # the model with the CURRENT facts has a violating schedule; the real-code exploration
                # below looks for it on the implementation
                ctx.proof_errors.append("the protocol model instantiated with the facts regenerated from the source reaches a "
                                        "violating state; schedule: " + m.group(4))
    ov = build_overlay(ctx, sync=True)
    hx = ctx.build_go("hxconc", overlay=ov) if ov else None
    sched = viol = 0
    samples = []
    if hx:
        runs = [("preempt", ["-mode", "preempt", "-scenario", scenario_filter])]
        r, g, o = stress_quick if ctx.tier == "quick" else stress_thorough
        runs.append(("stress", ["-mode", "stress", "-rounds", str(r), "-goroutines", str(g), "-ops", str(o)]))
        if (ctx.proof_errors or ctx.corr_broken) or ctx.tier == "thorough":
            for sd in (11, 12, 13):
                runs.append(("stress-seed%d" % sd, ["-mode", "stress", "-rounds", str(r * 2), "-goroutines", str(g), "-ops", str(o)]))
        for i, (name, args) in enumerate(runs):
            tr = os.path.join(ctx.work, name + ".out")
            old = dict(ctx.env)
            if name.startswith("stress-seed"): ctx.env["VERIF_SEED"] = str(ctx.seed * 100 + i)
            ok = ctx.run_harness(hx, args, tr, timeout=1500)
            ctx.env = old
            if not ok: continue
            lines = open(tr).read().splitlines()
            summ = [l for l in lines if l.startswith("SUMMARY")]
            if not summ:
                ctx.corr_broken.append("hxconc %s produced no summary" % name); continue
            kv = dict(x.split("=", 1) for x in summ[-1].split()[1:])
            sched += int(kv.get("schedules", 0)); viol += int(kv.get("violations", 0))
            for l in lines:
                if "prop=C20" in l and prop != "C20": continue        # call-count clause belongs to C20
                if prop == "C20" and "prop=C20" not in l and "SETUP-FAILED" not in l: continue
                if l.endswith("VIOLATION") or "SETUP-FAILED" in l:
                    ctx.monitor_fail.append({"what": l[:400], "signature": "conc " + l[:200],
                                             "case": "# replay: build/hxconc -mode %s (deterministic for preempt; the schedule is the line below)\n%s" % (name.split("-")[0], l)})
            if not samples: samples = [l for l in lines if l.startswith("sched")][:6]
    ctx.cov["states"] = max(states, 1); ctx.cov["transitions"] = max(transitions, 1)
    ctx.cov["evaluations"] = sched; ctx.cov["traces_validated_against_impl"] = sched
    ctx.cov["distinct_nontrivial"] = sched
    ctx.cov["samples"] = samples
    ctx.cov["rule"] = ("each evaluation is one explored schedule of the real code: (scenario, first operation, preemption point k, second operation) "
                       "for every sync point the first operation passes, or one randomised stress round; all are distinct by construction "
                       "and non-trivial (two operations racing on a shared bounded cache)")
    ctx.assumptions += ["lock-delimited blocks are atomic steps of the model (RLock blocks only read and atomically increment)",
                        "the Go scheduler and memory model are sampled (preemption bound 1 + random delays), not proved",
                        "operations racing with the close of their own session/factory are outside the property and are not generated"]
    ctx.trusted += ["go/cmd/hxconc + go/cmd/overlay -sync (sync points after Lock/Unlock/RLock/RUnlock/Wait/Broadcast)",
                    "go/cmd/extract keycache/session-cache protocol facts computed from normalised skeletons"]
    return ctx.finish(level="proof")
