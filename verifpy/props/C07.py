"""C07 — decided by engine E3 envelope (Model/Envelope.lean, Props/C07.lean, go/cmd/hxenv)."""
from verifpy import envelope

NONTRIVIAL = {"C01": ["dec_ok", "key_creations"], "C02": ["faulted_ops", "key_creations"], "C03": ["enc_ok", "key_creations"],
              "C04": ["key_creations", "metastore_reads"], "C05": ["revocations", "metastore_reads"], "C07": ["mutated_records"],
              "C09": ["key_creations", "faulted_ops", "metastore_reads"], "C10": ["metastore_reads", "dec_ok"], "C20": ["enc_ok", "dec_ok"]}

def guard_part(ctx):
    """the partition guard at the top of Decrypt under BOTH partition implementations (a metastore that
    reports a region suffix selects the suffixed one, which the envelope harness does not configure):
    foreign, crafted, empty, short and non-UTF-8 parent key ids must be errors - a panic is a C07 violation"""
    import json, os
    from verifpy.common import ROOT, REPO
    from verifpy.props import C06
    if not ctx.build_driver("partition"): return
    ov = os.path.join(ctx.work, "overlay-partition.json")
    with open(ov, "w") as f:
        json.dump({"Replace": {os.path.join(REPO, "go/appencryption/zz_verif_partition_export.go"):
                               os.path.join(ROOT, "go/overlay/partition/cachekey_export.go.src")}}, f)
    hx = ctx.build_go("hxpartition", overlay=ov)
    if not hx: return
    jobs = [("guard-random", ["-mode", "random", "-cases", "25" if ctx.tier == "quick" else "400", "-ids", "20"]),
            ("guard-exh-sfx", ["-mode", "exhaustive", "-maxlen", "3" if ctx.tier == "quick" else "4", "-names", "s,p,r", "-caches", "session", "-warm=false", "-sfx", "on"])]
    for name, args in jobs:
        tr = os.path.join(ctx.work, name + ".trace")
        if not C06.harness(ctx, hx, args, tr): continue
        lines = open(tr).read().splitlines()
        n = 0
        for i, l in enumerate(lines):
            if l.endswith("=> panic") or " => panic " in l or (l.startswith("decall") and ":panic" in l):
                n += 1
                if n <= 2:
                    ctx.monitor_fail.append({"what": "%s: %s: decrypting a record under a (suffixed) partition panicked" % (name, l[:200]),
                                             "signature": "partition-guard panic", "case": C06.long_case(tr, i + 1) or l})
        import re
        att = sum(1 for l in lines if l.startswith(("dec ", "decx ", "decnil "))) + sum(int(x) for l in lines if l.startswith("decall") for x in re.findall(r" n=(\d+)", l))
        ctx.cov["evaluations"] += att
        ctx.notes["partition_guard_" + name] = "%d decrypt attempts, %d panics" % (att, n)


def run(ctx):
    return envelope.run(ctx, "C07", ["AsherahVerif.Props.C07"], NONTRIVIAL["C07"], modes=(('mutations',), ('allmutations', 'faults')),
                        pre_finish=guard_part)
