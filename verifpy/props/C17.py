"""C17 — AWS KMS plugins: any surviving region can unwrap; preferred region first (+ KMS part of C10).
Engine E7 `kms`: Model/Kms.lean, Spec/KmsSpec.lean, Props/C17.lean, Driver/Kms.lean, go/cmd/hxkms,
go/cmd/extract/kms.go.

The driver tags monitor failures: `C17 …` (this property) and `C10 …` (a KMS plaintext handed out during
DecryptKey is still readable afterwards — decrypt-side wipe, defect F-7).  Only the C17 ones decide this
check; the C10 ones are counted (`c10_kms_*` in the evidence) and their first case is kept as
replays/C17-c10-kms-unwiped-plaintext.txt so that the C10 check (or the coordinator) can reuse the trace."""
import glob, os, re
from verifpy.common import ROOT

KEEP = re.compile(r"^(new|plug|wrap|craft) ")


def kms_case(trace_path, lineno):
    """shrunk case: the `new`, `plug`, `wrap`, `craft` lines of the case and the failing line itself
    (unwrap operations are independent of each other), observations stripped so that it can be replayed"""
    lines = open(trace_path).read().splitlines()
    i = min(lineno, len(lines)) - 1
    s = i
    while s > 0 and not lines[s].startswith("new "): s -= 1
    keep = [l for l in lines[s:i] if KEEP.match(l)] + [lines[i]]
    used = {l.split()[1] for l in keep if l.split()[0] in ("wrap", "unwrap")}
    keep = [l for l in keep if not l.startswith("plug ") or l.split()[1] in used]
    return "\n".join(keep)


def kms_runs(ctx):
    """build driver + harness, run the tier's traces; yields (name, trace path, summary, mismatch lines, monitor lines)"""
    ok = ctx.build_driver("kms")
    hx = ctx.build_go("hxkms")
    if not (ok and hx):
        return
    if ctx.replay:
        runs = [("replay", ["-mode", "replay", "-file", ctx.replay])]
    else:
        runs = [("corpus-" + os.path.basename(f), ["-mode", "replay", "-file", f])
                for f in sorted(glob.glob(os.path.join(ROOT, "corpus", "C17", "*.txt")))]
        if ctx.tier == "quick":
            runs += [("exhaustive", ["-mode", "exhaustive", "-regions", "3"]),
                     ("edge", ["-mode", "edge", "-cases", "1500"])]
        else:
            runs += [("exhaustive", ["-mode", "exhaustive", "-regions", "4"]),
                     ("edge", ["-mode", "edge", "-cases", "40000"])]
    for name, args in runs:
        tr = os.path.join(ctx.work, name + ".trace")
        if not ctx.run_harness(hx, args, tr): continue
        summ, mism, mon = ctx.run_driver("kms", tr)
        yield name, tr, summ, mism, mon


def run(ctx):
    ctx.extract()
    ctx.prove(["AsherahVerif.Props.C17"])
    if ctx.tier == "thorough":
        ctx.leanchecker(["AsherahVerif.Props.C17"])
    traces, c10 = [], {"fail_lines": 0, "dirty_plaintexts": 0, "first_case": None, "first": None}
    if True:
        for name, tr, summ, mism, mon in kms_runs(ctx):
            traces.append((name, summ))
            ctx.cov["evaluations"] += summ.get("ops", 0)
            ctx.cov["traces_validated_against_impl"] += summ.get("cases", 0)
            # non-trivial = wraps that lost a region, failed wraps, unwraps that had to fall back to a later
            # region or failed everywhere, cross-plugin and tampered-envelope unwraps (measured by the driver)
            ctx.cov["distinct_nontrivial"] += sum(summ.get(k, 0) for k in
                                                  ("wrap_partial", "wrap_fail", "fallbacks", "unwrap_fail", "interop", "tampered"))
            mon17 = [l for l in mon if ": C17 " in l]
            mon10 = [l for l in mon if ": C10 " in l]
            c10["fail_lines"] += summ.get("c10_fail", 0)
            c10["dirty_plaintexts"] += summ.get("dirty_plaintexts", 0)
            if mon10 and not c10["first_case"]:
                ln = int(mon10[0].split()[2].rstrip(":"))
                c10["first"], c10["first_case"] = mon10[0], kms_case(tr, ln)
            for l in mon17[:50]:
                ln = int(l.split()[2].rstrip(":"))
                ctx.monitor_fail.append({"what": l, "signature": "kms " + l.split(": ", 1)[1], "case": kms_case(tr, ln)})
            if mism and not mon17:
                ln = int(mism[0].split()[2].rstrip(":"))
                ctx.corr_broken.append("model and AWS KMS plugins disagree (%d lines), first: %s\ncase:\n%s" % (len(mism), mism[0], kms_case(tr, ln)))
            if not ctx.cov["samples"]:
                ctx.cov["samples"] = [l for l in open(tr).read().splitlines() if l.startswith(("wrap", "unwrap"))][:12]
            ctx.notes["wipe_flags_of_tree"] = {"v1": summ.get("wipe_v1"), "v2": summ.get("wipe_v2")}
    ctx.notes["c10_kms"] = {"monitor_fail_lines": c10["fail_lines"], "dirty_plaintexts": c10["dirty_plaintexts"], "first": c10["first"]}
    if c10["first_case"]:
        ctx.notes["c10_kms"]["replay"] = ctx.write_replay(
            "c10-kms-unwiped-plaintext",
            "# C10 (KMS part), defect F-7: DecryptKey leaves the KMS plaintext data key readable\n# %s\n%s\n" % (c10["first"], c10["first_case"]))
        print("NOTE property=C10 (reported by C17's trace, not a C17 verdict): %d DecryptKey calls left %d KMS plaintext buffers unwiped; replay=%s"
              % (c10["fail_lines"], c10["dirty_plaintexts"], ctx.notes["c10_kms"]["replay"]))
    ctx.cov["rule"] = ("exhaustive: for n = 1..3 (quick) / 1..4 (thorough) regions: wrapping plugin {v1,v2} x its preferred region x every subset "
                       "of regions failing GenerateDataKey x every subset failing Encrypt; every envelope unwrapped by {v1,v2} x every preferred "
                       "region x every subset failing Decrypt.  edge: fixed corner cases + seeded random cases (shared ARNs, KeyId != ARN, nil KeyId, "
                       "malformed data key, tampered/duplicated/foreign envelope entries, wrong-key and malformed-key KMS answers, unknown/empty "
                       "preferred region, empty ARN map).  An operation counts as non-trivial when a region was lost or everything failed, when unwrap "
                       "fell back to a later region, or when it crossed plugins / used a tampered envelope (counted by the model driver).")
    ctx.cov["runs"] = traces
    ctx.assumptions += [
        "symbolic crypto: a data key opens exactly what was sealed under it (AES-GCM integrity); KMS ciphertexts open only under the master key they were wrapped with",
        "order of Go map iteration and arrival order of concurrently produced regional KEKs are oracles (any permutation); theorems assume only List.Perm",
        "sort.SliceStable, encoding/json, the AWS SDK clients and the Go runtime are trusted; v1 sortClients is modelled as a stable partition, exact when at most one client has the preferred region (clients come from a map keyed by region)",
        "a successful KMS answer is non-nil; a nil KeyId is modelled (v1 panic, v2 process death) but the v2 case is not executed by the harness",
        "that MemClr's stores are not elided by the compiler is observed (retained slices re-read), not proved",
    ]
    ctx.trusted += ["go/cmd/hxkms + Driver/Kms.lean (differential correspondence through NewAWS / Builder.WithKMSFactory with fake regional KMS clients, real AES-256-GCM)",
                    "go/cmd/extract/kms.go (skeletons + statements of EncryptKey/DecryptKey/generateDataKey/encryptAllRegions/sortClients/Builder.Build, json tags)"]
    return ctx.finish(level="proof")
