"""C03 — decided by engine E3 envelope (Model/Envelope.lean, Props/C03.lean, go/cmd/hxenv)."""
from verifpy import envelope

NONTRIVIAL = {"C01": ["dec_ok", "key_creations"], "C02": ["faulted_ops", "key_creations"], "C03": ["enc_ok", "key_creations"],
              "C04": ["key_creations", "metastore_reads"], "C05": ["revocations", "metastore_reads"], "C07": ["mutated_records"],
              "C09": ["key_creations", "faulted_ops", "metastore_reads"], "C10": ["metastore_reads", "dec_ok"], "C20": ["enc_ok", "dec_ok"]}

def concurrent_nonces(ctx):
    """goroutines encrypting at once under one intermediate key: every wrap nonce / data nonce of every
    returned record must be distinct (a nonce source with shared unsynchronised state repeats values
    only under concurrency, which the sequential histories cannot show)"""
    import os
    ov = envelope.build_overlay(ctx, sync=True)
    hx = ctx.build_go("hxconc", overlay=ov) if ov else None
    if not hx: return
    tr = os.path.join(ctx.work, "nonces.out")
    args = ["-mode", "nonces", "-rounds", "4" if ctx.tier == "quick" else "40", "-goroutines", "8", "-ops", "3000"]
    if ctx.run_harness(hx, args, tr, timeout=900):
        lines = open(tr).read().splitlines()
        for l in lines:
            if l.endswith("VIOLATION"):
                ctx.monitor_fail.append({"what": l, "signature": "concurrent-nonces " + l,
                                         "case": "# replay: build/hxconc %s (racy: repeat if it does not show at once)\n%s" % (" ".join(args), l)})
        ctx.notes["concurrent_nonce_runs"] = [l for l in lines if l.startswith("nonces")][:4]
        ctx.cov["evaluations"] += sum(int(x) for l in lines for x in __import__("re").findall(r"encrypts=(\d+)", l))


def run(ctx):
    return envelope.run(ctx, "C03", ["AsherahVerif.Props.C03"], NONTRIVIAL["C03"], modes=(('faults',), ('faultpairs', 'allboundaries')),
                        pre_finish=concurrent_nonces)
