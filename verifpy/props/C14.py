"""C14 — racing key creators (Model/KeyRace.lean, Props/C14.lean, go/cmd/hxrace gate metastore, md_conc race)."""
import os, re
from verifpy.common import case_of
from verifpy.envelope import build_overlay

def run(ctx):
    ctx.extract()
    ctx.prove(["AsherahVerif.Props.C14"])
    if ctx.tier == "thorough":
        ctx.leanchecker(["AsherahVerif.Props.C14"])
    ok = ctx.build_driver("conc")
    ov = build_overlay(ctx)
    hx = ctx.build_go("hxrace", overlay=ov) if ov else None
    stats = []
    if ok and hx:
        runs = [("all2", ["-mode", "all2"])]
        if ctx.tier == "quick":
            runs += [("all3", ["-mode", "all3", "-limit", "300"]), ("sample", ["-mode", "sample", "-samples", "150"])]
        else:
            runs += [("all3", ["-mode", "all3", "-limit", "20000"]), ("sample", ["-mode", "sample", "-samples", "3000"])]
        ctx.driver_args = ["race"]
        for name, args in runs:
            tr = os.path.join(ctx.work, name + ".trace")
            if not ctx.run_harness(hx, args, tr, timeout=3000): continue
            summ, mism, mon = ctx.run_driver("conc", tr)
            stats.append((name, summ))
            ctx.cov["evaluations"] += summ.get("ops", 0)
            ctx.cov["traces_validated_against_impl"] += summ.get("cases", 0)
            ctx.cov["distinct_nontrivial"] += summ.get("cases", 0)
            for l in mon[:30]:
                ln = int(re.match(r"MONITOR-FAIL line (\d+)", l).group(1))
                ctx.monitor_fail.append({"what": l[:500], "signature": "race " + l[:200], "case": case_of(tr, ln, r"^race ")})
            if mism and not mon:
                ln = int(re.match(r"MISMATCH line (\d+)", mism[0]).group(1))
                ctx.corr_broken.append("%s: model and SDK disagree on %d released calls/results; first: %s\nschedule:\n%s"
                                       % (name, len(mism), mism[0][:500], case_of(tr, ln, r"^race ")))
            if not ctx.cov["samples"]:
                ctx.cov["samples"] = open(tr).read().splitlines()[:14]
    ctx.cov["states"] = max(ctx.cov["traces_validated_against_impl"], 1)
    ctx.cov["transitions"] = max(ctx.cov["evaluations"], 1)
    ctx.cov["rule"] = ("one case = one complete interleaving (at metastore-call granularity) of 2 processes (all of them, from 10 starting "
                       "states: cold, warm, same-second, expired, IK/SK/both revoked, revoked within the stamp second, rotated SK with old IK), "
                       "of 3 processes (all, up to a limit per state) or of 3-5 processes (sampled); every schedule is distinct by construction; "
                       "evaluations = released metastore calls compared with the model")
    ctx.cov["runs"] = stats
    ctx.assumptions += ["processes run without key caching so that every protocol step is a visible metastore call; with caches a process performs "
                        "a subset of these calls (sequential cache behaviour: engine E3)",
                        "the metastore is the in-memory one (insert-only semantics of every backend: C13); KMS/AEAD do not fail here (C02)"]
    ctx.trusted += ["go/cmd/hxrace gate metastore (each call blocks until released: exact interleaving control without source hooks) + Driver/Race.lean"]
    return ctx.finish(level="proof")
