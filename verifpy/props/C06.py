"""C06 — partition isolation. Engine `partition`: Model/Partition.lean, Props/C06.lean,
go/cmd/hxpartition (real SessionFactory/Session on adversarial id pairs), Driver/Partition.lean."""
import glob, json, os, re, subprocess
from concurrent.futures import ThreadPoolExecutor
from verifpy.common import ROOT, REPO

F4_SIG = "suffixed-partition foreign-id-has-session-unsuffixed-ik-id-as-prefix outcome=plain"
MON_RE = re.compile(r"^MONITOR-FAIL line (\d+): (.*?) signature: (.*?) replay: (.*)$")


def jobs_for(ctx):
    """(name, harness args, env overrides)"""
    ex = ["-mode", "exhaustive"]
    if ctx.tier == "quick":
        return [
            ("random", ["-mode", "random", "-cases", "25", "-ids", "20"], {}),
            ("exh3-spr", ex + ["-maxlen", "3", "-names", "s,p,r"], {}),
            ("exh3-long", ex + ["-maxlen", "3", "-names", "svc,prod,us-west-2", "-caches", "session"], {}),
            ("exh4-sfx", ex + ["-maxlen", "4", "-names", "s,p,r", "-caches", "session", "-warm=false", "-sfx", "on"], {}),
            ("exh5-sfx-0of64", ex + ["-maxlen", "5", "-names", "s,p,r", "-caches", "session", "-warm=false", "-sfx", "on",
                                     "-shard", "1", "-shards", "64"], {}),
        ]
    js = []
    for sfx in ("on", "off"):
        for k in range(16):
            js.append(("exh5-%s-%02d" % (sfx, k), ex + ["-maxlen", "5", "-names", "s,p,r", "-caches", "session", "-warm=false",
                                                         "-sfx", sfx, "-shard", str(k), "-shards", "16"], {}))
    for cache in ("session", "none", "shared"):
        js.append(("exh4-" + cache, ex + ["-maxlen", "4", "-names", "s,p,r", "-caches", cache], {}))
    js.append(("exh4-long", ex + ["-maxlen", "4", "-names", "svc,prod,us-west-2", "-caches", "session"], {}))
    for k in range(16):
        js.append(("exh5-long-%02d" % k, ex + ["-maxlen", "5", "-names", "svc,prod,us-west-2", "-caches", "session", "-warm=false",
                                               "-sfx", "on", "-shard", str(k), "-shards", "16"], {}))
    for k in range(8):
        js.append(("random-%d" % k, ["-mode", "random", "-cases", "600", "-ids", "26"], {"VERIF_SEED": str(ctx.seed * 1000 + k)}))
    return js


def harder_jobs(ctx):
    """extra search when something no longer checks but no failing input has shown up yet"""
    js = [("search-random-%d" % k, ["-mode", "random", "-cases", "300", "-ids", "24"], {"VERIF_SEED": str(ctx.seed * 7919 + 100 + k)})
          for k in range(6)]
    js.append(("search-exh4", ["-mode", "exhaustive", "-maxlen", "4", "-names", "s,p,r"], {}))
    js.append(("search-exh4-long", ["-mode", "exhaustive", "-maxlen", "4", "-names", "svc,prod,us-west-2", "-caches", "session"], {}))
    return js


def run(ctx):
    ctx.extract()
    ctx.prove(["AsherahVerif.Props.C06"])
    if ctx.tier == "thorough":
        ctx.leanchecker(["AsherahVerif.Props.C06"])
    ok = ctx.build_driver("partition")
    # cacheKey is unexported: an overlay ADDS an exported wrapper to the package at build time
    ov = os.path.join(ctx.work, "overlay.json")
    with open(ov, "w") as f:
        json.dump({"Replace": {os.path.join(REPO, "go/appencryption/zz_verif_partition_export.go"):
                               os.path.join(ROOT, "go/overlay/partition/cachekey_export.go.src")}}, f)
    hx = ctx.build_go("hxpartition", overlay=ov)

    totals = {}
    by_sig = {}          # signature -> list of (what, minimal case, trace, line)
    mismatches = []
    runs = []

    def one(job):
        name, args, envo = job
        tr = os.path.join(ctx.work, name + ".trace")
        okh = harness(ctx, hx, args, tr, envo)
        if not okh:
            return name, {}, [], [], tr
        summ, mism, mon = ctx.run_driver("partition", tr)
        return name, summ, mism, mon, tr

    def absorb(results):
        for name, summ, mism, mon, tr in results:
            runs.append((name, {k: summ.get(k) for k in ("cases", "pairs", "foreign", "related", "accepted_foreign", "f4", "mismatches", "monitor_fail")}))
            for k, v in summ.items():
                if isinstance(v, int): totals[k] = totals.get(k, 0) + v
            for l in mon:
                m = MON_RE.match(l)
                if not m:
                    by_sig.setdefault("unparsed monitor line", []).append((l, l, tr, 0)); continue
                ln, op, sig, rep = int(m.group(1)), m.group(2), m.group(3), m.group(4)
                lst = by_sig.setdefault(sig, [])
                if len(lst) < 3:
                    lst.append(("%s: %s [%s]" % (name, op, sig), "\n".join(rep.split(" ;; ")), tr, ln))
            for l in mism[:5]:
                mismatches.append("%s: %s" % (name, l))
            if not ctx.cov["samples"] and name.startswith(("random", "replay")):
                try:
                    with open(tr) as f: ctx.cov["samples"] = [next(f).rstrip("\n")[:200] for _ in range(12)]
                except (StopIteration, OSError):
                    pass
            if not mon and not mism:
                try: os.remove(tr)
                except OSError: pass

    def run_jobs(js, workers):
        with ThreadPoolExecutor(max_workers=workers) as ex:
            absorb(list(ex.map(one, js)))

    if ok and hx:
        workers = max(1, min(8, (os.cpu_count() or 2) // 2))
        if ctx.replay:
            run_jobs([("replay", ["-mode", "replay", "-file", ctx.replay], {})], 1)
        else:
            corpus = [("corpus-" + os.path.basename(f), ["-mode", "replay", "-file", f], {})
                      for f in sorted(glob.glob(os.path.join(ROOT, "corpus", "C06", "*.txt")))]
            run_jobs(corpus, 1)
            run_jobs(jobs_for(ctx), workers)
            unlisted_sigs = [s for s in by_sig if s not in (F4_SIG, "crafted-record " + F4_SIG)]
            if (ctx.proof_errors or mismatches or ctx.corr_broken) and not unlisted_sigs:
                # something no longer checks and no (new) failing input yet: search harder
                run_jobs(harder_jobs(ctx), workers)

        # shrink: the driver proposes a minimal replay (new; enc q; open p; [own;] dec q); keep it only
        # if the real code still fails the monitor on it with the same signature
        for sig, lst in by_sig.items():
            for i, (what, case, tr, ln) in enumerate(lst):
                if i == 0 and not confirm(ctx, hx, case, sig):
                    case = long_case(tr, ln) or case
                ctx.monitor_fail.append({"what": what, "signature": sig, "case": case})
        # (a known finding reproduced by the corpus must not hide a disagreement between model and SDK)
        if mismatches and not [s for s in by_sig if s not in (F4_SIG, "crafted-record " + F4_SIG)]:
            ctx.corr_broken.append("model and SDK disagree on ids / guard decisions (%d lines), first:\n%s" % (totals.get("mismatches", 0), "\n".join(mismatches[:5])))
        elif mismatches:
            ctx.notes["mismatches"] = mismatches[:10]

    ctx.cov["evaluations"] = totals.get("pairs", 0) + totals.get("crafted", 0) + totals.get("cachekeys", 0) + totals.get("refused", 0)
    ctx.cov["traces_validated_against_impl"] = totals.get("cases", 0)
    ctx.cov["distinct_nontrivial"] = totals.get("related", 0) + totals.get("crafted_pass_guard", 0)
    ctx.cov["rule"] = ("a pair = (session for p, record produced for q) run through the real SessionFactory/Session, cold and warm, "
                       "caches none/per-session/shared+session-cache, metastore with and without GetRegionSuffix; generators: all ordered pairs of "
                       "token strings over {a,_,service,product,suffix,0xff} up to a length, and seeded adversarial pools (ids extended by "
                       "_service, _service_product[_suffix], prefixes/suffixes of each other, empty, multi-byte, invalid UTF-8, NUL/newline) "
                       "plus crafted ParentKeyMeta (own ids, other-region ids, cacheKey collisions); a pair counts as non-trivial when the ids "
                       "are distinct and one is a prefix of the other, or a crafted id passes the guard (counted by the model driver)")
    ctx.cov["generator_distribution"] = totals
    ctx.cov["runs"] = runs[:80]
    ctx.cov["failing_families"] = {s: len(l) for s, l in by_sig.items()}
    ctx.assumptions += [
        "everything after the guard of DecryptDataRowRecord (key caches, metastore, KMS, AES-GCM) is an arbitrary continuation in the theorems; "
        "the driver's prediction 'guard accepts => plaintext' additionally uses: genuine record, IK row present, one system key per factory",
        "Go strings are byte strings; fmt.Sprintf(%s), ==, strings.Index and strconv.FormatInt are modelled (sprintf/index/decimal) and compared "
        "with the real functions only through the SDK's observable ids and the overlay-exported cacheKey",
        "model covers the two partition implementations of partition.go; Config.Service/Product and the metastore's suffix are arbitrary byte strings"]
    ctx.trusted += ["go/cmd/hxpartition + Driver/Partition.lean (differential correspondence over the public Session API; plain-heap SecretFactory, "
                    "in-memory metastore optionally reporting a region suffix, static KMS)",
                    "go/cmd/extract/partition.go (formats, return expressions and skeletons regenerated from partition.go, session.go, envelope.go, key_cache.go)",
                    "go build -overlay adds go/overlay/partition/cachekey_export.go.src (exported wrapper of cacheKey) to package appencryption"]
    return ctx.finish(level="proof")


def harness(ctx, binary, args, trace, envo=None, timeout=3000):
    """Ctx.run_harness with per-call environment overrides (several seeds run concurrently)"""
    env = dict(ctx.env, **(envo or {}))
    with open(trace, "w") as f:
        try:
            p = subprocess.run([binary] + args, stdout=f, stderr=subprocess.PIPE, env=env, timeout=timeout, text=True)
        except subprocess.TimeoutExpired:
            ctx.corr_broken.append("harness %s timed out" % os.path.basename(binary)); return False
    if p.returncode != 0:
        ctx.corr_broken.append("harness %s exited %d: %s" % (os.path.basename(binary), p.returncode, p.stderr[-2000:]))
        return False
    return True


def confirm(ctx, hx, case, sig):
    """replay the proposed minimal case on the real code; True if the same monitor failure shows again"""
    path = os.path.join(ctx.work, "shrink-%d.txt" % (abs(hash((case, sig))) % 10**9))
    with open(path, "w") as f: f.write(case + "\n")
    tr = path + ".trace"
    if not ctx.run_harness(hx, ["-mode", "replay", "-file", path], tr):
        return False
    _, _, mon = ctx.run_driver("partition", tr)
    return any((MON_RE.match(l) or [None] * 4)[3] == sig for l in mon if MON_RE.match(l))


def long_case(trace, lineno, limit=4000):
    """fallback when the minimal case does not reproduce: the whole case up to the failing line, if small"""
    try:
        lines = open(trace).read().splitlines()
    except OSError:
        return None
    i = min(lineno, len(lines)) - 1
    s = i
    while s > 0 and not lines[s].startswith("new "): s -= 1
    return "\n".join(lines[s:i + 1]) if i - s < limit else None
