"""C11 — secure memory: locked, no-access when idle, readable only in use, gone on Close; Close waits for
readers; no interleaving crashes. Engine E5 `secmem`: Model/SecMem.lean (sequential + interleaving system),
Props/C11.lean, go/cmd/hxsecmem (real memcall + /proc/self/smaps; child-process concurrency), driver md_secmem."""
import glob, os
from verifpy.common import ROOT
from verifpy import secmem_common as sm

def run(ctx):
    ctx.extract()
    ctx.prove(["AsherahVerif.Props.C11"])
    if ctx.tier == "thorough":
        ctx.leanchecker(["AsherahVerif.Props.C11"])
    ok = ctx.build_driver("secmem")
    hx = sm.build_harness(ctx)
    traces = []
    if ok and hx:
        gc_replay = bool(ctx.replay) and "-mode gc" in open(ctx.replay).read()
        if gc_replay:
            runs = []        # the replay of a collector failure is the gc mode itself (below)
        elif ctx.replay:
            runs = [("replay", ["-mode", "replay", "-file", ctx.replay])]
        else:
            runs = [("corpus-" + os.path.basename(f), ["-mode", "replay", "-file", f])
                    for f in sorted(glob.glob(os.path.join(ROOT, "corpus", "C11", "*.txt")))]
            if ctx.tier == "quick":
                runs += [("random-real", ["-mode", "random", "-world", "real", "-cases", "400", "-len", "30"]),
                         ("random-shadow", ["-mode", "random", "-world", "shadow", "-nofaults", "-cases", "400", "-len", "30"]),
                         ("conc", ["-mode", "conc", "-cases", "150"])]
            else:
                runs += [("random-real", ["-mode", "random", "-world", "real", "-cases", "6000", "-len", "40"]),
                         ("random-shadow", ["-mode", "random", "-world", "shadow", "-nofaults", "-cases", "6000", "-len", "40"]),
                         ("conc", ["-mode", "conc", "-cases", "3000"])]
        traces = sm.run_traces(ctx, hx, runs, "C11")
        if not ctx.replay or gc_replay:
            # collector scenarios (judged directly): only a Reader / a WithBytesFunc closure is kept, GC and
            # finalizers run, the unclosed secret must still be readable
            tr = os.path.join(ctx.work, "gc.trace")
            if ctx.run_harness(hx, ["-mode", "gc"], tr, timeout=300):
                lines = open(tr).read().splitlines()
                bad = [l for l in lines if l.startswith("GC-FAIL")]
                good = [l for l in lines if l.startswith("GC-OK")]
                traces.append(("gc", (bad + good + ["no verdict line"])[0]))
                for l in bad:
                    ctx.monitor_fail.append({"what": l, "signature": "secmem gc " + l.split(": ", 1)[1][:60],
                                             "case": "hxsecmem -mode gc\n" + l})
                if not bad and not good:
                    ctx.corr_broken.append("hxsecmem -mode gc produced no verdict line")
                for l in good:
                    n = int(l.split("=")[1]); ctx.cov["traces_validated_against_impl"] += n; ctx.cov["evaluations"] += n
    ctx.cov["rule"] = ("random-real = seeded random sequences of New/CreateRandom/WithBytes/WithBytesFunc (nested 0-2)/NewReader+Read/Close/IsClosed "
                       "on both implementations with the REAL memcall, sizes 1 B .. 5 pages; at every step /proc/self/smaps is read for the "
                       "address seen inside the callback (inside: r--,lo,dd; between: ---,lo,dd; after Close: unmapped) and compared with the "
                       "model page; conc = N reader goroutines x C closers with randomised yields in a child process (exit status, wrong bytes, "
                       "errors other than the closed-secret error, callbacks running after a Close returned, counter and in-use balance). "
                       "non-trivial = smaps page states compared + concurrent runs + failure paths")
    ctx.cov["runs"] = traces
    ctx.assumptions += sm.ASSUMPTIONS
    ctx.trusted += sm.TRUSTED
    return ctx.finish(level="proof")
