"""C19 — gRPC sidecar: one reply per request, protocol enforced, no request can crash it.
Engine E8 `server`: Model/Server.lean, Props/C19.lean, Spec/ServerSpec.lean, go/cmd/hxserver, md_server."""
import glob, os, subprocess
from verifpy.common import ROOT, case_of

START = r"^stream "


def run(ctx):
    ctx.extract()
    ctx.prove(["AsherahVerif.Props.C19"])
    if ctx.tier == "thorough":
        ctx.leanchecker(["AsherahVerif.Props.C19"])
    ok = ctx.build_driver("server")
    hx = ctx.build_go("hxserver")
    traces = []
    nil_guard = None
    if ok and hx:
        if ctx.replay:
            runs = [("replay-cache%d" % c, ["-mode", "replay", "-file", ctx.replay, "-cache", str(c)]) for c in (0, 1)]
        else:
            runs = []
            for f in sorted(glob.glob(os.path.join(ROOT, "corpus", "C19", "*.txt"))):
                for c in (0, 1):
                    runs.append(("corpus-%s-cache%d" % (os.path.basename(f), c), ["-mode", "replay", "-file", f, "-cache", str(c)]))
            if ctx.tier == "quick":
                ml, rl, groups, ln = "4", "3", "400", "30"
            else:
                ml, rl, groups, ln = "6", "4", "6000", "60"
            for c in ("0", "1"):
                runs.append(("exhaustive-cache" + c, ["-mode", "exhaustive", "-maxlen", ml, "-recverrlen", rl, "-cache", c]))
            for c in ("0", "1"):
                runs.append(("random-cache" + c, ["-mode", "random", "-groups", groups, "-streams", "4", "-len", ln, "-cache", c]))
        for name, args in runs:
            tr = os.path.join(ctx.work, name + ".trace")
            if not ctx.run_harness(hx, args, tr): continue
            summ, mism, mon = ctx.run_driver("server", tr)
            traces.append((name, summ))
            if "nil_guard" in summ: nil_guard = summ["nil_guard"]
            ctx.cov["evaluations"] += summ.get("ops", 0)
            ctx.cov["traces_validated_against_impl"] += summ.get("cases", 0)
            # non-trivial = requests that exercised the protocol state: sessions opened, get-sessions refused,
            # round trips, refused records, protocol errors, requests after a rejected get-session, transport errors
            ctx.cov["distinct_nontrivial"] += summ.get("nontrivial", 0)
            if mon:
                # the stream (from its `stream` line to the failing line) of every failure; keep the shortest ones
                lines = open(tr).read().splitlines()
                fails = []
                for l in mon:
                    i = min(int(l.split()[2].rstrip(":")), len(lines)) - 1
                    b = i
                    while b > 0 and not lines[b].startswith("stream "): b -= 1
                    fails.append((i - b, "eof => " not in lines[i], b, i, l))
                fails.sort()
                for _, _, b, i, l in fails[:25]:
                    ctx.monitor_fail.append({"what": l, "signature": "server " + l.split(": ", 1)[1], "case": "\n".join(lines[b:i + 1])})
                del lines
            if mism and not mon:
                ln_ = int(mism[0].split()[2].rstrip(":"))
                ctx.corr_broken.append("model of server.go and the real AppEncryption.Session disagree (%d lines), first: %s\ncase:\n%s"
                                       % (len(mism), mism[0], case_of(tr, ln_, START)))
            if not ctx.cov["samples"] and name.startswith("exhaustive"):
                ctx.cov["samples"] = open(tr).read().splitlines()[:14]
        # shortest failing stream first: that is the replay
        ctx.monitor_fail.sort(key=lambda m: (m["case"].count("\n"), "eof => " not in m["case"], len(m["case"]), m["case"]))
        # the real transport (grpc.Server on a unix socket in a child process): informational, plus the one thing the
        # in-memory stream cannot show — that a handler panic terminates the sidecar process
        if not ctx.replay:
            sock = os.path.join(ctx.work, "g.sock")
            try:
                p = subprocess.run([hx, "-mode", "grpc", "-sock", sock], stdout=subprocess.PIPE, stderr=subprocess.PIPE,
                                   env=ctx.env, timeout=60, text=True)
                probe = [l for l in p.stdout.splitlines() if l.startswith("grpc ")]
            except subprocess.TimeoutExpired:
                probe = ["grpc probe timed out"]
            ctx.notes["grpc_transport_probe"] = probe
            if any("sidecar=exited" in l for l in probe) and not ctx.monitor_fail:
                ctx.monitor_fail.append({"what": "real gRPC transport: the sidecar process exited after a rejected get-session",
                                         "signature": "server grpc sidecar exited", "case": "stream 3\ngs empty\neof"})
    if nil_guard is not None:
        ctx.notes["current_tree"] = (
            "Generated.Server.nilGuard = true: theorem never_panics applies to this tree (never_panics_current)" if nil_guard == 1 else
            "Generated.Server.nilGuard = false: defaultHandler.Encrypt/Decrypt/Close do not test h.session == nil; "
            "never_panics does NOT apply to this tree (never_panics_counterexample / current_tree): defect F-10")
    ctx.cov["rule"] = ("cases = streams driven through the real AppEncryption.Session over an in-memory AppEncryption_SessionServer "
                       "(in-memory metastore, static KMS, memguard), with and without the session cache: all request sequences up to a "
                       "bounded length over {get-session valid/empty, encrypt, decrypt genuine/foreign/corrupt/empty record, empty request} "
                       "ended by EOF (short ones also by a transport error), plus seeded random longer streams in groups of 4 concurrent "
                       "streams over 3 partitions incl. failing Sends and nil sub-messages; a request counts (once) as non-trivial when it opened "
                       "or was refused a session, round-tripped, was refused by the SDK, got a protocol error, followed a rejected "
                       "get-session, panicked, or its Send failed (counted by the model driver; not deduplicated beyond that)")
    ctx.cov["runs"] = traces
    ctx.assumptions += [
        "gRPC transport and protobuf codec are not modelled (a request is the decoded oneof); probed once per run over a real grpc.Server "
        "on a unix socket (notes.grpc_transport_probe)",
        "the SDK session is a parameter of the model (oracle indexed by request position); its guarantees (round trip within a partition, "
        "foreign/corrupt records refused, empty partition id refused, records carry Key and ParentKeyMeta) are hypotheses (SdkLaws) "
        "discharged for the simulated SDK and checked against the real SDK by the differential run",
        "session.Close is not observed; metastore/KMS failures inside a ready session are not injected (in-memory metastore, static KMS)"]
    ctx.trusted += ["go/cmd/hxserver (fake stream, canonicaliser) + Driver/Server.lean (differential correspondence and protocol monitor)",
                    "go/cmd/extract/server.go (skeletons of Stream, handleRequest, defaultHandler.*, nil-session guard facts, proto field table)"]
    return ctx.finish(level="proof")
