"""KMS part of C10 (helper, not a check of its own): `kms_part(ctx)` runs the `kms` engine's traces
(the same ones C17 runs) and turns every `MONITOR-FAIL … C10 …` line — a KMS plaintext data key still
readable after DecryptKey returned — into a monitor failure of the calling check, and every C17-tagged
wrap-side wipe failure as well.  Intended use, from verifpy/props/C10.py:

    from verifpy.props.C10_kms import kms_part
    kms_part(ctx)          # before ctx.finish(...)

The Lean side: AsherahVerif.Props.C17.{wrap_wipes_datakey, decrypt_wipes_plaintext,
decrypt_wipes_plaintext_counterexample, decrypt_unwiped_always}; `treeWipes` there says which shape of
DecryptKey the tree under check has (read from the regenerated statements)."""
from verifpy.props.C17 import kms_runs, kms_case


def kms_part(ctx, limit=20):
    total = 0
    for name, tr, summ, mism, mon in kms_runs(ctx):
        ctx.cov["evaluations"] += summ.get("wraps", 0) + summ.get("unwraps", 0)
        total += summ.get("c10_fail", 0)
        hits = [l for l in mon if ": C10 " in l or "not wiped" in l]
        for l in hits[:limit]:
            ln = int(l.split()[2].rstrip(":"))
            ctx.monitor_fail.append({"what": l, "signature": "kms " + l.split(": ", 1)[1], "case": kms_case(tr, ln)})
        if mism and not hits:
            ctx.corr_broken.append("kms model and plugins disagree (%d lines), first: %s" % (len(mism), mism[0]))
    ctx.notes["c10_kms_unwiped_decrypt_calls"] = total
    return total
