"""C18 — stored and wire formats follow the documented, cross-language layout.
Engine E1 `fmt`: Model/Gcm.lean + Model/Aes.lean + Model/Codec.lean (the independent implementation
written from the documentation), Props/C18.lean, go/cmd/hxfmt, go/cmd/extract/fmt.go.

Correspondence, every run, all four parts generated from ONE seeded PRNG:
  aead      cryptoFunc.Encrypt (random source pinned) / Decrypt vs the Lean AES-GCM, NIST vectors, mutants
  chain     (a) SDK writes  -> the Lean reference decoder recovers every payload through JSON, base64,
            master |- SK |- IK |- DRK |- data, and finds the documented key ids
  build     (b) harness pass 1 writes requests (all randomness chosen by the harness), `md_fmt answer`
            (the reference ENCODER) builds SK/IK rows + DRR, harness pass 2 loads them into a memory
            metastore and the real SDK Decrypt must return the payload
  carriers  (d) the same records through encoding/json, the SQL row, both DynamoDB marshalers and
            toProtobufDRR/fromProtobufDRR (+ protobuf wire round trip) vs the reference codec
"""
import concurrent.futures, glob, json, os, subprocess
from verifpy.common import ROOT, REPO, case_of


def _overlay(ctx):
    """go build -overlay: ADD exported wrappers of the unexported partition constructors and of
    to/fromProtobufDRR to the packages of the tree under check (nothing in the tree is modified)."""
    ov = os.path.join(ctx.work, "overlay-fmt.json")
    src = os.path.join(ROOT, "go", "overlay", "fmt")
    with open(ov, "w") as f:
        json.dump({"Replace": {
            os.path.join(REPO, "go/appencryption/verif_fmt_keyid_export.go"): os.path.join(src, "keyid_export.go.src"),
            os.path.join(REPO, "server/go/pkg/server/verif_fmt_export.go"): os.path.join(src, "server_export.go.src"),
        }}, f)
    return ov


def _harness(ctx, hx, args, path, seed):
    env = dict(ctx.env)
    env["VERIF_SEED"] = str(seed)
    with open(path, "w") as f:
        try:
            p = subprocess.run([hx] + args, stdout=f, stderr=subprocess.PIPE, env=env, timeout=3000, text=True)
        except subprocess.TimeoutExpired:
            ctx.corr_broken.append("harness hxfmt %s timed out" % " ".join(args)); return False
    if p.returncode != 0:
        ctx.corr_broken.append("harness hxfmt %s exited %d: %s" % (" ".join(args), p.returncode, p.stderr[-1500:]))
        return False
    return True


def _answer(ctx, req, ans):
    """the reference ENCODER: md_fmt answer < requests > answers"""
    drv = ctx.driver_path("fmt")[1]
    with open(req) as fi, open(ans, "w") as fo:
        p = subprocess.run([drv, "answer"], stdin=fi, stdout=fo, stderr=subprocess.PIPE, text=True, timeout=3000)
    if p.returncode != 0:
        ctx.corr_broken.append("md_fmt answer exited %d: %s" % (p.returncode, p.stderr[-800:])); return False
    bad = [l for l in open(ans) if not (l.startswith("built ") or l.startswith("lsealed "))]
    if bad:
        ctx.corr_broken.append("reference encoder refused %d requests, first: %s" % (len(bad), bad[0][:200])); return False
    return True


def _failing_case(trace, line_text, ln, extra):
    op = line_text.split(": ", 1)[1].split()[0] if ": " in line_text else ""
    if op == "chain":
        return case_of(trace, ln, start_re=r"^case ")
    lines = open(trace).read().splitlines()
    this = lines[ln - 1] if 0 < ln <= len(lines) else ""
    if op in ("sdkdec", "goopen") and extra:
        n = this.split()[1]
        want = ("build %s " % n, "built %s " % n) if op == "sdkdec" else ("lseal %s " % n, "lsealed %s " % n)
        pre = []
        for path in extra:
            pre += [l for l in open(path).read().splitlines() if l.startswith(want)]
        return "\n".join(pre + [this])
    return this


def _check(ctx, name, trace, extra=None):
    summ, mism, mon = ctx.run_driver("fmt", trace)
    ctx.cov["evaluations"] += summ.get("ops", 0)
    ctx.cov["traces_validated_against_impl"] += summ.get("chains", 0) + summ.get("sdkdec", 0)
    for k in ("aead", "chains", "sdkdec", "goopen", "json", "unjson", "sql", "ddb", "pb", "keyids"):
        ctx.cov["distinct_nontrivial"] += summ.get(k, 0)
        ctx.totals[k] = ctx.totals.get(k, 0) + summ.get(k, 0)
    for k in ("aead_err", "revoked_rows", "suffixed", "bytes"):
        ctx.totals[k] = ctx.totals.get(k, 0) + summ.get(k, 0)
    for l in mon[:20]:
        ln = int(l.split()[2].rstrip(":"))
        ctx.monitor_fail.append({"what": l, "signature": "fmt " + l.split(": ", 1)[1], "case": _failing_case(trace, l, ln, extra)})
    if mism and not mon:
        ln = int(mism[0].split()[2].rstrip(":"))
        ctx.corr_broken.append("reference codec and Go disagree in run %s (%d lines), first: %s\ncase:\n%s"
                               % (name, len(mism), mism[0][:400], _failing_case(trace, mism[0], ln, extra)[:4000]))
    if len(ctx.cov["samples"]) < 8:
        ctx.cov["samples"] += [l[:300] for l in open(trace).read(200000).splitlines() if not l.startswith("#")][:3]
    return summ


def _chunk(ctx, hx, tag, seed, sizes):
    """one full pass over the four parts with its own seed; returns [(name, summary)]"""
    out = []
    w = ctx.work
    for mode in ("aead", "chain", "carriers"):
        tr = os.path.join(w, "%s-%s.trace" % (mode, tag))
        if _harness(ctx, hx, ["-mode", mode, "-cases", str(sizes[mode])], tr, seed):
            out.append((mode + "-" + tag, _check(ctx, mode + "-" + tag, tr)))
            os.remove(tr)
    req, ans, tr = (os.path.join(w, "build-%s.%s" % (tag, e)) for e in ("req", "ans", "trace"))
    if _harness(ctx, hx, ["-mode", "build", "-cases", str(sizes["build"])], req, seed) and _answer(ctx, req, ans) \
            and _harness(ctx, hx, ["-mode", "consume", "-requests", req, "-file", ans], tr, seed):
        out.append(("build-" + tag, _check(ctx, "build-" + tag, tr, extra=[req, ans])))
        for p in (req, ans, tr): os.remove(p)
    return out


def _replay(ctx, hx, path, name):
    """re-run a corpus / replay file: op lines through -mode replay, build requests through both passes"""
    lines = [l for l in open(path).read().splitlines() if l.strip() and not l.startswith("#")]
    out = []
    tr = os.path.join(ctx.work, name + ".trace")
    if _harness(ctx, hx, ["-mode", "replay", "-file", path], tr, ctx.seed):
        out.append((name, _check(ctx, name, tr)))
    reqs = [l for l in lines if l.startswith("build ") or l.startswith("lseal ")]
    if reqs:
        req, ans, tr2 = (os.path.join(ctx.work, name + e) for e in (".req", ".ans", ".b.trace"))
        with open(req, "w") as f: f.write("\n".join(reqs) + "\n")
        if _answer(ctx, req, ans) and _harness(ctx, hx, ["-mode", "consume", "-requests", req, "-file", ans], tr2, ctx.seed):
            out.append((name + "-build", _check(ctx, name + "-build", tr2, extra=[req, ans])))
    return out


def run(ctx):
    ctx.totals = {}
    ctx.extract()
    ctx.prove(["AsherahVerif.Props.C18"])
    if ctx.tier == "thorough":
        ctx.leanchecker(["AsherahVerif.Props.C18"])
    ok = ctx.build_driver("fmt")
    hx = ctx.build_go("hxfmt", overlay=_overlay(ctx))
    runs = []
    if ok and hx:
        if ctx.replay:
            runs += _replay(ctx, hx, ctx.replay, "replay")
        else:
            for f in sorted(glob.glob(os.path.join(ROOT, "corpus", "C18", "*.txt"))):
                runs += _replay(ctx, hx, f, "corpus-" + os.path.basename(f))
            if ctx.tier == "quick":
                runs += _chunk(ctx, hx, "q", ctx.seed, {"aead": 600, "chain": 1000, "carriers": 1500, "build": 2200})
            else:
                sizes = {"aead": 4000, "chain": 5600, "carriers": 12000, "build": 12500}
                with concurrent.futures.ThreadPoolExecutor(max_workers=8) as ex:
                    futs = [ex.submit(_chunk, ctx, hx, "t%d" % i, ctx.seed * 1000 + i, sizes) for i in range(8)]
                    for fu in futs:
                        runs += fu.result()
    ctx.cov["rule"] = ("one evaluation = one op line executed on the real code and on the Lean reference; all count as non-trivial "
                       "(each is a distinct generated key/nonce/payload/record): aead = Encrypt/Decrypt incl. NIST vectors, every "
                       "key size, bit flips, truncations to every length class, wrong keys, moved nonce; chains = data row records "
                       "written by the SDK (1-2 partitions x 1-2 payloads of 0..4 KiB, a few 64 KiB; with/without region suffix; "
                       "Revoked flipped on stored rows) decrypted by the reference through the whole key hierarchy; sdkdec = "
                       "hierarchies built by the reference encoder from harness-chosen keys/nonces/ids/stamps (any int64 stamp, ids "
                       "with JSON-relevant characters) decrypted by the real SDK; json/unjson/sql/ddb/pb/keyids = records with "
                       "every base64 padding class, boundary int64 stamps, ids containing quotes, controls, <>&, U+2028/9, astral "
                       "characters, with/without parent meta and revoked flag, plus documented-shape variants no Go encoder emits "
                       "(member order, white space, \\u escapes incl. surrogate pairs, explicit defaults, unknown members)")
    ctx.cov["generator_distribution"] = ctx.totals
    ctx.cov["runs"] = [(n, {k: s.get(k) for k in ("ops", "mismatches", "monitor_fail")}) for n, s in runs]
    ctx.assumptions += [
        "AES itself is not verified: Model/Aes.lean is validated against crypto/aes on every generated case and against "
        "FIPS-197/NIST GCM vectors (two of them checked in the Lean kernel, one by the driver's self test); every GCM theorem "
        "holds for an arbitrary block function, so none depends on it",
        "no cryptographic assumption is used by any C18 theorem; authenticity (a string accepted by open was produced by a key "
        "holder) is the INT-CTXT assumption stated in C07, not here",
        "key ids, partition/service/product names are valid UTF-8 (encoding/json replaces invalid bytes by U+FFFD, so such an "
        "id does not survive the JSON carrier in ANY implementation; not a documented use)",
        "timestamps are int64 (the reference rejects integers outside that range like Go does); JSON numbers with fraction or "
        "exponent are outside the documented shapes and rejected by the reference",
        "gcmMaxDataSize (2^36-32 bytes) bounds payloads: Encrypt refuses larger data, the theorems carry that hypothesis; the "
        "correspondence exercises up to 64 KiB",
        "DynamoDB/SQL servers are not involved: the SDK marshalers (dynamodbattribute, attributevalue, encoding/json) are run "
        "in-process against capture-only fakes; real table semantics belong to C13",
    ]
    ctx.trusted += [
        "go/cmd/hxfmt (harness, capture-only SQL driver / DynamoDB clients, crypto/rand.Reader pinned to the seeded PRNG) and "
        "Driver/Fmt.lean (differential correspondence)",
        "go/cmd/extract/fmt.go (sizes, struct tags and field types, key-id format strings, skeletons and slice expressions of "
        "cryptoFunc.Encrypt/Decrypt, DynamoDB attribute names/tags, SQL statements, protobuf field table, to/fromProtobufDRR "
        "field mapping — regenerated on every run and proved equal to Expected/Fmt.lean)",
        "go build -overlay adds go/overlay/fmt/*.go.src (exported wrappers of newPartition/newSuffixedPartition ids and of "
        "toProtobufDRR/fromProtobufDRR) to the packages under check; /repo is not modified",
        "modelled, validated differentially, not verified: Go encoding/json, encoding/base64, crypto/aes, crypto/cipher GCM, "
        "aws-sdk-go dynamodbattribute, aws-sdk-go-v2 attributevalue, golang/protobuf wire codec, database/sql argument passing",
    ]
    return ctx.finish(level="proof")
