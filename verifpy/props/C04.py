"""C04 — decided by engine E3 envelope (Model/Envelope.lean, Props/C04.lean, go/cmd/hxenv)."""
from verifpy import envelope

NONTRIVIAL = {"C01": ["dec_ok", "key_creations"], "C02": ["faulted_ops", "key_creations"], "C03": ["enc_ok", "key_creations"],
              "C04": ["key_creations", "metastore_reads"], "C05": ["revocations", "metastore_reads"], "C07": ["mutated_records"],
              "C09": ["key_creations", "faulted_ops", "metastore_reads"], "C10": ["metastore_reads", "dec_ok"], "C20": ["enc_ok", "dec_ok"]}

def run(ctx):
    return envelope.run(ctx, "C04", ["AsherahVerif.Props.C04", "AsherahVerif.Props.C04b"], NONTRIVIAL["C04"], modes=(('boundaries',), ('allboundaries',)))
