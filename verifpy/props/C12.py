"""C12 — secure memory survives syscall failures. Engine E5 `secmem`: Model/SecMem.lean, Props/C12.lean,
go/cmd/hxsecmem (shadow memcall with fault injection), driver md_secmem."""
import glob, os
from verifpy.common import ROOT
from verifpy import secmem_common as sm

def run(ctx):
    ctx.extract()
    ctx.prove(["AsherahVerif.Props.C12"])
    if ctx.tier == "thorough":
        ctx.leanchecker(["AsherahVerif.Props.C12"])
    ok = ctx.build_driver("secmem")
    hx = sm.build_harness(ctx)
    traces = []
    if ok and hx:
        if ctx.replay:
            runs = [("replay", ["-mode", "replay", "-file", ctx.replay])]
        else:
            runs = [("corpus-" + os.path.basename(f), ["-mode", "replay", "-file", f])
                    for f in sorted(glob.glob(os.path.join(ROOT, "corpus", "C12", "*.txt")))]
            if ctx.tier == "quick":
                runs += [("faults", ["-mode", "faults"]),
                         ("random-shadow", ["-mode", "random", "-world", "shadow", "-cases", "4000", "-len", "30"]),
                         ("rlimit", ["-mode", "rlimit"])]
            else:
                runs += [("faults-pairs", ["-mode", "faults", "-pairs"]),
                         ("random-shadow", ["-mode", "random", "-world", "shadow", "-cases", "40000", "-len", "40"]),
                         ("rlimit", ["-mode", "rlimit"])]
        traces = sm.run_traces(ctx, hx, runs, "C12")
    ctx.cov["rule"] = ("faults = for both implementations and each of New, CreateRandom, WithBytes, WithBytesFunc, Reader.Read, Close: "
                       "every call index 1..3 of every primitive (alloc, lock, protect, unlock, free, random read) fails "
                       "(thorough: every pair, and a fault in the operation followed by a fault in the next Close), each followed by fault-free "
                       "reads / Close / retry; only cases in which every requested fault fired are kept; random-shadow = seeded random "
                       "operation sequences with random faults; rlimit = creation under RLIMIT_MEMLOCK=0 in an unprivileged child. "
                       "non-trivial = injected faults that fired + operations that took a failure path (counted by the model driver)")
    ctx.cov["runs"] = traces
    ctx.assumptions += sm.ASSUMPTIONS
    ctx.trusted += sm.TRUSTED
    return ctx.finish(level="proof")
