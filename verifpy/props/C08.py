"""C08 — a key in use is never destroyed underneath its user (Model/KeyRef.lean, Props/C08.lean, go/cmd/hxconc)."""
from verifpy import conc

def run(ctx):
    return conc.run(ctx, "C08", ["AsherahVerif.Props.C08"], "keyref", (2, 2, 4, 8), (3, 3, 5, 7),
                    scenario_filter="", stress_quick=(18, 8, 120), stress_thorough=(90, 12, 300))
