"""C15 — generic cache. Engine E2: Model/Cache.lean, Props/C15.lean, go/cmd/hxcache."""
import glob, os
from verifpy.common import ROOT, case_of

def run(ctx):
    ctx.extract()
    ctx.prove(["AsherahVerif.Props.C15", "AsherahVerif.Props.C15b"])
    if ctx.tier == "thorough":
        ctx.leanchecker(["AsherahVerif.Props.C15", "AsherahVerif.Props.C15b"])
    ok = ctx.build_driver()
    hx = ctx.build_go("hxcache")
    traces = []
    if ok and hx:
        conc_replay = bool(ctx.replay) and "-mode conc" in open(ctx.replay).read()
        if conc_replay:
            runs = []        # the replay of a concurrent failure is the concurrent mode itself (below)
        elif ctx.replay:
            runs = [("replay", ["-mode", "replay", "-file", ctx.replay])]
        else:
            runs = [("corpus-" + os.path.basename(f), ["-mode", "replay", "-file", f])
                    for f in sorted(glob.glob(os.path.join(ROOT, "corpus", "C15", "*.txt")))]
            if ctx.tier == "quick":
                runs += [("random", ["-mode", "random", "-cases", "4000", "-len", "80"]),
                         ("exhaustive", ["-mode", "exhaustive", "-maxlen", "3"])]
            else:
                runs += [("random", ["-mode", "random", "-cases", "60000", "-len", "120"]),
                         ("exhaustive", ["-mode", "exhaustive", "-maxlen", "5"])]
        for name, args in runs:
            tr = os.path.join(ctx.work, name + ".trace")
            if not ctx.run_harness(hx, args, tr): continue
            summ, mism, mon = ctx.run_driver("cache", tr)
            traces.append((name, summ))
            ctx.cov["evaluations"] += summ.get("ops", 0)
            ctx.cov["traces_validated_against_impl"] += summ.get("cases", 0)
            # non-trivial = operations that evicted, hit or expired (measured by the driver)
            ctx.cov["distinct_nontrivial"] += summ.get("evictions", 0) + summ.get("hits", 0) + summ.get("expiries", 0)
            for l in mon[:50]:
                ln = int(l.split()[2].rstrip(":"))
                ctx.monitor_fail.append({"what": l, "signature": "cache " + l.split(": ", 1)[1], "case": case_of(tr, ln)})
            if mism and not mon:
                ln = int(mism[0].split()[2].rstrip(":"))
                ctx.corr_broken.append("model and pkg/cache disagree (%d lines), first: %s\ncase:\n%s" % (len(mism), mism[0], case_of(tr, ln)))
            if not ctx.cov["samples"]:
                ctx.cov["samples"] = open(tr).read().splitlines()[:12]
    # concurrent callers: a concrete failing schedule when the operations stop being atomic (judged directly)
    if ok and hx and (not ctx.replay or conc_replay):
        tr = os.path.join(ctx.work, "conc.trace")
        rounds, per = ("3", "3000") if ctx.tier == "quick" else ("40", "6000")
        if ctx.run_harness(hx, ["-mode", "conc", "-cases", rounds, "-len", per], tr):
            lines = open(tr).read().splitlines()
            bad = [l for l in lines if l.startswith("CONC-FAIL")]
            good = [l for l in lines if l.startswith("CONC-OK")]
            traces.append(("conc", (bad + good + ["no verdict line"])[0]))
            for l in bad:
                ctx.monitor_fail.append({"what": l, "signature": "cache concurrent " + l.split(": ", 1)[1][:60],
                                         "case": "hxcache -mode conc -cases %s -len %s   (schedule-dependent: re-run until it shows)\n%s" % (rounds, per, l)})
            if not bad and not good:
                ctx.corr_broken.append("hxcache -mode conc produced no verdict line")
            for l in good:
                m = [int(x.split("=")[1]) for x in l.split()[1:]]
                ctx.cov["traces_validated_against_impl"] += m[0]; ctx.cov["evaluations"] += m[1]
    ctx.cov["rule"] = ("cases = seeded random op sequences over policies x capacities {1..10,99,100,101,200} x expiry x sync/async, "
                       "plus all sequences up to a bounded length over 15 operations on 3 keys; an operation counts as non-trivial "
                       "when it evicted, hit, or expired an entry (counted by the model driver, not distinct-deduplicated beyond that)")
    ctx.cov["runs"] = traces
    ctx.assumptions += ["TinyLFU frequency sketch / doorkeeper and the key hash are an oracle in the model (any answer); that the oracle "
                        "returns (no slice index of sketch.go / filter.go out of range, for every hash) is Props/C15b over the index arithmetic "
                        "translated from the source on every run; nextPowerOfTwo translated as a let-chain and bounded for all 2^32 arguments; "
                        "Go runtime, container/list, sync are trusted", "asynchronous callbacks compared cumulatively (at most one in flight)"]
    ctx.trusted += ["go/cmd/hxcache + Driver/Cache.lean (differential correspondence over the public builder API)",
                    "go/cmd/extract (protectedRatio, admissionRatio regenerated from lru.go/tlfu.go; sketch.go: translator of uint32 index expressions to BitVec 32 terms, index sites and Init statements of pkg/cache/internal)"]
    return ctx.finish(level="proof")
