"""C09 — decided by engine E3 envelope (Model/Envelope.lean, Props/C09.lean, go/cmd/hxenv)."""
from verifpy import envelope

NONTRIVIAL = {"C01": ["dec_ok", "key_creations"], "C02": ["faulted_ops", "key_creations"], "C03": ["enc_ok", "key_creations"],
              "C04": ["key_creations", "metastore_reads"], "C05": ["revocations", "metastore_reads"], "C07": ["mutated_records"],
              "C09": ["key_creations", "faulted_ops", "metastore_reads"], "C10": ["metastore_reads", "dec_ok"], "C20": ["enc_ok", "dec_ok"]}

def session_cache_part(ctx):
    # cached sessions (session_cache.go) are not part of the sequential envelope model: their key caches
    # must be released exactly once too - observed on the real code under every one-preemption schedule
    import re
    from verifpy.conc import preempt_part
    preempt_part(ctx, "C09", "sesscache", accept=lambda l: bool(re.search(r"uac=[1-9]|leaked=[1-9]|dbl=[1-9]|destroyed", l)))
    ctx.trusted.append("go/cmd/hxconc sesscache-* scenarios with use-after-close / double-close / all-secrets-released accounting")


def run(ctx):
    return envelope.run(ctx, "C09", ["AsherahVerif.Props.C09"], NONTRIVIAL["C09"], modes=(('faults', 'boundaries'), ('faultpairs', 'allboundaries')),
                        extra_runs=[('protectedmemory', ['-mode', 'random', '-cases', '400' if ctx.tier == 'quick' else '6000', '-len', '50', '-secret', 'protected'], {})],
                        pre_finish=session_cache_part)
