"""C20 — decided by engine E3 envelope (Model/Envelope.lean, Props/C20.lean, go/cmd/hxenv)."""
from verifpy import envelope

NONTRIVIAL = {"C01": ["dec_ok", "key_creations"], "C02": ["faulted_ops", "key_creations"], "C03": ["enc_ok", "key_creations"],
              "C04": ["key_creations", "metastore_reads"], "C05": ["revocations", "metastore_reads"], "C07": ["mutated_records"],
              "C09": ["key_creations", "faulted_ops", "metastore_reads"], "C10": ["metastore_reads", "dec_ok"], "C20": ["enc_ok", "dec_ok"]}

def concurrent_part(ctx):
    # "a system key is unwrapped at most once per factory per interval however many sessions use it":
    # two operations needing the same cold / stale system key under every one-preemption schedule
    from verifpy.conc import preempt_part
    preempt_part(ctx, "C20", "c20-")
    ctx.trusted.append("go/cmd/hxconc c20-* scenarios: KMS unwraps and metastore reads of every preempted schedule bounded by the sequential orders")


def run(ctx):
    return envelope.run(ctx, "C20", ["AsherahVerif.Props.C20", "AsherahVerif.Props.C20b"], NONTRIVIAL["C20"], modes=(('boundaries',), ('allboundaries',)), pre_finish=concurrent_part)
