"""C13 — every metastore implementation is an insert-only, read-your-writes key table.
Engine E6: Model/Metastore*.lean, Props/C13.lean, go/cmd/hxmetastore (+ internal/fakeddb, internal/fakesql)."""
import glob, os
from verifpy.common import ROOT, case_of

BACKENDS = ["memory", "sql:default", "sql:mysql", "sql:postgres", "sql:oracle", "ddb1", "ddb2"]


def run(ctx):
    ctx.extract()
    ctx.prove(["AsherahVerif.Props.C13"])
    if ctx.tier == "thorough":
        ctx.leanchecker(["AsherahVerif.Props.C13"])
    ok = ctx.build_driver("metastore")
    hx = ctx.build_go("hxmetastore")
    traces = []
    if ok and hx:
        if ctx.replay:
            runs = [("replay", ["-mode", "replay", "-file", ctx.replay])]
        else:
            runs = [("corpus-" + os.path.basename(f), ["-mode", "replay", "-file", f])
                    for f in sorted(glob.glob(os.path.join(ROOT, "corpus", "C13", "*.txt")))]
            if ctx.tier == "quick":
                runs += [("random", ["-mode", "random", "-cases", "1500", "-len", "30"])]
                runs += [("random-" + b.replace(":", "_"), ["-mode", "random", "-cases", "150", "-len", "40", "-only", b]) for b in BACKENDS]
                runs += [("exhaustive", ["-mode", "exhaustive", "-maxlen", "3"])]
            else:
                runs += [("random", ["-mode", "random", "-cases", "40000", "-len", "40"])]
                runs += [("random-" + b.replace(":", "_"), ["-mode", "random", "-cases", "6000", "-len", "60", "-only", b]) for b in BACKENDS]
                runs += [("exhaustive", ["-mode", "exhaustive", "-maxlen", "4"])]
        for name, args in runs:
            tr = os.path.join(ctx.work, name + ".trace")
            if not ctx.run_harness(hx, args, tr): continue
            summ, mism, mon = ctx.run_driver("metastore", tr)
            traces.append((name, summ))
            ctx.cov["evaluations"] += summ.get("ops", 0)
            ctx.cov["traces_validated_against_impl"] += summ.get("cases", 0)
            # non-trivial = operations that exercised the property: refused duplicates, reads that returned a
            # stored record, operations under an injected backend failure (counted by the model driver)
            ctx.cov["distinct_nontrivial"] += (summ.get("stores_dup", 0) + summ.get("load_hits", 0) +
                                               summ.get("latest_hits", 0) + summ.get("faults", 0))
            for l in mon[:50]:
                ln = int(l.split()[2].rstrip(":"))
                ctx.monitor_fail.append({"what": l, "signature": "metastore " + l.split(": ", 1)[1],
                                         "case": case_of(tr, ln, start_re=r"^be ")})
            if mism and not mon:
                ln = int(mism[0].split()[2].rstrip(":"))
                ctx.corr_broken.append("model and the real metastore disagree (%d lines), first: %s\ncase:\n%s"
                                       % (len(mism), mism[0][:1500], case_of(tr, ln, start_re=r"^be ")[:6000]))
            if not ctx.cov["samples"]:
                ctx.cov["samples"] = [l[:400] for l in open(tr).read().splitlines()[:12]]
    ctx.cov["rule"] = ("cases = seeded random histories of store/load/latest (45/25/20 %) with lag and fault directives over 2-4 ids "
                       "x 3-5 stamps (overlapping keys; int64 extremes, negatives), records with key lengths 0..60 incl. every base64 "
                       "padding class, revoked flag, with/without parent meta (ids with quotes, control characters, non-ASCII, HTML "
                       "characters, empty), per backend memory / sql x {default,mysql,postgres,oracle} / ddb v1 / ddb v2 x table name "
                       "option x region suffix; every case ends with a sweep reading every key back; plus every history of "
                       "length 3 (quick) / 4 (thorough) over a 10-operation alphabet per backend kind; an operation counts as non-trivial when it was a refused "
                       "duplicate, a read that returned a record, or ran under an injected backend failure")
    ctx.cov["runs"] = traces
    ctx.assumptions += [
        "real DynamoDB and MySQL/Postgres/Oracle semantics are MODELLED from their documentation (docs/Metastore.md schema; conditional "
        "PutItem, ConsistentRead, ScanIndexForward, Limit; PRIMARY KEY(id,created)), not verified: the Lean backend models and the Go "
        "fakes implement the same documented semantics, no real database is available offline",
        "strings are valid UTF-8 (Lean String); integers are unbounded in the model, int64 in the harness; TIMESTAMP range/time zone "
        "and VARCHAR(255) limits of a real SQL server are out of scope",
        "the AWS SDKs' expression builder output (#0/:0 aliases), (un)marshallers, encoding/json, encoding/base64, database/sql are "
        "modelled and validated differentially (requests and row texts are compared byte for byte), not verified",
        "EnvelopeKeyRecord.ID is tagged json:\"-\": the persistent backends return ID=\"\"; 'every field intact' is proved for the "
        "persisted fields (Revoked, Created, Key, ParentKeyMeta); the in-memory metastore returns the stored pointer",
        "DynamoDB refuses empty key attribute values: the DynamoDB theorems assume non-empty key ids",
        "Store is given a non-nil record (envelope.go always passes one): with nil the DynamoDB metastores panic and memory/SQL keep an "
        "entry that reads back as not-found (observed on the real code; outside 'all record contents')",
    ]
    ctx.trusted += ["go/cmd/hxmetastore + go/internal/fakeddb + go/internal/fakesql + Driver/Metastore.lean (differential correspondence "
                    "through the public Metastore interface, requests compared canonically)",
                    "go/cmd/extract/metastore.go (statements, tags, request literals, skeletons regenerated from the four sources)"]
    # concurrent callers: the in-memory metastore is shared by goroutines (and by "processes" in the tests):
    # simultaneous Stores of one (id, created) must acknowledge exactly one writer and keep its record
    import os as _os
    from verifpy.envelope import build_overlay
    ov = build_overlay(ctx, sync=True)
    hx = ctx.build_go("hxconc", overlay=ov) if ov else None
    if hx:
        tr = _os.path.join(ctx.work, "memstore.out")
        if ctx.run_harness(hx, ["-mode", "memstore", "-rounds", "3000" if ctx.tier == "quick" else "60000", "-goroutines", "4"], tr, timeout=900):
            lines = open(tr).read().splitlines()
            for l in lines:
                if l.endswith("VIOLATION"):
                    ctx.monitor_fail.append({"what": l, "signature": "memstore " + l, "case": "# replay: build/hxconc -mode memstore -rounds 3000 -goroutines 4\n" + l})
            ctx.notes["concurrent_store_rounds"] = sum(1 for _ in [0]) and (lines[-1] if lines else "")
    return ctx.finish(level="proof")
