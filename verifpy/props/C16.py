"""C16 — cached sessions are shared, stay usable while held, are torn down exactly once
(Model/SessCache.lean, Props/C16.lean, go/cmd/hxconc scenarios sesscache-* + stress with a session cache)."""
from verifpy import conc

def run(ctx):
    return conc.run(ctx, "C16", ["AsherahVerif.Props.C16"], "sesscache", (2, 2, 4, 8), (3, 3, 5, 7),
                    scenario_filter="sesscache", stress_quick=(18, 8, 120), stress_thorough=(90, 12, 300))
