"""C10 — transient plaintext key copies on the Go heap are wiped before the call returns.
Three places hold such copies: the envelope core (engine E3: AEAD/KMS results, the slice handed to the
secret factory — theorems Props/C10.lean), the two AWS KMS plugins (engine kms: Props/C17
wrap_wipes_datakey / decrypt_wipes_plaintext) and the secret factories themselves (engine secmem:
Props/C12 new_wipes_argument).  This check runs all three correspondences."""
import os, re
from verifpy import envelope
from verifpy.common import case_of

NONTRIVIAL = ["metastore_reads", "dec_ok", "faulted_ops"]

def other_engines(ctx):
    # AWS KMS plugins: KMS plaintext data keys re-read after the call
    from verifpy.props.C10_kms import kms_part
    ctx.driver_args = []
    kms_part(ctx)
    ctx.prove(["AsherahVerif.Props.C17", "AsherahVerif.Props.C12"], namespaces=["AsherahVerif.Props.C17.wrap_wipes_datakey", "AsherahVerif.Props.C17.decrypt_wipes_plaintext", "AsherahVerif.Props.C12.new_wipes_argument"])
    # secret factories: the argument of New after every injected failure
    from verifpy import secmem_common as sm
    if ctx.build_driver("secmem"):
        hx = sm.build_harness(ctx)
        if hx:
            for name, args in [("secmem-faults", ["-mode", "faults"]), ("secmem-rlimit", ["-mode", "rlimit"])]:
                tr = os.path.join(ctx.work, name + ".trace")
                if not ctx.run_harness(hx, args, tr, timeout=900): continue
                summ, mism, mon = ctx.run_driver("secmem", tr)
                ctx.cov["evaluations"] += summ.get("ops", 0)
                for l in getattr(ctx, "last_notes", [])[:40]:
                    m = re.match(r"NOTE-C10 line (\d+): (.*)$", l)
                    if not m: continue
                    op = m.group(2)
                    sig = "secmem source-not-wiped " + op[:160]
                    if re.search(r"^rlimit mg .*res=panic", op): sig = "rlimit mg 0 :: create_fail_is_error:panic (library panic leaves the source) " + sig
                    ctx.monitor_fail.append({"what": l[:400], "signature": sig, "case": case_of(tr, int(m.group(1)), r"^(world|conc|rlimit) ")})
                if mism and not mon:
                    ctx.corr_broken.append("secmem model and implementation disagree: " + mism[0][:300])
    ctx.trusted += ["go/cmd/hxkms (fake regional KMS clients retain and re-read the plaintexts they returned)",
                    "go/cmd/hxsecmem (shadow memcall; the slice passed to New re-read after every injected failure)"]
    ctx.assumptions += ["that MemClr's stores are not elided by the compiler is observed by re-reading the slices, not proved"]

def run(ctx):
    return envelope.run(ctx, "C10", ["AsherahVerif.Props.C10"], NONTRIVIAL, modes=(("faults", "mutations"), ("faultpairs", "allmutations")),
                        pre_finish=other_engines)
