"""Shared check body for the properties decided by engine E3 `envelope`
(C01 C02 C03 C04 C05 C07 C09 C10 C20): one harness (go/cmd/hxenv, built with the virtual-clock
overlay), one model driver (md_envelope); each property looks at its own monitor verdicts and at
its own projection of the observation fields."""
import glob, os, re, bisect, subprocess
from verifpy.common import ROOT, BUILD, GO, case_of, sh, Lock

# observation fields whose disagreement concerns a property (see Driver/Envelope.lean)
FIELDS = {
    "C01": {"res"}, "C02": {"res", "calls", "rows"}, "C03": {"calls", "log"}, "C04": {"res", "rows"},
    "C05": {"res", "rows"}, "C07": {"res"}, "C09": {"sec"}, "C10": {"dirty"}, "C20": {"calls"},
}

def build_overlay(ctx, sync=False):
    ov = os.path.join(ctx.work, "overlay")
    with Lock("go-overlay"):
        rc, out = sh(["go", "build", "-o", os.path.join(BUILD, "overlay"), "./cmd/overlay"], cwd=GO, env=ctx.env)
    if rc != 0:
        ctx.corr_broken.append("overlay generator does not build:\n" + out[-2000:]); return None
    from verifpy.common import REPO
    rc, out = sh([os.path.join(BUILD, "overlay"), "-repo", REPO, "-out", ov] + (["-sync"] if sync else []), env=ctx.env)
    if rc != 0:
        ctx.corr_broken.append("overlay generation failed on the current tree (source shape changed):\n" + out[-2000:]); return None
    return os.path.join(ov, "overlay.json")

def analyse(ctx, prop, name, tr, summ, mism, mon, stats):
    lines = None
    fields = FIELDS[prop]
    for l in mon:
        m = re.match(r"MONITOR-FAIL line (\d+) prop=(\S+) (.*)$", l)
        if not m or m.group(2) != prop: continue
        ln = int(m.group(1))
        sig = re.search(r"signature=(\S+)", l)
        ctx.monitor_fail.append({"line": ln, "trace": tr, "what": l[:600], "signature": "envelope " + (("signature=" + sig.group(1)) if sig else "unsigned") + " " + m.group(3)[:200],
                                 "case": case_of(tr, ln, r"^new$")})
        if len(ctx.monitor_fail) > 40: break
    rel = []
    for l in mism:
        m = re.match(r"MISMATCH line (\d+) field=(\S+)", l)
        if m and (set(m.group(2).split(",")) & (fields | {"op", "shape"})):
            rel.append((int(m.group(1)), l))
    if rel and not any(mf.get('line') in [ln for ln, _ in rel] for mf in ctx.monitor_fail if mf.get('trace') == tr):
        ln, l = rel[0]
        ctx.corr_broken.append("%s: model and SDK disagree on %s-relevant fields in %d operation(s); first: %s\ncase:\n%s"
                               % (name, prop, len(rel), l[:700], case_of(tr, ln, r"^new$")))
    stats.append((name, summ))
    ctx.cov["evaluations"] += summ.get("ops", 0)
    ctx.cov["traces_validated_against_impl"] += summ.get("cases", 0)

def run(ctx, prop, modules, nontrivial_keys, quick=(1500, 50), thorough=(30000, 70), extra_runs=None, secret="fake", modes=((), ()), pre_finish=None):
    ctx.extract()
    ctx.prove(modules, namespaces=["AsherahVerif.Props." + prop])
    if ctx.tier == "thorough":
        ctx.leanchecker(modules)
    ok = ctx.build_driver("envelope")
    ov = build_overlay(ctx)
    hx = ctx.build_go("hxenv", overlay=ov) if ov else None
    stats = []
    if ok and hx:
        if ctx.replay:
            runs = [("replay", ["-mode", "replay", "-file", ctx.replay], {})]
        else:
            runs = [("corpus-" + os.path.basename(f), ["-mode", "replay", "-file", f], {})
                    for f in sorted(glob.glob(os.path.join(ROOT, "corpus", "envelope", "*.txt")))]
            n, ln = quick if ctx.tier == "quick" else thorough
            runs.append(("random", ["-mode", "random", "-cases", str(n), "-len", str(ln), "-secret", secret], {}))
            for r in (extra_runs or []): runs.append(r)
            for mname in (modes[0] if ctx.tier == "quick" else modes[1]):
                runs.append((mname, ["-mode", mname], {}))
        def do(runs, tag=""):
            for name, args, env in runs:
                tr = os.path.join(ctx.work, (tag + name).replace("/", "_") + ".trace")
                old = dict(ctx.env); ctx.env.update(env)
                okh = ctx.run_harness(hx, args, tr)
                ctx.env = old
                if not okh: continue
                summ, mism, mon = ctx.run_driver("envelope", tr)
                analyse(ctx, prop, tag + name, tr, summ, mism, mon, stats)
                if not ctx.cov["samples"] and name == "random":
                    ctx.cov["samples"] = open(tr).read().splitlines()[1:9]
        do(runs)
        # a broken obligation or correspondence without a concrete failing input: search harder
        if (ctx.proof_errors or ctx.corr_broken) and not ctx.monitor_fail and not ctx.replay:
            n, ln = (6000, 70) if ctx.tier == "quick" else (40000, 90)
            extra = [("search-seed%d" % sd, ["-mode", "random", "-cases", str(n), "-len", str(ln)], {"VERIF_SEED": str(ctx.seed * 1000 + sd)})
                     for sd in (1, 2, 3)]
            do(extra)
            ctx.notes["search"] = "ran %d extra seeded sweeps looking for a failing input" % len(extra)
    if ok and hx and not ctx.replay and prop in ("C01", "C02"):
        # time passing INSIDE operations (judged directly by the harness; the model's operations are instantaneous)
        tr = os.path.join(ctx.work, "ticks.out")
        if ctx.run_harness(hx, ["-mode", "ticks"], tr):
            lines = open(tr).read().splitlines()
            n = 0
            for i, l in enumerate(lines):
                if l.startswith("tick "):
                    n += 1
                    if "=> FAIL" in l:
                        hist = "\n".join(x[2:] for x in lines[i + 1:i + 40] if x.startswith("# ") and not x.startswith("# history"))
                        ctx.monitor_fail.append({"what": l[:400], "signature": "ticks " + l[:200],
                                                 "case": "# the clock jumps inside the marked external call (hxenv -mode ticks)\n" + l + "\n" + hist})
            ctx.notes["tick_cases"] = n
            ctx.cov["evaluations"] += n * 7
    nt = 0
    for _, s in stats:
        for k in nontrivial_keys: nt += s.get(k, 0)
    ctx.cov["distinct_nontrivial"] = nt
    ctx.cov["rule"] = ("cases = seeded random histories of fac/sess/enc/dec/cls/fcls/adv/rev/rowmut over 1-4 factories with random "
                       "policies (no-cache/simple/lru/lfu/slru/tinylfu caps 1-3, shared IK cache), 3 partitions, clock advances at the "
                       "revoke-interval and expiry boundaries, injected faults in half of the cases, record mutations; non-trivial for this "
                       "property = operations counted by the model driver under: " + ", ".join(nontrivial_keys))
    ctx.cov["runs"] = stats
    ctx.assumptions += [
        "symbolic crypto in the model (fresh names; a ciphertext opens exactly under its key): the byte-level AES-256-GCM facts are engine fmt (C18); AES-GCM ciphertext integrity is assumed",
        "cache keys modelled as (id, created) pairs (injectivity of the id++decimal(created) encoding: Props/C06)",
        "secret factory contract (New wipes its argument, closed secret => error) is the subject of C11/C12; the harness uses a heap-backed tracking factory",
        "sequential histories; concurrency is C08/C14/C16"]
    ctx.trusted += ["go/cmd/hxenv + go/cmd/overlay (virtual clock injected by build overlay) + Driver/Envelope.lean (differential correspondence through the public API)",
                    "Spec/EnvelopeMon.lean monitors executed on the implementation's observations"]
    if pre_finish: pre_finish(ctx)
    return ctx.finish(level="proof")
