"""Shared machinery of bin/check: building, proving, auditing, running the correspondence,
classifying the outcome, writing evidence and replays.  See DESIGN.md section 2.4."""
import fcntl, hashlib, json, os, re, shutil, subprocess, sys, time

ROOT = os.path.dirname(os.path.dirname(os.path.abspath(__file__)))
REPO = os.environ.get("VERIF_REPO", "/repo")
LEAN = os.path.join(ROOT, "lean")
GO = os.path.join(ROOT, "go")
BUILD = os.path.join(ROOT, "build")
DRIVER = os.path.join(LEAN, ".lake", "build", "bin", "modeldriver")
ALLOWED_AXIOMS = {"propext", "Classical.choice", "Quot.sound"}
FORBIDDEN = re.compile(r"\bsorry\b|(?:^|[;·]|\bby|<;>|=>)\s*admit\b|^\s*axiom\s|native_decide|bv_decide|implemented_by|\bunsafe\s|maxHeartbeats\s+0")


def go_env():
    e = dict(os.environ)
    e.update(GOFLAGS="-mod=mod", GOPROXY="off", GOSUMDB="off", GOTOOLCHAIN="local", CGO_ENABLED=e.get("CGO_ENABLED", "1"))
    return e


def sh(cmd, cwd=None, env=None, timeout=None, stdin=None, stdout=subprocess.PIPE):
    p = subprocess.run(cmd, cwd=cwd, env=env, timeout=timeout, stdin=stdin, stdout=stdout,
                       stderr=subprocess.STDOUT, text=True)
    return p.returncode, (p.stdout or "")


# extractor name -> the Generated modules it writes
GENERATED_BY = {"cache": ["CacheConst"], "sketch": ["Sketch"], "fmt": ["Fmt"], "keycache": ["KeyCacheFacts"], "kms": ["Kms"], "metastore": ["Metastore"],
                "partition": ["Partition"], "policy": ["Policy"], "secmem": ["SecMem"], "server": ["Server"], "sesscache": ["SessCacheFacts"]}


class Lock:
    """serialises Generated/ rewriting and lake builds across concurrently running checks"""
    def __init__(self, name="lake"):
        os.makedirs(BUILD, exist_ok=True)
        self.path = os.path.join(BUILD, name + ".lock")
    def __enter__(self):
        self.f = open(self.path, "w")
        fcntl.flock(self.f, fcntl.LOCK_EX)
        return self
    def __exit__(self, *a):
        fcntl.flock(self.f, fcntl.LOCK_UN)
        self.f.close()


def write_if_changed(path, content):
    try:
        if open(path).read() == content:
            return False
    except FileNotFoundError:
        pass
    os.makedirs(os.path.dirname(path), exist_ok=True)
    with open(path, "w") as f:
        f.write(content)
    return True


def strip_comments(src):
    """remove Lean comments (nested block comments and line comments) so audits ignore them"""
    out, i, depth, n = [], 0, 0, len(src)
    while i < n:
        if src.startswith("/-", i):
            depth += 1; i += 2; continue
        if depth and src.startswith("-/", i):
            depth -= 1; i += 2; continue
        if depth:
            if src[i] == "\n": out.append("\n")
            i += 1; continue
        if src.startswith("--", i):
            while i < n and src[i] != "\n": i += 1
            continue
        out.append(src[i]); i += 1
    return "".join(out)


class Ctx:
    def __init__(self, prop, tier, seed, replay=None):
        self.prop, self.tier, self.seed, self.replay = prop, tier, seed, replay
        self.t0 = time.time()
        self.work = os.path.join(BUILD, "run", "%s-%d" % (prop, os.getpid()))
        shutil.rmtree(self.work, ignore_errors=True)
        os.makedirs(self.work)
        self.obligations = []          # (name, axioms, ok)
        self.proof_errors = []         # broken obligations: text
        self.corr_broken = []          # correspondence disagreements (text)
        self.monitor_fail = []         # concrete failing inputs (dict: what, case)
        self.cov = {"evaluations": 0, "distinct_nontrivial": 0, "samples": [], "traces_validated_against_impl": 0}
        self.assumptions = []
        self.trusted = []
        self.notes = {}
        self.known_printed = []
        self.env = go_env()
        self.env["VERIF_SEED"] = str(seed)
        self.env["VERIF_TIER"] = tier

    # ---------- building -------------------------------------------------------------------
    def extract(self):
        """regenerate lean/AsherahVerif/Generated/*.lean from /repo's current working tree"""
        with Lock():
            rc, out = sh(["go", "build", "-o", os.path.join(BUILD, "extract"), "./cmd/extract"], cwd=GO, env=self.env)
            if rc != 0:
                self.proof_errors.append("extractor does not build:\n" + out[-2000:]); return False
            rc, out = sh([os.path.join(BUILD, "extract"), "-repo", REPO, "-out", os.path.join(LEAN, "AsherahVerif", "Generated")], env=self.env)
            self.extracted = True
            self.notes["extract"] = out.strip().splitlines()[-5:]
            if rc != 0:
                # an extractor that no longer finds what it reads (source shape changed) breaks the obligations
                # of the properties whose theorems import that engine's Generated module, and only those
                # (decided in `prove`, which knows the import closure)
                self.extract_failed = {}
                for l in out.splitlines():
                    m = re.match(r"extract (\w+): ERROR (.*)$", l)
                    if m: self.extract_failed[m.group(1)] = m.group(2)
                if not self.extract_failed:
                    self.proof_errors.append("extraction of facts from /repo failed:\n" + out[-3000:]); return False
            return True

    def _regen(self):
        """(lake lock held) rewrite Generated/ from THIS run's repository again: another check running
        concurrently against another tree (VERIF_REPO) may have rewritten it since `extract`"""
        if getattr(self, "extracted", False):
            sh([os.path.join(BUILD, "extract"), "-repo", REPO, "-out", os.path.join(LEAN, "AsherahVerif", "Generated")], env=self.env)

    def build_go(self, name, tags="verif", overlay=None):
        """build go/cmd/<name> against /repo's current working tree"""
        cmd = ["go", "build", "-tags", tags, "-o", os.path.join(BUILD, name)]
        if REPO != "/repo":
            # scratch copy of the repository (mutation testing / fix validation): alternate go.mod
            alt = os.path.join(self.work, "go.alt.mod")
            with open(alt, "w") as f:
                f.write(open(os.path.join(GO, "go.mod")).read().replace("=> /repo/", "=> " + REPO.rstrip("/") + "/"))
            shutil.copy(os.path.join(GO, "go.sum"), os.path.join(self.work, "go.alt.sum"))
            cmd += ["-modfile", alt]
            cmd[cmd.index("-o") + 1] = os.path.join(self.work, name)
        if overlay:
            cmd += ["-overlay", overlay]
        cmd += ["./cmd/" + name]
        with Lock("go-" + name):
            rc, out = sh(cmd, cwd=GO, env=self.env)
        if rc != 0:
            self.corr_broken.append("harness %s does not build against the current tree:\n%s" % (name, out[-3000:]))
            return None
        return cmd[cmd.index("-o") + 1]

    def lake(self, targets):
        with Lock():
            self._regen()
            rc, out = sh(["lake", "build"] + targets, cwd=LEAN)
        return rc, out

    def driver_path(self, engine):
        exe = "modeldriver" if engine == "cache" else "md_" + engine
        own = os.path.join(self.work, exe)          # private copy taken under the lake lock by build_driver
        return exe, own if os.path.exists(own) else os.path.join(LEAN, ".lake", "build", "bin", exe)

    def build_driver(self, engine="cache"):
        exe, _ = self.driver_path(engine)
        with Lock():
            self._regen()
            rc, out = sh(["lake", "build", exe], cwd=LEAN)
            if rc == 0:
                shutil.copy2(os.path.join(LEAN, ".lake", "build", "bin", exe), os.path.join(self.work, exe))
        if rc != 0:
            self.proof_errors.append("model driver %s does not build:\n%s" % (exe, out[-3000:]))
            return False
        return True

    # ---------- proof obligations -----------------------------------------------------------
    def prove(self, modules, namespaces=None):
        """lake build the property's modules, list every theorem with its axioms, grep-audit the sources.
        Each theorem in the property namespace is one obligation."""
        rc, out = self.lake(modules)
        if rc != 0:
            errs = [l for l in out.splitlines() if "error" in l][:20]
            self.proof_errors.append("lake build %s failed:\n%s" % (" ".join(modules), "\n".join(errs) or out[-2000:]))
            return False
        namespaces = namespaces or [m for m in modules]
        audit = os.path.join(self.work, "Audit.lean")
        with open(audit, "w") as f:
            for m in modules: f.write("import %s\n" % m)
            f.write("import AsherahVerif.Audit.Tool\n")
            for ns in namespaces: f.write("#audit_namespace %s\n" % ns)
        with Lock():
            self._regen()
            sh(["lake", "build", "AsherahVerif.Audit.Tool"] + modules, cwd=LEAN)
            rc, out = sh(["lake", "env", "lean", audit], cwd=LEAN)
        if rc != 0:
            self.proof_errors.append("axiom audit failed:\n" + out[-2000:]); return False
        ok = True
        for line in out.splitlines():
            m = re.search(r"AXIOMS (\S+) : (.*)$", line)
            if not m: continue
            name = m.group(1)
            axs = [a.strip() for a in m.group(2).split(",") if a.strip()]
            good = all(a in ALLOWED_AXIOMS for a in axs)
            self.obligations.append((name, axs, good))
            if not good:
                ok = False
                self.proof_errors.append("theorem %s depends on disallowed axioms %s" % (name, axs))
        if not self.obligations:
            ok = False; self.proof_errors.append("no theorems found in %s" % namespaces)
        # grep audit over every source file the property's modules import, transitively (comments stripped)
        seen, todo = set(), list(modules)
        while todo:
            m = todo.pop()
            if m in seen or not m.startswith("AsherahVerif"): continue
            seen.add(m)
            fn = os.path.join(LEAN, *m.split(".")) + ".lean"
            try:
                src = strip_comments(open(fn).read())
            except FileNotFoundError:
                continue
            for i, l in enumerate(src.splitlines(), 1):
                mm = re.match(r"\s*import\s+(\S+)", l)
                if mm: todo.append(mm.group(1))
                if "Audit" not in fn and FORBIDDEN.search(l):
                    ok = False
                    self.proof_errors.append("forbidden construct in %s:%d: %s" % (os.path.basename(fn), i, l.strip()[:120]))
        self.notes["audited_files"] = len(seen)
        for eng, msg in getattr(self, "extract_failed", {}).items():
            if any(m == "AsherahVerif.Generated." + g for m in seen for g in GENERATED_BY.get(eng, [eng])):
                ok = False
                self.proof_errors.append("extraction of the %s facts from /repo failed (source shape changed): %s" % (eng, msg))
        self.trusted += ["Lean 4.33.0 kernel", "axioms used: " + ", ".join(sorted({a for _, axs, _ in self.obligations for a in axs}) or ["none"])]
        return ok

    def leanchecker(self, modules):
        with Lock():
            self._regen()
            sh(["lake", "build"] + modules, cwd=LEAN)
            rc, out = sh(["lake", "env", "leanchecker"] + modules, cwd=LEAN, timeout=1800)
        self.notes["leanchecker"] = "ok" if rc == 0 else out[-500:]
        if rc != 0:
            self.proof_errors.append("leanchecker rejected the compiled modules:\n" + out[-1500:])
        return rc == 0

    # ---------- correspondence --------------------------------------------------------------
    def run_harness(self, binary, args, trace, timeout=3000):
        if self.tier == "quick": timeout = min(timeout, 900)     # a tree that makes the SDK hang must not stall the quick tier
        with open(trace, "w") as f:
            try:
                p = subprocess.run([binary] + args, stdout=f, stderr=subprocess.PIPE, env=self.env, timeout=timeout, text=True)
            except subprocess.TimeoutExpired:
                self.corr_broken.append("harness %s timed out" % os.path.basename(binary)); return False
        if p.returncode != 0:
            self.corr_broken.append("harness %s exited %d: %s" % (os.path.basename(binary), p.returncode, p.stderr[-2000:]))
            return False
        return True

    def run_driver(self, engine, trace, timeout=3000):
        """returns (summary dict, mismatch lines, monitor-fail lines)"""
        with open(trace) as f:
            try:
                drv = self.driver_path(engine)[1]
                p = subprocess.run([drv] + ([engine] if engine == "cache" else list(getattr(self, "driver_args", []))), stdin=f, stdout=subprocess.PIPE, stderr=subprocess.PIPE, text=True, timeout=timeout)
            except subprocess.TimeoutExpired:
                self.corr_broken.append("model driver timed out on %s" % trace); return {}, [], []
        if p.returncode != 0:
            self.corr_broken.append("model driver exited %d: %s" % (p.returncode, p.stderr[-1000:]))
            return {}, [], []
        summ, mism, mon = {}, [], []
        self.last_notes = [l for l in p.stdout.splitlines() if l.startswith("NOTE")]
        for l in p.stdout.splitlines():
            if l.startswith("SUMMARY"):
                for kv in l.split()[1:]:
                    k, _, v = kv.partition("=")
                    summ[k] = int(v) if v.lstrip("-").isdigit() else v
            elif l.startswith("MISMATCH"): mism.append(l)
            elif l.startswith("MONITOR-FAIL"): mon.append(l)
        if not summ:
            self.corr_broken.append("model driver produced no summary for %s" % trace)
        return summ, mism, mon

    # ---------- verdict ---------------------------------------------------------------------
    def known_findings(self):
        try:
            kf = json.load(open(os.path.join(ROOT, "known_findings.json")))
        except FileNotFoundError:
            return []
        return [k for k in kf.get("findings", []) if k.get("property") == self.prop]

    def write_replay(self, name, payload):
        d = os.path.join(ROOT, "replays"); os.makedirs(d, exist_ok=True)
        path = os.path.join(d, "%s-%s.txt" % (self.prop, name))
        with open(path, "w") as f:
            f.write(payload if isinstance(payload, str) else json.dumps(payload, indent=1))
        return path

    def finish(self, level="proof", checker_cmd=None, extra_cov=None):
        """classify, print VIOLATION / KNOWN-FINDING lines, write evidence, return the exit code"""
        violations = 0
        lines = []
        known = self.known_findings()
        # concrete failing inputs first
        unlisted = []
        for mf in self.monitor_fail:
            hit = None
            for k in known:
                if re.search(k["matches"], mf.get("signature", "") + "\n" + mf.get("case", "")):
                    hit = k; break
            if hit:
                msg = "KNOWN-FINDING: property=%s %s" % (self.prop, hit["what"])
                if msg not in self.known_printed:
                    self.known_printed.append(msg)
            else:
                unlisted.append(mf)
        for msg in self.known_printed: print(msg)
        if unlisted:
            mf = unlisted[0]
            path = self.write_replay("violation", "# %s\n# %s\n%s\n" % (self.prop, mf.get("what", ""), mf.get("case", "")))
            print("VIOLATION property=%s replay=%s" % (self.prop, path))
            violations = len(unlisted)
        elif self.proof_errors or self.corr_broken:
            body = "# %s: no concrete failing input was found; what no longer checks:\n" % self.prop
            for e in self.proof_errors: body += "PROOF-OBLIGATION: " + e + "\n"
            for e in self.corr_broken: body += "CORRESPONDENCE: " + e + "\n"
            path = self.write_replay("unchecked", body)
            print("VIOLATION property=%s replay=%s no-failing-input-found" % (self.prop, path))
            violations = 1
        discharged = sum(1 for _, _, g in self.obligations if g) if not any("lake build" in e for e in self.proof_errors) else 0
        cov = dict(self.cov)
        cov.update({
            "obligations": max(len(self.obligations), 1),
            "discharged": discharged,
            "checker_cmd": checker_cmd or "lake build AsherahVerif.Props.%s && #audit_namespace (axioms) && grep audit" % self.prop,
            "trusted_base": self.trusted,
            "theorems": [{"name": n, "axioms": a} for n, a, _ in self.obligations],
            "proof_errors": self.proof_errors[:10],
            "correspondence_broken": self.corr_broken[:10],
            "notes": self.notes,
        })
        if extra_cov: cov.update(extra_cov)
        cov["samples"] = cov["samples"][:8] or ["(no case was run)"]
        ev = {"property_id": self.prop, "tier": self.tier, "seed": self.seed, "level": level, "coverage": cov,
              "assumptions": self.assumptions, "wall_s": round(time.time() - self.t0, 2), "violations": violations,
              "known_findings_reproduced": self.known_printed}
        os.makedirs(os.path.join(ROOT, "evidence"), exist_ok=True)
        with open(os.path.join(ROOT, "evidence", self.prop + ".json"), "w") as f:
            json.dump(ev, f, indent=1)
        if not os.environ.get("VERIF_KEEP"):
            shutil.rmtree(self.work, ignore_errors=True)
        return 1 if violations else 0


def case_of(trace_path, lineno, start_re=r"^new "):
    """the operation lines of the case containing 1-based line `lineno` (from its `new` line up to that line)"""
    lines = open(trace_path).read().splitlines()
    i = min(lineno, len(lines)) - 1
    s = i
    while s > 0 and not re.match(start_re, lines[s]): s -= 1
    return "\n".join(lines[s:i + 1])
