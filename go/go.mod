module verifharness

go 1.23.0

require (
	github.com/godaddy/asherah/go/appencryption v0.7.1
	github.com/godaddy/asherah/go/securememory v0.1.6
	github.com/godaddy/asherah/server/go v0.0.0
)

replace github.com/godaddy/asherah/go/appencryption => /repo/go/appencryption

replace github.com/godaddy/asherah/go/securememory => /repo/go/securememory

replace github.com/godaddy/asherah/server/go => /repo/server/go
