module verifharness

go 1.23.0

require (
	github.com/aws/aws-sdk-go v1.55.6
	github.com/aws/aws-sdk-go-v2 v1.36.3
	github.com/aws/aws-sdk-go-v2/feature/dynamodb/attributevalue v1.18.12
	github.com/aws/aws-sdk-go-v2/service/dynamodb v1.42.4
	github.com/aws/aws-sdk-go-v2/service/kms v1.38.3
	github.com/aws/smithy-go v1.22.2
	github.com/godaddy/asherah/go/appencryption v0.7.1
	github.com/godaddy/asherah/go/securememory v0.1.6
	github.com/godaddy/asherah/server/go v0.0.0
	github.com/golang/protobuf v1.5.4
	google.golang.org/grpc v1.71.1
	google.golang.org/protobuf v1.36.4
)

require (
	filippo.io/edwards25519 v1.1.0 // indirect
	github.com/awnumar/memcall v0.4.0 // indirect
	github.com/awnumar/memguard v0.22.5 // indirect
	github.com/aws/aws-sdk-go-v2/config v1.29.14 // indirect
	github.com/aws/aws-sdk-go-v2/credentials v1.17.67 // indirect
	github.com/aws/aws-sdk-go-v2/feature/dynamodb/expression v1.7.79 // indirect
	github.com/aws/aws-sdk-go-v2/feature/ec2/imds v1.16.30 // indirect
	github.com/aws/aws-sdk-go-v2/internal/configsources v1.3.34 // indirect
	github.com/aws/aws-sdk-go-v2/internal/endpoints/v2 v2.6.34 // indirect
	github.com/aws/aws-sdk-go-v2/internal/ini v1.8.3 // indirect
	github.com/aws/aws-sdk-go-v2/service/dynamodbstreams v1.25.3 // indirect
	github.com/aws/aws-sdk-go-v2/service/internal/accept-encoding v1.12.3 // indirect
	github.com/aws/aws-sdk-go-v2/service/internal/endpoint-discovery v1.10.15 // indirect
	github.com/aws/aws-sdk-go-v2/service/internal/presigned-url v1.12.15 // indirect
	github.com/aws/aws-sdk-go-v2/service/sso v1.25.3 // indirect
	github.com/aws/aws-sdk-go-v2/service/ssooidc v1.30.1 // indirect
	github.com/aws/aws-sdk-go-v2/service/sts v1.33.19 // indirect
	github.com/go-sql-driver/mysql v1.9.2 // indirect
	github.com/jmespath/go-jmespath v0.4.0 // indirect
	github.com/pkg/errors v0.9.1 // indirect
	github.com/rcrowley/go-metrics v0.0.0-20201227073835-cf1acfcdf475 // indirect
	golang.org/x/crypto v0.35.0 // indirect
	golang.org/x/net v0.36.0 // indirect
	golang.org/x/sys v0.32.0 // indirect
	golang.org/x/text v0.22.0 // indirect
	google.golang.org/genproto v0.0.0-20230410155749-daa745c078e1 // indirect
)

replace github.com/godaddy/asherah/go/appencryption => /repo/go/appencryption

replace github.com/godaddy/asherah/go/securememory => /repo/go/securememory

replace github.com/godaddy/asherah/server/go => /repo/server/go
