// Package prng is the single source of randomness of the harness: splitmix64, seeded by VERIF_SEED.
package prng

import (
	"os"
	"strconv"
)

type R struct{ s uint64 }

// New scrambles the seed first: with a linear initial state, neighbouring seeds would produce the
// same stream shifted by one step (splitmix64's state is a counter).
func New(seed uint64) *R {
	z := seed + 0x1234567
	z = (z ^ (z >> 33)) * 0xFF51AFD7ED558CCD
	z = (z ^ (z >> 33)) * 0xC4CEB9FE1A85EC53
	z ^= z >> 33
	return &R{s: z}
}

// FromEnv seeds from VERIF_SEED (default 1) mixed with a per-engine salt.
func FromEnv(salt uint64) *R { return New(Seed() ^ (salt << 32)) }

func Seed() uint64 {
	if v, err := strconv.ParseUint(os.Getenv("VERIF_SEED"), 10, 64); err == nil {
		return v
	}
	return 1
}

func (r *R) U64() uint64 {
	r.s += 0x9E3779B97F4A7C15
	z := r.s
	z = (z ^ (z >> 30)) * 0xBF58476D1CE4E5B9
	z = (z ^ (z >> 27)) * 0x94D049BB133111EB
	return z ^ (z >> 31)
}

// Intn returns a value in [0,n).
func (r *R) Intn(n int) int {
	if n <= 0 {
		return 0
	}
	return int(r.U64() % uint64(n))
}

func (r *R) Bool() bool { return r.U64()&1 == 1 }

func (r *R) Bytes(n int) []byte {
	b := make([]byte, n)
	for i := range b {
		b[i] = byte(r.U64())
	}
	return b
}

// Pick returns one of the weighted alternatives: weights w[i] select index i.
func (r *R) Pick(w ...int) int {
	t := 0
	for _, x := range w {
		t += x
	}
	v := r.Intn(t)
	for i, x := range w {
		if v < x {
			return i
		}
		v -= x
	}
	return len(w) - 1
}
