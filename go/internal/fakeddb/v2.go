package fakeddb

import (
	"context"
	"fmt"
	"strings"

	"github.com/aws/aws-sdk-go-v2/aws"
	"github.com/aws/aws-sdk-go-v2/service/dynamodb"
	"github.com/aws/aws-sdk-go-v2/service/dynamodb/types"
)

// V2 adapts DB to the aws-sdk-go-v2 client interface used by plugins/aws-v2/dynamodb/metastore.
type V2 struct {
	DB      *DB
	Region  string
	LastReq []string
}

func (c *V2) Take() string {
	s := strings.Join(c.LastReq, ";")
	c.LastReq = nil
	if s == "" {
		return "-"
	}
	return s
}

func (c *V2) Options() dynamodb.Options { return dynamodb.Options{Region: c.Region} }

func fromV2(a types.AttributeValue) AV {
	switch t := a.(type) {
	case nil:
		return AV{Kind: "NIL"}
	case *types.AttributeValueMemberS:
		return AV{Kind: "S", S: t.Value}
	case *types.AttributeValueMemberN:
		return AV{Kind: "N", S: t.Value}
	case *types.AttributeValueMemberBOOL:
		return AV{Kind: "BOOL", Bool: t.Value}
	case *types.AttributeValueMemberNULL:
		return AV{Kind: "NULL"}
	case *types.AttributeValueMemberM:
		return AV{Kind: "M", M: fromV2Map(t.Value)}
	case *types.AttributeValueMemberL:
		var l []AV
		for _, x := range t.Value {
			l = append(l, fromV2(x))
		}
		return AV{Kind: "L", L: l}
	case *types.AttributeValueMemberB:
		return AV{Kind: "B", S: string(t.Value)}
	}
	return AV{Kind: "SET", S: fmt.Sprintf("%T", a)}
}

func fromV2Map(m map[string]types.AttributeValue) Item {
	if m == nil {
		return nil
	}
	out := Item{}
	for k, v := range m {
		out[k] = fromV2(v)
	}
	return out
}

func toV2(a AV) types.AttributeValue {
	switch a.Kind {
	case "S":
		return &types.AttributeValueMemberS{Value: a.S}
	case "N":
		return &types.AttributeValueMemberN{Value: a.S}
	case "BOOL":
		return &types.AttributeValueMemberBOOL{Value: a.Bool}
	case "NULL":
		return &types.AttributeValueMemberNULL{Value: true}
	case "M":
		return &types.AttributeValueMemberM{Value: toV2Map(a.M)}
	case "L":
		l := []types.AttributeValue{}
		for _, x := range a.L {
			l = append(l, toV2(x))
		}
		return &types.AttributeValueMemberL{Value: l}
	case "B":
		return &types.AttributeValueMemberB{Value: []byte(a.S)}
	}
	return &types.AttributeValueMemberNULL{Value: true}
}

func toV2Map(m Item) map[string]types.AttributeValue {
	out := map[string]types.AttributeValue{}
	for k, v := range m {
		out[k] = toV2(v)
	}
	return out
}

func errV2(e *Err) error {
	if e == nil {
		return nil
	}
	switch e.Code {
	case CondFailed:
		return &types.ConditionalCheckFailedException{Message: aws.String(e.Msg)}
	case NotFound:
		return &types.ResourceNotFoundException{Message: aws.String(e.Msg)}
	case Internal:
		return &types.InternalServerError{Message: aws.String(e.Msg)}
	case Transport:
		return fmt.Errorf("%s: injected transport failure: %w", Transport, context.DeadlineExceeded)
	}
	return fmt.Errorf("%s: %s", e.Code, e.Msg)
}

func pInt32(p *int32) (string, *int64) {
	if p == nil {
		return "nil", nil
	}
	v := int64(*p)
	return fmt.Sprint(*p), &v
}

func (c *V2) PutItem(_ context.Context, in *dynamodb.PutItemInput, _ ...func(*dynamodb.Options)) (*dynamodb.PutItemOutput, error) {
	c.LastReq = append(c.LastReq, fmt.Sprintf("put|table=%s|cond=%s|names=%s|item=%s", PStr(in.TableName), PStr(in.ConditionExpression),
		NamesString(in.ExpressionAttributeNames), ItemString(fromV2Map(in.Item))))
	if e := c.DB.Put(in.TableName, fromV2Map(in.Item), in.ConditionExpression, in.ExpressionAttributeNames); e != nil {
		return nil, errV2(e)
	}
	return &dynamodb.PutItemOutput{}, nil
}

func (c *V2) GetItem(_ context.Context, in *dynamodb.GetItemInput, _ ...func(*dynamodb.Options)) (*dynamodb.GetItemOutput, error) {
	c.LastReq = append(c.LastReq, fmt.Sprintf("get|table=%s|key=%s|consistent=%s|proj=%s|names=%s", PStr(in.TableName),
		ItemString(fromV2Map(in.Key)), PBool(in.ConsistentRead), PStr(in.ProjectionExpression), NamesString(in.ExpressionAttributeNames)))
	it, e := c.DB.Get(in.TableName, fromV2Map(in.Key), in.ConsistentRead, in.ProjectionExpression, in.ExpressionAttributeNames)
	if e != nil {
		return nil, errV2(e)
	}
	if it == nil {
		return &dynamodb.GetItemOutput{}, nil
	}
	return &dynamodb.GetItemOutput{Item: toV2Map(it)}, nil
}

func (c *V2) Query(_ context.Context, in *dynamodb.QueryInput, _ ...func(*dynamodb.Options)) (*dynamodb.QueryOutput, error) {
	ls, lim := pInt32(in.Limit)
	c.LastReq = append(c.LastReq, fmt.Sprintf("query|table=%s|keycond=%s|names=%s|values=%s|consistent=%s|forward=%s|limit=%s|proj=%s",
		PStr(in.TableName), PStr(in.KeyConditionExpression), NamesString(in.ExpressionAttributeNames),
		ItemString(fromV2Map(in.ExpressionAttributeValues)), PBool(in.ConsistentRead), PBool(in.ScanIndexForward), ls,
		PStr(in.ProjectionExpression)))
	items, e := c.DB.Query(in.TableName, in.KeyConditionExpression, in.ExpressionAttributeNames, fromV2Map(in.ExpressionAttributeValues),
		in.ConsistentRead, in.ScanIndexForward, lim, in.ProjectionExpression)
	if e != nil {
		return nil, errV2(e)
	}
	out := &dynamodb.QueryOutput{Items: []map[string]types.AttributeValue{}, Count: int32(len(items))}
	for _, it := range items {
		out.Items = append(out.Items, toV2Map(it))
	}
	return out, nil
}
