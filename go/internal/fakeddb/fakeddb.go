// Package fakeddb is a semantic fake of the part of Amazon DynamoDB the asherah metastores use,
// implemented from the service documentation (PutItem with ConditionExpression, GetItem, Query;
// composite primary key; ConsistentRead; ScanIndexForward; Limit; ProjectionExpression;
// ExpressionAttributeNames/Values).  It mirrors lean/AsherahVerif/Model/Metastore.lean (`Ddb`).
//
// State = the history of accepted writes.  A strongly consistent read sees the table after all
// writes; an eventually consistent read (ConsistentRead absent or false) sees the table after the
// first len-lag writes, where lag is set by the harness ("any earlier state").
//
// SDK independent: adapters for the aws-sdk-go (v1) and aws-sdk-go-v2 client interfaces live in
// v1.go and v2.go and only convert attribute values, record the canonical request, and map errors.
package fakeddb

import (
	"fmt"
	"math/big"
	"sort"
	"strings"
)

// AV is an SDK independent attribute value.
type AV struct {
	Kind string // S N B BOOL NULL M L SET
	S    string // S, N (decimal text), B (raw bytes), SET (printed)
	Bool bool
	M    map[string]AV
	L    []AV
}

type Item = map[string]AV

func hexs(s string) string { return fmt.Sprintf("x%x", s) }

// String is the canonical printing (map keys sorted, strings hex) used in observations.
func (a AV) String() string {
	switch a.Kind {
	case "S":
		return "S(" + hexs(a.S) + ")"
	case "N":
		return "N(" + a.S + ")"
	case "B":
		return "B(" + hexs(a.S) + ")"
	case "BOOL":
		if a.Bool {
			return "BOOL(true)"
		}
		return "BOOL(false)"
	case "NULL":
		return "NULL"
	case "M":
		return "M" + ItemString(a.M)
	case "L":
		var p []string
		for _, x := range a.L {
			p = append(p, x.String())
		}
		return "L[" + strings.Join(p, ",") + "]"
	}
	return "?" + a.Kind + "(" + a.S + ")"
}

func ItemString(m Item) string {
	if m == nil {
		return "nil"
	}
	ks := make([]string, 0, len(m))
	for k := range m {
		ks = append(ks, k)
	}
	sort.Strings(ks)
	var p []string
	for _, k := range ks {
		p = append(p, k+":"+m[k].String())
	}
	return "{" + strings.Join(p, ",") + "}"
}

func NamesString(m map[string]string) string {
	if m == nil {
		return "nil"
	}
	ks := make([]string, 0, len(m))
	for k := range m {
		ks = append(ks, k)
	}
	sort.Strings(ks)
	var p []string
	for _, k := range ks {
		p = append(p, k+":"+m[k])
	}
	return "{" + strings.Join(p, ",") + "}"
}

// Error kinds (mapped to SDK errors by the adapters).
type Err struct {
	Code string // ConditionalCheckFailedException | ResourceNotFoundException | ValidationException | InternalServerError
	Msg  string
}

func (e *Err) Error() string { return e.Code + ": " + e.Msg }

const (
	CondFailed = "ConditionalCheckFailedException"
	NotFound   = "ResourceNotFoundException"
	Validation = "ValidationException"
	Internal   = "InternalServerError"
	Transport  = "TransportFailure" // not an API error: surfaces as a plain error value
)

// Table has the documented key schema: hash key (string), range key (number).
type Table struct {
	Name     string
	HashKey  string
	RangeKey string
	History  []Item // accepted writes, in order
}

type DB struct {
	Tables    map[string]*Table
	Lag       int  // eventually consistent reads see the state Lag writes ago
	FailNext  bool // the next request is answered InternalServerError
	FailPlain bool // ... or fails below the API level: a plain Go error (timeout / circuit breaker wrapper), no error code
	StaleUsed int  // number of reads actually answered from an older snapshot
}

func New() *DB { return &DB{Tables: map[string]*Table{}} }

func (d *DB) CreateTable(name, hash, rng string) {
	d.Tables[name] = &Table{Name: name, HashKey: hash, RangeKey: rng}
}

type pk struct {
	h string
	r string // canonical number
}

func canonNum(s string) (string, *big.Rat, bool) {
	r, ok := new(big.Rat).SetString(s)
	if !ok {
		return "", nil, false
	}
	return r.RatString(), r, true
}

func (t *Table) keyOf(it Item) (pk, *big.Rat, *Err) {
	h, ok := it[t.HashKey]
	if !ok || h.Kind != "S" {
		return pk{}, nil, &Err{Validation, "missing or mistyped hash key " + t.HashKey}
	}
	if h.S == "" {
		return pk{}, nil, &Err{Validation, "empty hash key"}
	}
	r, ok := it[t.RangeKey]
	if !ok || r.Kind != "N" {
		return pk{}, nil, &Err{Validation, "missing or mistyped range key " + t.RangeKey}
	}
	c, rat, ok := canonNum(r.S)
	if !ok {
		return pk{}, nil, &Err{Validation, "range key is not a number"}
	}
	return pk{h.S, c}, rat, nil
}

// replay builds the table contents after the first n writes (a put of an existing key replaces).
func (t *Table) replay(n int) []Item {
	var out []Item
	idx := map[pk]int{}
	for _, it := range t.History[:n] {
		k, _, _ := t.keyOf(it)
		if i, ok := idx[k]; ok {
			out[i] = it
		} else {
			idx[k] = len(out)
			out = append(out, it)
		}
	}
	return out
}

func (d *DB) view(t *Table, consistent bool) []Item {
	n := len(t.History)
	if !consistent {
		m := n - d.Lag
		if m < 0 {
			m = 0
		}
		if m != n {
			d.StaleUsed++
		}
		n = m
	}
	return t.replay(n)
}

func (d *DB) table(name *string) (*Table, *Err) {
	if d.FailNext {
		d.FailNext = false
		if d.FailPlain {
			d.FailPlain = false
			return nil, &Err{Transport, "injected"}
		}
		return nil, &Err{Internal, "injected"}
	}
	if name == nil {
		return nil, &Err{Validation, "TableName is required"}
	}
	t, ok := d.Tables[*name]
	if !ok {
		return nil, &Err{NotFound, "table " + *name}
	}
	return t, nil
}

func resolveName(tok string, names map[string]string) (string, *Err) {
	tok = strings.TrimSpace(tok)
	if strings.HasPrefix(tok, "#") {
		n, ok := names[tok]
		if !ok {
			return "", &Err{Validation, "undefined attribute name " + tok}
		}
		return n, nil
	}
	if tok == "" || strings.ContainsAny(tok, " ():=<>,") {
		return "", &Err{Validation, "bad attribute path " + tok}
	}
	return tok, nil
}

// condition evaluates the supported subset: attribute_not_exists(path) | attribute_exists(path).
func condition(expr string, names map[string]string, existing Item) (bool, *Err) {
	e := strings.TrimSpace(expr)
	for _, fn := range []string{"attribute_not_exists", "attribute_exists"} {
		if strings.HasPrefix(e, fn+"(") && strings.HasSuffix(e, ")") {
			p, err := resolveName(e[len(fn)+1:len(e)-1], names)
			if err != nil {
				return false, err
			}
			_, has := existing[p] // existing == nil: no item with this primary key
			if fn == "attribute_exists" {
				return has, nil
			}
			return !has, nil
		}
	}
	return false, &Err{Validation, "unsupported ConditionExpression " + expr}
}

// Put implements PutItem.
func (d *DB) Put(table *string, item Item, cond *string, names map[string]string) *Err {
	t, err := d.table(table)
	if err != nil {
		return err
	}
	k, _, err := t.keyOf(item)
	if err != nil {
		return err
	}
	if cond != nil {
		var existing Item
		for _, it := range t.replay(len(t.History)) { // conditions are evaluated on the current item
			if k2, _, _ := t.keyOf(it); k2 == k {
				existing = it
			}
		}
		ok, err := condition(*cond, names, existing)
		if err != nil {
			return err
		}
		if !ok {
			return &Err{CondFailed, "The conditional request failed"}
		}
	}
	t.History = append(t.History, item)
	return nil
}

func project(it Item, proj *string, names map[string]string) (Item, *Err) {
	if proj == nil {
		return it, nil
	}
	out := Item{}
	for _, p := range strings.Split(*proj, ",") {
		n, err := resolveName(p, names)
		if err != nil {
			return nil, err
		}
		if v, ok := it[n]; ok {
			out[n] = v
		}
	}
	return out, nil
}

// Get implements GetItem; a nil result item means "no such item".
func (d *DB) Get(table *string, key Item, consistent *bool, proj *string, names map[string]string) (Item, *Err) {
	t, err := d.table(table)
	if err != nil {
		return nil, err
	}
	if len(key) != 2 {
		return nil, &Err{Validation, "key must have exactly the two schema attributes"}
	}
	k, _, err := t.keyOf(key)
	if err != nil {
		return nil, err
	}
	for _, it := range d.view(t, consistent != nil && *consistent) {
		if k2, _, _ := t.keyOf(it); k2 == k {
			return project(it, proj, names)
		}
	}
	return nil, nil
}

// Query implements Query for a key condition `<hash> = :v`.
func (d *DB) Query(table *string, keyCond *string, names map[string]string, values Item, consistent *bool,
	forward *bool, limit *int64, proj *string) ([]Item, *Err) {
	t, err := d.table(table)
	if err != nil {
		return nil, err
	}
	if keyCond == nil {
		return nil, &Err{Validation, "KeyConditionExpression is required"}
	}
	if limit != nil && *limit < 1 {
		return nil, &Err{Validation, "Limit must be >= 1"}
	}
	var hashV *AV
	var rangeV *AV
	{
		// supported: `<hash key> = :value` (exactly what the metastores send; mirrors the Lean model)
		lr := strings.Split(*keyCond, " = ")
		if len(lr) != 2 {
			return nil, &Err{Validation, "unsupported KeyConditionExpression " + *keyCond}
		}
		n, err := resolveName(lr[0], names)
		if err != nil {
			return nil, err
		}
		v, ok := values[strings.TrimSpace(lr[1])]
		if !ok {
			return nil, &Err{Validation, "undefined value " + lr[1]}
		}
		if n != t.HashKey {
			return nil, &Err{Validation, "key condition must test the hash key, not " + n}
		}
		hashV = &v
	}
	if hashV == nil || hashV.Kind != "S" {
		return nil, &Err{Validation, "key condition must test the hash key for equality with a string"}
	}
	type row struct {
		it Item
		r  *big.Rat
	}
	var rows []row
	for _, it := range d.view(t, consistent != nil && *consistent) {
		k, rat, _ := t.keyOf(it)
		if k.h != hashV.S {
			continue
		}
		if rangeV != nil {
			c, _, ok := canonNum(rangeV.S)
			if rangeV.Kind != "N" || !ok {
				return nil, &Err{Validation, "range key condition value must be a number"}
			}
			if c != k.r {
				continue
			}
		}
		rows = append(rows, row{it, rat})
	}
	asc := forward == nil || *forward
	sort.SliceStable(rows, func(i, j int) bool {
		c := rows[i].r.Cmp(rows[j].r)
		if asc {
			return c < 0
		}
		return c > 0
	})
	if limit != nil && int64(len(rows)) > *limit {
		rows = rows[:*limit]
	}
	out := []Item{}
	for _, r := range rows {
		p, err := project(r.it, proj, names)
		if err != nil {
			return nil, err
		}
		out = append(out, p)
	}
	return out, nil
}

func PBool(p *bool) string {
	if p == nil {
		return "nil"
	}
	if *p {
		return "true"
	}
	return "false"
}

func PStr(p *string) string {
	if p == nil {
		return "nil"
	}
	return *p
}
