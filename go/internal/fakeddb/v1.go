package fakeddb

import (
	"context"
	"fmt"
	"strings"

	"github.com/aws/aws-sdk-go/aws"
	"github.com/aws/aws-sdk-go/aws/request"
	"github.com/aws/aws-sdk-go/service/dynamodb"
)

// V1 adapts DB to the aws-sdk-go (v1) client interface used by plugins/aws-v1/persistence.
type V1 struct {
	DB      *DB
	LastReq []string // canonical requests seen since the last Take
}

func (c *V1) Take() string {
	s := strings.Join(c.LastReq, ";")
	c.LastReq = nil
	if s == "" {
		return "-"
	}
	return s
}

func fromV1(a *dynamodb.AttributeValue) AV {
	switch {
	case a == nil:
		return AV{Kind: "NIL"}
	case a.S != nil:
		return AV{Kind: "S", S: *a.S}
	case a.N != nil:
		return AV{Kind: "N", S: *a.N}
	case a.BOOL != nil:
		return AV{Kind: "BOOL", Bool: *a.BOOL}
	case a.NULL != nil:
		return AV{Kind: "NULL"}
	case a.M != nil:
		return AV{Kind: "M", M: fromV1Map(a.M)}
	case a.L != nil:
		var l []AV
		for _, x := range a.L {
			l = append(l, fromV1(x))
		}
		return AV{Kind: "L", L: l}
	case a.B != nil:
		return AV{Kind: "B", S: string(a.B)}
	}
	return AV{Kind: "SET", S: strings.Join(strings.Fields(a.String()), "")}
}

func fromV1Map(m map[string]*dynamodb.AttributeValue) Item {
	if m == nil {
		return nil
	}
	out := Item{}
	for k, v := range m {
		out[k] = fromV1(v)
	}
	return out
}

func toV1(a AV) *dynamodb.AttributeValue {
	switch a.Kind {
	case "S":
		return &dynamodb.AttributeValue{S: aws.String(a.S)}
	case "N":
		return &dynamodb.AttributeValue{N: aws.String(a.S)}
	case "BOOL":
		return &dynamodb.AttributeValue{BOOL: aws.Bool(a.Bool)}
	case "NULL":
		return &dynamodb.AttributeValue{NULL: aws.Bool(true)}
	case "M":
		return &dynamodb.AttributeValue{M: toV1Map(a.M)}
	case "L":
		l := []*dynamodb.AttributeValue{}
		for _, x := range a.L {
			l = append(l, toV1(x))
		}
		return &dynamodb.AttributeValue{L: l}
	case "B":
		return &dynamodb.AttributeValue{B: []byte(a.S)}
	}
	return &dynamodb.AttributeValue{}
}

func toV1Map(m Item) map[string]*dynamodb.AttributeValue {
	out := map[string]*dynamodb.AttributeValue{}
	for k, v := range m {
		out[k] = toV1(v)
	}
	return out
}

func namesV1(m map[string]*string) map[string]string {
	if m == nil {
		return nil
	}
	out := map[string]string{}
	for k, v := range m {
		out[k] = PStr(v)
	}
	return out
}

func errV1(e *Err) error {
	if e == nil {
		return nil
	}
	switch e.Code {
	case CondFailed:
		return &dynamodb.ConditionalCheckFailedException{Message_: aws.String(e.Msg)}
	case NotFound:
		return &dynamodb.ResourceNotFoundException{Message_: aws.String(e.Msg)}
	case Internal:
		return &dynamodb.InternalServerError{Message_: aws.String(e.Msg)}
	case Transport:
		return fmt.Errorf("%s: injected transport failure: %w", Transport, context.DeadlineExceeded)
	}
	return fmt.Errorf("%s: %s", e.Code, e.Msg) // ValidationException has no modelled type in v1
}

func pInt64(p *int64) string {
	if p == nil {
		return "nil"
	}
	return fmt.Sprint(*p)
}

func (c *V1) PutItemWithContext(_ aws.Context, in *dynamodb.PutItemInput, _ ...request.Option) (*dynamodb.PutItemOutput, error) {
	c.LastReq = append(c.LastReq, fmt.Sprintf("put|table=%s|cond=%s|names=%s|item=%s", PStr(in.TableName), PStr(in.ConditionExpression),
		NamesString(namesV1(in.ExpressionAttributeNames)), ItemString(fromV1Map(in.Item))))
	if e := c.DB.Put(in.TableName, fromV1Map(in.Item), in.ConditionExpression, namesV1(in.ExpressionAttributeNames)); e != nil {
		return nil, errV1(e)
	}
	return &dynamodb.PutItemOutput{}, nil
}

func (c *V1) GetItemWithContext(_ aws.Context, in *dynamodb.GetItemInput, _ ...request.Option) (*dynamodb.GetItemOutput, error) {
	c.LastReq = append(c.LastReq, fmt.Sprintf("get|table=%s|key=%s|consistent=%s|proj=%s|names=%s", PStr(in.TableName),
		ItemString(fromV1Map(in.Key)), PBool(in.ConsistentRead), PStr(in.ProjectionExpression), NamesString(namesV1(in.ExpressionAttributeNames))))
	it, e := c.DB.Get(in.TableName, fromV1Map(in.Key), in.ConsistentRead, in.ProjectionExpression, namesV1(in.ExpressionAttributeNames))
	if e != nil {
		return nil, errV1(e)
	}
	if it == nil {
		return &dynamodb.GetItemOutput{}, nil
	}
	return &dynamodb.GetItemOutput{Item: toV1Map(it)}, nil
}

func (c *V1) QueryWithContext(_ aws.Context, in *dynamodb.QueryInput, _ ...request.Option) (*dynamodb.QueryOutput, error) {
	c.LastReq = append(c.LastReq, fmt.Sprintf("query|table=%s|keycond=%s|names=%s|values=%s|consistent=%s|forward=%s|limit=%s|proj=%s",
		PStr(in.TableName), PStr(in.KeyConditionExpression), NamesString(namesV1(in.ExpressionAttributeNames)),
		ItemString(fromV1Map(in.ExpressionAttributeValues)), PBool(in.ConsistentRead), PBool(in.ScanIndexForward), pInt64(in.Limit),
		PStr(in.ProjectionExpression)))
	items, e := c.DB.Query(in.TableName, in.KeyConditionExpression, namesV1(in.ExpressionAttributeNames), fromV1Map(in.ExpressionAttributeValues),
		in.ConsistentRead, in.ScanIndexForward, in.Limit, in.ProjectionExpression)
	if e != nil {
		return nil, errV1(e)
	}
	out := &dynamodb.QueryOutput{Items: []map[string]*dynamodb.AttributeValue{}}
	for _, it := range items {
		out.Items = append(out.Items, toV1Map(it))
	}
	n := int64(len(items))
	out.Count = &n
	return out, nil
}
