// Package fakesql is a database/sql driver ("verif-fakesql") holding the documented asherah schema
//
//	CREATE TABLE encryption_key (id VARCHAR(255) NOT NULL, created TIMESTAMP NOT NULL,
//	                             key_record TEXT NOT NULL, PRIMARY KEY (id, created))
//
// and executing the small SQL subset the metastore issues, *semantically* (so that a changed
// statement gives a changed answer, not just an error):
//
//	INSERT INTO <t> ( <c> {, <c>} ) VALUES ( <p> {, <p>} )
//	SELECT <c> FROM <t> WHERE <c> = <p> {AND <c> = <p>} [ORDER BY <c> [ASC|DESC]] [LIMIT <n>]
//
// Placeholders <p> must be in the dialect of the database: `?` (mysql), `$n` (postgres), `:n`
// (oracle).  Keywords are case-insensitive, identifiers are not.  It mirrors `Sql` in
// lean/AsherahVerif/Model/Metastore.lean.
package fakesql

import (
	"database/sql"
	"database/sql/driver"
	"errors"
	"fmt"
	"io"
	"sort"
	"strconv"
	"strings"
	"sync"
	"time"
)

const DriverName = "verif-fakesql"

type Row struct {
	ID        string
	Created   int64 // TIMESTAMP without fractional seconds: unix seconds
	KeyRecord string
}

// Error is what the fake database answers; Class is the canonical error class of the observations.
type Error struct {
	Class string // dup | syntax | table | column | type | injected
	Msg   string
}

func (e *Error) Error() string { return "fakesql " + e.Class + ": " + e.Msg }

type DB struct {
	Dialect  string // mysql | postgres | oracle
	Rows     []Row
	LastReq  []string
	FailNext bool
}

func (d *DB) Take() string {
	s := strings.Join(d.LastReq, ";")
	d.LastReq = nil
	if s == "" {
		return "-"
	}
	return s
}

var (
	mu       sync.Mutex
	registry = map[string]*DB{}
)

func init() { sql.Register(DriverName, &drv{}) }

// Open registers db under a data source name and returns a database/sql handle on it.
func Open(dsn string, db *DB) (*sql.DB, error) {
	mu.Lock()
	registry[dsn] = db
	mu.Unlock()
	return sql.Open(DriverName, dsn)
}

func Forget(dsn string) {
	mu.Lock()
	delete(registry, dsn)
	mu.Unlock()
}

type drv struct{}

func (*drv) Open(dsn string) (driver.Conn, error) {
	mu.Lock()
	defer mu.Unlock()
	db, ok := registry[dsn]
	if !ok {
		return nil, errors.New("fakesql: unknown data source " + dsn)
	}
	return &conn{db}, nil
}

type conn struct{ db *DB }

func (c *conn) Begin() (driver.Tx, error) {
	return nil, errors.New("fakesql: transactions not supported")
}
func (c *conn) Close() error { return nil }
func (c *conn) Prepare(q string) (driver.Stmt, error) {
	st, err := Parse(q, c.db.Dialect)
	if err != nil {
		// a real server reports syntax errors at prepare/execute time; record the request all the same
		c.db.LastReq = append(c.db.LastReq, "sql|"+q+"|unparsed")
		return nil, err
	}
	return &stmt{c.db, q, st}, nil
}

// ---- tokens and statements ------------------------------------------------------------------

type Cond struct {
	Col   string
	Param int // 0-based argument index
}

type Stmt struct {
	Kind     string // insert | select
	Table    string
	Cols     []string // insert: column list; select: the one selected column
	Params   []int    // insert: argument index per column
	Where    []Cond
	HasOrder bool
	OrderCol string
	Desc     bool
	Limit    int // -1: none
	NParams  int
}

func isIdentStart(c byte) bool { return c == '_' || (c >= 'a' && c <= 'z') || (c >= 'A' && c <= 'Z') }
func isDigit(c byte) bool      { return c >= '0' && c <= '9' }

// tokenize: identifiers, numbers, `?`, `$n`, `:n`, and the punctuation ( ) , =
func tokenize(q string) ([]string, error) {
	var out []string
	for i := 0; i < len(q); {
		c := q[i]
		switch {
		case c == ' ' || c == '\t' || c == '\n' || c == '\r':
			i++
		case isIdentStart(c):
			j := i
			for j < len(q) && (isIdentStart(q[j]) || isDigit(q[j])) {
				j++
			}
			out = append(out, q[i:j])
			i = j
		case isDigit(c):
			j := i
			for j < len(q) && isDigit(q[j]) {
				j++
			}
			out = append(out, q[i:j])
			i = j
		case c == '$' || c == ':':
			j := i + 1
			for j < len(q) && isDigit(q[j]) {
				j++
			}
			if j == i+1 {
				return nil, &Error{"syntax", "bare " + string(c)}
			}
			out = append(out, q[i:j])
			i = j
		case c == '?' || c == '(' || c == ')' || c == ',' || c == '=':
			out = append(out, string(c))
			i++
		default:
			return nil, &Error{"syntax", "unexpected character " + strconv.QuoteRune(rune(c))}
		}
	}
	return out, nil
}

type parser struct {
	toks    []string
	pos     int
	dialect string
	nq      int // number of `?` seen so far
	maxP    int
}

func (p *parser) peek() string {
	if p.pos < len(p.toks) {
		return p.toks[p.pos]
	}
	return ""
}
func (p *parser) next() string { t := p.peek(); p.pos++; return t }
func (p *parser) kw(k string) bool {
	if strings.EqualFold(p.peek(), k) {
		p.pos++
		return true
	}
	return false
}
func (p *parser) expectKw(k string) error {
	if !p.kw(k) {
		return &Error{"syntax", "expected " + k + " near " + p.peek()}
	}
	return nil
}
func (p *parser) expect(t string) error {
	if p.peek() != t {
		return &Error{"syntax", "expected " + t + " near " + p.peek()}
	}
	p.pos++
	return nil
}
func (p *parser) ident() (string, error) {
	t := p.peek()
	if t == "" || !isIdentStart(t[0]) {
		return "", &Error{"syntax", "expected identifier near " + t}
	}
	p.pos++
	return t, nil
}

// placeholder returns the 0-based argument index it denotes.
func (p *parser) placeholder() (int, error) {
	t := p.next()
	idx := -1
	switch {
	case t == "?" && p.dialect == "mysql":
		idx = p.nq
		p.nq++
	case len(t) > 1 && t[0] == '$' && p.dialect == "postgres", len(t) > 1 && t[0] == ':' && p.dialect == "oracle":
		n, err := strconv.Atoi(t[1:])
		if err != nil || n < 1 {
			return 0, &Error{"syntax", "bad placeholder " + t}
		}
		idx = n - 1
	default:
		return 0, &Error{"syntax", "placeholder " + t + " is not valid in dialect " + p.dialect}
	}
	if idx+1 > p.maxP {
		p.maxP = idx + 1
	}
	return idx, nil
}

func Parse(q, dialect string) (*Stmt, error) {
	toks, err := tokenize(q)
	if err != nil {
		return nil, err
	}
	p := &parser{toks: toks, dialect: dialect}
	st := &Stmt{Limit: -1}
	switch {
	case p.kw("INSERT"):
		st.Kind = "insert"
		if err := p.expectKw("INTO"); err != nil {
			return nil, err
		}
		if st.Table, err = p.ident(); err != nil {
			return nil, err
		}
		if err := p.expect("("); err != nil {
			return nil, err
		}
		for {
			c, err := p.ident()
			if err != nil {
				return nil, err
			}
			st.Cols = append(st.Cols, c)
			if p.peek() == "," {
				p.pos++
				continue
			}
			break
		}
		if err := p.expect(")"); err != nil {
			return nil, err
		}
		if err := p.expectKw("VALUES"); err != nil {
			return nil, err
		}
		if err := p.expect("("); err != nil {
			return nil, err
		}
		for {
			i, err := p.placeholder()
			if err != nil {
				return nil, err
			}
			st.Params = append(st.Params, i)
			if p.peek() == "," {
				p.pos++
				continue
			}
			break
		}
		if err := p.expect(")"); err != nil {
			return nil, err
		}
		if len(st.Cols) != len(st.Params) {
			return nil, &Error{"syntax", "column count does not match value count"}
		}
	case p.kw("SELECT"):
		st.Kind = "select"
		c, err := p.ident()
		if err != nil {
			return nil, err
		}
		st.Cols = []string{c}
		if err := p.expectKw("FROM"); err != nil {
			return nil, err
		}
		if st.Table, err = p.ident(); err != nil {
			return nil, err
		}
		if err := p.expectKw("WHERE"); err != nil {
			return nil, err
		}
		for {
			c, err := p.ident()
			if err != nil {
				return nil, err
			}
			if err := p.expect("="); err != nil {
				return nil, err
			}
			i, err := p.placeholder()
			if err != nil {
				return nil, err
			}
			st.Where = append(st.Where, Cond{c, i})
			if p.kw("AND") {
				continue
			}
			break
		}
		if p.kw("ORDER") {
			if err := p.expectKw("BY"); err != nil {
				return nil, err
			}
			if st.OrderCol, err = p.ident(); err != nil {
				return nil, err
			}
			st.HasOrder = true
			if p.kw("DESC") {
				st.Desc = true
			} else {
				p.kw("ASC")
			}
		}
		if p.kw("LIMIT") {
			n, err := strconv.Atoi(p.next())
			if err != nil || n < 0 {
				return nil, &Error{"syntax", "bad LIMIT"}
			}
			st.Limit = n
		}
	default:
		return nil, &Error{"syntax", "unsupported statement near " + p.peek()}
	}
	if p.pos != len(p.toks) {
		return nil, &Error{"syntax", "trailing input near " + p.peek()}
	}
	st.NParams = p.maxP
	return st, nil
}

// ---- execution ------------------------------------------------------------------------------

const tableName = "encryption_key"

var columns = map[string]string{"id": "string", "created": "time", "key_record": "string"}

type stmt struct {
	db *DB
	q  string
	st *Stmt
}

func (s *stmt) Close() error  { return nil }
func (s *stmt) NumInput() int { return s.st.NParams }

func canonArgs(args []driver.Value) string {
	var p []string
	for _, a := range args {
		switch v := a.(type) {
		case string:
			p = append(p, fmt.Sprintf("s:x%x", v))
		case []byte:
			p = append(p, fmt.Sprintf("b:x%x", v))
		case time.Time:
			if v.Nanosecond() != 0 {
				p = append(p, fmt.Sprintf("t:%d.%09d", v.Unix(), v.Nanosecond()))
			} else {
				p = append(p, fmt.Sprintf("t:%d", v.Unix()))
			}
		case int64:
			p = append(p, fmt.Sprintf("i:%d", v))
		case bool:
			p = append(p, fmt.Sprintf("o:%v", v))
		case nil:
			p = append(p, "null")
		default:
			p = append(p, fmt.Sprintf("?:%v", v))
		}
	}
	return "[" + strings.Join(p, ",") + "]"
}

func (s *stmt) begin(args []driver.Value) error {
	s.db.LastReq = append(s.db.LastReq, "sql|"+s.q+"|"+canonArgs(args))
	if s.db.FailNext {
		s.db.FailNext = false
		return &Error{"injected", "connection lost"}
	}
	if s.st.Table != tableName {
		return &Error{"table", "no such table " + s.st.Table}
	}
	return nil
}

// typed converts an argument to the column's type: string columns take strings, the TIMESTAMP
// column takes a time (stored with one second resolution).
func typed(col string, v driver.Value) (interface{}, error) {
	t, ok := columns[col]
	if !ok {
		return nil, &Error{"column", "unknown column " + col}
	}
	switch t {
	case "string":
		if s, ok := v.(string); ok {
			return s, nil
		}
	case "time":
		if tm, ok := v.(time.Time); ok {
			return tm.Unix(), nil
		}
	}
	return nil, &Error{"type", fmt.Sprintf("column %s does not accept %T", col, v)}
}

func (s *stmt) Exec(args []driver.Value) (driver.Result, error) {
	if err := s.begin(args); err != nil {
		return nil, err
	}
	if s.st.Kind != "insert" {
		return nil, &Error{"syntax", "Exec of a query"}
	}
	vals := map[string]interface{}{}
	for i, c := range s.st.Cols {
		if _, dup := vals[c]; dup {
			return nil, &Error{"column", "column specified twice " + c}
		}
		v, err := typed(c, args[s.st.Params[i]])
		if err != nil {
			return nil, err
		}
		vals[c] = v
	}
	for c := range columns {
		if _, ok := vals[c]; !ok {
			return nil, &Error{"type", "column " + c + " is NOT NULL and has no value"}
		}
	}
	r := Row{vals["id"].(string), vals["created"].(int64), vals["key_record"].(string)}
	for _, x := range s.db.Rows {
		if x.ID == r.ID && x.Created == r.Created {
			return nil, &Error{"dup", fmt.Sprintf("Duplicate entry '%s-%d' for key 'PRIMARY'", r.ID, r.Created)}
		}
	}
	s.db.Rows = append(s.db.Rows, r)
	return driver.RowsAffected(1), nil
}

func get(r Row, col string) interface{} {
	switch col {
	case "id":
		return r.ID
	case "created":
		return r.Created
	}
	return r.KeyRecord
}

func (s *stmt) Query(args []driver.Value) (driver.Rows, error) {
	if err := s.begin(args); err != nil {
		return nil, err
	}
	if s.st.Kind != "select" {
		return nil, &Error{"syntax", "Query of a statement"}
	}
	if _, ok := columns[s.st.Cols[0]]; !ok {
		return nil, &Error{"column", "unknown column " + s.st.Cols[0]}
	}
	want := make([]interface{}, len(s.st.Where))
	for i, c := range s.st.Where {
		v, err := typed(c.Col, args[c.Param])
		if err != nil {
			return nil, err
		}
		want[i] = v
	}
	var rows []Row
	for _, r := range s.db.Rows {
		ok := true
		for i, c := range s.st.Where {
			if get(r, c.Col) != want[i] {
				ok = false
			}
		}
		if ok {
			rows = append(rows, r)
		}
	}
	if s.st.HasOrder {
		if _, ok := columns[s.st.OrderCol]; !ok {
			return nil, &Error{"column", "unknown column " + s.st.OrderCol}
		}
		less := func(a, b Row) bool {
			switch s.st.OrderCol {
			case "id":
				return a.ID < b.ID
			case "created":
				return a.Created < b.Created
			}
			return a.KeyRecord < b.KeyRecord
		}
		sort.SliceStable(rows, func(i, j int) bool {
			if s.st.Desc {
				return less(rows[j], rows[i])
			}
			return less(rows[i], rows[j])
		})
	}
	if s.st.Limit >= 0 && len(rows) > s.st.Limit {
		rows = rows[:s.st.Limit]
	}
	return &result{col: s.st.Cols[0], rows: rows}, nil
}

type result struct {
	col  string
	rows []Row
	i    int
}

func (r *result) Columns() []string { return []string{r.col} }
func (r *result) Close() error      { return nil }
func (r *result) Next(dest []driver.Value) error {
	if r.i >= len(r.rows) {
		return io.EOF
	}
	switch v := get(r.rows[r.i], r.col).(type) {
	case int64:
		dest[0] = time.Unix(v, 0).UTC()
	default:
		dest[0] = v
	}
	r.i++
	return nil
}
