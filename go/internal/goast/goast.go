// Package goast is the tiny go/ast fact extractor used by cmd/extract: constants, struct tags,
// string literals and normalised function skeletons (callee names + control keywords, with lock
// scopes and defers explicit; insensitive to comments, local names and log lines).
package goast

import (
	"fmt"
	"go/ast"
	"go/parser"
	"go/token"
	"os"
	"path/filepath"
	"reflect"
	"sort"
	"strconv"
	"strings"
)

type File struct {
	Fset *token.FileSet
	AST  *ast.File
	Path string
}

func Parse(path string) (*File, error) {
	fs := token.NewFileSet()
	f, err := parser.ParseFile(fs, path, nil, parser.SkipObjectResolution)
	if err != nil {
		return nil, err
	}
	registerDir(filepath.Dir(path))
	return &File{Fset: fs, AST: f, Path: path}, nil
}

// ---- helper inlining ---------------------------------------------------------------------------
//
// A skeleton obligation (`Generated = Expected`) should not break when a statement group is merely
// moved into a NEW helper function ("extract method", the commonest harmless refactor).  Functions
// that exist in the vetted baseline (baseline_funcs.txt, written once with `extract -write-baseline`)
// keep appearing by name; a call of a same-package function that is NOT in the baseline is replaced by
// the skeleton of its body, parameters and receiver substituted by the argument expressions, its
// final `return` dropped.  `defer h()` / `go h()` are never inlined (their timing is the point).

var (
	RepoRoot string          // set by cmd/extract
	Baseline map[string]bool // "rel/dir:name"; nil disables inlining
	dirFuncs = map[string]map[string][]*ast.FuncDecl{}
)

func relDir(dir string) string {
	if RepoRoot != "" {
		if r, err := filepath.Rel(RepoRoot, dir); err == nil {
			return filepath.ToSlash(r)
		}
	}
	return filepath.ToSlash(dir)
}

func registerDir(dir string) {
	if _, ok := dirFuncs[dir]; ok {
		return
	}
	m := map[string][]*ast.FuncDecl{}
	dirFuncs[dir] = m
	ents, err := os.ReadDir(dir)
	if err != nil {
		return
	}
	for _, e := range ents {
		n := e.Name()
		if e.IsDir() || !strings.HasSuffix(n, ".go") || strings.HasSuffix(n, "_test.go") {
			continue
		}
		f, err := parser.ParseFile(token.NewFileSet(), filepath.Join(dir, n), nil, parser.SkipObjectResolution)
		if err != nil {
			continue
		}
		for _, d := range f.Decls {
			if fd, ok := d.(*ast.FuncDecl); ok && fd.Body != nil {
				m[fd.Name.Name] = append(m[fd.Name.Name], fd)
				declDir[fd] = dir
			}
		}
	}
}

var declDir = map[*ast.FuncDecl]string{}

// BaselineLines lists "rel/dir:name<TAB>Recv.name<TAB>recv,p1,p2…" for every function of every
// directory parsed so far (the names a function's receiver and parameters have in the vetted tree).
func BaselineLines() []string {
	var out []string
	for dir, m := range dirFuncs {
		for name, fds := range m {
			for _, fd := range fds {
				out = append(out, relDir(dir)+":"+name+"\t"+qualName(fd)+"\t"+strings.Join(bindingNames(fd), ","))
			}
		}
	}
	sort.Strings(out)
	return out
}

// BaselineParams: "rel/dir:Recv.name" -> receiver and parameter names in the vetted tree.
var BaselineParams = map[string][]string{}

// LoadBaseline parses the text written from BaselineLines.
func LoadBaseline(text string) {
	Baseline = map[string]bool{}
	for _, l := range strings.Split(text, "\n") {
		f := strings.Split(strings.TrimRight(l, "\r"), "\t")
		if len(f) == 0 || f[0] == "" {
			continue
		}
		Baseline[f[0]] = true
		if len(f) == 3 {
			dir := f[0][:strings.LastIndex(f[0], ":")]
			BaselineParams[dir+":"+f[1]] = strings.Split(f[2], ",")
		}
	}
}

func qualName(fd *ast.FuncDecl) string {
	if fd.Recv != nil && len(fd.Recv.List) == 1 {
		return typeName(fd.Recv.List[0].Type) + "." + fd.Name.Name
	}
	return fd.Name.Name
}

// bindingNames: receiver name (or "") followed by the parameter names, in order.
func bindingNames(fd *ast.FuncDecl) []string {
	out := []string{""}
	if fd.Recv != nil && len(fd.Recv.List) == 1 && len(fd.Recv.List[0].Names) == 1 {
		out[0] = fd.Recv.List[0].Names[0].Name
	}
	if fd.Type.Params != nil {
		for _, p := range fd.Type.Params.List {
			for _, n := range p.Names {
				out = append(out, n.Name)
			}
		}
	}
	return out
}

// paramRenaming: a function whose receiver / parameters were merely renamed since the vetted tree is
// printed with the vetted names (same number of bindings; no clash with another name of the body).
func paramRenaming(dir string, fd *ast.FuncDecl) map[string]string {
	if Baseline == nil || dir == "" {
		return nil
	}
	old, ok := BaselineParams[relDir(dir)+":"+qualName(fd)]
	cur := bindingNames(fd)
	if !ok || len(old) != len(cur) {
		return nil
	}
	ren := map[string]string{}
	for i := range cur {
		if cur[i] != old[i] && cur[i] != "" && cur[i] != "_" && old[i] != "" && old[i] != "_" {
			ren[cur[i]] = old[i]
		}
	}
	if len(ren) == 0 {
		return nil
	}
	used := map[string]bool{}
	ast.Inspect(fd.Body, func(n ast.Node) bool {
		if id, ok := n.(*ast.Ident); ok {
			used[id.Name] = true
		}
		return true
	})
	for from, to := range ren {
		if used[to] && ren[to] == "" {
			_ = from
			return nil // the vetted name now means something else in this body
		}
	}
	return ren
}

// newHelper: the unique same-package function `name` (method iff isMethod) that is not in the baseline.
func newHelper(dir, name string, isMethod bool) *ast.FuncDecl {
	if Baseline == nil || dir == "" || Baseline[relDir(dir)+":"+name] {
		return nil
	}
	var found *ast.FuncDecl
	for _, fd := range dirFuncs[dir][name] {
		if (fd.Recv != nil) == isMethod {
			if found != nil {
				return nil
			}
			found = fd
		}
	}
	return found
}

// Const returns the source text of the value of a package-level constant or variable.
func (f *File) Const(name string) (string, error) {
	for _, d := range f.AST.Decls {
		g, ok := d.(*ast.GenDecl)
		if !ok || (g.Tok != token.CONST && g.Tok != token.VAR) {
			continue
		}
		for _, s := range g.Specs {
			vs := s.(*ast.ValueSpec)
			for i, n := range vs.Names {
				if n.Name == name && i < len(vs.Values) {
					return ExprString(vs.Values[i]), nil
				}
			}
		}
	}
	return "", fmt.Errorf("%s: constant %s not found", f.Path, name)
}

// Func finds a function or method: name is "F" or "Recv.F" (pointer receivers without the star).
func (f *File) Func(name string) (*ast.FuncDecl, error) {
	recv, fn := "", name
	if i := strings.LastIndex(name, "."); i >= 0 {
		recv, fn = name[:i], name[i+1:]
	}
	for _, d := range f.AST.Decls {
		fd, ok := d.(*ast.FuncDecl)
		if !ok || fd.Name.Name != fn {
			continue
		}
		r := ""
		if fd.Recv != nil && len(fd.Recv.List) == 1 {
			r = typeName(fd.Recv.List[0].Type)
		}
		if r == recv {
			return fd, nil
		}
	}
	return nil, fmt.Errorf("%s: func %s not found", f.Path, name)
}

func typeName(e ast.Expr) string {
	switch t := e.(type) {
	case *ast.StarExpr:
		return typeName(t.X)
	case *ast.Ident:
		return t.Name
	case *ast.IndexExpr:
		return typeName(t.X)
	case *ast.IndexListExpr:
		return typeName(t.X)
	case *ast.SelectorExpr:
		return typeName(t.X) + "." + t.Sel.Name
	}
	return "?"
}

// StructTags returns field name -> tag value for key (e.g. "json") of a struct type.
func (f *File) StructTags(typ, key string) ([][2]string, error) {
	var out [][2]string
	found := false
	ast.Inspect(f.AST, func(n ast.Node) bool {
		ts, ok := n.(*ast.TypeSpec)
		if !ok || ts.Name.Name != typ {
			return true
		}
		st, ok := ts.Type.(*ast.StructType)
		if !ok {
			return true
		}
		found = true
		for _, fl := range st.Fields.List {
			tag := ""
			if fl.Tag != nil {
				s, _ := strconv.Unquote(fl.Tag.Value)
				tag = reflect.StructTag(s).Get(key)
			}
			for _, n := range fl.Names {
				out = append(out, [2]string{n.Name, tag})
			}
		}
		return false
	})
	if !found {
		return nil, fmt.Errorf("%s: struct %s not found", f.Path, typ)
	}
	return out, nil
}

// ExprString prints an expression compactly (identifiers, selectors, literals, calls, unary/binary).
func ExprString(e ast.Expr) string { return exprStr(e, nil) }

func exprStr(e ast.Expr, ren map[string]string) string {
	ExprString := func(x ast.Expr) string { return exprStr(x, ren) }
	switch t := e.(type) {
	case nil:
		return ""
	case *ast.Ident:
		if v, ok := ren[t.Name]; ok {
			return v
		}
		return t.Name
	case *ast.BasicLit:
		return t.Value
	case *ast.SelectorExpr:
		return ExprString(t.X) + "." + t.Sel.Name
	case *ast.StarExpr:
		return "*" + ExprString(t.X)
	case *ast.UnaryExpr:
		return t.Op.String() + ExprString(t.X)
	case *ast.BinaryExpr:
		return ExprString(t.X) + t.Op.String() + ExprString(t.Y)
	case *ast.ParenExpr:
		return "(" + ExprString(t.X) + ")"
	case *ast.CallExpr:
		var a []string
		for _, x := range t.Args {
			a = append(a, ExprString(x))
		}
		return ExprString(t.Fun) + "(" + strings.Join(a, ",") + ")"
	case *ast.IndexExpr:
		return ExprString(t.X) + "[" + ExprString(t.Index) + "]"
	case *ast.SliceExpr:
		return ExprString(t.X) + "[" + ExprString(t.Low) + ":" + ExprString(t.High) + "]"
	case *ast.CompositeLit:
		return typeName(t.Type) + "{…}"
	case *ast.FuncLit:
		return "func"
	case *ast.TypeAssertExpr:
		return ExprString(t.X) + ".(" + typeName(t.Type) + ")"
	case *ast.KeyValueExpr:
		return ExprString(t.Key) + ":" + ExprString(t.Value)
	case *ast.ArrayType:
		return "[]" + typeName(t.Elt)
	}
	return fmt.Sprintf("<%T>", e)
}

// Skeleton returns the normalised token sequence of a function body.
// Tokens: callee names ("c.rw.RLock", "tracked"), "if(<cond>){" "}else{" "}", "for{", "switch{", "case:",
// "defer:<callee>", "go:<callee>", "return", "return:<callee…>", "<-", "assign:<lhs>" for field stores.
// Calls to the logging package and pure conversions are dropped. Conditions are kept verbatim
// (compact form) because the properties depend on them.
func Skeleton(fd *ast.FuncDecl) []string {
	s := &skel{dir: declDirOf(fd)}
	if fd.Body != nil {
		s.ren = paramRenaming(s.dir, fd)
		s.block(fd.Body)
	}
	return s.out
}

// declDirOf: the directory a declaration was parsed from (declarations handed out by File.Func come
// from a different parse than the registry's: match by name and position-independent identity).
func declDirOf(fd *ast.FuncDecl) string {
	if d, ok := declDir[fd]; ok {
		return d
	}
	for dir, m := range dirFuncs {
		for _, c := range m[fd.Name.Name] {
			if (c.Recv != nil) == (fd.Recv != nil) && len(c.Body.List) == len(fd.Body.List) && ExprString2(c) == ExprString2(fd) {
				return dir
			}
		}
	}
	return ""
}

func ExprString2(fd *ast.FuncDecl) string {
	r := ""
	if fd.Recv != nil && len(fd.Recv.List) == 1 {
		r = typeName(fd.Recv.List[0].Type)
	}
	var ps []string
	if fd.Type.Params != nil {
		for _, p := range fd.Type.Params.List {
			for _, n := range p.Names {
				ps = append(ps, n.Name+":"+ExprString(p.Type))
			}
		}
	}
	return r + "." + fd.Name.Name + "(" + strings.Join(ps, ",") + ")"
}

type skel struct {
	out     []string
	dir     string
	ren     map[string]string
	depth   int
	inlined int // tokens that came from inlined helper bodies (they do not make a `return` a `return^`)
}

func (s *skel) str(e ast.Expr) string { return exprStr(e, s.ren) }

// inline: replace a call of a new helper by its body's skeleton; false if the callee is not one.
func (s *skel) inline(call *ast.CallExpr) bool {
	if s.depth >= 3 {
		return false
	}
	var h *ast.FuncDecl
	var recvExpr ast.Expr
	switch f := call.Fun.(type) {
	case *ast.Ident:
		h = newHelper(s.dir, f.Name, false)
	case *ast.SelectorExpr:
		if _, ok := f.X.(*ast.Ident); ok {
			h = newHelper(s.dir, f.Sel.Name, true)
			recvExpr = f.X
		}
	}
	if h == nil || h.Type.Params == nil && len(call.Args) > 0 {
		return false
	}
	ren := map[string]string{}
	for k, v := range s.ren {
		ren[k] = v
	}
	var params []string
	if h.Type.Params != nil {
		for _, p := range h.Type.Params.List {
			for _, n := range p.Names {
				params = append(params, n.Name)
			}
		}
	}
	if len(params) != len(call.Args) {
		return false
	}
	for i, a := range call.Args {
		ren[params[i]] = s.str(a)
	}
	if recvExpr != nil && h.Recv != nil && len(h.Recv.List) == 1 && len(h.Recv.List[0].Names) == 1 {
		ren[h.Recv.List[0].Names[0].Name] = s.str(recvExpr)
	}
	sub := &skel{dir: s.dir, ren: ren, depth: s.depth + 1}
	body := h.Body.List
	if n := len(body); n > 0 {
		if rs, ok := body[n-1].(*ast.ReturnStmt); ok {
			for _, st := range body[:n-1] {
				sub.stmt(st)
			}
			for _, r := range rs.Results {
				sub.calls(r)
			}
			s.out = append(s.out, sub.out...)
			s.inlined += len(sub.out)
			return true
		}
	}
	sub.block(h.Body)
	s.out = append(s.out, sub.out...)
	s.inlined += len(sub.out)
	return true
}

func (s *skel) emit(t string) { s.out = append(s.out, t) }

func ignoredCall(name string) bool {
	return strings.HasPrefix(name, "log.") || name == "len" || name == "make" || name == "new" || name == "append" ||
		name == "string" || name == "int" || name == "int64" || name == "float64" || name == "uint32" || name == "uint64" ||
		strings.HasPrefix(name, "fmt.Sprintf") || name == "errors.New" || strings.HasPrefix(name, "metrics.")
}

func (s *skel) calls(e ast.Expr) {
	if e == nil {
		return
	}
	ast.Inspect(e, func(n ast.Node) bool {
		switch t := n.(type) {
		case *ast.FuncLit:
			s.emit("func{")
			s.block(t.Body)
			s.emit("}")
			return false
		case *ast.CallExpr:
			// arguments first (evaluation order), then the callee
			for _, a := range t.Args {
				s.calls(a)
			}
			if fl, ok := t.Fun.(*ast.FuncLit); ok {
				s.emit("func{")
				s.block(fl.Body)
				s.emit("}")
				return false
			}
			if sel, ok := t.Fun.(*ast.SelectorExpr); ok {
				s.calls(sel.X)
			}
			name := s.str(t.Fun)
			if !ignoredCall(name) && !s.inline(t) {
				s.emit(name)
			}
			return false
		case *ast.UnaryExpr:
			if t.Op == token.ARROW {
				s.calls(t.X)
				s.emit("<-" + s.str(t.X))
				return false
			}
		}
		return true
	})
}

func (s *skel) block(b *ast.BlockStmt) {
	for _, st := range b.List {
		s.stmt(st)
	}
}

func (s *skel) stmt(st ast.Stmt) {
	switch t := st.(type) {
	case *ast.ExprStmt:
		s.calls(t.X)
	case *ast.AssignStmt:
		for _, r := range t.Rhs {
			s.calls(r)
		}
		for _, l := range t.Lhs {
			switch l.(type) {
			case *ast.SelectorExpr, *ast.IndexExpr, *ast.StarExpr:
				s.emit("assign:" + s.str(l))
			}
		}
	case *ast.IncDecStmt:
		s.emit("assign:" + s.str(t.X) + t.Tok.String())
	case *ast.DeclStmt:
		if g, ok := t.Decl.(*ast.GenDecl); ok {
			for _, sp := range g.Specs {
				if vs, ok := sp.(*ast.ValueSpec); ok {
					for _, v := range vs.Values {
						s.calls(v)
					}
				}
			}
		}
	case *ast.DeferStmt:
		for _, a := range t.Call.Args {
			s.calls(a)
		}
		if fl, ok := t.Call.Fun.(*ast.FuncLit); ok {
			s.emit("defer:func{")
			s.block(fl.Body)
			s.emit("}")
		} else {
			s.emit("defer:" + s.str(t.Call.Fun))
		}
	case *ast.GoStmt:
		s.emit("go:" + s.str(t.Call.Fun))
	case *ast.ReturnStmt:
		before := len(s.out) - s.inlined
		for _, r := range t.Results {
			s.calls(r)
		}
		if len(s.out)-s.inlined == before {
			s.emit("return")
		} else {
			s.emit("return^")
		}
	case *ast.IfStmt:
		if t.Init != nil {
			s.stmt(t.Init)
		}
		s.calls(t.Cond)
		s.emit("if(" + s.str(t.Cond) + "){")
		s.block(t.Body)
		if t.Else != nil {
			s.emit("}else{")
			switch e := t.Else.(type) {
			case *ast.BlockStmt:
				s.block(e)
			default:
				s.stmt(e)
			}
		}
		s.emit("}")
	case *ast.ForStmt:
		if t.Init != nil {
			s.stmt(t.Init)
		}
		s.emit("for(" + s.str(t.Cond) + "){")
		s.block(t.Body)
		s.emit("}")
	case *ast.RangeStmt:
		s.calls(t.X)
		s.emit("range(" + s.str(t.X) + "){")
		s.block(t.Body)
		s.emit("}")
	case *ast.SwitchStmt:
		if t.Init != nil {
			s.stmt(t.Init)
		}
		s.calls(t.Tag)
		s.emit("switch(" + s.str(t.Tag) + "){")
		for _, c := range t.Body.List {
			cc := c.(*ast.CaseClause)
			var conds []string
			for _, e := range cc.List {
				conds = append(conds, s.str(e))
			}
			if cc.List == nil {
				s.emit("default:")
			} else {
				s.emit("case(" + strings.Join(conds, ",") + "):")
			}
			for _, b := range cc.Body {
				s.stmt(b)
			}
		}
		s.emit("}")
	case *ast.TypeSwitchStmt:
		s.emit("typeswitch{")
		for _, c := range t.Body.List {
			cc := c.(*ast.CaseClause)
			s.emit("case:")
			for _, b := range cc.Body {
				s.stmt(b)
			}
		}
		s.emit("}")
	case *ast.SelectStmt:
		s.emit("select{")
		for _, c := range t.Body.List {
			cc := c.(*ast.CommClause)
			s.emit("case:")
			if cc.Comm != nil {
				s.stmt(cc.Comm)
			}
			for _, b := range cc.Body {
				s.stmt(b)
			}
		}
		s.emit("}")
	case *ast.SendStmt:
		s.calls(t.Value)
		s.emit(s.str(t.Chan) + "<-")
	case *ast.BlockStmt:
		s.block(t)
	case *ast.BranchStmt:
		s.emit(t.Tok.String())
	case *ast.LabeledStmt:
		s.stmt(t.Stmt)
	}
}

// LeanStringList renders a Go string slice as a Lean `List String` literal.
func LeanStringList(xs []string) string {
	var q []string
	for _, x := range xs {
		q = append(q, LeanString(x))
	}
	return "[" + strings.Join(q, ", ") + "]"
}

func LeanString(s string) string {
	var b strings.Builder
	b.WriteByte('"')
	for _, r := range s {
		switch r {
		case '"':
			b.WriteString("\\\"")
		case '\\':
			b.WriteString("\\\\")
		case '\n':
			b.WriteString("\\n")
		case '\t':
			b.WriteString("\\t")
		default:
			b.WriteRune(r)
		}
	}
	b.WriteByte('"')
	return b.String()
}
