// Package goast is the tiny go/ast fact extractor used by cmd/extract: constants, struct tags,
// string literals and normalised function skeletons (callee names + control keywords, with lock
// scopes and defers explicit; insensitive to comments, local names and log lines).
package goast

import (
	"fmt"
	"go/ast"
	"go/parser"
	"go/token"
	"reflect"
	"strconv"
	"strings"
)

type File struct {
	Fset *token.FileSet
	AST  *ast.File
	Path string
}

func Parse(path string) (*File, error) {
	fs := token.NewFileSet()
	f, err := parser.ParseFile(fs, path, nil, parser.SkipObjectResolution)
	if err != nil {
		return nil, err
	}
	return &File{Fset: fs, AST: f, Path: path}, nil
}

// Const returns the source text of the value of a package-level constant or variable.
func (f *File) Const(name string) (string, error) {
	for _, d := range f.AST.Decls {
		g, ok := d.(*ast.GenDecl)
		if !ok || (g.Tok != token.CONST && g.Tok != token.VAR) {
			continue
		}
		for _, s := range g.Specs {
			vs := s.(*ast.ValueSpec)
			for i, n := range vs.Names {
				if n.Name == name && i < len(vs.Values) {
					return ExprString(vs.Values[i]), nil
				}
			}
		}
	}
	return "", fmt.Errorf("%s: constant %s not found", f.Path, name)
}

// Func finds a function or method: name is "F" or "Recv.F" (pointer receivers without the star).
func (f *File) Func(name string) (*ast.FuncDecl, error) {
	recv, fn := "", name
	if i := strings.LastIndex(name, "."); i >= 0 {
		recv, fn = name[:i], name[i+1:]
	}
	for _, d := range f.AST.Decls {
		fd, ok := d.(*ast.FuncDecl)
		if !ok || fd.Name.Name != fn {
			continue
		}
		r := ""
		if fd.Recv != nil && len(fd.Recv.List) == 1 {
			r = typeName(fd.Recv.List[0].Type)
		}
		if r == recv {
			return fd, nil
		}
	}
	return nil, fmt.Errorf("%s: func %s not found", f.Path, name)
}

func typeName(e ast.Expr) string {
	switch t := e.(type) {
	case *ast.StarExpr:
		return typeName(t.X)
	case *ast.Ident:
		return t.Name
	case *ast.IndexExpr:
		return typeName(t.X)
	case *ast.IndexListExpr:
		return typeName(t.X)
	case *ast.SelectorExpr:
		return typeName(t.X) + "." + t.Sel.Name
	}
	return "?"
}

// StructTags returns field name -> tag value for key (e.g. "json") of a struct type.
func (f *File) StructTags(typ, key string) ([][2]string, error) {
	var out [][2]string
	found := false
	ast.Inspect(f.AST, func(n ast.Node) bool {
		ts, ok := n.(*ast.TypeSpec)
		if !ok || ts.Name.Name != typ {
			return true
		}
		st, ok := ts.Type.(*ast.StructType)
		if !ok {
			return true
		}
		found = true
		for _, fl := range st.Fields.List {
			tag := ""
			if fl.Tag != nil {
				s, _ := strconv.Unquote(fl.Tag.Value)
				tag = reflect.StructTag(s).Get(key)
			}
			for _, n := range fl.Names {
				out = append(out, [2]string{n.Name, tag})
			}
		}
		return false
	})
	if !found {
		return nil, fmt.Errorf("%s: struct %s not found", f.Path, typ)
	}
	return out, nil
}

// ExprString prints an expression compactly (identifiers, selectors, literals, calls, unary/binary).
func ExprString(e ast.Expr) string {
	switch t := e.(type) {
	case nil:
		return ""
	case *ast.Ident:
		return t.Name
	case *ast.BasicLit:
		return t.Value
	case *ast.SelectorExpr:
		return ExprString(t.X) + "." + t.Sel.Name
	case *ast.StarExpr:
		return "*" + ExprString(t.X)
	case *ast.UnaryExpr:
		return t.Op.String() + ExprString(t.X)
	case *ast.BinaryExpr:
		return ExprString(t.X) + t.Op.String() + ExprString(t.Y)
	case *ast.ParenExpr:
		return "(" + ExprString(t.X) + ")"
	case *ast.CallExpr:
		var a []string
		for _, x := range t.Args {
			a = append(a, ExprString(x))
		}
		return ExprString(t.Fun) + "(" + strings.Join(a, ",") + ")"
	case *ast.IndexExpr:
		return ExprString(t.X) + "[" + ExprString(t.Index) + "]"
	case *ast.SliceExpr:
		return ExprString(t.X) + "[" + ExprString(t.Low) + ":" + ExprString(t.High) + "]"
	case *ast.CompositeLit:
		return typeName(t.Type) + "{…}"
	case *ast.FuncLit:
		return "func"
	case *ast.TypeAssertExpr:
		return ExprString(t.X) + ".(" + typeName(t.Type) + ")"
	case *ast.KeyValueExpr:
		return ExprString(t.Key) + ":" + ExprString(t.Value)
	case *ast.ArrayType:
		return "[]" + typeName(t.Elt)
	}
	return fmt.Sprintf("<%T>", e)
}

// Skeleton returns the normalised token sequence of a function body.
// Tokens: callee names ("c.rw.RLock", "tracked"), "if(<cond>){" "}else{" "}", "for{", "switch{", "case:",
// "defer:<callee>", "go:<callee>", "return", "return:<callee…>", "<-", "assign:<lhs>" for field stores.
// Calls to the logging package and pure conversions are dropped. Conditions are kept verbatim
// (compact form) because the properties depend on them.
func Skeleton(fd *ast.FuncDecl) []string {
	s := &skel{}
	if fd.Body != nil {
		s.block(fd.Body)
	}
	return s.out
}

type skel struct{ out []string }

func (s *skel) emit(t string) { s.out = append(s.out, t) }

func ignoredCall(name string) bool {
	return strings.HasPrefix(name, "log.") || name == "len" || name == "make" || name == "new" || name == "append" ||
		name == "string" || name == "int" || name == "int64" || name == "float64" || name == "uint32" || name == "uint64" ||
		strings.HasPrefix(name, "fmt.Sprintf") || name == "errors.New" || strings.HasPrefix(name, "metrics.")
}

func (s *skel) calls(e ast.Expr) {
	if e == nil {
		return
	}
	ast.Inspect(e, func(n ast.Node) bool {
		switch t := n.(type) {
		case *ast.FuncLit:
			s.emit("func{")
			s.block(t.Body)
			s.emit("}")
			return false
		case *ast.CallExpr:
			// arguments first (evaluation order), then the callee
			for _, a := range t.Args {
				s.calls(a)
			}
			if fl, ok := t.Fun.(*ast.FuncLit); ok {
				s.emit("func{")
				s.block(fl.Body)
				s.emit("}")
				return false
			}
			if sel, ok := t.Fun.(*ast.SelectorExpr); ok {
				s.calls(sel.X)
			}
			name := ExprString(t.Fun)
			if !ignoredCall(name) {
				s.emit(name)
			}
			return false
		case *ast.UnaryExpr:
			if t.Op == token.ARROW {
				s.calls(t.X)
				s.emit("<-" + ExprString(t.X))
				return false
			}
		}
		return true
	})
}

func (s *skel) block(b *ast.BlockStmt) {
	for _, st := range b.List {
		s.stmt(st)
	}
}

func (s *skel) stmt(st ast.Stmt) {
	switch t := st.(type) {
	case *ast.ExprStmt:
		s.calls(t.X)
	case *ast.AssignStmt:
		for _, r := range t.Rhs {
			s.calls(r)
		}
		for _, l := range t.Lhs {
			switch l.(type) {
			case *ast.SelectorExpr, *ast.IndexExpr, *ast.StarExpr:
				s.emit("assign:" + ExprString(l))
			}
		}
	case *ast.IncDecStmt:
		s.emit("assign:" + ExprString(t.X) + t.Tok.String())
	case *ast.DeclStmt:
		if g, ok := t.Decl.(*ast.GenDecl); ok {
			for _, sp := range g.Specs {
				if vs, ok := sp.(*ast.ValueSpec); ok {
					for _, v := range vs.Values {
						s.calls(v)
					}
				}
			}
		}
	case *ast.DeferStmt:
		for _, a := range t.Call.Args {
			s.calls(a)
		}
		if fl, ok := t.Call.Fun.(*ast.FuncLit); ok {
			s.emit("defer:func{")
			s.block(fl.Body)
			s.emit("}")
		} else {
			s.emit("defer:" + ExprString(t.Call.Fun))
		}
	case *ast.GoStmt:
		s.emit("go:" + ExprString(t.Call.Fun))
	case *ast.ReturnStmt:
		before := len(s.out)
		for _, r := range t.Results {
			s.calls(r)
		}
		if len(s.out) == before {
			s.emit("return")
		} else {
			s.emit("return^")
		}
	case *ast.IfStmt:
		if t.Init != nil {
			s.stmt(t.Init)
		}
		s.calls(t.Cond)
		s.emit("if(" + ExprString(t.Cond) + "){")
		s.block(t.Body)
		if t.Else != nil {
			s.emit("}else{")
			switch e := t.Else.(type) {
			case *ast.BlockStmt:
				s.block(e)
			default:
				s.stmt(e)
			}
		}
		s.emit("}")
	case *ast.ForStmt:
		if t.Init != nil {
			s.stmt(t.Init)
		}
		s.emit("for(" + ExprString(t.Cond) + "){")
		s.block(t.Body)
		s.emit("}")
	case *ast.RangeStmt:
		s.calls(t.X)
		s.emit("range(" + ExprString(t.X) + "){")
		s.block(t.Body)
		s.emit("}")
	case *ast.SwitchStmt:
		if t.Init != nil {
			s.stmt(t.Init)
		}
		s.calls(t.Tag)
		s.emit("switch(" + ExprString(t.Tag) + "){")
		for _, c := range t.Body.List {
			cc := c.(*ast.CaseClause)
			var conds []string
			for _, e := range cc.List {
				conds = append(conds, ExprString(e))
			}
			if cc.List == nil {
				s.emit("default:")
			} else {
				s.emit("case(" + strings.Join(conds, ",") + "):")
			}
			for _, b := range cc.Body {
				s.stmt(b)
			}
		}
		s.emit("}")
	case *ast.TypeSwitchStmt:
		s.emit("typeswitch{")
		for _, c := range t.Body.List {
			cc := c.(*ast.CaseClause)
			s.emit("case:")
			for _, b := range cc.Body {
				s.stmt(b)
			}
		}
		s.emit("}")
	case *ast.SelectStmt:
		s.emit("select{")
		for _, c := range t.Body.List {
			cc := c.(*ast.CommClause)
			s.emit("case:")
			if cc.Comm != nil {
				s.stmt(cc.Comm)
			}
			for _, b := range cc.Body {
				s.stmt(b)
			}
		}
		s.emit("}")
	case *ast.SendStmt:
		s.calls(t.Value)
		s.emit(ExprString(t.Chan) + "<-")
	case *ast.BlockStmt:
		s.block(t)
	case *ast.BranchStmt:
		s.emit(t.Tok.String())
	case *ast.LabeledStmt:
		s.stmt(t.Stmt)
	}
}

// LeanStringList renders a Go string slice as a Lean `List String` literal.
func LeanStringList(xs []string) string {
	var q []string
	for _, x := range xs {
		q = append(q, LeanString(x))
	}
	return "[" + strings.Join(q, ", ") + "]"
}

func LeanString(s string) string {
	var b strings.Builder
	b.WriteByte('"')
	for _, r := range s {
		switch r {
		case '"':
			b.WriteString("\\\"")
		case '\\':
			b.WriteString("\\\\")
		case '\n':
			b.WriteString("\\n")
		case '\t':
			b.WriteString("\\t")
		default:
			b.WriteRune(r)
		}
	}
	b.WriteByte('"')
	return b.String()
}
