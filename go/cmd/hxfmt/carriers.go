package main

import (
	"context"
	"database/sql"
	"database/sql/driver"
	"encoding/base64"
	"encoding/json"
	"errors"
	"fmt"
	"io"
	"sort"
	"strconv"
	"strings"
	"time"
	"unicode/utf16"

	"github.com/aws/aws-sdk-go-v2/service/dynamodb"
	ddbtypes "github.com/aws/aws-sdk-go-v2/service/dynamodb/types"
	"github.com/aws/aws-sdk-go/aws"
	"github.com/aws/aws-sdk-go/aws/request"
	awssession "github.com/aws/aws-sdk-go/aws/session"
	ddb1 "github.com/aws/aws-sdk-go/service/dynamodb"
	"github.com/golang/protobuf/proto" //nolint:staticcheck // the generated api package uses the v1 message API

	"github.com/godaddy/asherah/go/appencryption"
	"github.com/godaddy/asherah/go/appencryption/pkg/persistence"
	v1persist "github.com/godaddy/asherah/go/appencryption/plugins/aws-v1/persistence"
	v2meta "github.com/godaddy/asherah/go/appencryption/plugins/aws-v2/dynamodb/metastore"
	pb "github.com/godaddy/asherah/server/go/api"
	"github.com/godaddy/asherah/server/go/pkg/server"

	"verifharness/internal/prng"
)

func guard(f func() string) (res string) {
	defer func() {
		if e := recover(); e != nil {
			res = "panic"
		}
	}()
	return f()
}

// ---- encoding/json --------------------------------------------------------------------------

func opJSONEKR(e *appencryption.EnvelopeKeyRecord) {
	emit("json-ekr "+ekrFields(e), guard(func() string {
		js, err := json.Marshal(e)
		if err != nil {
			return "err"
		}
		return hx(js)
	}))
}

func opJSONDRR(d *appencryption.DataRowRecord) {
	emit("json-drr "+drrFields(d), guard(func() string {
		js, err := json.Marshal(d)
		if err != nil {
			return "err"
		}
		return hx(js)
	}))
}

func opUnjsonEKR(js []byte) {
	emit("unjson-ekr "+hx(js), guard(func() string {
		var e appencryption.EnvelopeKeyRecord
		if err := json.Unmarshal(js, &e); err != nil {
			return "err"
		}
		return ekrObs(&e)
	}))
}

func opUnjsonDRR(js []byte) {
	emit("unjson-drr "+hx(js), guard(func() string {
		var d appencryption.DataRowRecord
		if err := json.Unmarshal(js, &d); err != nil {
			return "err"
		}
		return drrObs(&d)
	}))
}

// jsonVariant writes a record as JSON "from the documentation", in a random style no Go encoder
// produces: permuted members, white space, explicit defaults, \u escapes (surrogate pairs for
// astral characters), "\/" — any conforming reader must decode all of them to the same record.
type jw struct {
	rng *prng.R
	b   strings.Builder
}

func (w *jw) ws() {
	for w.rng.Intn(3) == 0 {
		w.b.WriteString([]string{" ", "\n", "\t", "\r", "  "}[w.rng.Intn(5)])
	}
}

func (w *jw) str(s string) {
	w.b.WriteByte('"')
	style := w.rng.Intn(3) // 0 minimal escapes, 1 escape everything non-alphanumeric, 2 mixed
	for _, r := range s {
		esc := style == 1 || (style == 2 && w.rng.Bool())
		switch {
		case r == '"' || r == '\\':
			w.b.WriteByte('\\')
			w.b.WriteRune(r)
		case r == '/' && esc:
			w.b.WriteString(`\/`)
		case r == '\n' && !esc:
			w.b.WriteString(`\n`)
		case r == '\t' && !esc:
			w.b.WriteString(`\t`)
		case r < 0x20 || (esc && !(r >= 'a' && r <= 'z') && !(r >= '0' && r <= '9')):
			if r >= 0x10000 {
				hi, lo := utf16.EncodeRune(r)
				fmt.Fprintf(&w.b, `\u%04x\u%04X`, hi, lo)
			} else {
				fmt.Fprintf(&w.b, `\u%04X`, r)
			}
		default:
			w.b.WriteRune(r)
		}
	}
	w.b.WriteByte('"')
}

func (w *jw) members(ms [][2]string) {
	// ms: name, already rendered value; permute
	for i := len(ms) - 1; i > 0; i-- {
		j := w.rng.Intn(i + 1)
		ms[i], ms[j] = ms[j], ms[i]
	}
	w.b.WriteByte('{')
	for i, m := range ms {
		if i > 0 {
			w.b.WriteByte(',')
		}
		w.ws()
		w.b.WriteString(m[0])
		w.ws()
		w.b.WriteByte(':')
		w.ws()
		w.b.WriteString(m[1])
		w.ws()
	}
	w.b.WriteByte('}')
}

func (w *jw) sub(f func(*jw)) string {
	x := &jw{rng: w.rng}
	f(x)
	return x.b.String()
}

func (w *jw) quoted(s string) string { return w.sub(func(x *jw) { x.str(s) }) }

func (w *jw) extras(ms [][2]string) [][2]string {
	if w.rng.Intn(4) == 0 {
		ms = append(ms, [2]string{`"Extra"`, []string{`[1,{"a":[]},"x",null,true]`, `{"Key":"nested","n":-12}`, `"str"`, `null`, `-0`}[w.rng.Intn(5)]})
	}
	return ms
}

func (w *jw) meta(m *appencryption.KeyMeta) string {
	return w.sub(func(x *jw) {
		x.members([][2]string{{`"KeyId"`, x.quoted(m.ID)}, {`"Created"`, strconv.FormatInt(m.Created, 10)}})
	})
}

func (w *jw) ekr(e *appencryption.EnvelopeKeyRecord) string {
	return w.sub(func(x *jw) {
		ms := [][2]string{{`"Created"`, strconv.FormatInt(e.Created, 10)},
			{`"Key"`, x.quoted(base64.StdEncoding.EncodeToString(e.EncryptedKey))}}
		if e.Revoked {
			ms = append(ms, [2]string{`"Revoked"`, "true"})
		} else if x.rng.Intn(3) == 0 {
			ms = append(ms, [2]string{`"Revoked"`, []string{"false", "null"}[x.rng.Intn(2)]})
		}
		if e.ParentKeyMeta != nil {
			ms = append(ms, [2]string{`"ParentKeyMeta"`, x.meta(e.ParentKeyMeta)})
		} else if x.rng.Intn(3) == 0 {
			ms = append(ms, [2]string{`"ParentKeyMeta"`, "null"})
		}
		x.members(x.extras(ms))
	})
}

func (w *jw) drr(d *appencryption.DataRowRecord) string {
	return w.sub(func(x *jw) {
		ms := [][2]string{{`"Data"`, x.quoted(base64.StdEncoding.EncodeToString(d.Data))}}
		if d.Key != nil {
			ms = append(ms, [2]string{`"Key"`, x.ekr(d.Key)})
		} else if x.rng.Bool() {
			ms = append(ms, [2]string{`"Key"`, "null"})
		}
		x.ws()
		x.members(x.extras(ms))
		x.ws()
	})
}

// ---- SQL: a database/sql driver that records the arguments of Exec and answers Query -----------

type fakeSQL struct {
	args []driver.Value
	text *string // what the next query returns (nil: no row)
}

var theSQL = &fakeSQL{}

type fakeConn struct{}
type fakeStmt struct{ q string }
type fakeRows struct {
	text *string
	done bool
}

func (fakeSQL) Open(string) (driver.Conn, error)       { return fakeConn{}, nil }
func (fakeConn) Prepare(q string) (driver.Stmt, error) { return fakeStmt{q}, nil }
func (fakeConn) Close() error                          { return nil }
func (fakeConn) Begin() (driver.Tx, error)             { return nil, errors.New("no tx") }
func (fakeStmt) Close() error                          { return nil }
func (fakeStmt) NumInput() int                         { return -1 }
func (s fakeStmt) Exec(a []driver.Value) (driver.Result, error) {
	theSQL.args = append([]driver.Value{s.q}, a...)
	return driver.RowsAffected(1), nil
}
func (s fakeStmt) Query(a []driver.Value) (driver.Rows, error) {
	theSQL.args = append([]driver.Value{s.q}, a...)
	return &fakeRows{text: theSQL.text}, nil
}
func (r *fakeRows) Columns() []string { return []string{"key_record"} }
func (r *fakeRows) Close() error      { return nil }
func (r *fakeRows) Next(dest []driver.Value) error {
	if r.done || r.text == nil {
		return io.EOF
	}
	r.done = true
	dest[0] = *r.text
	return nil
}

var sqlStore *persistence.SQLMetastore

func sqlMeta() *persistence.SQLMetastore {
	if sqlStore == nil {
		sql.Register("hxfmt-fake", theSQL)
		db, err := sql.Open("hxfmt-fake", "")
		if err != nil {
			panic(err)
		}
		sqlStore = persistence.NewSQLMetastore(db)
	}
	return sqlStore
}

func opSQLStore(id string, created int64, e *appencryption.EnvelopeKeyRecord) {
	emit(fmt.Sprintf("sql-store %s %d %s", hx([]byte(id)), created, ekrFields(e)), guard(func() string {
		theSQL.args = nil
		ok, err := sqlMeta().Store(context.Background(), id, created, e)
		if err != nil || !ok || len(theSQL.args) != 4 {
			return "err"
		}
		q, _ := theSQL.args[0].(string)
		if !strings.Contains(q, "(id, created, key_record)") {
			return "err:columns"
		}
		aid, ok1 := theSQL.args[1].(string)
		at, ok2 := theSQL.args[2].(time.Time)
		txt, ok3 := theSQL.args[3].(string)
		if !ok1 || !ok2 || !ok3 {
			return "err:argtypes"
		}
		return fmt.Sprintf("%s %d %s", hx([]byte(aid)), at.Unix(), hx([]byte(txt)))
	}))
}

func opSQLLoad(text []byte) {
	emit("sql-load "+hx(text), guard(func() string {
		s := string(text)
		theSQL.text = &s
		defer func() { theSQL.text = nil }()
		e, err := sqlMeta().Load(context.Background(), "some-id", 1)
		if err != nil {
			return "err"
		}
		if e == nil {
			return "none"
		}
		return ekrObs(e)
	}))
}

// ---- attribute trees ---------------------------------------------------------------------------
//
// flat text: `path=T:value` joined by `;`, sorted by path; maps also appear themselves as
// `path=M:` (so that an empty map is visible); the root map is implicit; `-` = empty item.
//   S:<hex>  N:<hex of the number text>  BOOL:0|1  NULL:  B:<hex>  M:  L:<n> (children path.0 …)

type node struct {
	kind string // S N BOOL NULL B M L
	s    string
	b    []byte
	kids map[string]*node
	list []*node
}

func (n *node) flat(path string, out *[]string) {
	add := func(v string) {
		if path != "" {
			*out = append(*out, path+"="+n.kind+":"+v)
		}
	}
	switch n.kind {
	case "S", "N":
		add(hx([]byte(n.s)))
	case "B":
		add(hx(n.b))
	case "BOOL":
		add(n.s)
	case "NULL":
		add("")
	case "M":
		add("")
		for k, c := range n.kids {
			p := k
			if path != "" {
				p = path + "." + k
			}
			c.flat(p, out)
		}
	case "L":
		add(strconv.Itoa(len(n.list)))
		for i, c := range n.list {
			c.flat(path+"."+strconv.Itoa(i), out)
		}
	}
}

func flatText(root *node) string {
	var ls []string
	root.flat("", &ls)
	if len(ls) == 0 {
		return "-"
	}
	sort.Strings(ls)
	return strings.Join(ls, ";")
}

func unflat(text string) *node {
	root := &node{kind: "M", kids: map[string]*node{}}
	if text == "-" {
		return root
	}
	ents := strings.Split(text, ";")
	for _, e := range ents {
		i := strings.Index(e, "=")
		j := strings.Index(e[i+1:], ":") + i + 1
		path, kind, val := strings.Split(e[:i], "."), e[i+1:j], e[j+1:]
		n := &node{kind: kind}
		switch kind {
		case "S", "N":
			n.s = string(unhx(orDash(val)))
		case "B":
			n.b = unhx(orDash(val))
		case "BOOL":
			n.s = val
		case "M":
			n.kids = map[string]*node{}
		}
		cur := root
		for _, p := range path[:len(path)-1] {
			if cur.kids[p] == nil {
				cur.kids[p] = &node{kind: "M", kids: map[string]*node{}}
			}
			cur = cur.kids[p]
		}
		last := path[len(path)-1]
		if kind == "M" && cur.kids[last] != nil {
			continue // created on demand by one of its children
		}
		cur.kids[last] = n
	}
	return root
}

func orDash(s string) string {
	if s == "" {
		return "-"
	}
	return s
}

func fromV1(av *ddb1.AttributeValue) *node {
	switch {
	case av == nil:
		return &node{kind: "NULL"}
	case av.S != nil:
		return &node{kind: "S", s: *av.S}
	case av.N != nil:
		return &node{kind: "N", s: *av.N}
	case av.BOOL != nil:
		if *av.BOOL {
			return &node{kind: "BOOL", s: "1"}
		}
		return &node{kind: "BOOL", s: "0"}
	case av.NULL != nil:
		return &node{kind: "NULL"}
	case av.B != nil:
		return &node{kind: "B", b: av.B}
	case av.M != nil:
		n := &node{kind: "M", kids: map[string]*node{}}
		for k, v := range av.M {
			n.kids[k] = fromV1(v)
		}
		return n
	case av.L != nil:
		n := &node{kind: "L"}
		for _, v := range av.L {
			n.list = append(n.list, fromV1(v))
		}
		return n
	}
	return &node{kind: "?"}
}

func toV1(n *node) *ddb1.AttributeValue {
	switch n.kind {
	case "S":
		return &ddb1.AttributeValue{S: aws.String(n.s)}
	case "N":
		return &ddb1.AttributeValue{N: aws.String(n.s)}
	case "BOOL":
		return &ddb1.AttributeValue{BOOL: aws.Bool(n.s == "1")}
	case "NULL":
		return &ddb1.AttributeValue{NULL: aws.Bool(true)}
	case "B":
		return &ddb1.AttributeValue{B: n.b}
	case "M":
		m := map[string]*ddb1.AttributeValue{}
		for k, c := range n.kids {
			m[k] = toV1(c)
		}
		return &ddb1.AttributeValue{M: m}
	}
	return &ddb1.AttributeValue{}
}

func fromV2(av ddbtypes.AttributeValue) *node {
	switch t := av.(type) {
	case *ddbtypes.AttributeValueMemberS:
		return &node{kind: "S", s: t.Value}
	case *ddbtypes.AttributeValueMemberN:
		return &node{kind: "N", s: t.Value}
	case *ddbtypes.AttributeValueMemberBOOL:
		if t.Value {
			return &node{kind: "BOOL", s: "1"}
		}
		return &node{kind: "BOOL", s: "0"}
	case *ddbtypes.AttributeValueMemberNULL:
		return &node{kind: "NULL"}
	case *ddbtypes.AttributeValueMemberB:
		return &node{kind: "B", b: t.Value}
	case *ddbtypes.AttributeValueMemberM:
		n := &node{kind: "M", kids: map[string]*node{}}
		for k, v := range t.Value {
			n.kids[k] = fromV2(v)
		}
		return n
	case *ddbtypes.AttributeValueMemberL:
		n := &node{kind: "L"}
		for _, v := range t.Value {
			n.list = append(n.list, fromV2(v))
		}
		return n
	}
	return &node{kind: "?"}
}

func toV2(n *node) ddbtypes.AttributeValue {
	switch n.kind {
	case "S":
		return &ddbtypes.AttributeValueMemberS{Value: n.s}
	case "N":
		return &ddbtypes.AttributeValueMemberN{Value: n.s}
	case "BOOL":
		return &ddbtypes.AttributeValueMemberBOOL{Value: n.s == "1"}
	case "NULL":
		return &ddbtypes.AttributeValueMemberNULL{Value: true}
	case "B":
		return &ddbtypes.AttributeValueMemberB{Value: n.b}
	case "M":
		m := map[string]ddbtypes.AttributeValue{}
		for k, c := range n.kids {
			m[k] = toV2(c)
		}
		return &ddbtypes.AttributeValueMemberM{Value: m}
	}
	return &ddbtypes.AttributeValueMemberNULL{Value: true}
}

// ---- DynamoDB fakes: record what Store puts, answer Load with a prepared item -------------------

type fakeV1 struct {
	put  map[string]*ddb1.AttributeValue
	item map[string]*ddb1.AttributeValue
}

func (f *fakeV1) GetItemWithContext(aws.Context, *ddb1.GetItemInput, ...request.Option) (*ddb1.GetItemOutput, error) {
	return &ddb1.GetItemOutput{Item: f.item}, nil
}
func (f *fakeV1) PutItemWithContext(_ aws.Context, in *ddb1.PutItemInput, _ ...request.Option) (*ddb1.PutItemOutput, error) {
	f.put = in.Item
	return &ddb1.PutItemOutput{}, nil
}
func (f *fakeV1) QueryWithContext(aws.Context, *ddb1.QueryInput, ...request.Option) (*ddb1.QueryOutput, error) {
	return &ddb1.QueryOutput{}, nil
}

type fakeV2 struct {
	put  map[string]ddbtypes.AttributeValue
	item map[string]ddbtypes.AttributeValue
}

func (f *fakeV2) GetItem(context.Context, *dynamodb.GetItemInput, ...func(*dynamodb.Options)) (*dynamodb.GetItemOutput, error) {
	return &dynamodb.GetItemOutput{Item: f.item}, nil
}
func (f *fakeV2) PutItem(_ context.Context, in *dynamodb.PutItemInput, _ ...func(*dynamodb.Options)) (*dynamodb.PutItemOutput, error) {
	f.put = in.Item
	return &dynamodb.PutItemOutput{}, nil
}
func (f *fakeV2) Query(context.Context, *dynamodb.QueryInput, ...func(*dynamodb.Options)) (*dynamodb.QueryOutput, error) {
	return &dynamodb.QueryOutput{}, nil
}
func (f *fakeV2) Options() dynamodb.Options { return dynamodb.Options{Region: "us-west-2"} }

var (
	f1  = &fakeV1{}
	f2  = &fakeV2{}
	ms1 *v1persist.DynamoDBMetastore
	ms2 *v2meta.Metastore
)

func ddbStores() {
	if ms1 == nil {
		sess := awssession.Must(awssession.NewSession(&aws.Config{Region: aws.String("us-west-2")}))
		ms1 = v1persist.NewDynamoDBMetastore(sess, v1persist.WithClient(f1))
		var err error
		ms2, err = v2meta.NewDynamoDB(v2meta.WithDynamoDBClient(f2))
		if err != nil {
			panic(err)
		}
	}
}

func opDDBStore(v int, id string, created int64, e *appencryption.EnvelopeKeyRecord) {
	ddbStores()
	emit(fmt.Sprintf("ddb%d-store %s %d %s", v, hx([]byte(id)), created, ekrFields(e)), guard(func() string {
		ctx := context.Background()
		if v == 1 {
			f1.put = nil
			if ok, err := ms1.Store(ctx, id, created, e); err != nil || !ok {
				return "err"
			}
			return flatText(fromV1(&ddb1.AttributeValue{M: f1.put}))
		}
		f2.put = nil
		if ok, err := ms2.Store(ctx, id, created, e); err != nil || !ok {
			return "err"
		}
		return flatText(fromV2(&ddbtypes.AttributeValueMemberM{Value: f2.put}))
	}))
}

func opDDBLoad(v int, flat string) {
	ddbStores()
	emit(fmt.Sprintf("ddb%d-load %s", v, flat), guard(func() string {
		ctx := context.Background()
		root := unflat(flat)
		var e *appencryption.EnvelopeKeyRecord
		var err error
		if v == 1 {
			f1.item = toV1(root).M
			e, err = ms1.Load(ctx, "some-id", 1)
		} else {
			f2.item = toV2(root).(*ddbtypes.AttributeValueMemberM).Value
			e, err = ms2.Load(ctx, "some-id", 1)
		}
		if err != nil {
			return "err"
		}
		if e == nil {
			return "none"
		}
		return ekrObs(e) + " id:" + hx([]byte(e.ID))
	}))
}

// itemNode: the documented item for a record, with harmless variations no marshaler produces.
func itemNode(rng *prng.R, id string, created int64, e *appencryption.EnvelopeKeyRecord, vary bool) *node {
	kr := &node{kind: "M", kids: map[string]*node{
		"Created": {kind: "N", s: strconv.FormatInt(e.Created, 10)},
		"Key":     {kind: "S", s: base64.StdEncoding.EncodeToString(e.EncryptedKey)},
	}}
	if e.Revoked {
		kr.kids["Revoked"] = &node{kind: "BOOL", s: "1"}
	} else if vary && rng.Intn(3) == 0 {
		kr.kids["Revoked"] = &node{kind: "BOOL", s: "0"}
	}
	if e.ParentKeyMeta != nil {
		kr.kids["ParentKeyMeta"] = &node{kind: "M", kids: map[string]*node{
			"KeyId":   {kind: "S", s: e.ParentKeyMeta.ID},
			"Created": {kind: "N", s: strconv.FormatInt(e.ParentKeyMeta.Created, 10)},
		}}
	} else if vary && rng.Intn(3) == 0 {
		kr.kids["ParentKeyMeta"] = &node{kind: "NULL"}
	}
	root := &node{kind: "M", kids: map[string]*node{"KeyRecord": kr}}
	// Load projects on KeyRecord only; a full item (as stored) must decode the same way
	if !vary || rng.Bool() {
		root.kids["Id"] = &node{kind: "S", s: id}
		root.kids["Created"] = &node{kind: "N", s: strconv.FormatInt(created, 10)}
	}
	return root
}

// ---- protobuf mapping ---------------------------------------------------------------------------
//
// pb text:  <datahex> nil | <datahex> <created> <keyhex> nil | <datahex> <created> <keyhex> <pcreated> <pidhex>

func pbFields(p *pb.DataRowRecord) string {
	s := hx(p.GetData())
	if p.GetKey() == nil {
		return s + " nil"
	}
	s += fmt.Sprintf(" %d %s", p.Key.GetCreated(), hx(p.Key.GetKey()))
	if p.Key.GetParentKeyMeta() == nil {
		return s + " nil"
	}
	return s + fmt.Sprintf(" %d %s", p.Key.ParentKeyMeta.GetCreated(), hx([]byte(p.Key.ParentKeyMeta.GetKeyId())))
}

func parsePB(f []string) *pb.DataRowRecord {
	p := &pb.DataRowRecord{Data: unhx(f[0])}
	if len(f) >= 4 {
		c, _ := strconv.ParseInt(f[1], 10, 64)
		p.Key = &pb.EnvelopeKeyRecord{Created: c, Key: unhx(f[2])}
		if len(f) >= 5 {
			pc, _ := strconv.ParseInt(f[3], 10, 64)
			p.Key.ParentKeyMeta = &pb.KeyMeta{Created: pc, KeyId: string(unhx(f[4]))}
		}
	}
	return p
}

func opPBTo(d *appencryption.DataRowRecord) *pb.DataRowRecord {
	var res *pb.DataRowRecord
	emit("pb-to "+drrFields(d), guard(func() string {
		res = server.VerifToProtobufDRR(d)
		return "pb:" + strings.ReplaceAll(pbFields(res), " ", ":")
	}))
	return res
}

// opPBFrom sends the message over the protobuf WIRE format first, then through fromProtobufDRR.
func opPBFrom(p *pb.DataRowRecord) {
	emit("pb-from "+pbFields(p), guard(func() string {
		wire, err := proto.Marshal(p)
		if err != nil {
			return "err:marshal"
		}
		var q pb.DataRowRecord
		if err := proto.Unmarshal(wire, &q); err != nil {
			return "err:unmarshal"
		}
		if pbFields(&q) != pbFields(p) {
			return "err:wire-roundtrip"
		}
		return drrObs(server.VerifFromProtobufDRR(&q))
	}))
}

func opKeyID(part, svc, prod, sfx string) {
	emit(fmt.Sprintf("keyid %s %s %s %s", hx([]byte(part)), hx([]byte(svc)), hx([]byte(prod)), sfxText(sfx)), guard(func() string {
		sk, ik := appencryption.VerifKeyIDs(part, svc, prod, sfx)
		return hx([]byte(sk)) + " " + hx([]byte(ik))
	}))
}

// ---- generator --------------------------------------------------------------------------------

func carrierCases(rng *prng.R, n int) {
	fmt.Fprintln(out, "# carriers: the same records through encoding/json, the SQL row, both DynamoDB item encodings, the protobuf mapping; key ids")
	for i := 0; i < n; i++ {
		e := genEKR(rng)
		d := genDRR(rng)
		id, created := genID(rng), genCreated(rng)
		opJSONEKR(e)
		opJSONDRR(d)
		w := &jw{rng: rng}
		opUnjsonEKR([]byte(w.ekr(e)))
		opUnjsonDRR([]byte(w.drr(d)))
		if js, err := json.Marshal(e); err == nil {
			opUnjsonEKR(js)
			opSQLLoad(js)
		}
		if js, err := json.Marshal(d); err == nil {
			opUnjsonDRR(js)
		}
		opSQLStore(id, created, e)
		opSQLLoad([]byte(w.ekr(e)))
		for v := 1; v <= 2; v++ {
			opDDBStore(v, id, created, e)
			opDDBLoad(v, flatText(itemNode(rng, id, created, e, false)))
			opDDBLoad(v, flatText(itemNode(rng, id, created, e, true)))
		}
		if p := opPBTo(d); p != nil {
			opPBFrom(p)
		}
		opPBFrom(genPB(rng))
		sfx := ""
		if rng.Intn(3) == 0 {
			sfx = genID(rng)
		}
		opKeyID(genID(rng), genID(rng), genID(rng), sfx)
	}
}

func genPB(rng *prng.R) *pb.DataRowRecord {
	p := &pb.DataRowRecord{Data: rng.Bytes(rng.Intn(40))}
	if rng.Intn(4) != 0 {
		p.Key = &pb.EnvelopeKeyRecord{Created: genCreated(rng), Key: genKeyBytes(rng)}
		if rng.Intn(4) != 0 {
			p.Key.ParentKeyMeta = &pb.KeyMeta{Created: genCreated(rng), KeyId: genID(rng)}
		}
	}
	return p
}

// execCodecOp: replay of one codec operation line.
func execCodecOp(f []string) bool {
	atoi := func(s string) int64 { v, _ := strconv.ParseInt(s, 10, 64); return v }
	switch {
	case f[0] == "json-ekr" && len(f) == 5:
		opJSONEKR(parseEKR(f[1:]))
	case f[0] == "json-drr" && (len(f) == 3 || len(f) == 6):
		opJSONDRR(parseDRR(f[1:]))
	case f[0] == "unjson-ekr" && len(f) == 2:
		opUnjsonEKR(unhx(f[1]))
	case f[0] == "unjson-drr" && len(f) == 2:
		opUnjsonDRR(unhx(f[1]))
	case f[0] == "sql-store" && len(f) == 7:
		opSQLStore(string(unhx(f[1])), atoi(f[2]), parseEKR(f[3:]))
	case f[0] == "sql-load" && len(f) == 2:
		opSQLLoad(unhx(f[1]))
	case (f[0] == "ddb1-store" || f[0] == "ddb2-store") && len(f) == 7:
		opDDBStore(int(f[0][3]-'0'), string(unhx(f[1])), atoi(f[2]), parseEKR(f[3:]))
	case (f[0] == "ddb1-load" || f[0] == "ddb2-load") && len(f) == 2:
		opDDBLoad(int(f[0][3]-'0'), f[1])
	case f[0] == "pb-to" && (len(f) == 3 || len(f) == 6):
		opPBTo(parseDRR(f[1:]))
	case f[0] == "pb-from" && len(f) >= 3 && len(f) <= 6:
		opPBFrom(parsePB(f[1:]))
	case f[0] == "keyid" && len(f) == 5:
		sfx := ""
		if f[4] != "nil" {
			sfx = string(unhx(f[4]))
		}
		opKeyID(string(unhx(f[1])), string(unhx(f[2])), string(unhx(f[3])), sfx)
	default:
		return false
	}
	return true
}
