package main

import (
	"bufio"
	"context"
	"encoding/json"
	"fmt"
	"os"
	"sort"
	"strconv"
	"strings"

	"github.com/godaddy/asherah/go/appencryption"
	"github.com/godaddy/asherah/go/appencryption/pkg/kms"
	"github.com/godaddy/asherah/go/appencryption/pkg/persistence"

	"verifharness/internal/prng"
)

// suffixed makes the memory metastore report a region suffix (what the DynamoDB metastores do with
// WithDynamoDBRegionSuffix); the session factory then builds suffixed partitions.
type suffixed struct {
	*persistence.MemoryMetastore
	suffix string
}

func (s suffixed) GetRegionSuffix() string { return s.suffix }

func sfxText(s string) string {
	if s == "" {
		return "nil"
	}
	return hx([]byte(s))
}

// (a) SDK writes → reference reads.  Per case: `case <i> <seed>`, one `row` line per metastore row (the
// JSON the SDK stores for it), one `chain` line per data row record.  Every case draws from its own
// PRNG derived from (seed, i) — including the crypto/rand source the SDK sees — so that
// `case <i> <seed>` alone regenerates it (replay).
func chainCases(rng *prng.R, n int) {
	fmt.Fprintln(out, "# chain: SDK writes (static KMS, memory metastore, AES256GCM); the reference decoder must recover every payload")
	base := rng.U64() >> 1
	for i := 0; i < n; i++ {
		chainCase(base, i)
	}
}

func chainCase(base uint64, i int) {
	rng := prng.New(base*1000003 + uint64(i))
	saved := randSrc.rng
	randSrc.rng = prng.New(base*7919 + uint64(i) + 0x5eed)
	defer func() { randSrc.rng = saved }()
	ctx := context.Background()
	master := rng.Bytes(32)
	svc, prod := genName(rng), genName(rng)
	suffix := ""
	if rng.Intn(3) == 0 {
		suffix = []string{"us-west-2", "eu-central-1", "x"}[rng.Intn(3)]
	}
	func() {
		defer func() {
			if e := recover(); e != nil {
				emit(fmt.Sprintf("chain-panic %d", i), fmt.Sprint(e))
			}
		}()
		km, err := kms.NewStatic(string(master), crypto)
		if err != nil {
			emit("chain-setup", "err:"+err.Error())
			return
		}
		defer km.Close()
		mem := persistence.NewMemoryMetastore()
		var store appencryption.Metastore = mem
		if suffix != "" {
			store = suffixed{mem, suffix}
		}
		var popts []appencryption.PolicyOption
		if rng.Intn(3) == 0 {
			popts = append(popts, appencryption.WithNoCache())
		}
		factory := appencryption.NewSessionFactory(&appencryption.Config{Service: svc, Product: prod,
			Policy: appencryption.NewCryptoPolicy(popts...)}, store, km, crypto)
		defer factory.Close()
		type rec struct {
			part    string
			payload []byte
			drr     *appencryption.DataRowRecord
		}
		var recs []rec
		nparts := 1 + rng.Intn(2)
		for p := 0; p < nparts; p++ {
			part := genName(rng)
			sess, err := factory.GetSession(part)
			if err != nil {
				emit("chain-setup", "err:"+err.Error())
				return
			}
			for k := 0; k < 1+rng.Intn(2); k++ {
				l := payloadLen(rng)
				if i%61 == 60 && i < 190 && k == 0 && p == 0 {
					l = 65536 + rng.Intn(3)
				}
				payload := rng.Bytes(l)
				before := append([]byte(nil), payload...)
				drr, err := sess.Encrypt(ctx, payload)
				if err != nil {
					emit("chain-encrypt", "err:"+err.Error())
					continue
				}
				if string(before) != string(payload) {
					emit("chain-encrypt", "caller-buffer-modified")
				}
				recs = append(recs, rec{part, before, drr})
			}
			sess.Close()
		}
		// sometimes flip Revoked on stored rows afterwards (what a revocation job does): the
		// stored JSON then carries "Revoked":true and everything must still decrypt
		if rng.Intn(3) == 0 {
			var ids []string
			for id := range mem.Envelopes {
				ids = append(ids, id)
			}
			sort.Strings(ids)
			for _, id := range ids {
				for _, e := range mem.Envelopes[id] {
					if rng.Bool() {
						e.Revoked = true
					}
				}
			}
		}
		fmt.Fprintf(out, "case %d %d\n", i, base)
		var ids []string
		for id := range mem.Envelopes {
			ids = append(ids, id)
		}
		sort.Strings(ids)
		for _, id := range ids {
			var cs []int64
			for c := range mem.Envelopes[id] {
				cs = append(cs, c)
			}
			sort.Slice(cs, func(a, b int) bool { return cs[a] < cs[b] })
			for _, c := range cs {
				js, err := json.Marshal(mem.Envelopes[id][c])
				if err != nil {
					emit("chain-row", "err:"+err.Error())
					continue
				}
				fmt.Fprintf(out, "row %s %d %s\n", hx([]byte(id)), c, hx(js))
			}
		}
		for _, r := range recs {
			js, err := json.Marshal(r.drr)
			if err != nil {
				emit("chain-drr", "err:"+err.Error())
				continue
			}
			emit(fmt.Sprintf("chain %s %s %s %s %s %s", hx(master), hx([]byte(r.part)), hx([]byte(svc)), hx([]byte(prod)),
				sfxText(suffix), hx(js)), "ok:"+hx(r.payload))
		}
	}()
}

// (b) pass 1: requests for the reference ENCODER with all randomness chosen here.
//
//	build <n> <master> <sk> <ik> <drk> <n1> <n2> <n3> <n4> <part> <svc> <prod> <sfx|nil> <skc> <ikc> <drkc> <skrev> <ikrev> <pt>
//	lseal <n> <key> <nonce> <pt>
func buildRequests(rng *prng.R, n int) {
	fmt.Fprintln(out, "# build: requests for the reference encoder (md_fmt answer)")
	big := 0
	for i := 0; i < n; i++ {
		l := payloadLen(rng)
		if i%53 == 52 && big < 3 {
			l = 65536 - rng.Intn(2)
			big++
		}
		suffix := "nil"
		if rng.Intn(3) == 0 {
			suffix = hx([]byte([]string{"us-west-2", "ap-south-1", "z"}[rng.Intn(3)]))
		}
		b := func(x bool) int {
			if x {
				return 1
			}
			return 0
		}
		part, svc, prod := genName(rng), genName(rng), genName(rng)
		if rng.Intn(4) == 0 { // ids with JSON-relevant characters
			part = genID(rng)
			if part == "" {
				part = "p"
			}
		}
		fmt.Fprintf(out, "build %d %s %s %s %s %s %s %s %s %s %s %s %s %d %d %d %d %d %s\n", i,
			hx(rng.Bytes(32)), hx(rng.Bytes(32)), hx(rng.Bytes(32)), hx(rng.Bytes(32)),
			hx(rng.Bytes(12)), hx(rng.Bytes(12)), hx(rng.Bytes(12)), hx(rng.Bytes(12)),
			hx([]byte(part)), hx([]byte(svc)), hx([]byte(prod)), suffix,
			genCreated(rng), genCreated(rng), genCreated(rng), b(rng.Intn(4) == 0), b(rng.Intn(4) == 0), hx(rng.Bytes(l)))
		if i%2 == 0 {
			klen := []int{32, 32, 16, 24}[rng.Intn(4)]
			fmt.Fprintf(out, "lseal %d %s %s %s\n", i, hx(rng.Bytes(klen)), hx(rng.Bytes(12)), hx(rng.Bytes(payloadLen(rng))))
		}
	}
}

func readLines(path string) []string {
	f, err := os.Open(path)
	if err != nil {
		fmt.Fprintln(os.Stderr, err)
		os.Exit(2)
	}
	defer f.Close()
	sc := bufio.NewScanner(f)
	sc.Buffer(make([]byte, 1<<20), 1<<26)
	var ls []string
	for sc.Scan() {
		ls = append(ls, sc.Text())
	}
	return ls
}

// (b) pass 2: load what the reference encoder built into a memory metastore and let the REAL SDK
// decrypt it.
//
//	answers:  built <n> <skidhex> <skc> <skrowjson> <ikidhex> <ikc> <ikrowjson> <drrjson>
//	          lsealed <n> <c>
//	output:   sdkdec <n> <pt> => ok:<pt'> | err:<msg>        goopen <n> <pt> => ok:<pt'> | err:<class>
func consume(reqPath, ansPath string) {
	fmt.Fprintln(out, "# consume: reference-built rows and records through the real SDK Decrypt")
	builds := map[string][]string{}
	seals := map[string][]string{}
	for _, l := range readLines(reqPath) {
		f := strings.Fields(l)
		if len(f) == 20 && f[0] == "build" {
			builds[f[1]] = f
		} else if len(f) == 5 && f[0] == "lseal" {
			seals[f[1]] = f
		}
	}
	ctx := context.Background()
	for _, l := range readLines(ansPath) {
		f := strings.Fields(l)
		switch {
		case len(f) == 9 && f[0] == "built":
			rq, ok := builds[f[1]]
			if !ok {
				emit("sdkdec "+f[1]+" -", "err:no-such-request")
				continue
			}
			pt := rq[19]
			obs := func() (res string) {
				defer func() {
					if e := recover(); e != nil {
						res = "panic:" + strings.ReplaceAll(fmt.Sprint(e), " ", "_")
					}
				}()
				mem := persistence.NewMemoryMetastore()
				for _, r := range [][3]string{{f[2], f[3], f[4]}, {f[5], f[6], f[7]}} {
					var ekr *appencryption.EnvelopeKeyRecord
					if err := json.Unmarshal(unhx(r[2]), &ekr); err != nil {
						return "err:row-json:" + strings.ReplaceAll(err.Error(), " ", "_")
					}
					c, err := strconv.ParseInt(r[1], 10, 64)
					if err != nil {
						return "err:row-created"
					}
					if ok, _ := mem.Store(ctx, string(unhx(r[0])), c, ekr); !ok {
						return "err:row-duplicate"
					}
				}
				km, err := kms.NewStatic(string(unhx(rq[2])), crypto)
				if err != nil {
					return "err:kms"
				}
				defer km.Close()
				var store appencryption.Metastore = mem
				if rq[13] != "nil" {
					store = suffixed{mem, string(unhx(rq[13]))}
				}
				factory := appencryption.NewSessionFactory(&appencryption.Config{Service: string(unhx(rq[11])),
					Product: string(unhx(rq[12])), Policy: appencryption.NewCryptoPolicy()}, store, km, crypto)
				defer factory.Close()
				sess, err := factory.GetSession(string(unhx(rq[10])))
				if err != nil {
					return "err:session"
				}
				defer sess.Close()
				var drr appencryption.DataRowRecord
				if err := json.Unmarshal(unhx(f[8]), &drr); err != nil {
					return "err:drr-json:" + strings.ReplaceAll(err.Error(), " ", "_")
				}
				p, err := sess.Decrypt(ctx, drr)
				if err != nil {
					return "err:decrypt:" + strings.ReplaceAll(err.Error(), " ", "_")
				}
				return "ok:" + hx(p)
			}()
			emit("sdkdec "+f[1]+" "+pt, obs)
		case len(f) == 3 && f[0] == "lsealed":
			rq, ok := seals[f[1]]
			if !ok {
				emit("goopen "+f[1]+" -", "err:no-such-request")
				continue
			}
			obs := func() (res string) {
				defer func() {
					if e := recover(); e != nil {
						res = "panic"
					}
				}()
				p, err := crypto.Decrypt(unhx(f[2]), unhx(rq[2]))
				if err != nil {
					return errClass(err)
				}
				return "ok:" + hx(p)
			}()
			emit("goopen "+f[1]+" "+rq[4], obs)
		}
	}
}
