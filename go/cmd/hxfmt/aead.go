package main

import (
	"crypto/aes"
	"crypto/cipher"
	"fmt"
	"strings"

	"github.com/godaddy/asherah/go/appencryption/pkg/crypto/aead"

	"verifharness/internal/prng"
)

var crypto = aead.NewAES256GCM()

func errClass(err error) string {
	s := err.Error()
	switch {
	case strings.Contains(s, "shorter than nonce size"):
		return "err:short"
	case strings.Contains(s, "message authentication failed"):
		return "err:auth"
	case strings.Contains(s, "invalid key size"):
		return "err:keysize"
	case strings.Contains(s, "too large"):
		return "err:toolarge"
	}
	return "err:other:" + strings.ReplaceAll(s, " ", "_")
}

// opEnc: cryptoFunc.Encrypt with the random source pinned to `nonce`.
func opEnc(key, nonce, pt []byte) {
	op := fmt.Sprintf("enc %s %s %s", hx(key), hx(nonce), hx(pt))
	obs := func() (res string) {
		defer func() {
			if e := recover(); e != nil {
				res = "panic"
			}
		}()
		randSrc.queue = append([]byte(nil), nonce...)
		// plaintext handed over as a window of a larger caller-owned buffer (spare capacity behind it)
		arena := make([]byte, len(pt)+96)
		win := arena[8 : 8+len(pt)]
		copy(win, pt)
		before := append([]byte(nil), arena...)
		c, err := crypto.Encrypt(win, key)
		randSrc.queue = nil
		if err != nil {
			return errClass(err)
		}
		if string(before) != string(arena) {
			return "caller-buffer-modified"
		}
		out := hx(c)
		for i := range arena {
			arena[i] = 0xA5
		}
		if hx(c) != out {
			return "result-aliases-caller-buffer"
		}
		return "ok:" + out
	}()
	emit(op, obs)
}

func opDec(key, c []byte) {
	op := fmt.Sprintf("dec %s %s", hx(key), hx(c))
	obs := func() (res string) {
		defer func() {
			if e := recover(); e != nil {
				res = "panic"
			}
		}()
		arena := make([]byte, len(c)+96)
		win := arena[8 : 8+len(c)]
		copy(win, c)
		before := append([]byte(nil), arena...)
		p, err := crypto.Decrypt(win, key)
		if err != nil {
			return errClass(err)
		}
		if string(before) != string(arena) {
			return "caller-buffer-modified"
		}
		out := hx(p)
		for i := range arena {
			arena[i] = 0xA5
		}
		if hx(p) != out {
			return "result-aliases-caller-buffer"
		}
		return "ok:" + out
	}()
	emit(op, obs)
}

// stdSeal is crypto/cipher's own GCM with a chosen nonce, laid out the documented way.
func stdSeal(key, nonce, pt []byte) []byte {
	b, err := aes.NewCipher(key)
	if err != nil {
		panic(err)
	}
	g, err := cipher.NewGCM(b)
	if err != nil {
		panic(err)
	}
	return append(g.Seal(nil, nonce, pt, nil), nonce...)
}

// NIST GCM test vectors without AAD (gcm-spec test cases 1,2,3 / 7,8,9 / 13,14,15): key, iv, pt.
var nist = [][3]string{
	{"00000000000000000000000000000000", "000000000000000000000000", ""},
	{"00000000000000000000000000000000", "000000000000000000000000", "00000000000000000000000000000000"},
	{"feffe9928665731c6d6a8f9467308308", "cafebabefacedbaddecaf888", "d9313225f88406e5a55909c5aff5269a86a7a9531534f7da2e4c303d8a318a721c3c0c95956809532fcf0e2449a6b525b16aedf5aa0de657ba637b391aafd255"},
	{"000000000000000000000000000000000000000000000000", "000000000000000000000000", ""},
	{"000000000000000000000000000000000000000000000000", "000000000000000000000000", "00000000000000000000000000000000"},
	{"feffe9928665731c6d6a8f9467308308feffe9928665731c", "cafebabefacedbaddecaf888", "d9313225f88406e5a55909c5aff5269a86a7a9531534f7da2e4c303d8a318a721c3c0c95956809532fcf0e2449a6b525b16aedf5aa0de657ba637b391aafd255"},
	{"0000000000000000000000000000000000000000000000000000000000000000", "000000000000000000000000", ""},
	{"0000000000000000000000000000000000000000000000000000000000000000", "000000000000000000000000", "00000000000000000000000000000000"},
	{"feffe9928665731c6d6a8f9467308308feffe9928665731c6d6a8f9467308308", "cafebabefacedbaddecaf888", "d9313225f88406e5a55909c5aff5269a86a7a9531534f7da2e4c303d8a318a721c3c0c95956809532fcf0e2449a6b525b16aedf5aa0de657ba637b391aafd255"},
}

func payloadLen(rng *prng.R) int {
	switch rng.Pick(2, 6, 4, 4, 1) {
	case 0:
		return 0
	case 1:
		return 1 + rng.Intn(48) // around the block boundaries
	case 2:
		return 49 + rng.Intn(512)
	case 3:
		return 512 + rng.Intn(4096-512+1)
	default:
		return []int{15, 16, 17, 31, 32, 33, 255, 256, 257, 4095, 4096}[rng.Intn(11)]
	}
}

func aeadCases(rng *prng.R, n int) {
	fmt.Fprintln(out, "# aead: NIST vectors, then generated keys/nonces/payloads, then mutants and short inputs")
	for _, v := range nist {
		k, iv, p := unhx(v[0]), unhx(v[1]), unhx(v[2])
		if v[2] == "" {
			p = []byte{}
		}
		opEnc(k, iv, p)
		opDec(k, stdSeal(k, iv, p))
	}
	big := 0
	for i := 0; i < n; i++ {
		klen := []int{32, 32, 32, 32, 32, 32, 16, 24}[rng.Intn(8)]
		key := rng.Bytes(klen)
		nonce := rng.Bytes(12)
		l := payloadLen(rng)
		if i%97 == 96 && big < 3 {
			l = 65536 - rng.Intn(3)
			big++
		}
		pt := rng.Bytes(l)
		opEnc(key, nonce, pt)
		c := stdSeal(key, nonce, pt)
		opDec(key, c)
		// mutants of a genuine layout
		switch rng.Intn(8) {
		case 0: // one bit flipped anywhere (ciphertext, tag or nonce)
			m := append([]byte(nil), c...)
			bit := rng.Intn(len(m) * 8)
			m[bit/8] ^= 1 << (bit % 8)
			opDec(key, m)
		case 1: // truncation to every interesting length class
			cut := []int{0, 1, 11, 12, 13, 27, 28, 29}[rng.Intn(8)]
			if cut > len(c) {
				cut = len(c)
			}
			opDec(key, c[:cut])
			opDec(key, c[len(c)-cut:])
		case 2: // wrong key
			opDec(rng.Bytes(klen), c)
		case 3: // a byte appended / prepended
			opDec(key, append(append([]byte(nil), c...), byte(rng.U64())))
			opDec(key, append([]byte{byte(rng.U64())}, c...))
		case 4: // nonce moved to the front (the layout other libraries use)
			m := append(append([]byte(nil), c[len(c)-12:]...), c[:len(c)-12]...)
			opDec(key, m)
		case 5: // junk of a short length
			opDec(key, rng.Bytes(rng.Intn(40)))
		case 6: // invalid key sizes, both directions
			bad := rng.Bytes([]int{0, 1, 15, 17, 31, 33, 64}[rng.Intn(7)])
			opDec(bad, c)
			opEnc(bad, nonce, pt)
		}
	}
	// every length 0..40 of zero bytes and of a genuine prefix: the short-input classes exhaustively
	key := rng.Bytes(32)
	c := stdSeal(key, rng.Bytes(12), rng.Bytes(13))
	for l := 0; l <= len(c); l++ {
		opDec(key, c[:l])
		opDec(key, make([]byte, l))
	}
}
