// hxfmt drives the REAL asherah encoders/decoders for engine `fmt` (property C18 and the byte-level
// GCM parts of C07/C01) and writes one `op => observation` line per case; the Lean driver `md_fmt`
// replays the same operands on the reference implementation (Model/Gcm.lean, Model/Aes.lean,
// Model/Codec.lean).  Protocol: lean/AsherahVerif/Driver/Fmt.lean.
//
//	-mode aead      raw cryptoFunc.Encrypt (random source pinned) / Decrypt, NIST vectors, mutants
//	-mode chain     (a) SDK writes: metastore snapshot + master key + DRR JSON + payload
//	-mode carriers  (d) encoding/json, SQL row, both DynamoDB item encodings, protobuf mapping
//	-mode build     (b) pass 1: requests with harness-chosen randomness for the reference ENCODER
//	-mode consume   (b) pass 2: load the reference-built rows/records, real SDK Decrypt
//	-mode replay    re-run the op lines of a file (observations stripped)
//
// One PRNG (VERIF_SEED). All operands hex; `-` is the empty string.
package main

import (
	"bufio"
	crand "crypto/rand"
	"encoding/hex"
	"flag"
	"fmt"
	"os"
	"strconv"
	"strings"

	"verifharness/internal/prng"
)

var out = bufio.NewWriterSize(os.Stdout, 1<<20)

func hx(b []byte) string {
	if len(b) == 0 {
		return "-"
	}
	return hex.EncodeToString(b)
}

func unhx(s string) []byte {
	if s == "-" {
		return []byte{}
	}
	b, err := hex.DecodeString(s)
	if err != nil {
		fmt.Fprintf(os.Stderr, "bad hex operand %q\n", s)
		os.Exit(2)
	}
	return b
}

// pinned is the process-wide crypto/rand source: first the queued bytes (the nonce an `enc` case
// pins), then the harness PRNG — so the SDK's keys and nonces are a function of VERIF_SEED.
type pinned struct {
	queue []byte
	rng   *prng.R
}

func (p *pinned) Read(b []byte) (int, error) {
	n := copy(b, p.queue)
	p.queue = p.queue[n:]
	for i := n; i < len(b); i++ {
		b[i] = byte(p.rng.U64())
	}
	return len(b), nil
}

var randSrc *pinned

func emit(op, obs string) { fmt.Fprintf(out, "%s => %s\n", op, obs) }

func main() {
	mode := flag.String("mode", "aead", "aead|chain|carriers|build|consume|replay")
	cases := flag.Int("cases", 200, "number of generated cases")
	file := flag.String("file", "", "replay: op lines; consume: the answers of md_fmt")
	reqs := flag.String("requests", "", "consume: the request file of -mode build")
	flag.Parse()
	defer out.Flush()
	rng := prng.FromEnv(18)
	randSrc = &pinned{rng: prng.FromEnv(1018)}
	crand.Reader = randSrc
	switch *mode {
	case "aead":
		aeadCases(rng, *cases)
	case "chain":
		chainCases(rng, *cases)
	case "carriers":
		carrierCases(rng, *cases)
	case "build":
		buildRequests(rng, *cases)
	case "consume":
		consume(*reqs, *file)
	case "replay":
		replay(*file)
	default:
		fmt.Fprintln(os.Stderr, "unknown mode")
		os.Exit(2)
	}
}

// replay executes the op part of every line of a file again.
func replay(path string) {
	data, err := os.ReadFile(path)
	if err != nil {
		fmt.Fprintln(os.Stderr, err)
		os.Exit(2)
	}
	for _, l := range strings.Split(string(data), "\n") {
		l = strings.TrimSpace(l)
		if l == "" || strings.HasPrefix(l, "#") {
			continue
		}
		// a recorded SDK-writes case is REGENERATED from its `case <i> <seed>` line (every case has its
		// own PRNG); the recorded rows / chain lines are skipped
		if strings.HasPrefix(l, "case ") {
			f := strings.Fields(l)
			if len(f) == 3 {
				i, e1 := strconv.Atoi(f[1])
				b, e2 := strconv.ParseUint(f[2], 10, 64)
				if e1 == nil && e2 == nil {
					chainCase(b, i)
					continue
				}
			}
			emit(l, "bad-op")
			continue
		}
		if strings.HasPrefix(l, "row ") || strings.HasPrefix(l, "chain ") {
			continue
		}
		// answers / pass-2 lines of direction (b) are regenerated from their build request
		if f := strings.Fields(l); len(f) > 0 {
			switch f[0] {
			case "build", "lseal", "built", "lsealed", "sdkdec", "goopen":
				continue
			}
		}
		if i := strings.Index(l, " => "); i >= 0 {
			l = l[:i]
		}
		execOp(strings.Fields(l))
	}
}

// execOp runs one operation line on the real code (used by replay; the generators call the
// per-op functions directly).
func execOp(f []string) {
	if len(f) == 0 {
		return
	}
	switch f[0] {
	case "enc":
		if len(f) == 4 {
			opEnc(unhx(f[1]), unhx(f[2]), unhx(f[3]))
			return
		}
	case "dec":
		if len(f) == 3 {
			opDec(unhx(f[1]), unhx(f[2]))
			return
		}
	default:
		if execCodecOp(f) {
			return
		}
	}
	emit(strings.Join(f, " "), "bad-op")
}
