package main

import "verifharness/internal/prng"

func chainCases(rng *prng.R, n int)    {}
func carrierCases(rng *prng.R, n int)  {}
func buildRequests(rng *prng.R, n int) {}
func consume(reqs, answers string)     {}
func execCodecOp(f []string) bool      { return false }
