package main

import (
	"fmt"
	"math"
	"strconv"
	"strings"

	"github.com/godaddy/asherah/go/appencryption"

	"verifharness/internal/prng"
)

// ---- canonical record text (shared with Driver/Fmt.lean) ------------------------------------
//
//	EKR fields:  <rev 0|1> <created> <keyhex> <parent>      parent = nil | <idhex>@<created>
//	DRR fields:  <datahex> nil | <datahex> <EKR fields>
//	observation: ekr:<rev>:<created>:<keyhex>:<parent>   drr:<datahex>:nil   drr:<datahex>:<rev>:…

func parentText(m *appencryption.KeyMeta) string {
	if m == nil {
		return "nil"
	}
	return hx([]byte(m.ID)) + "@" + strconv.FormatInt(m.Created, 10)
}

func ekrFields(e *appencryption.EnvelopeKeyRecord) string {
	r := 0
	if e.Revoked {
		r = 1
	}
	return fmt.Sprintf("%d %d %s %s", r, e.Created, hx(e.EncryptedKey), parentText(e.ParentKeyMeta))
}

func drrFields(d *appencryption.DataRowRecord) string {
	if d.Key == nil {
		return hx(d.Data) + " nil"
	}
	return hx(d.Data) + " " + ekrFields(d.Key)
}

func ekrObs(e *appencryption.EnvelopeKeyRecord) string {
	return "ekr:" + strings.ReplaceAll(ekrFields(e), " ", ":")
}

func drrObs(d *appencryption.DataRowRecord) string {
	return "drr:" + strings.ReplaceAll(drrFields(d), " ", ":")
}

func parseParent(s string) *appencryption.KeyMeta {
	if s == "nil" {
		return nil
	}
	i := strings.LastIndex(s, "@")
	c, _ := strconv.ParseInt(s[i+1:], 10, 64)
	return &appencryption.KeyMeta{ID: string(unhx(s[:i])), Created: c}
}

func parseEKR(f []string) *appencryption.EnvelopeKeyRecord {
	c, _ := strconv.ParseInt(f[1], 10, 64)
	return &appencryption.EnvelopeKeyRecord{Revoked: f[0] == "1", Created: c, EncryptedKey: unhx(f[2]), ParentKeyMeta: parseParent(f[3])}
}

func parseDRR(f []string) *appencryption.DataRowRecord {
	d := &appencryption.DataRowRecord{Data: unhx(f[0])}
	if len(f) >= 5 {
		d.Key = parseEKR(f[1:5])
	}
	return d
}

// ---- generators ------------------------------------------------------------------------------

var idAlphabets = []string{
	"abcdefghijklmnopqrstuvwxyz0123456789",
	"abcXYZ019-.",
	"ab_", // underscores: ambiguous ids, still well-formed strings
	"a\"\\/<>&'\n\r\t\b\f\x01\x1f\x7f ",
	"a\u00e9\u07ff\u0800\u2028\u2029\ufffd\U0001F600\U00010000\uffff\ud7ff\ue000",
}

func genID(rng *prng.R) string {
	if rng.Intn(25) == 0 {
		return ""
	}
	al := []rune(idAlphabets[rng.Pick(8, 3, 2, 2, 2)])
	n := 1 + rng.Intn(12)
	var b strings.Builder
	for i := 0; i < n; i++ {
		b.WriteRune(al[rng.Intn(len(al))])
	}
	return b.String()
}

// plain ids for the cases that go through the real session factory (which refuses nothing, but
// keep them printable); still includes '_' and '-' sometimes.
func genName(rng *prng.R) string {
	al := idAlphabets[rng.Pick(6, 2, 1)]
	n := 1 + rng.Intn(10)
	b := make([]byte, n)
	for i := range b {
		b[i] = al[rng.Intn(len(al))]
	}
	return string(b)
}

func genCreated(rng *prng.R) int64 {
	switch rng.Pick(10, 3, 2, 2, 1) {
	case 0:
		return 1500000000 + int64(rng.Intn(400000000))
	case 1:
		return int64(rng.Intn(100))
	case 2:
		return -int64(rng.Intn(1 << 40))
	case 3:
		return []int64{math.MaxInt64, math.MinInt64, math.MaxInt64 - 1, math.MinInt64 + 1, 1 << 53, -(1 << 53), 9, 10, 99, 100}[rng.Intn(10)]
	default:
		return int64(rng.U64())
	}
}

func genKeyBytes(rng *prng.R) []byte {
	switch rng.Pick(6, 6, 1) {
	case 0:
		return rng.Bytes(60) // 32-byte key + tag + nonce
	case 1:
		return rng.Bytes(rng.Intn(70)) // every base64 padding class, including empty
	default:
		return []byte{}
	}
}

func genMeta(rng *prng.R) *appencryption.KeyMeta {
	if rng.Intn(4) == 0 {
		return nil
	}
	return &appencryption.KeyMeta{ID: genID(rng), Created: genCreated(rng)}
}

func genEKR(rng *prng.R) *appencryption.EnvelopeKeyRecord {
	return &appencryption.EnvelopeKeyRecord{Revoked: rng.Intn(3) == 0, Created: genCreated(rng),
		EncryptedKey: genKeyBytes(rng), ParentKeyMeta: genMeta(rng)}
}

func genDRR(rng *prng.R) *appencryption.DataRowRecord {
	d := &appencryption.DataRowRecord{Data: rng.Bytes(rng.Intn(90))}
	if rng.Intn(8) != 0 {
		d.Key = genEKR(rng)
	}
	return d
}
