// hxconc explores the REAL SDK under controlled and randomised goroutine schedules, using the named
// sync points the build overlay inserts after Lock/Unlock/RLock/RUnlock/Wait/Broadcast in
// key_cache.go, session_cache.go and pkg/cache/cache.go (package internal/verifsync).
//
// Modes
//
//	preempt   preemption-bounded systematic exploration (one preemption): for every scenario
//	          (prepared world, operation A, operation B) and every sync point A passes, A is parked at
//	          that point, B runs to completion (or is found blocked on a lock A holds), A resumes.
//	          Both operations must succeed with the right result. Deterministic.
//	stress    N goroutines run random operations with random yields/sleeps at the sync points.
//	          Only real effects count: an operation error, a wrong payload, a panic, a deadlock.
//
// Output: one line per explored schedule
//
//	sched <scenario> point=<name>#<k> => A=<ok|err:..|panic|stuck> B=<ok|err:..|panic|blocked> [VIOLATION]
//
// and a final `SUMMARY engine=conc schedules=… points=… violations=… blocked=…`.
package main

import (
	"bufio"
	"bytes"
	"context"
	"errors"
	"flag"
	"fmt"
	"io"
	"os"
	"runtime"
	"sort"
	"strconv"
	"strings"
	"sync"
	"sync/atomic"
	"time"

	"github.com/godaddy/asherah/go/appencryption"
	"github.com/godaddy/asherah/go/appencryption/pkg/crypto/aead"
	"github.com/godaddy/asherah/go/appencryption/pkg/kms"
	"github.com/godaddy/asherah/go/appencryption/pkg/persistence"
	"github.com/godaddy/asherah/go/securememory"

	"verifharness/internal/prng"
)

var out = bufio.NewWriterSize(os.Stdout, 1<<16)

// ---- thread-safe fake secrets with the Secret contract (closed => error) -----------------------

var errClosed = errors.New("secret has already been destroyed")

type fakeSecret struct {
	mu     sync.Mutex
	b      []byte
	closed bool
	f      *fakeFactory
	born   string // creation stack (only with HXCONC_TRACE=1): printed for secrets found live at the end
}

func (s *fakeSecret) WithBytes(a func([]byte) error) error {
	_, err := s.WithBytesFunc(func(b []byte) ([]byte, error) { return nil, a(b) })
	return err
}
func (s *fakeSecret) WithBytesFunc(a func([]byte) ([]byte, error)) ([]byte, error) {
	s.mu.Lock()
	if s.closed {
		s.mu.Unlock()
		atomic.AddInt64(&s.f.useAfterClose, 1)
		return nil, errClosed
	}
	cp := append([]byte(nil), s.b...)
	s.mu.Unlock()
	return a(cp)
}
func (s *fakeSecret) IsClosed() bool { s.mu.Lock(); defer s.mu.Unlock(); return s.closed }
func (s *fakeSecret) Close() error {
	s.mu.Lock()
	defer s.mu.Unlock()
	if s.closed {
		atomic.AddInt64(&s.f.doubleClose, 1)
		return nil
	}
	s.closed = true
	atomic.AddInt64(&s.f.live, -1)
	return nil
}
func (s *fakeSecret) NewReader() io.Reader { return bytes.NewReader(s.b) }

var traceSecrets = os.Getenv("HXCONC_TRACE") == "1"

func (f *fakeFactory) track(s *fakeSecret) *fakeSecret {
	if traceSecrets {
		buf := make([]byte, 6000)
		s.born = string(buf[:runtime.Stack(buf, false)])
		f.mu.Lock()
		f.all = append(f.all, s)
		f.mu.Unlock()
	}
	return s
}

// liveStacks: where the secrets that are still live were created (diagnosis of a reported leak)
func (f *fakeFactory) liveStacks() string {
	var b strings.Builder
	f.mu.Lock()
	defer f.mu.Unlock()
	for _, s := range f.all {
		if !s.IsClosed() {
			b.WriteString("# LIVE SECRET created at:\n# " + strings.ReplaceAll(s.born, "\n", "\n# ") + "\n")
		}
	}
	return b.String()
}

type fakeFactory struct {
	all           []*fakeSecret
	mu            sync.Mutex
	rng           *prng.R
	live          int64
	useAfterClose int64
	doubleClose   int64
}

func (f *fakeFactory) New(b []byte) (securememory.Secret, error) {
	s := &fakeSecret{b: append([]byte(nil), b...), f: f}
	for i := range b {
		b[i] = 0
	}
	atomic.AddInt64(&f.live, 1)
	return f.track(s), nil
}
func (f *fakeFactory) CreateRandom(size int) (securememory.Secret, error) {
	f.mu.Lock()
	b := f.rng.Bytes(size)
	f.mu.Unlock()
	atomic.AddInt64(&f.live, 1)
	return f.track(&fakeSecret{b: b, f: f}), nil
}

// ---- counting spies (C20 under concurrency) -------------------------------------------------------

type countMS struct {
	inner *persistence.MemoryMetastore
	reads atomic.Int64
}

func (c *countMS) Load(ctx context.Context, id string, created int64) (*appencryption.EnvelopeKeyRecord, error) {
	c.reads.Add(1)
	return c.inner.Load(ctx, id, created)
}
func (c *countMS) LoadLatest(ctx context.Context, id string) (*appencryption.EnvelopeKeyRecord, error) {
	c.reads.Add(1)
	return c.inner.LoadLatest(ctx, id)
}
func (c *countMS) Store(ctx context.Context, id string, created int64, e *appencryption.EnvelopeKeyRecord) (bool, error) {
	return c.inner.Store(ctx, id, created, e)
}

type countKMS struct {
	inner *kms.StaticKMS
	decs  atomic.Int64
}

func (c *countKMS) EncryptKey(ctx context.Context, b []byte) ([]byte, error) {
	return c.inner.EncryptKey(ctx, b)
}
func (c *countKMS) DecryptKey(ctx context.Context, b []byte) ([]byte, error) {
	c.decs.Add(1)
	return c.inner.DecryptKey(ctx, b)
}

// ---- world ------------------------------------------------------------------------------------

type world struct {
	now   atomic.Int64 // unix nanos
	ms    *persistence.MemoryMetastore
	kms   *kms.StaticKMS
	sf    *fakeFactory
	fac   *appencryption.SessionFactory
	sess  map[string]*appencryption.Session
	recs  map[string]*appencryption.DataRowRecord
	pays  map[string][]byte
	cfg   config
	extra []*appencryption.SessionFactory
	cms   *countMS
	ckms  *countKMS
}

type config struct {
	name      string
	sk, ik    string // none | simple | <policy>:<cap>
	shared    bool
	sessCache string        // "" or <policy>:<cap>
	sessTTL   time.Duration // session cache expiry (0 = one hour); real time: pkg/cache has its own clock
}

const t0 = int64(1700000000)

func parseCache(spec string) (bool, string, int) {
	switch spec {
	case "none":
		return false, "", 0
	case "simple", "":
		return true, "", appencryption.DefaultKeyCacheMaxSize
	}
	p := strings.SplitN(spec, ":", 2)
	n := 0
	fmt.Sscanf(p[1], "%d", &n)
	return true, p[0], n
}

func (w *world) policy() *appencryption.CryptoPolicy {
	p := appencryption.NewCryptoPolicy()
	p.ExpireKeyAfter = time.Hour
	p.RevokeCheckInterval = time.Minute
	p.CreateDatePrecision = time.Second
	on, pol, n := parseCache(w.cfg.sk)
	p.CacheSystemKeys, p.SystemKeyCacheEvictionPolicy, p.SystemKeyCacheMaxSize = on, pol, n
	on, pol, n = parseCache(w.cfg.ik)
	p.CacheIntermediateKeys, p.IntermediateKeyCacheEvictionPolicy, p.IntermediateKeyCacheMaxSize = on, pol, n
	p.SharedIntermediateKeyCache = w.cfg.shared
	if w.cfg.sessCache != "" {
		_, pol, n := parseCache(w.cfg.sessCache)
		p.CacheSessions = true
		p.SessionCacheEvictionPolicy = pol
		p.SessionCacheMaxSize = n
		p.SessionCacheDuration = time.Hour
		if w.cfg.sessTTL > 0 {
			p.SessionCacheDuration = w.cfg.sessTTL
		}
	}
	return p
}

func (w *world) newFactory() *appencryption.SessionFactory {
	return appencryption.NewSessionFactory(&appencryption.Config{Service: "svc", Product: "prod", Policy: w.policy()},
		w.cms, w.ckms, aead.NewAES256GCM(), appencryption.WithSecretFactory(w.sf))
}

func newWorld(cfg config, seed uint64) *world {
	w := &world{cfg: cfg, ms: persistence.NewMemoryMetastore(), sess: map[string]*appencryption.Session{},
		recs: map[string]*appencryption.DataRowRecord{}, pays: map[string][]byte{}}
	w.now.Store(t0 * 1e9)
	w.sf = &fakeFactory{rng: prng.New(seed)}
	k, err := kms.NewStatic("thisIsAStaticMasterKeyForTesting", aead.NewAES256GCM())
	if err != nil {
		panic(err)
	}
	w.kms = k
	w.cms = &countMS{inner: w.ms}
	w.ckms = &countKMS{inner: k}
	appencryption.VerifSetClock(func() time.Time { return time.Unix(0, w.now.Load()) })
	w.fac = w.newFactory()
	return w
}

func (w *world) session(name, part string) *appencryption.Session {
	if s, ok := w.sess[name]; ok {
		return s
	}
	s, err := w.fac.GetSession(part)
	if err != nil {
		panic(err)
	}
	w.sess[name] = s
	return s
}

// an op is executed on a named session; results are checked by the op itself
type op struct {
	name string
	run  func(w *world) error
}

func encOp(sess, part, rec string) op {
	return op{"enc:" + sess + ":" + part, func(w *world) error {
		pay := []byte("payload-" + rec)
		d, err := w.session(sess, part).Encrypt(context.Background(), pay)
		if err != nil {
			return err
		}
		if rec != "" {
			w.recs[rec], w.pays[rec] = d, pay
		}
		// and it must decrypt
		p, err := w.session(sess, part).Decrypt(context.Background(), *d)
		if err != nil {
			return fmt.Errorf("roundtrip: %w", err)
		}
		if !bytes.Equal(p, pay) {
			return errors.New("roundtrip: wrong payload")
		}
		return nil
	}}
}

func decOp(sess, part, rec string) op {
	return op{"dec:" + sess + ":" + rec, func(w *world) error {
		p, err := w.session(sess, part).Decrypt(context.Background(), *w.recs[rec])
		if err != nil {
			return err
		}
		if !bytes.Equal(p, w.pays[rec]) {
			return errors.New("wrong payload")
		}
		return nil
	}}
}

// open a fresh session, use it, close it (session-cache churn / per-session IK cache life cycle)
func churnOp(part, rec string) op {
	return op{"churn:" + part, func(w *world) error {
		s, err := w.fac.GetSession(part)
		if err != nil {
			return err
		}
		defer s.Close()
		if rec != "" {
			p, err := s.Decrypt(context.Background(), *w.recs[rec])
			if err != nil {
				return err
			}
			if !bytes.Equal(p, w.pays[rec]) {
				return errors.New("wrong payload")
			}
			return nil
		}
		_, err = s.Encrypt(context.Background(), []byte("x"))
		return err
	}}
}

func sleepOp(d time.Duration) op {
	return op{"sleep", func(w *world) error { time.Sleep(d); return nil }}
}

// closeOp: a holder closes its handle (then yields briefly so that a waiting remover can run)
func closeOp(sess string) op {
	return op{"close:" + sess, func(w *world) error {
		s, ok := w.sess[sess]
		if !ok {
			return errors.New("no such session")
		}
		delete(w.sess, sess)
		err := s.Close()
		time.Sleep(3 * time.Millisecond)
		return err
	}}
}

// second handle on a partition under another name (with a session cache: the same cached session)
func holdOp(sess, part string) op {
	return op{"hold:" + sess, func(w *world) error { w.session(sess, part); return nil }}
}

func advance(d time.Duration) op {
	return op{"adv", func(w *world) error { w.now.Add(int64(d)); return nil }}
}

func revokeLatestSK() op {
	return op{"revsk", func(w *world) error {
		id := "_SK_svc_prod"
		var latest int64 = -1
		for c := range w.ms.Envelopes[id] {
			if c > latest {
				latest = c
			}
		}
		if latest >= 0 {
			cp := *w.ms.Envelopes[id][latest]
			cp.Revoked = true
			w.ms.Envelopes[id][latest] = &cp
		}
		return nil
	}}
}

// restart: a second factory (another process) sharing metastore and KMS performs the op, so that
// rotations happen without touching the caches of the factory under test
func other(o op) op {
	return op{"other:" + o.name, func(w *world) error {
		f := w.newFactory()
		w.extra = append(w.extra, f)
		saved, savedSess := w.fac, w.sess
		w.fac, w.sess = f, map[string]*appencryption.Session{}
		defer func() {
			for _, s := range w.sess {
				s.Close()
			}
			w.fac, w.sess = saved, savedSess
		}()
		return o.run(w)
	}}
}

type scenario struct {
	name  string
	cfg   config
	setup []op
	a, b  op
}

func scenarios() []scenario {
	var out []scenario
	// two system keys SK1 (revoked, rotated) and SK2; records r1 (under SK1) and r2 (under SK2)
	twoSK := []op{other(encOp("o", "p0", "r1")), revokeLatestSK(), advance(2 * time.Second), other(encOp("o", "p0", "r2")),
		other(encOp("o", "p1", "q2"))}
	for _, pol := range []string{"lru", "lfu", "slru", "tinylfu"} {
		for _, capacity := range []int{1, 2} {
			sk := fmt.Sprintf("%s:%d", pol, capacity)
			// SK cache of capacity 1/2, no IK cache: decrypting r1 warms SK1; B loads SK2 (and SK of q) and evicts it
			out = append(out, scenario{"skcache-" + sk, config{sk: sk, ik: "none"},
				append(append([]op{}, twoSK...), decOp("a", "p0", "r1")),
				decOp("a", "p0", "r1"), decOp("b", "p0", "r2")})
			out = append(out, scenario{"skcache-enc-" + sk, config{sk: sk, ik: "none"},
				append(append([]op{}, twoSK...), decOp("a", "p0", "r1")),
				decOp("a", "p0", "r1"), encOp("b", "p1", "")})
			// shared IK cache of capacity 1/2 over several partitions
			out = append(out, scenario{"sharedik-" + sk, config{sk: "simple", ik: sk, shared: true},
				[]op{encOp("a", "p0", "x0"), encOp("b", "p1", "x1"), encOp("c", "p2", "x2"), decOp("a", "p0", "x0")},
				decOp("a", "p0", "x0"), decOp("b", "p1", "x1")})
			out = append(out, scenario{"sharedik-enc-" + sk, config{sk: "simple", ik: sk, shared: true},
				[]op{encOp("a", "p0", "x0"), encOp("b", "p1", "x1"), encOp("c", "p2", "x2"), decOp("a", "p0", "x0")},
				encOp("a", "p0", ""), encOp("c", "p2", "")})
			// per-session IK cache with rotation: old and new IK of one partition in a cache of 1/2
			out = append(out, scenario{"sessik-" + sk, config{sk: sk, ik: sk},
				append(append([]op{}, twoSK...), decOp("a", "p0", "r1")),
				decOp("a", "p0", "r1"), decOp("a", "p0", "r2")})
		}
	}
	// revoke-check refresh of a cached key while another goroutine uses it
	out = append(out, scenario{"refresh-simple", config{sk: "simple", ik: "simple", shared: true},
		[]op{encOp("a", "p0", "x0"), encOp("b", "p0", "y0"), advance(61 * time.Second)},
		encOp("a", "p0", ""), decOp("b", "p0", "x0")})
	out = append(out, scenario{"refresh-revoked", config{sk: "simple", ik: "simple", shared: true},
		[]op{encOp("a", "p0", "x0"), encOp("b", "p0", "y0"), revokeLatestSK(), advance(61 * time.Second)},
		encOp("a", "p0", ""), encOp("b", "p0", "")})
	// C20 under concurrency: two sessions need the same (cold / stale) system key at the same time
	for _, ik := range []string{"simple", "none"} {
		out = append(out, scenario{"c20-cold-sk-ik:" + ik, config{sk: "simple", ik: ik},
			[]op{other(encOp("o", "p0", "x0")), other(encOp("o", "p1", "x1"))},
			decOp("a", "p0", "x0"), decOp("b", "p1", "x1")})
		out = append(out, scenario{"c20-stale-sk-ik:" + ik, config{sk: "simple", ik: ik},
			[]op{other(encOp("o", "p0", "x0")), other(encOp("o", "p1", "x1")), decOp("a", "p0", "x0"), decOp("b", "p1", "x1"), advance(61 * time.Second)},
			decOp("a", "p0", "x0"), decOp("b", "p1", "x1")})
	}
	out = append(out, scenario{"c20-cold-sharedik", config{sk: "simple", ik: "simple", shared: true},
		[]op{other(encOp("o", "p0", "x0"))},
		decOp("a", "p0", "x0"), decOp("b", "p0", "x0")})
	// key caching off, session caching on: cached sessions must not retain keys
	for _, scp := range []string{"lru:2", "slru:2"} {
		out = append(out, scenario{"c20-nocache-sesscache-" + scp, config{sk: "none", ik: "none", sessCache: scp},
			[]op{other(encOp("o", "p0", "x0")), other(encOp("o", "p1", "x1")), churnOp("p0", "x0"), churnOp("p1", "x1")},
			churnOp("p0", "x0"), churnOp("p1", "x1")})
	}
	// session churn against a shared cache
	out = append(out, scenario{"churn-sharedik", config{sk: "lru:1", ik: "lru:1", shared: true},
		[]op{encOp("a", "p0", "x0"), encOp("b", "p1", "x1")},
		churnOp("p0", "x0"), churnOp("p1", "x1")})
	// session cache (C16): holders of cached sessions while other partitions push them out
	for _, pol := range []string{"lru", "slru", "lfu", "tinylfu"} {
		sc := pol + ":1"
		out = append(out, scenario{"sesscache-" + sc, config{sk: "simple", ik: "simple", sessCache: sc},
			[]op{encOp("a", "p0", "x0"), other(encOp("o", "p1", "x1"))},
			decOp("a", "p0", "x0"), churnOp("p1", "x1")})
		// two holders of one cached session; it is pushed out of the cache while both hold it; one
		// holder closes, the other must be able to go on
		out = append(out, scenario{"sesscache-twoholders-" + sc, config{sk: "simple", ik: "simple", sessCache: sc},
			[]op{encOp("a", "p0", "x0"), holdOp("b", "p0"), other(encOp("o", "p1", "x1")), churnOp("p1", "x1")},
			closeOp("a"), decOp("b", "p0", "x0")})
		// cache hits first (they move entries between the policy's segments), then evictions
		out = append(out, scenario{"sesscache-hit-" + sc, config{sk: "simple", ik: "simple", sessCache: sc},
			[]op{other(encOp("o", "p0", "x0")), other(encOp("o", "p1", "x1")), other(encOp("o", "p2", "x2")),
				churnOp("p0", "x0"), churnOp("p0", "x0"), churnOp("p0", "x0")},
			churnOp("p1", "x1"), churnOp("p2", "x2")})
		sc2 := pol + ":2"
		out = append(out, scenario{"sesscache-hit-" + sc2, config{sk: "simple", ik: "simple", sessCache: sc2},
			[]op{other(encOp("o", "p0", "x0")), other(encOp("o", "p1", "x1")), other(encOp("o", "p2", "x2")), other(encOp("o", "p3", "x3")),
				churnOp("p0", "x0"), churnOp("p1", "x1"), churnOp("p0", "x0"), churnOp("p1", "x1"), churnOp("p0", "x0")},
			churnOp("p2", "x2"), churnOp("p3", "x3")})
		// a shared IK cache under a session cache: cached sessions use the factory-wide cache (which the
		// factory closes), they must not be left with private caches nobody releases
		out = append(out, scenario{"sesscache-sharedik-" + sc, config{sk: "simple", ik: "simple", shared: true, sessCache: sc},
			[]op{other(encOp("o", "p0", "x0")), other(encOp("o", "p1", "x1")), churnOp("p0", "x0"), churnOp("p1", "x1")},
			churnOp("p0", "x0"), churnOp("p1", "")})
		// a shared IK cache with per-session key caching switched off (the shared cache is real all the same)
		// under a session cache: tearing down one evicted session must not close the cache the others use
		out = append(out, scenario{"sesscache-sharedik-noikcache-" + sc, config{sk: "simple", ik: "none", shared: true, sessCache: sc},
			[]op{encOp("a", "p0", "x0"), other(encOp("o", "p1", "x1")), other(encOp("o", "p2", "x2")), churnOp("p1", "x1"), churnOp("p2", "x2")},
			decOp("a", "p0", "x0"), churnOp("p1", "x1")})
		// cached sessions that EXPIRE (real time): the next Get of the partition drops the expired entry,
		// which must be torn down like an evicted one (else its keys stay locked in memory for good)
		out = append(out, scenario{"sesscache-expiry-" + sc2, config{sk: "simple", ik: "simple", sessCache: sc2, sessTTL: 15 * time.Millisecond},
			[]op{other(encOp("o", "p0", "x0")), other(encOp("o", "p1", "x1")), churnOp("p0", "x0"), churnOp("p1", "x1"), sleepOp(25 * time.Millisecond)},
			churnOp("p0", "x0"), churnOp("p1", "x1")})
		out = append(out, scenario{"sesscache-churn-" + sc, config{sk: "simple", ik: "simple", sessCache: sc},
			[]op{other(encOp("o", "p0", "x0")), other(encOp("o", "p1", "x1"))},
			churnOp("p0", "x0"), churnOp("p1", "x1")})
	}
	return out
}

// ---- schedule control --------------------------------------------------------------------------

type gate struct {
	mu      sync.Mutex
	armed   bool
	target  int // park at the target-th point hit while armed
	hits    int
	names   []string
	reached chan string
	resume  chan struct{}
	gid     atomic.Uint64 // goroutine of operation A: only its sync points count (0 = not started yet)
}

// curGID: the id of the calling goroutine (parsed from the stack header; test harness only).
func curGID() uint64 {
	var b [64]byte
	s := string(b[:runtime.Stack(b[:], false)])
	s = strings.TrimPrefix(s, "goroutine ")
	if i := strings.IndexByte(s, ' '); i > 0 {
		id, _ := strconv.ParseUint(s[:i], 10, 64)
		return id
	}
	return 0
}

func (g *gate) hook(name string) {
	// background goroutines of the SDK (event loop, session removers) pass sync points too: they are
	// neither counted nor parked - the schedule being explored is "A is preempted at ITS k-th point"
	if id := g.gid.Load(); id == 0 || id != curGID() {
		return
	}
	g.mu.Lock()
	if !g.armed {
		g.mu.Unlock()
		return
	}
	g.hits++
	g.names = append(g.names, name)
	if g.target > 0 && g.hits == g.target {
		g.armed = false
		g.mu.Unlock()
		g.reached <- name
		<-g.resume
		return
	}
	g.mu.Unlock()
}

func runOp(w *world, o op) (res string) {
	defer func() {
		if e := recover(); e != nil {
			res = fmt.Sprintf("panic:%v", e)
		}
	}()
	if err := o.run(w); err != nil {
		msg := err.Error()
		if i := strings.Index(msg, "\n"); i > 0 {
			msg = msg[:i]
		}
		return "err:" + strings.ReplaceAll(msg, " ", "_")
	}
	return "ok"
}

func prepare(sc scenario, seed uint64) (*world, error) {
	w := newWorld(sc.cfg, seed)
	for _, o := range sc.setup {
		if r := runOp(w, o); r != "ok" {
			return nil, fmt.Errorf("setup %s: %s", o.name, r)
		}
	}
	// sessions used by A and B exist before the race (opening them is not part of it)
	return w, nil
}

func (w *world) close() {
	for _, s := range w.sess {
		func() { defer func() { recover() }(); s.Close() }()
	}
	func() { defer func() { recover() }(); w.fac.Close() }()
	for _, f := range w.extra {
		func() { defer func() { recover() }(); f.Close() }()
	}
	w.kms.Close()
}

var nSched, nViol, nBlocked, nPoints, leaksSeen int

const maxViol = 6

// settled waits for the asynchronous removers / eviction callbacks to finish after everything was
// closed and reports how many secrets are still live (0 = every key was released).
func (w *world) settled() int64 {
	// (wall-clock patience only matters when something IS still live: 20 s, so that a machine busy with
	// other work cannot turn a slow remover goroutine into a reported leak)
	patience := 4000
	if leaksSeen >= 3 {
		patience = 200 // leaks are established for this run: no need to wait long for each further one
	}
	for i := 0; i < patience; i++ {
		if atomic.LoadInt64(&w.sf.live) == 0 {
			return 0
		}
		time.Sleep(5 * time.Millisecond)
	}
	leaksSeen++
	return atomic.LoadInt64(&w.sf.live)
}

func preempt(filter string) {
	for _, sc := range scenarios() {
		if filter != "" && !strings.Contains(sc.name, filter) {
			continue
		}
		if nViol >= maxViol {
			break // enough failing schedules to report; a broken tree must not cost hours of timeouts
		}
		// sequential oracles: A then B, and B then A, must both succeed; they also bound the number of
		// KMS unwraps and metastore reads any interleaving of the two operations may make (C20)
		var maxKD, maxRd int64
		for _, order := range [][2]op{{sc.a, sc.b}, {sc.b, sc.a}} {
			w, err := prepare(sc, 7)
			if err != nil {
				fmt.Fprintf(out, "sched %s setup => %v SETUP-FAILED\n", sc.name, err)
				nViol++
				continue
			}
			kd0, rd0 := w.ckms.decs.Load(), w.cms.reads.Load()
			r1 := runOp(w, order[0])
			kd1, rd1 := w.ckms.decs.Load(), w.cms.reads.Load()
			r2 := runOp(w, order[1])
			// C20, the other direction: with key caching switched off nothing is retained between calls,
			// whatever else is cached (sessions): every operation goes to the metastore and the KMS
			if strings.HasPrefix(sc.name, "c20-nocache") && r1 == "ok" && r2 == "ok" &&
				(kd1 == kd0 || rd1 == rd0 || w.ckms.decs.Load() == kd1 || w.cms.reads.Load() == rd1) {
				fmt.Fprintf(out, "sched %s seq=%s,%s => prop=C20 key caching is disabled but an operation made no metastore read / KMS unwrap (first: %d reads %d unwraps, second: %d reads %d unwraps) VIOLATION\n",
					sc.name, order[0].name, order[1].name, rd1-rd0, kd1-kd0, w.cms.reads.Load()-rd1, w.ckms.decs.Load()-kd1)
				nViol++
			}
			if d := w.ckms.decs.Load() - kd0; d > maxKD {
				maxKD = d
			}
			if d := w.cms.reads.Load() - rd0; d > maxRd {
				maxRd = d
			}
			w.close()
			leak := w.settled()
			nSched++
			tag := ""
			if r1 != "ok" || r2 != "ok" || leak != 0 {
				tag = " VIOLATION"
				nViol++
			}
			fmt.Fprintf(out, "sched %s seq=%s,%s => A=%s B=%s leaked=%d%s\n", sc.name, order[0].name, order[1].name, r1, r2, leak, tag)
		}
		for _, pair := range [][2]op{{sc.a, sc.b}, {sc.b, sc.a}} {
			// dry run: which points does the first operation pass?
			w, err := prepare(sc, 7)
			if err != nil {
				continue
			}
			g := &gate{armed: true, reached: make(chan string, 1), resume: make(chan struct{})}
			g.gid.Store(curGID())
			appencryption.VerifSetSyncHook(g.hook)
			runOp(w, pair[0])
			g.mu.Lock()
			g.armed = false
			names := append([]string(nil), g.names...)
			g.mu.Unlock()
			appencryption.VerifSetSyncHook(nil)
			w.close()
			nPoints += len(names)
			for k := 1; k <= len(names) && nViol < maxViol; k++ {
				w, err := prepare(sc, 7)
				if err != nil {
					break
				}
				g := &gate{armed: true, target: k, reached: make(chan string, 1), resume: make(chan struct{})}
				appencryption.VerifSetSyncHook(g.hook)
				kd0, rd0 := w.ckms.decs.Load(), w.cms.reads.Load()
				aDone := make(chan string, 1)
				go func() { g.gid.Store(curGID()); aDone <- runOp(w, pair[0]) }()
				var at string
				resA, resB := "", ""
				select {
				case at = <-g.reached:
				case resA = <-aDone: // finished without reaching the k-th point (different path)
					at = "-"
					g.mu.Lock()
					g.armed = false
					g.mu.Unlock()
				case <-time.After(5 * time.Second):
					at = "?"
				}
				bDone := make(chan string, 1)
				go func() { bDone <- runOp(w, pair[1]) }()
				blocked := false
				select {
				case resB = <-bDone:
				case <-time.After(60 * time.Millisecond):
					blocked = true // B waits for a lock A holds: not a schedule of interest
				}
				// whoever is parked at the gate goes on: A - or a background goroutine of the SDK (event loop,
				// session remover) that happened to make the target-th hit; leaving that one parked for good
				// would show up as a leak that is the harness's doing
				close(g.resume)
				if resA == "" {
					select {
					case resA = <-aDone:
					case <-time.After(10 * time.Second):
						resA = "stuck"
					}
				}
				if blocked {
					select {
					case resB = <-bDone:
						resB = "blocked-then-" + resB
					case <-time.After(10 * time.Second):
						resB = "stuck"
					}
					nBlocked++
				}
				appencryption.VerifSetSyncHook(nil)
				nSched++
				tag := ""
				okB := resB == "ok" || resB == "blocked-then-ok"
				if resA != "ok" || !okB || w.sf.useAfterClose > 0 {
					tag = " VIOLATION"
					nViol++
				}
				kd, rd := w.ckms.decs.Load()-kd0, w.cms.reads.Load()-rd0
				if tag == "" && strings.HasPrefix(sc.name, "c20-") && (kd > maxKD || rd > maxRd) {
					tag = fmt.Sprintf(" prop=C20 kms-unwraps=%d(sequential max %d) metastore-reads=%d(sequential max %d) VIOLATION", kd, maxKD, rd, maxRd)
					nViol++
				}
				leak := int64(0)
				if resA != "stuck" && resB != "stuck" {
					w.close()
					leak = w.settled()
					if leak != 0 && tag == "" {
						tag = " VIOLATION"
						nViol++
					}
				}
				fmt.Fprintf(out, "sched %s first=%s second=%s point=%s#%d => A=%s B=%s uac=%d leaked=%d dbl=%d%s\n", sc.name, pair[0].name, pair[1].name, at, k, resA, resB, w.sf.useAfterClose, leak, w.sf.doubleClose, tag)
				if leak != 0 && traceSecrets {
					fmt.Fprint(out, w.sf.liveStacks())
				}
			}
		}
	}
}

func stress(rounds, goroutines, opsEach int, rng *prng.R) {
	cfgs := []config{
		{sk: "lru:1", ik: "none"}, {sk: "lfu:1", ik: "lru:1"}, {sk: "slru:2", ik: "slru:2", shared: true},
		{sk: "tinylfu:1", ik: "tinylfu:2", shared: true}, {sk: "simple", ik: "lru:1", shared: true},
		{sk: "lru:2", ik: "lfu:1"}, {sk: "simple", ik: "simple", sessCache: "slru:2"}, {sk: "lru:1", ik: "lru:1", sessCache: "lru:1"},
		{sk: "lru:100", ik: "lru:100", shared: true}, // asynchronous eviction (capacity >= 100)
	}
	for r := 0; r < rounds && nViol < maxViol; r++ {
		cfg := cfgs[r%len(cfgs)]
		w := newWorld(cfg, uint64(r)+1)
		nParts := 4
		if cfg.ik == "lru:100" {
			nParts = 130
		}
		// records of several partitions under two system keys
		for p := 0; p < nParts; p++ {
			runOp(w, other(encOp("o", fmt.Sprintf("p%d", p), fmt.Sprintf("r%d", p))))
		}
		runOp(w, revokeLatestSK())
		runOp(w, advance(2*time.Second))
		for p := 0; p < nParts; p++ {
			runOp(w, other(encOp("o", fmt.Sprintf("p%d", p), fmt.Sprintf("s%d", p))))
		}
		seeds := make([]uint64, goroutines)
		for i := range seeds {
			seeds[i] = rng.U64()
		}
		var delay atomic.Uint64
		delay.Store(rng.U64())
		appencryption.VerifSetSyncHook(func(string) {
			x := delay.Add(0x9E3779B97F4A7C15)
			switch (x >> 33) % 8 {
			case 0, 1, 2:
				runtime.Gosched()
			case 3:
				time.Sleep(time.Duration((x>>40)%50) * time.Microsecond)
			}
		})
		var wg sync.WaitGroup
		errs := make([]string, goroutines)
		done := make(chan struct{})
		for gi := 0; gi < goroutines; gi++ {
			wg.Add(1)
			go func(gi int) {
				defer wg.Done()
				lr := prng.New(seeds[gi])
				for i := 0; i < opsEach; i++ {
					p := lr.Intn(nParts)
					part := fmt.Sprintf("p%d", p)
					var o op
					switch lr.Intn(4) {
					case 0:
						o = churnOp(part, fmt.Sprintf("r%d", p))
					case 1:
						o = churnOp(part, fmt.Sprintf("s%d", p))
					case 2:
						o = churnOp(part, "")
					default:
						o = churnOp(part, fmt.Sprintf("r%d", lr.Intn(nParts)%nParts))
						o = churnOp(part, fmt.Sprintf("r%d", p))
					}
					if i%7 == 3 {
						w.now.Add(int64(20 * time.Second)) // revoke-check refreshes happen during the run
					}
					if res := runOp(w, o); res != "ok" {
						errs[gi] = o.name + "=" + res
						return
					}
				}
			}(gi)
		}
		go func() { wg.Wait(); close(done) }()
		res := "ok"
		select {
		case <-done:
		case <-time.After(60 * time.Second):
			res = "deadlock"
		}
		appencryption.VerifSetSyncHook(nil)
		var bad []string
		for _, e := range errs {
			if e != "" {
				bad = append(bad, e)
			}
		}
		sort.Strings(bad)
		nSched++
		tag := ""
		if res != "ok" || len(bad) > 0 || w.sf.useAfterClose > 0 {
			tag = " VIOLATION"
			nViol++
		}
		leak := int64(0)
		if res == "ok" {
			w.close()
			leak = w.settled()
			if leak != 0 && tag == "" {
				tag = " VIOLATION"
				nViol++
			}
		}
		fmt.Fprintf(out, "stress leaked=%d round=%d cfg=sk:%s,ik:%s,shared:%v,sess:%s goroutines=%d ops=%d => %s errs=%v uac=%d dbl=%d%s\n",
			leak, r, cfg.sk, cfg.ik, cfg.shared, cfg.sessCache, goroutines, opsEach, res, bad, w.sf.useAfterClose, w.sf.doubleClose, tag)
	}
}

// memstore: concurrent Store calls on one (id, created) of the in-memory metastore: exactly one may
// report true, and the record read back afterwards must be that caller's (C13: insert-only).
func memstore(rounds, writers int) {
	for r := 0; r < rounds; r++ {
		ms := persistence.NewMemoryMetastore()
		var start sync.WaitGroup
		var done sync.WaitGroup
		start.Add(1)
		oks := make([]bool, writers)
		for i := 0; i < writers; i++ {
			done.Add(1)
			go func(i int) {
				defer done.Done()
				start.Wait()
				ok, _ := ms.Store(context.Background(), "id", 42, &appencryption.EnvelopeKeyRecord{ID: "id", Created: 42, EncryptedKey: []byte{byte(i)}})
				oks[i] = ok
			}(i)
		}
		start.Done()
		done.Wait()
		winners := 0
		w := -1
		for i, ok := range oks {
			if ok {
				winners++
				w = i
			}
		}
		got, _ := ms.Load(context.Background(), "id", 42)
		nSched++
		bad := winners != 1 || got == nil || len(got.EncryptedKey) != 1 || int(got.EncryptedKey[0]) != w
		if bad {
			nViol++
			if nViol <= 5 {
				stored := -1
				if got != nil && len(got.EncryptedKey) == 1 {
					stored = int(got.EncryptedKey[0])
				}
				fmt.Fprintf(out, "memstore round=%d writers=%d => acknowledged=%d stored-record-of=%d prop=C13 VIOLATION\n", r, writers, winners, stored)
			}
		}
	}
}

// nonces (C03): goroutines encrypt concurrently through one shared session and through sessions of
// their own for one partition; every record's DRK is wrapped under the same intermediate key, so the
// 12-byte nonce at the end of Key.EncryptedKey must be different in every record ever returned
// (and likewise the nonce at the end of Data among records that were given the same data key).
func nonces(rounds, goroutines, opsEach int) {
	for r := 0; r < rounds; r++ {
		w := newWorld(config{sk: "simple", ik: "simple", shared: r%2 == 0}, uint64(r)+77)
		shared := w.session("shared", "pn")
		type rec struct{ wrap, data string }
		outc := make([][]rec, goroutines)
		errs := make([]error, goroutines)
		var wg sync.WaitGroup
		for gi := 0; gi < goroutines; gi++ {
			wg.Add(1)
			go func(gi int) {
				defer wg.Done()
				s := shared
				if gi%2 == 1 {
					var err error
					if s, err = w.fac.GetSession("pn"); err != nil {
						errs[gi] = err
						return
					}
					defer s.Close()
				}
				for i := 0; i < opsEach; i++ {
					d, err := s.Encrypt(context.Background(), []byte("nonce-payload"))
					if err != nil {
						errs[gi] = err
						return
					}
					ek, dt := d.Key.EncryptedKey, d.Data
					if len(ek) < 12 || len(dt) < 12 {
						errs[gi] = errors.New("record too short to hold a nonce")
						return
					}
					outc[gi] = append(outc[gi], rec{fmt.Sprintf("%d|%x", d.Key.ParentKeyMeta.Created, ek[len(ek)-12:]), fmt.Sprintf("%x|%x", ek, dt[len(dt)-12:])})
				}
			}(gi)
		}
		wg.Wait()
		seenW, seenD := map[string]bool{}, map[string]bool{}
		total, reusedW, reusedD := 0, 0, 0
		for _, l := range outc {
			for _, x := range l {
				total++
				if seenW[x.wrap] {
					reusedW++
				}
				if seenD[x.data] {
					reusedD++
				}
				seenW[x.wrap], seenD[x.data] = true, true
			}
		}
		bad := ""
		for _, e := range errs {
			if e != nil {
				bad = e.Error()
			}
		}
		nSched++
		tag := ""
		if reusedW > 0 || reusedD > 0 || bad != "" {
			tag = " VIOLATION"
			nViol++
		}
		w.close()
		fmt.Fprintf(out, "nonces round=%d goroutines=%d encrypts=%d shared_ik_cache=%v => wrap_nonce_reused=%d data_nonce_reused=%d err=%q%s\n",
			r, goroutines, total, r%2 == 0, reusedW, reusedD, bad, tag)
	}
}

func main() {
	mode := flag.String("mode", "preempt", "preempt|stress|memstore|nonces")
	filter := flag.String("scenario", "", "substring filter on scenario names")
	rounds := flag.Int("rounds", 18, "stress rounds")
	gor := flag.Int("goroutines", 8, "stress goroutines")
	opsEach := flag.Int("ops", 150, "stress ops per goroutine")
	flag.Parse()
	defer out.Flush()
	switch *mode {
	case "preempt":
		preempt(*filter)
	case "stress":
		stress(*rounds, *gor, *opsEach, prng.FromEnv(8))
	case "memstore":
		memstore(*rounds, *gor)
	case "nonces":
		nonces(*rounds, *gor, *opsEach)
	}
	fmt.Fprintf(out, "SUMMARY engine=conc mode=%s schedules=%d points=%d violations=%d blocked=%d\n", *mode, nSched, nPoints, nViol, nBlocked)
}
