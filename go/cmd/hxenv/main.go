// hxenv drives the REAL envelope-encryption SDK (SessionFactory / Session / envelopeEncryption /
// keyCache) in-process on generated operation histories and prints one line per operation with a
// canonical observation. The Lean driver md_envelope replays the same lines on the model
// (lean/AsherahVerif/Model/Envelope.lean). Protocol: see lean/AsherahVerif/Driver/Envelope.lean.
//
// Everything observable goes through the public API: a spy Metastore around the repo's
// MemoryMetastore, a spy KMS around the repo's StaticKMS, a spy AEAD around the repo's AES-256-GCM,
// a tracking SecretFactory, and the virtual clock installed through the build overlay.
package main

import (
	"bufio"
	"bytes"
	"context"
	"crypto/sha256"
	"encoding/base64"
	"encoding/binary"
	"encoding/hex"
	"errors"
	"flag"
	"fmt"
	"io"
	mrand "math/rand"
	"os"
	"sort"
	"strconv"
	"strings"
	"time"

	"github.com/godaddy/asherah/go/appencryption"
	"github.com/godaddy/asherah/go/appencryption/pkg/crypto/aead"
	"github.com/godaddy/asherah/go/appencryption/pkg/kms"
	sdklog "github.com/godaddy/asherah/go/appencryption/pkg/log"
	"github.com/godaddy/asherah/go/appencryption/pkg/persistence"
	"github.com/godaddy/asherah/go/securememory"
	"github.com/godaddy/asherah/go/securememory/protectedmemory"

	"verifharness/internal/prng"
)

const (
	service = "svc"
	product = "prod"
	t0      = int64(1700000000) // virtual epoch, seconds
)

var out = bufio.NewWriterSize(os.Stdout, 1<<20)

// ---------------------------------------------------------------------------------------------
// world: shared across factories of one case

type world struct {
	tickAt     string            // ticks mode: the external call after which the clock jumps (KE, KD, S)
	tickBy     time.Duration     // … and by how much
	nonces     map[[44]byte]bool // (sha256(key), nonce) pairs of every successful AEAD encryption of this world
	nonceReuse int
	logLines   []string
	curPay     []byte
	inuse0     int64
	now        time.Time
	faults     []string
	calls      []string
	mats       [][]byte // material bytes by name index
	retained   [][]byte // heap slices that held plaintext key material during the current op
	secrets    []*trackedSecret
	inner      securememory.SecretFactory
	ms         *persistence.MemoryMetastore
	kms        *kms.StaticKMS
	crypto     appencryption.AEAD
	facs       []*appencryption.SessionFactory
	sess       []*appencryption.Session
	sessPart   []int
	drrs       []*appencryption.DataRowRecord
	drrPay     []int
	dead       bool
}

func (w *world) takeFault() string {
	if len(w.faults) == 0 {
		return "ok"
	}
	f := w.faults[0]
	w.faults = w.faults[1:]
	return f
}

func (w *world) matName(b []byte) (int, bool) {
	for i, m := range w.mats {
		if bytes.Equal(m, b) {
			return i, true
		}
	}
	return 0, false
}

func kidName(id string) string {
	if id == "_SK_"+service+"_"+product {
		return "sk"
	}
	pre, suf := "_IK_p", "_"+service+"_"+product
	if strings.HasPrefix(id, pre) && strings.HasSuffix(id, suf) {
		return "ik" + id[len(pre):len(id)-len(suf)]
	}
	return "other"
}

// ---- capturing logger (C03: no plaintext key or payload bytes in any debug log line) -----------

type capLogger struct{ w *world }

func (c capLogger) Debugf(format string, v ...interface{}) {
	c.w.logLines = append(c.w.logLines, fmt.Sprintf(format, v...))
}

// renderings of a byte string a careless log statement could produce
func renderings(b []byte) []string {
	if len(b) < 4 {
		return nil
	}
	dec := strings.Trim(fmt.Sprint(b), "[]")
	return []string{string(b), hex.EncodeToString(b), base64.StdEncoding.EncodeToString(b), dec,
		fmt.Sprintf("% x", b), strings.Trim(fmt.Sprintf("%#v", b), "[]byte{}")}
}

// logLeak scans the lines logged during the operation for any key material or the payload.
func (w *world) logLeak() string {
	if w.nonceReuse > 0 {
		w.nonceReuse = 0
		w.logLines = nil
		return "nonce-reuse"
	}
	if len(w.logLines) == 0 {
		return "clean"
	}
	all := strings.Join(w.logLines, "\n")
	w.logLines = nil
	var secrets [][]byte
	secrets = append(secrets, w.mats...)
	if len(w.curPay) >= 8 {
		secrets = append(secrets, w.curPay)
	}
	for _, sec := range secrets {
		for _, r := range renderings(sec) {
			if r != "" && strings.Contains(all, r) {
				return "leak"
			}
		}
	}
	return "clean"
}

// ---- spy metastore ---------------------------------------------------------------------------

type spyMS struct{ w *world }

var errInjected = errors.New("injected fault")

func (s spyMS) Load(ctx context.Context, id string, created int64) (*appencryption.EnvelopeKeyRecord, error) {
	w := s.w
	if w.takeFault() != "ok" {
		w.calls = append(w.calls, fmt.Sprintf("L:%s@%d:err", kidName(id), created-t0))
		return nil, errInjected
	}
	r, err := w.ms.Load(ctx, id, created)
	f := 0
	if r != nil {
		f = 1
	}
	w.calls = append(w.calls, fmt.Sprintf("L:%s@%d:%d", kidName(id), created-t0, f))
	return r, err
}

func (s spyMS) LoadLatest(ctx context.Context, id string) (*appencryption.EnvelopeKeyRecord, error) {
	w := s.w
	if w.takeFault() != "ok" {
		w.calls = append(w.calls, fmt.Sprintf("LL:%s:err", kidName(id)))
		return nil, errInjected
	}
	r, err := w.ms.LoadLatest(ctx, id)
	if r != nil {
		w.calls = append(w.calls, fmt.Sprintf("LL:%s:%d", kidName(id), r.Created-t0))
	} else {
		w.calls = append(w.calls, fmt.Sprintf("LL:%s:-", kidName(id)))
	}
	return r, err
}

func (s spyMS) Store(ctx context.Context, id string, created int64, ekr *appencryption.EnvelopeKeyRecord) (bool, error) {
	w := s.w
	f := w.takeFault()
	res, err := false, error(nil)
	switch f {
	case "ok":
		res, err = w.ms.Store(ctx, id, created, ekr)
	case "errw":
		_, _ = w.ms.Store(ctx, id, created, ekr)
		res, err = false, errInjected
	case "dup":
		res, err = false, nil
	default:
		res, err = false, errInjected
	}
	b := 0
	if res {
		b = 1
	}
	w.calls = append(w.calls, fmt.Sprintf("S:%s@%d:%d", kidName(id), created-t0, b))
	w.tick("S")
	return res, err
}

// tick: (ticks mode) time passes INSIDE an operation, while an external call is being served.
func (w *world) tick(at string) {
	if w.tickAt == at {
		w.now = w.now.Add(w.tickBy)
	}
}

// ---- spy KMS ---------------------------------------------------------------------------------

type spyKMS struct{ w *world }

func (s spyKMS) EncryptKey(ctx context.Context, b []byte) ([]byte, error) {
	w := s.w
	if w.takeFault() != "ok" {
		w.calls = append(w.calls, "KE:err")
		return nil, errInjected
	}
	r, err := w.kms.EncryptKey(ctx, b)
	if err != nil {
		w.calls = append(w.calls, "KE:err")
	} else {
		w.calls = append(w.calls, "KE:ok")
	}
	w.tick("KE")
	return r, err
}

func (s spyKMS) DecryptKey(ctx context.Context, b []byte) ([]byte, error) {
	w := s.w
	if w.takeFault() != "ok" {
		w.calls = append(w.calls, "KD:err")
		return nil, errInjected
	}
	r, err := w.kms.DecryptKey(ctx, b)
	if err != nil {
		w.calls = append(w.calls, "KD:err")
		return r, err
	}
	w.calls = append(w.calls, "KD:ok")
	w.retained = append(w.retained, r)
	return r, nil
}

// ---- spy AEAD --------------------------------------------------------------------------------

type spyAEAD struct{ w *world }

func (s spyAEAD) keyName(k []byte) string {
	if i, ok := s.w.matName(k); ok {
		return "m" + strconv.Itoa(i)
	}
	return "m?"
}

func (s spyAEAD) ptClass(p []byte) string {
	if i, ok := s.w.matName(p); ok {
		return "k" + strconv.Itoa(i)
	}
	return "p"
}

func (s spyAEAD) Encrypt(data, key []byte) ([]byte, error) {
	w := s.w
	kn, pc := s.keyName(key), s.ptClass(data)
	if w.takeFault() != "ok" {
		w.calls = append(w.calls, "AE:"+kn+":"+pc+":err")
		return nil, errInjected
	}
	r, err := w.crypto.Encrypt(data, key)
	if err != nil {
		w.calls = append(w.calls, "AE:"+kn+":"+pc+":err")
	} else {
		w.calls = append(w.calls, "AE:"+kn+":"+pc+":ok")
		if len(r) >= 12 {
			// documented layout: the nonce is the last 12 bytes; a (key, nonce) pair must never repeat
			var id [44]byte
			h := sha256.Sum256(key)
			copy(id[:32], h[:])
			copy(id[32:], r[len(r)-12:])
			if w.nonces == nil {
				w.nonces = map[[44]byte]bool{}
			}
			if w.nonces[id] {
				w.nonceReuse++
			}
			w.nonces[id] = true
		}
	}
	return r, err
}

func (s spyAEAD) Decrypt(data, key []byte) ([]byte, error) {
	w := s.w
	kn := s.keyName(key)
	if w.takeFault() != "ok" {
		w.calls = append(w.calls, "AD:"+kn+":fail")
		return nil, errInjected
	}
	r, err := w.crypto.Decrypt(data, key)
	if err != nil {
		w.calls = append(w.calls, "AD:"+kn+":fail")
		return r, err
	}
	pc := s.ptClass(r)
	w.calls = append(w.calls, "AD:"+kn+":"+pc)
	if pc != "p" {
		w.retained = append(w.retained, r)
	}
	return r, nil
}

// ---- tracking secret factory -----------------------------------------------------------------

type trackedSecret struct {
	inner  securememory.Secret
	closes int
	aac    int
}

func (t *trackedSecret) WithBytes(a func([]byte) error) error {
	if t.closes > 0 {
		t.aac++
	}
	return t.inner.WithBytes(a)
}
func (t *trackedSecret) WithBytesFunc(a func([]byte) ([]byte, error)) ([]byte, error) {
	if t.closes > 0 {
		t.aac++
	}
	return t.inner.WithBytesFunc(a)
}
func (t *trackedSecret) IsClosed() bool { return t.inner.IsClosed() }
func (t *trackedSecret) Close() error {
	t.closes++
	return t.inner.Close()
}
func (t *trackedSecret) NewReader() io.Reader { return t.inner.NewReader() }

type trackingFactory struct{ w *world }

func wipe(b []byte) {
	for i := range b {
		b[i] = 0
	}
}

func (f trackingFactory) New(b []byte) (securememory.Secret, error) {
	w := f.w
	w.retained = append(w.retained, b)
	if w.takeFault() != "ok" {
		// contract of SecretFactory.New (checked by the secmem engine): the source is wiped
		// whether or not the secret could be created
		wipe(b)
		w.calls = append(w.calls, "NS:err")
		return nil, errInjected
	}
	s, err := w.inner.New(b)
	if err != nil {
		w.calls = append(w.calls, "NS:err")
		return nil, err
	}
	w.calls = append(w.calls, "NS:ok")
	t := &trackedSecret{inner: s}
	w.secrets = append(w.secrets, t)
	return t, nil
}

func (f trackingFactory) CreateRandom(size int) (securememory.Secret, error) {
	w := f.w
	if w.takeFault() != "ok" {
		w.calls = append(w.calls, "RS:err")
		return nil, errInjected
	}
	s, err := w.inner.CreateRandom(size)
	if err != nil {
		w.calls = append(w.calls, "RS:err")
		return nil, err
	}
	w.calls = append(w.calls, "RS:ok")
	_ = s.WithBytes(func(b []byte) error {
		w.mats = append(w.mats, append([]byte(nil), b...))
		return nil
	})
	t := &trackedSecret{inner: s}
	w.secrets = append(w.secrets, t)
	return t, nil
}

// fakeFactory: heap-backed secrets with the Secret contract (closed => error). The real
// protected-memory implementations are the subject of engine secmem; `-secret protected` uses one.
type fakeSecret struct {
	b      []byte
	closed bool
}

var errClosed = errors.New("secret has already been destroyed")

func (s *fakeSecret) WithBytes(a func([]byte) error) error {
	if s.closed {
		return errClosed
	}
	return a(s.b)
}
func (s *fakeSecret) WithBytesFunc(a func([]byte) ([]byte, error)) ([]byte, error) {
	if s.closed {
		return nil, errClosed
	}
	return a(s.b)
}
func (s *fakeSecret) IsClosed() bool { return s.closed }
func (s *fakeSecret) Close() error {
	if !s.closed {
		s.closed = true
		wipe(s.b)
	}
	return nil
}
func (s *fakeSecret) NewReader() io.Reader { return bytes.NewReader(s.b) }

type fakeFactory struct{ rng *prng.R }

func (f fakeFactory) New(b []byte) (securememory.Secret, error) {
	s := &fakeSecret{b: append([]byte(nil), b...)}
	wipe(b)
	return s, nil
}
func (f fakeFactory) CreateRandom(size int) (securememory.Secret, error) {
	return &fakeSecret{b: f.rng.Bytes(size)}, nil
}

// ---------------------------------------------------------------------------------------------

var secretKind = "fake"
var keyRng = prng.New(0xC0FFEE)

func newWorld() *world {
	w := &world{now: time.Unix(t0, 0), inuse0: securememory.InUseCounter.Count()}
	w.ms = persistence.NewMemoryMetastore()
	w.crypto = aead.NewAES256GCM()
	k, err := kms.NewStatic("thisIsAStaticMasterKeyForTesting", aead.NewAES256GCM())
	if err != nil {
		panic(err)
	}
	w.kms = k
	if secretKind == "protected" {
		w.inner = new(protectedmemory.SecretFactory)
	} else {
		w.inner = fakeFactory{rng: keyRng}
	}
	appencryption.VerifSetClock(func() time.Time { return w.now })
	sdklog.SetLogger(capLogger{w})
	return w
}

func (w *world) closeAll() {
	for _, s := range w.sess {
		if s != nil {
			func() { defer func() { recover() }(); s.Close() }()
		}
	}
	for _, f := range w.facs {
		if f != nil {
			func() { defer func() { recover() }(); f.Close() }()
		}
	}
	for _, s := range w.secrets {
		if s.closes == 0 {
			s.inner.Close()
		}
	}
	w.kms.Close()
}

func payloadBytes(p int) []byte {
	b := make([]byte, 8+p%40)
	binary.BigEndian.PutUint64(b, uint64(p)*0x9E3779B97F4A7C15+1)
	for i := 8; i < len(b); i++ {
		b[i] = byte(p + i)
	}
	if p%17 == 0 {
		return []byte{} // empty payloads too
	}
	return b
}

func parseCache(spec string) (on bool, policy string, size int) {
	switch {
	case spec == "none":
		return false, "", 0
	case spec == "simple":
		return true, "", appencryption.DefaultKeyCacheMaxSize
	}
	parts := strings.SplitN(spec, ":", 2)
	n, _ := strconv.Atoi(parts[1])
	return true, parts[0], n
}

func (w *world) partOf(n int) int {
	id := w.drrs[n].Key.ParentKeyMeta.ID
	var p int
	fmt.Sscanf(id, "_IK_p%d_", &p)
	return p
}

func (w *world) secLine() string {
	closed, live, multi, aac := 0, 0, 0, 0
	for _, s := range w.secrets {
		if s.closes > 0 {
			closed++
		} else {
			live++
		}
		if s.closes > 1 {
			multi++
		}
		aac += s.aac
	}
	return fmt.Sprintf("sec=%d:%d:%d:%d:%d", len(w.secrets), closed, live, multi, aac)
}

func (w *world) dirty() int {
	n := 0
	for _, b := range w.retained {
		for _, x := range b {
			if x != 0 {
				n++
				break
			}
		}
	}
	w.retained = nil
	return n
}

func (w *world) rowCount() int {
	n := 0
	for _, m := range w.ms.Envelopes {
		n += len(m)
	}
	return n
}

func (w *world) chainPresent(d *appencryption.DataRowRecord) int {
	if d == nil || d.Key == nil || d.Key.ParentKeyMeta == nil {
		return 0
	}
	ik, ok := w.ms.Envelopes[d.Key.ParentKeyMeta.ID][d.Key.ParentKeyMeta.Created]
	if !ok || ik.ParentKeyMeta == nil {
		return 0
	}
	if _, ok := w.ms.Envelopes[ik.ParentKeyMeta.ID][ik.ParentKeyMeta.Created]; !ok {
		return 0
	}
	return 1
}

// parentSK is the creation stamp of the system key named by the record's IK row ("-" if unknown).
func (w *world) parentSK(d *appencryption.DataRowRecord) string {
	ik, ok := w.ms.Envelopes[d.Key.ParentKeyMeta.ID][d.Key.ParentKeyMeta.Created]
	if !ok || ik.ParentKeyMeta == nil {
		return "-"
	}
	return strconv.FormatInt(ik.ParentKeyMeta.Created-t0, 10)
}

func (w *world) tail() string {
	return fmt.Sprintf(" | calls=%s | %s | dirty=%d | rows=%d | log=%s", strings.Join(w.calls, ","), w.secLine(), w.dirty(), w.rowCount(), w.logLeak())
}

// mapStore is the caller-side persistence used with Session.Store / Session.Load.
type mapStore struct {
	m map[int]appencryption.DataRowRecord
}

func (s *mapStore) Store(_ context.Context, d appencryption.DataRowRecord) (interface{}, error) {
	k := len(s.m)
	s.m[k] = d
	return k, nil
}
func (s *mapStore) Load(_ context.Context, key interface{}) (*appencryption.DataRowRecord, error) {
	d, ok := s.m[key.(int)]
	if !ok {
		return nil, errors.New("no such record")
	}
	return &d, nil
}

// mutate returns a structurally / bitwise modified copy of a record (C07).
func (w *world) mutate(d *appencryption.DataRowRecord, mut string) appencryption.DataRowRecord {
	cp := appencryption.DataRowRecord{Data: append([]byte(nil), d.Data...)}
	if d.Key != nil {
		k := *d.Key
		k.EncryptedKey = append([]byte(nil), d.Key.EncryptedKey...)
		if d.Key.ParentKeyMeta != nil {
			pm := *d.Key.ParentKeyMeta
			k.ParentKeyMeta = &pm
		}
		cp.Key = &k
	}
	f := strings.Split(mut, ":")
	arg := func(i int) int { n, _ := strconv.Atoi(f[i]); return n }
	switch f[0] {
	case "-":
	case "flipdata":
		if len(cp.Data) > 0 {
			b := arg(1) % (len(cp.Data) * 8)
			cp.Data[b/8] ^= 1 << (b % 8)
		} else {
			cp.Data = []byte{1}
		}
	case "flipkey":
		b := arg(1) % (len(cp.Key.EncryptedKey) * 8)
		cp.Key.EncryptedKey[b/8] ^= 1 << (b % 8)
	case "truncdata":
		cp.Data = cp.Data[:arg(1)%len(cp.Data)]
	case "trunckey":
		cp.Key.EncryptedKey = cp.Key.EncryptedKey[:arg(1)%len(cp.Key.EncryptedKey)]
	case "nokey":
		cp.Key = nil
	case "noparent":
		cp.Key.ParentKeyMeta = nil
	case "nildata":
		cp.Data = nil
	case "splicedata": // Data of another genuine record
		cp.Data = append([]byte(nil), w.drrs[arg(1)].Data...)
	case "splicekey": // encrypted key of another genuine record
		cp.Key.EncryptedKey = append([]byte(nil), w.drrs[arg(1)].Key.EncryptedKey...)
	case "spliceparent": // parent meta of another genuine record
		pm := *w.drrs[arg(1)].Key.ParentKeyMeta
		cp.Key.ParentKeyMeta = &pm
	case "parentcreated": // points at a (probably) missing key
		cp.Key.ParentKeyMeta.Created += int64(arg(1))
	case "parentsk": // points at the system key row
		cp.Key.ParentKeyMeta.ID = "_SK_" + service + "_" + product
	}
	return cp
}

// exec runs one operation line (without observation) and prints it with the observation.
func (w *world) exec(line string) {
	if w.dead {
		return
	}
	f := strings.Fields(line)
	kv := map[string]string{}
	for _, x := range f[1:] {
		if i := strings.Index(x, "="); i > 0 {
			kv[x[:i]] = x[i+1:]
		}
	}
	atoi := func(s string) int { n, _ := strconv.Atoi(s); return n }
	ns := func(s string) time.Duration { n, _ := strconv.ParseInt(s, 10, 64); return time.Duration(n) }
	w.calls = nil
	w.faults = nil
	if fl, ok := kv["flt"]; ok && fl != "-" {
		w.faults = strings.Split(fl, ",")
	}
	obs := ""
	// references that do not exist (only possible in shrunk / hand-written replays) are skipped
	inS := func(i int) bool { return i >= 0 && i < len(w.sess) && w.sess[i] != nil }
	inF := func(i int) bool { return i >= 0 && i < len(w.facs) }
	inD := func(i int) bool { return i >= 0 && i < len(w.drrs) }
	skip := false
	switch f[0] {
	case "sess":
		skip = len(f) < 4 || !inF(atoi(f[1])) || atoi(f[2]) != len(w.sess)
	case "fac":
		skip = len(f) < 2 || atoi(f[1]) != len(w.facs)
	case "enc", "cls":
		skip = len(f) < 2 || !inS(atoi(f[1]))
	case "dec":
		skip = len(f) < 3 || !inS(atoi(f[1])) || !inD(atoi(f[2]))
		if m := kv["mut"]; !skip && strings.HasPrefix(m, "splice") {
			parts := strings.Split(m, ":")
			skip = len(parts) < 2 || !inD(atoi(parts[1]))
		}
	case "fcls":
		skip = len(f) < 2 || !inF(atoi(f[1]))
	}
	if skip {
		fmt.Fprintf(out, "%s => skip\n", line)
		return
	}
	func() {
		defer func() {
			if e := recover(); e != nil {
				obs = "res=panic" + w.tail()
				w.dead = true
			}
		}()
		ctx := context.Background()
		if kv["ctx"] == "done" {
			c, cancel := context.WithCancel(ctx)
			cancel()
			ctx = c
		}
		switch f[0] {
		case "fac":
			p := appencryption.NewCryptoPolicy()
			p.ExpireKeyAfter = ns(kv["expire"])
			p.RevokeCheckInterval = ns(kv["revoke"])
			p.CreateDatePrecision = ns(kv["prec"])
			on, pol, size := parseCache(kv["sk"])
			p.CacheSystemKeys, p.SystemKeyCacheEvictionPolicy, p.SystemKeyCacheMaxSize = on, pol, size
			on, pol, size = parseCache(kv["ik"])
			p.CacheIntermediateKeys, p.IntermediateKeyCacheEvictionPolicy, p.IntermediateKeyCacheMaxSize = on, pol, size
			p.SharedIntermediateKeyCache = kv["shared"] == "1"
			fac := appencryption.NewSessionFactory(&appencryption.Config{Service: service, Product: product, Policy: p},
				spyMS{w}, spyKMS{w}, spyAEAD{w}, appencryption.WithSecretFactory(trackingFactory{w}))
			w.facs = append(w.facs, fac)
			obs = "res=ok"
		case "sess":
			s, err := w.facs[atoi(f[1])].GetSession("p" + f[3])
			if err != nil {
				obs = "res=err"
				w.sess = append(w.sess, nil)
			} else {
				obs = "res=ok"
				w.sess = append(w.sess, s)
			}
			w.sessPart = append(w.sessPart, atoi(f[3]))
		case "enc":
			pay := atoi(f[2])
			// the payload is handed over as a window of a larger caller-owned buffer (spare capacity behind
			// it, like a pooled buffer or bytes.Buffer output): the SDK must neither write into that buffer
			// nor return a record that aliases it - the buffer is scribbled over right after the call
			// nonces and keys must come from a cryptographic source: the process-global math/rand state
			// is reset before every encrypt, so anything drawn from it repeats from one call to the next
			mrand.Seed(20260930)
			pb := payloadBytes(pay)
			arena := make([]byte, len(pb)+112)
			data := arena[16 : 16+len(pb)]
			copy(data, pb)
			arenaBefore := append([]byte(nil), arena...)
			w.curPay = append([]byte(nil), data...)
			orig := append([]byte(nil), data...)
			var d *appencryption.DataRowRecord
			var err error
			if kv["api"] == "store" {
				ms := &mapStore{m: map[int]appencryption.DataRowRecord{}}
				var key interface{}
				key, err = w.sess[atoi(f[1])].Store(ctx, data, ms)
				if err == nil {
					rec := ms.m[key.(int)]
					d = &rec
				}
			} else {
				d, err = w.sess[atoi(f[1])].Encrypt(ctx, data)
			}
			inputTouched := !bytes.Equal(orig, data) || !bytes.Equal(arenaBefore, arena)
			for i := range arena {
				arena[i] = 0xA5
			}
			if inputTouched {
				obs = "res=modified-input"
			} else if err != nil {
				obs = "res=err"
			} else {
				w.drrs = append(w.drrs, d)
				w.drrPay = append(w.drrPay, pay)
				obs = fmt.Sprintf("res=ok drr=%d ik=%d skc=%s chain=%d", len(w.drrs)-1, d.Key.ParentKeyMeta.Created-t0, w.parentSK(d), w.chainPresent(d))
			}
			obs += w.tail()
		case "dec":
			n := atoi(f[2])
			mut := kv["mut"]
			if mut == "" {
				mut = "-"
			}
			d := w.mutate(w.drrs[n], mut)
			before := fmt.Sprintf("%v|%v", d.Data, d.Key)
			var kb []byte
			if d.Key != nil {
				kb = append([]byte(nil), d.Key.EncryptedKey...)
			}
			db := append([]byte(nil), d.Data...)
			var p []byte
			var err error
			if kv["api"] == "load" {
				ms := &mapStore{m: map[int]appencryption.DataRowRecord{0: d}}
				p, err = w.sess[atoi(f[1])].Load(ctx, 0, ms)
			} else {
				p, err = w.sess[atoi(f[1])].Decrypt(ctx, d)
			}
			_ = before
			switch {
			case !bytes.Equal(db, d.Data) || (d.Key != nil && !bytes.Equal(kb, d.Key.EncryptedKey)):
				obs = "res=modified-input"
			case err != nil:
				obs = "res=err"
			case bytes.Equal(p, payloadBytes(w.drrPay[n])):
				obs = fmt.Sprintf("res=ok pay=%d", w.drrPay[n])
			default:
				obs = "res=ok pay=other"
			}
			obs += w.tail()
		case "cls":
			err := w.sess[atoi(f[1])].Close()
			if err != nil {
				obs = "res=err"
			} else {
				obs = "res=ok"
			}
			obs += w.tail()
		case "fcls":
			err := w.facs[atoi(f[1])].Close()
			if err != nil {
				obs = "res=err"
			} else {
				obs = "res=ok"
			}
			obs += w.tail()
		case "adv":
			w.now = w.now.Add(ns(f[1]))
			obs = "res=ok"
		case "rev":
			id := idOf(f[1])
			c := int64(atoi(f[2])) + t0
			if r, ok := w.ms.Envelopes[id][c]; ok {
				cp := *r
				cp.Revoked = true
				w.ms.Envelopes[id][c] = &cp
				obs = "res=ok"
			} else {
				obs = "res=none"
			}
		case "rowmut":
			id := idOf(f[1])
			c := int64(atoi(f[2])) + t0
			if r, ok := w.ms.Envelopes[id][c]; ok {
				cp := *r
				switch f[3] {
				case "noparent":
					cp.ParentKeyMeta = nil
				case "junk":
					cp.EncryptedKey = append([]byte(nil), r.EncryptedKey...)
					copy(cp.EncryptedKey, []byte{0xDE, 0xAD, 0xBE, 0xEF})
				case "short":
					cp.EncryptedKey = []byte{1, 2, 3}
				}
				w.ms.Envelopes[id][c] = &cp
				obs = "res=ok"
			} else {
				obs = "res=none"
			}
		case "end":
			w.closeAll()
			// securememory's own in-use accounting must be back where it was when the case started
			obs = fmt.Sprintf("res=ok | %s | inuse=%d", w.secLine(), securememory.InUseCounter.Count()-w.inuse0)
		default:
			obs = "bad-op"
		}
	}()
	fmt.Fprintf(out, "%s => %s\n", line, obs)
}

func idOf(k string) string {
	if k == "sk" {
		return "_SK_" + service + "_" + product
	}
	return "_IK_p" + strings.TrimPrefix(k, "ik") + "_" + service + "_" + product
}

// ---------------------------------------------------------------------------------------------
// generators

type gen struct {
	noFaults bool
	rng      *prng.R
	w        *world
	nFac     int
	nSess    int
	open     []int // open session indices
	sfac     []int // session -> factory
	facOK    []bool
	exp      []int64
	rvk      []int64
}

func (g *gen) line(format string, a ...any) { g.w.exec(fmt.Sprintf(format, a...)) }

var cacheSpecs = []string{"simple", "simple", "simple", "none", "lru:1", "lru:2", "lfu:2", "slru:2", "slru:3", "tinylfu:2", "lru:3"}

func (g *gen) newFactory() {
	r := g.rng
	expire := []int64{600e9, 3600e9}[r.Intn(2)]
	revoke := []int64{60e9, 120e9}[r.Intn(2)]
	prec := []int64{1e9, 60e9, 60e9}[r.Intn(3)]
	sk := cacheSpecs[r.Intn(len(cacheSpecs))]
	ik := cacheSpecs[r.Intn(len(cacheSpecs))]
	shared := 0
	if r.Intn(5) == 0 && ik != "none" {
		shared = 1
	}
	g.line("fac %d expire=%d revoke=%d prec=%d sk=%s ik=%s shared=%d", g.nFac, expire, revoke, prec, sk, ik, shared)
	g.nFac++
	g.facOK = append(g.facOK, true)
	g.exp = append(g.exp, expire)
	g.rvk = append(g.rvk, revoke)
}

func (g *gen) newSession(f int) {
	g.line("sess %d %d %d", f, g.nSess, g.rng.Intn(3))
	g.open = append(g.open, g.nSess)
	g.sfac = append(g.sfac, f)
	g.nSess++
}

// ctxOpt: one operation in six is called with a context that is already cancelled.  The SDK only
// passes the context on to the metastore and the KMS (the spies here ignore it), so results, calls,
// secrets and wiped buffers must be exactly those of a live context.
func (g *gen) ctxOpt() string {
	if g.rng.Intn(6) == 0 {
		return " ctx=done"
	}
	return ""
}

func (g *gen) faults() string {
	r := g.rng
	if g.noFaults || r.Intn(6) != 0 {
		return "-"
	}
	n := 1 + r.Intn(8)
	toks := make([]string, n)
	for i := range toks {
		toks[i] = "ok"
	}
	kinds := []string{"err", "dup", "errw"}
	toks[r.Intn(n)] = kinds[r.Intn(3)]
	if r.Intn(3) == 0 {
		toks[r.Intn(n)] = kinds[r.Intn(3)]
	}
	return strings.Join(toks, ",")
}

func (g *gen) randomCase(length int) {
	r := g.rng
	g.w = newWorld()
	fmt.Fprintln(out, "new")
	g.nFac, g.nSess, g.open, g.sfac, g.facOK, g.exp, g.rvk = 0, 0, nil, nil, nil, nil, nil
	g.noFaults = r.Intn(2) == 0
	g.newFactory()
	g.newSession(0)
	for i := 0; i < length && !g.w.dead; i++ {
		if len(g.open) == 0 {
			f := g.liveFactory()
			g.newSession(f)
			continue
		}
		s := g.open[r.Intn(len(g.open))]
		f := g.sfac[s]
		switch r.Pick(34, 30, 12, 6, 5, 4, 3, 3, 3) {
		case 0:
			if r.Intn(5) == 0 {
				g.line("enc %d %d flt=%s api=store%s", s, r.Intn(1000), g.faults(), g.ctxOpt())
			} else {
				g.line("enc %d %d flt=%s%s", s, r.Intn(1000), g.faults(), g.ctxOpt())
			}
		case 1:
			if len(g.w.drrs) == 0 {
				g.line("enc %d %d flt=-", s, r.Intn(1000))
				continue
			}
			n := r.Intn(len(g.w.drrs))
			// prefer a record of this session's partition (foreign records are C06's business)
			for try := 0; try < 6 && g.w.partOf(n) != g.w.sessPart[s]; try++ {
				n = r.Intn(len(g.w.drrs))
			}
			mut := "-"
			if r.Intn(4) == 0 {
				mut = g.mutation(n)
			}
			if r.Intn(5) == 0 {
				g.line("dec %d %d flt=%s mut=%s api=load%s", s, n, g.faults(), mut, g.ctxOpt())
			} else {
				g.line("dec %d %d flt=%s mut=%s%s", s, n, g.faults(), mut, g.ctxOpt())
			}
		case 2:
			g.line("adv %d", g.advance(f))
		case 3:
			g.revokeSomething()
		case 4:
			g.newSession(g.liveFactory())
		case 5:
			g.line("cls %d", s)
			g.removeOpen(s)
		case 6:
			if g.nFac < 4 {
				g.newFactory()
				g.newSession(g.nFac - 1)
			}
		case 7:
			// factory restart: close all its sessions, close it, build a new one
			if g.countLive() > 1 || r.Intn(2) == 0 {
				g.closeFactory(f)
			}
		case 8:
			g.rowMutation()
		}
	}
	g.w.exec("end")
}

func (g *gen) liveFactory() int {
	var live []int
	for i, ok := range g.facOK {
		if ok {
			live = append(live, i)
		}
	}
	if len(live) == 0 {
		g.newFactory()
		return g.nFac - 1
	}
	return live[g.rng.Intn(len(live))]
}

func (g *gen) countLive() int {
	n := 0
	for _, ok := range g.facOK {
		if ok {
			n++
		}
	}
	return n
}

func (g *gen) removeOpen(s int) {
	for i, x := range g.open {
		if x == s {
			g.open = append(g.open[:i], g.open[i+1:]...)
			return
		}
	}
}

func (g *gen) closeFactory(f int) {
	for _, s := range append([]int(nil), g.open...) {
		if g.sfac[s] == f {
			g.line("cls %d", s)
			g.removeOpen(s)
		}
	}
	g.line("fcls %d", f)
	g.facOK[f] = false
}

func (g *gen) advance(f int) int64 {
	r := g.rng
	rv, ex := g.rvk[f], g.exp[f]
	choices := []int64{1e9, 30e9, 61e9, rv - 1, rv, rv + 1, 2*rv + 1, ex - 1, ex, ex + 1, ex/2 + 7, 1, 59e9}
	return choices[r.Intn(len(choices))]
}

func (g *gen) storedKeys() [][2]string {
	var ks [][2]string
	for id, m := range g.w.ms.Envelopes {
		for c := range m {
			ks = append(ks, [2]string{kidName(id), strconv.FormatInt(c-t0, 10)})
		}
	}
	sort.Slice(ks, func(i, j int) bool {
		if ks[i][0] != ks[j][0] {
			return ks[i][0] < ks[j][0]
		}
		a, _ := strconv.Atoi(ks[i][1])
		b, _ := strconv.Atoi(ks[j][1])
		return a < b
	})
	return ks
}

func (g *gen) revokeSomething() {
	ks := g.storedKeys()
	if len(ks) == 0 {
		return
	}
	k := ks[g.rng.Intn(len(ks))]
	if g.rng.Intn(2) == 0 {
		k = ks[len(ks)-1]
	}
	g.line("rev %s %s", k[0], k[1])
}

func (g *gen) rowMutation() {
	ks := g.storedKeys()
	if len(ks) == 0 || g.rng.Intn(3) != 0 {
		return
	}
	k := ks[g.rng.Intn(len(ks))]
	g.line("rowmut %s %s %s", k[0], k[1], []string{"noparent", "junk", "short"}[g.rng.Intn(3)])
}

func (g *gen) mutation(n int) string {
	r := g.rng
	other := r.Intn(len(g.w.drrs))
	switch r.Intn(13) {
	case 0:
		return fmt.Sprintf("flipdata:%d", r.Intn(4096))
	case 1:
		return fmt.Sprintf("flipkey:%d", r.Intn(480))
	case 2:
		if len(g.w.drrs[n].Data) > 0 {
			return fmt.Sprintf("truncdata:%d", r.Intn(64))
		}
		return "nildata"
	case 3:
		return fmt.Sprintf("trunckey:%d", r.Intn(60))
	case 4:
		return "nokey"
	case 5:
		return "noparent"
	case 6:
		return "nildata"
	case 7:
		return fmt.Sprintf("splicedata:%d", other)
	case 8:
		return fmt.Sprintf("splicekey:%d", other)
	case 9:
		return fmt.Sprintf("spliceparent:%d", other)
	case 10:
		return fmt.Sprintf("parentcreated:%d", 1+r.Intn(3))
	case 11:
		return "parentsk"
	}
	return "flipdata:0"
}

// ---------------------------------------------------------------------------------------------
// structured generators

type prelude struct {
	name string
	ops  []string // executed before the operation under test; sessions 0 (partition 0) exists afterwards
}

const facDefault = "expire=600000000000 revoke=60000000000 prec=1000000000"

func preludes(sk, ik string) []prelude {
	fac := func(n int) string { return fmt.Sprintf("fac %d %s sk=%s ik=%s shared=0", n, facDefault, sk, ik) }
	return []prelude{
		{"cold", []string{fac(0), "sess 0 0 0"}},
		{"warm", []string{fac(0), "sess 0 0 0", "enc 0 1 flt=-"}},
		{"stale", []string{fac(0), "sess 0 0 0", "enc 0 1 flt=-", "adv 60000000001"}},
		{"expired", []string{fac(0), "sess 0 0 0", "enc 0 1 flt=-", "adv 600000000001"}},
		{"ik-revoked", []string{fac(0), "sess 0 0 0", "enc 0 1 flt=-", "rev ik0 0", "adv 61000000000"}},
		{"sk-revoked", []string{fac(0), "sess 0 0 0", "enc 0 1 flt=-", "rev sk 0", "adv 61000000000"}},
		{"other-rotated", []string{fac(0), "sess 0 0 0", "enc 0 1 flt=-", "rev sk 0", "adv 2000000000", fac(1), "sess 1 1 0", "enc 1 2 flt=-", "adv 61000000000"}},
		{"fresh-after-rotation", []string{fac(0), "sess 0 0 0", "enc 0 1 flt=-", "rev ik0 0", "adv 2000000000", "enc 0 2 flt=-", "cls 0", "fcls 0", fac(1), "sess 1 1 0"}},
	}
}

func lastSession(ops []string) int {
	n := -1
	for _, o := range ops {
		if strings.HasPrefix(o, "sess ") {
			n++
		}
	}
	return n
}

// faultCases: every single fault position (and, with pairs, every pair) x fault kind in the
// operation under test, for every prelude; afterwards a fresh process decrypts what was returned
// and one fault-free encrypt + decrypt must succeed (C02, C09, C10).
func faultCases(pairs bool) {
	kinds := []string{"err", "dup", "errw"}
	for _, cfg := range [][2]string{{"simple", "simple"}, {"none", "none"}, {"lru:1", "lru:1"}} {
		for _, pre := range preludes(cfg[0], cfg[1]) {
			for _, target := range []string{"enc", "dec"} {
				// dry run: how many external calls does the operation make?
				w := newWorld()
				silent := out
				out = bufio.NewWriter(io.Discard)
				for _, o := range pre.ops {
					w.exec(o)
				}
				s := lastSession(pre.ops)
				opLine := fmt.Sprintf("enc %d 7 flt=", s)
				if target == "dec" {
					if len(w.drrs) == 0 {
						out = silent
						w.closeAll()
						continue
					}
					opLine = fmt.Sprintf("dec %d 0 mut=- flt=", s)
				}
				w.exec(opLine + "-")
				n := len(w.calls)
				w.closeAll()
				out = silent
				var schedules []string
				for i := 0; i < n; i++ {
					for _, k := range kinds {
						toks := make([]string, i+1)
						for j := range toks {
							toks[j] = "ok"
						}
						toks[i] = k
						schedules = append(schedules, strings.Join(toks, ","))
						if pairs {
							for j := i + 1; j < n+2; j++ {
								for _, k2 := range kinds {
									t2 := make([]string, j+1)
									for x := range t2 {
										t2[x] = "ok"
									}
									t2[i], t2[j] = k, k2
									schedules = append(schedules, strings.Join(t2, ","))
								}
							}
						}
					}
				}
				for _, fl := range schedules {
					w := newWorld()
					fmt.Fprintln(out, "new")
					for _, o := range pre.ops {
						w.exec(o)
					}
					nrec := len(w.drrs)
					w.exec(opLine + fl)
					nf := strings.Count(strings.Join(pre.ops, "\n"), "fac ")
					ns := lastSession(pre.ops) + 1
					// a fresh process reads back what was handed out
					w.exec(fmt.Sprintf("fac %d %s sk=none ik=none shared=0", nf, facDefault))
					w.exec(fmt.Sprintf("sess %d %d 0", nf, ns))
					if len(w.drrs) > nrec {
						w.exec(fmt.Sprintf("dec %d %d flt=- mut=-", ns, nrec))
					}
					// once the faults stop the next operations succeed
					w.exec(fmt.Sprintf("enc %d 9 flt=-", s))
					w.exec(fmt.Sprintf("dec %d %d flt=- mut=-", s, len(w.drrs)-1))
					w.exec("end")
				}
			}
		}
	}
}

// mutationCases: every single-bit flip and every truncation of Data and of the encrypted key of
// genuine records, every recombination of fields of three genuine records, structural variants,
// corrupted / missing rows (C07).
func mutationCases(allBits bool) {
	for _, cfg := range [][2]string{{"simple", "simple"}, {"none", "none"}} {
		w := newWorld()
		fmt.Fprintln(out, "new")
		w.exec(fmt.Sprintf("fac 0 %s sk=%s ik=%s shared=0", facDefault, cfg[0], cfg[1]))
		w.exec("sess 0 0 0")
		w.exec("sess 0 1 1")
		w.exec("enc 0 3 flt=-")  // rec 0, partition 0
		w.exec("enc 0 17 flt=-") // rec 1, empty payload
		w.exec("enc 1 5 flt=-")  // rec 2, partition 1
		w.exec("rev ik0 0")
		w.exec("adv 2000000000")
		w.exec("enc 0 4 flt=-") // rec 3 under a rotated IK
		step := 1
		if !allBits {
			step = 7
		}
		for rec := 0; rec < 4; rec++ {
			sess := 0
			if rec == 2 {
				sess = 1
			}
			nd, nk := len(w.drrs[rec].Data)*8, len(w.drrs[rec].Key.EncryptedKey)*8
			for b := 0; b < nd; b += step {
				w.exec(fmt.Sprintf("dec %d %d flt=- mut=flipdata:%d", sess, rec, b))
			}
			for b := 0; b < nk; b += step {
				w.exec(fmt.Sprintf("dec %d %d flt=- mut=flipkey:%d", sess, rec, b))
			}
			for l := 0; l < len(w.drrs[rec].Data); l++ {
				w.exec(fmt.Sprintf("dec %d %d flt=- mut=truncdata:%d", sess, rec, l))
			}
			for l := 0; l < len(w.drrs[rec].Key.EncryptedKey); l++ {
				w.exec(fmt.Sprintf("dec %d %d flt=- mut=trunckey:%d", sess, rec, l))
			}
			for _, m := range []string{"nokey", "noparent", "nildata", "parentcreated:1", "parentcreated:2", "parentsk"} {
				w.exec(fmt.Sprintf("dec %d %d flt=- mut=%s", sess, rec, m))
			}
			for other := 0; other < 4; other++ {
				for _, m := range []string{"splicedata", "splicekey", "spliceparent"} {
					w.exec(fmt.Sprintf("dec %d %d flt=- mut=%s:%d", sess, rec, m, other))
					w.exec(fmt.Sprintf("dec %d %d flt=- mut=%s:%d", 1-sess, rec, m, other))
				}
			}
		}
		w.exec("end")
		// corrupted and missing key rows
		for _, v := range []string{"noparent", "junk", "short"} {
			for _, k := range [][2]string{{"ik0", "0"}, {"ik0", "2"}, {"sk", "0"}, {"ik1", "0"}} {
				w2 := newWorld()
				fmt.Fprintln(out, "new")
				w2.exec(fmt.Sprintf("fac 0 %s sk=%s ik=%s shared=0", facDefault, cfg[0], cfg[1]))
				w2.exec("sess 0 0 0")
				w2.exec("sess 0 1 1")
				w2.exec("enc 0 3 flt=-")
				w2.exec("enc 1 5 flt=-")
				w2.exec("adv 2000000000")
				w2.exec("rev ik0 0")
				w2.exec("enc 0 4 flt=-")
				w2.exec(fmt.Sprintf("rowmut %s %s %s", k[0], k[1], v))
				w2.exec(fmt.Sprintf("fac 1 %s sk=%s ik=%s shared=0", facDefault, cfg[0], cfg[1]))
				w2.exec("sess 1 2 0")
				w2.exec("sess 1 3 1")
				for rec := 0; rec < 3; rec++ {
					w2.exec(fmt.Sprintf("dec 2 %d flt=- mut=-", rec))
					w2.exec(fmt.Sprintf("dec 3 %d flt=- mut=-", rec))
					w2.exec(fmt.Sprintf("dec 0 %d flt=- mut=-", rec))
				}
				w2.exec("enc 2 8 flt=-")
				w2.exec("enc 3 8 flt=-")
				w2.exec("adv 61000000000")
				w2.exec("enc 0 8 flt=-")
				w2.exec("end")
			}
		}
	}
}

// boundaryCases: clock placements around the revoke-check interval and the key lifetime, with
// and without revocation, rotation by another process, for every cache configuration (C04 C05 C20).
func boundaryCases(full bool) {
	cfgs := [][3]string{{"simple", "simple", "0"}, {"none", "none", "0"}, {"lru:1", "lru:1", "0"}, {"simple", "simple", "1"},
		{"slru:2", "lfu:2", "1"}, {"simple", "none", "0"}, {"none", "simple", "0"}, {"tinylfu:2", "tinylfu:2", "0"}}
	if !full {
		cfgs = cfgs[:5]
	}
	rotationCases(cfgs)
	rotationFaultCases(cfgs[:3])
	iv, ex := int64(60e9), int64(600e9)
	offs := []int64{iv - 1, iv, iv + 1, 2*iv - 1, 2 * iv, 2*iv + 1, ex - 1, ex, ex + 1, ex + iv + 1, 1e9, 1}
	revs := []string{"-", "ik0", "sk", "both"}
	for _, cfg := range cfgs {
		for _, rv := range revs {
			for _, other := range []bool{false, true} {
				for _, preAdv := range []int64{0, 30e9} {
					for _, o1 := range offs {
						w := newWorld()
						fmt.Fprintln(out, "new")
						w.exec(fmt.Sprintf("fac 0 %s sk=%s ik=%s shared=%s", facDefault, cfg[0], cfg[1], cfg[2]))
						w.exec("sess 0 0 0")
						w.exec("enc 0 1 flt=-")
						w.exec("enc 0 2 flt=-") // C20: immediate repetition
						w.exec("dec 0 0 flt=- mut=-")
						w.exec("dec 0 0 flt=- mut=-")
						if preAdv > 0 {
							w.exec(fmt.Sprintf("adv %d", preAdv))
						}
						switch rv {
						case "ik0":
							w.exec("rev ik0 0")
						case "sk":
							w.exec("rev sk 0")
						case "both":
							w.exec("rev sk 0")
							w.exec("rev ik0 0")
						}
						if other {
							w.exec("adv 1000000000")
							w.exec(fmt.Sprintf("fac 1 %s sk=%s ik=%s shared=%s", facDefault, cfg[0], cfg[1], cfg[2]))
							w.exec("sess 1 1 0")
							w.exec("enc 1 3 flt=-")
						}
						w.exec(fmt.Sprintf("adv %d", o1))
						s2 := 0
						w.exec(fmt.Sprintf("enc %d 4 flt=-", s2))
						w.exec(fmt.Sprintf("enc %d 5 flt=-", s2))
						w.exec("dec 0 0 flt=- mut=-")
						w.exec(fmt.Sprintf("adv %d", iv+1))
						w.exec("enc 0 6 flt=-")
						w.exec(fmt.Sprintf("adv %d", iv+1))
						w.exec("enc 0 7 flt=-")
						// a fresh session of the same factory and a fresh factory
						ns := 1
						if other {
							ns = 2
						}
						w.exec(fmt.Sprintf("sess 0 %d 0", ns))
						w.exec(fmt.Sprintf("enc %d 8 flt=-", ns))
						w.exec(fmt.Sprintf("dec %d 0 flt=- mut=-", ns))
						w.exec("end")
					}
				}
			}
		}
	}
}

// rotationCases: a long-lived session whose system key expires while a younger intermediate key of
// its partition is still within its own lifetime; after the inline rotation old records are read
// again and new ones written (the "latest" bookkeeping of the key cache must not move backwards).
func rotationCases(cfgs [][3]string) {
	for _, cfg := range cfgs {
		for _, gap := range []int64{61e9, 1e9, 121e9} {
			w := newWorld()
			fmt.Fprintln(out, "new")
			w.exec(fmt.Sprintf("fac 0 %s sk=%s ik=%s shared=%s", facDefault, cfg[0], cfg[1], cfg[2]))
			w.exec("sess 0 0 0")
			w.exec("enc 0 1 flt=-") // drr 0: SK1, IK(p0)
			w.exec("adv 300000000000")
			w.exec("sess 0 1 1")
			w.exec("enc 1 2 flt=-")    // drr 1: IK(p1) created 300 s after SK1
			w.exec("enc 1 3 flt=-")    // drr 2
			w.exec("adv 301000000000") // SK1 (and IK(p0)) expired, IK(p1) not
			w.exec("enc 1 4 flt=-")    // drr 3: inline rotation
			w.exec(fmt.Sprintf("adv %d", gap))
			w.exec("dec 1 1 flt=- mut=-") // an old record of this partition
			w.exec("enc 1 5 flt=-")       // drr 4
			w.exec("adv 30000000000")
			w.exec("dec 1 2 flt=- mut=-")
			w.exec("enc 1 6 flt=-")
			w.exec("dec 1 3 flt=- mut=-")
			w.exec("adv 61000000000")
			w.exec("enc 1 7 flt=-")
			w.exec("enc 0 8 flt=-") // the other partition rotates too
			w.exec("dec 0 0 flt=- mut=-")
			w.exec("enc 0 9 flt=-")
			w.exec("sess 0 2 1") // a fresh session: old record first, then a write
			w.exec("dec 2 1 flt=- mut=-")
			w.exec("enc 2 10 flt=-")
			w.exec("end")
		}
	}
}

// rotationFaultCases: the same inline rotation with one failing external call at every position
// (read, KMS, allocator, AEAD; write faults too, which suspend the timed clauses): a failed
// replacement of an expired key must fail the write, never fall back to the expired key.
func rotationFaultCases(cfgs [][3]string) {
	for _, cfg := range cfgs {
		for k := 0; k < 12; k++ {
			for _, kind := range []string{"err", "errw"} {
				w := newWorld()
				fmt.Fprintln(out, "new")
				w.exec(fmt.Sprintf("fac 0 %s sk=%s ik=%s shared=%s", facDefault, cfg[0], cfg[1], cfg[2]))
				w.exec("sess 0 0 0")
				w.exec("enc 0 1 flt=-")
				w.exec("adv 300000000000")
				w.exec("sess 0 1 1")
				w.exec("enc 1 2 flt=-")
				w.exec("adv 301000000000")
				w.exec("enc 1 3 flt=" + strings.Repeat("ok,", k) + kind)
				w.exec("enc 1 4 flt=-")
				w.exec("adv 61000000000")
				w.exec("enc 1 5 flt=-")
				w.exec("dec 1 1 flt=- mut=-")
				w.exec("enc 0 6 flt=" + strings.Repeat("ok,", k) + kind)
				w.exec("enc 0 7 flt=-")
				w.exec("end")
			}
		}
	}
}

// tickCases: the clock moves while an operation is in flight (a slow KMS or metastore call that
// straddles a creation-stamp boundary or the revoke-check interval).  Not replayed on the model (its
// operations are instantaneous); the outcome is judged directly: every write succeeds with its key
// chain stored, and a fresh factory decrypts every record.
func tickCases() {
	for _, cfg := range [][3]string{{"simple", "simple", "0"}, {"none", "none", "0"}, {"lru:1", "lru:1", "1"}} {
		for _, at := range []string{"KE", "S"} {
			for _, by := range []int64{1e9, 61e9, 3601e9} {
				var buf bytes.Buffer
				saved := out
				out = bufio.NewWriter(&buf)
				w := newWorld()
				w.tickAt, w.tickBy = at, time.Duration(by)
				w.exec(fmt.Sprintf("fac 0 %s sk=%s ik=%s shared=%s", facDefault, cfg[0], cfg[1], cfg[2]))
				w.exec("sess 0 0 0")
				w.exec("enc 0 1 flt=-")
				w.exec("enc 0 2 flt=-")
				w.exec("sess 0 1 1")
				w.exec("enc 1 3 flt=-")
				w.tickAt = "" // the reader's clock does not jump
				w.exec(fmt.Sprintf("fac 1 %s sk=%s ik=%s shared=%s", facDefault, cfg[0], cfg[1], cfg[2]))
				w.exec("sess 1 2 0")
				w.exec("dec 2 0 flt=- mut=-")
				w.exec("dec 2 1 flt=- mut=-")
				w.exec("sess 1 3 1")
				w.exec("dec 3 2 flt=- mut=-")
				w.closeAll()
				out.Flush()
				out = saved
				verdict := "ok"
				for _, l := range strings.Split(buf.String(), "\n") {
					switch {
					case strings.HasPrefix(l, "enc ") && !(strings.Contains(l, "=> res=ok") && strings.Contains(l, "chain=1")):
						verdict = "FAIL write did not succeed with its key chain stored: " + l
					case strings.HasPrefix(l, "dec ") && !strings.Contains(l, "=> res=ok pay="):
						verdict = "FAIL a fresh factory cannot decrypt the record: " + l
					}
					if verdict != "ok" {
						break
					}
				}
				fmt.Fprintf(out, "tick sk=%s ik=%s shared=%s at=%s by=%d => %s\n", cfg[0], cfg[1], cfg[2], at, by, verdict)
				if verdict != "ok" {
					fmt.Fprintf(out, "# history:\n# %s\n", strings.ReplaceAll(strings.TrimSpace(buf.String()), "\n", "\n# "))
				}
			}
		}
	}
}

func replay(path string) {
	f, err := os.Open(path)
	if err != nil {
		fmt.Fprintln(os.Stderr, err)
		os.Exit(2)
	}
	defer f.Close()
	sc := bufio.NewScanner(f)
	sc.Buffer(make([]byte, 1<<20), 1<<20)
	var w *world
	for sc.Scan() {
		line := sc.Text()
		if i := strings.Index(line, " => "); i >= 0 {
			line = line[:i]
		}
		line = strings.TrimSpace(line)
		if line == "" || strings.HasPrefix(line, "#") {
			continue
		}
		if line == "new" {
			if w != nil && !w.dead {
				w.closeAll()
			}
			w = newWorld()
			fmt.Fprintln(out, "new")
			continue
		}
		if w != nil {
			w.exec(line)
		}
	}
}

func main() {
	mode := flag.String("mode", "random", "random|replay|faults|faultpairs|mutations|allmutations|boundaries|allboundaries")
	cases := flag.Int("cases", 300, "random cases")
	length := flag.Int("len", 40, "ops per case")
	file := flag.String("file", "", "replay file")
	flag.StringVar(&secretKind, "secret", "fake", "fake|protected")
	flag.Parse()
	defer out.Flush()
	switch *mode {
	case "random":
		g := &gen{rng: prng.FromEnv(3)}
		for i := 0; i < *cases; i++ {
			g.randomCase(*length)
		}
	case "replay":
		replay(*file)
	case "faults":
		faultCases(false)
	case "faultpairs":
		faultCases(true)
	case "mutations":
		mutationCases(false)
	case "allmutations":
		mutationCases(true)
	case "ticks":
		tickCases()
	case "boundaries":
		boundaryCases(false)
	case "allboundaries":
		boundaryCases(true)
	}
}
