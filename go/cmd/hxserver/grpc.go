package main

import (
	"context"
	"fmt"
	"net"
	"os"
	"os/exec"
	"time"

	pb "github.com/godaddy/asherah/server/go/api"
	"google.golang.org/grpc"
	"google.golang.org/grpc/credentials/insecure"
)

// grpcProbe exercises what the in-memory stream cannot: the real gRPC transport.  The child process
// is the sidecar exactly as main.go builds it (grpc.NewServer + RegisterAppEncryptionServer on a unix
// socket); the parent is a client.  Printed observations:
//
//	grpc empty     => what the client receives for a request with no oneof set (handler sends nil)
//	grpc gs-empty  => the answer to a rejected get-session
//	grpc closesend => whether the sidecar PROCESS survived the end of that stream
//	grpc other     => whether an unrelated second client can still open a session afterwards
func grpcProbe(child bool, sock string) int {
	if sock == "" {
		fmt.Fprintln(os.Stderr, "grpc: -sock required")
		return 2
	}
	if child {
		l, err := net.Listen("unix", sock)
		if err != nil {
			fmt.Fprintln(os.Stderr, err)
			return 3
		}
		s := grpc.NewServer()
		pb.RegisterAppEncryptionServer(s, newService(false))
		if err := s.Serve(l); err != nil {
			return 4
		}
		return 0
	}
	os.Remove(sock)
	cmd := exec.Command(os.Args[0], "-mode", "grpc-child", "-sock", sock)
	if err := cmd.Start(); err != nil {
		fmt.Fprintln(os.Stderr, err)
		return 2
	}
	exited := make(chan error, 1)
	go func() { exited <- cmd.Wait() }()
	defer func() {
		cmd.Process.Kill()
		os.Remove(sock)
	}()
	for i := 0; i < 200; i++ {
		if _, err := os.Stat(sock); err == nil {
			break
		}
		time.Sleep(10 * time.Millisecond)
	}
	conn, err := grpc.NewClient("unix://"+sock, grpc.WithTransportCredentials(insecure.NewCredentials()))
	if err != nil {
		fmt.Println("grpc dial => err", err)
		return 2
	}
	defer conn.Close()
	cl := pb.NewAppEncryptionClient(conn)
	ctx, cancel := context.WithTimeout(context.Background(), 20*time.Second)
	defer cancel()
	kind := func(r *pb.SessionResponse, err error) string {
		if err != nil {
			return "rpc-error"
		}
		switch r.GetResponse().(type) {
		case nil:
			return "empty-message"
		case *pb.SessionResponse_ErrorResponse:
			return "error-response"
		}
		return "other"
	}
	st, err := cl.Session(ctx)
	if err != nil {
		fmt.Println("grpc open => err", err)
		return 2
	}
	st.Send(&pb.SessionRequest{})
	fmt.Println("grpc empty => resp=" + kind(st.Recv()))
	st.Send(&pb.SessionRequest{Request: &pb.SessionRequest_GetSession{GetSession: &pb.GetSession{PartitionId: ""}}})
	fmt.Println("grpc gs-empty => resp=" + kind(st.Recv()))
	st.CloseSend()
	_, rerr := st.Recv()
	select {
	case e := <-exited:
		fmt.Printf("grpc closesend => sidecar=exited (%v) client-saw=%v\n", e, rerr != nil)
	case <-time.After(1500 * time.Millisecond):
		fmt.Printf("grpc closesend => sidecar=alive client-saw-eof=%v\n", rerr != nil)
	}
	st2, err := cl.Session(ctx)
	if err == nil {
		st2.Send(&pb.SessionRequest{Request: &pb.SessionRequest_GetSession{GetSession: &pb.GetSession{PartitionId: "other"}}})
		r, err := st2.Recv()
		fmt.Println("grpc other => resp=" + kind(r, err))
	} else {
		fmt.Println("grpc other => resp=rpc-error")
	}
	return 0
}
