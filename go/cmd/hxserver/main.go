// hxserver drives the REAL gRPC sidecar handler (server.AppEncryption.Session, built by
// server.NewAppEncryption with the in-memory metastore, the static KMS and memguard secrets — the
// same constructor main.go uses) through an in-memory fake of the generated
// pb.AppEncryption_SessionServer stream: Recv hands out the scripted requests and then io.EOF (or a
// transport error), Send records the responses.  Every stream runs under recover(), so a panic is an
// observation.  One line per request, one terminator line per stream:
//
//	stream <n> cache=<0|1> [conc=<group>]
//	gs <A|B|C|empty|nilmsg>            => resp=<kind>
//	enc <payload-id|nilmsg> [sendfail] => resp=enc rec#<n>.<k>
//	dec <rec#|foreign#><n>.<k> | corrupt#<n>.<k>:<data|key|keyid|pcreated> | empty | nilmsg
//	empty                              => resp=nil
//	eof | recverr | abort              => ret=<nil|err|panic> sent=<number of Send calls>
//
// <kind> = ok | enc rec#… | dec:eq | dec:neq | err:uninit | err:already | err:sdk | nil | panic | bad:<why>.
// Protocol documented in lean/AsherahVerif/Driver/Server.lean; the model driver md_server replays the
// same lines.  Modes: exhaustive (all sequences up to a length over the 8-letter alphabet of C19),
// random (seeded; groups of concurrent streams sharing the session factory), replay (op lines without
// observations), grpc (a real grpc.Server on a unix socket in a child process: transport probe).
package main

import (
	"bufio"
	"bytes"
	"context"
	"errors"
	"flag"
	"fmt"
	"io"
	"log"
	"os"
	"strconv"
	"strings"
	"sync"
	"time"

	pb "github.com/godaddy/asherah/server/go/api"
	"github.com/godaddy/asherah/server/go/pkg/server"
	"google.golang.org/grpc/metadata"

	"verifharness/internal/prng"
)

var out = bufio.NewWriterSize(os.Stdout, 1<<20)

// ---------------------------------------------------------------------------------------------
// record table: every record a stream received in an encrypt response, by "<stream>.<k>"

type record struct {
	drr     *pb.DataRowRecord
	part    string
	payload string // payload id
}

var (
	recMu sync.Mutex
	recs  = map[string]*record{}
)

func getRec(id string) *record {
	recMu.Lock()
	defer recMu.Unlock()
	return recs[id]
}

func putRec(id string, r *record) {
	recMu.Lock()
	recs[id] = r
	recMu.Unlock()
}

func partitionID(name string) string {
	switch name {
	case "empty", "nilmsg":
		return ""
	}
	return "partition-" + name
}

// payload bytes are a function of the payload id; id 0 is the empty payload
func payloadBytes(id string) []byte {
	n, _ := strconv.Atoi(id)
	if n == 0 {
		return []byte{}
	}
	return prng.New(uint64(n) + 77).Bytes(1 + (n*7)%90)
}

func cloneDRR(d *pb.DataRowRecord) *pb.DataRowRecord {
	c := &pb.DataRowRecord{Data: append([]byte(nil), d.GetData()...)}
	if k := d.GetKey(); k != nil {
		c.Key = &pb.EnvelopeKeyRecord{Created: k.GetCreated(), Key: append([]byte(nil), k.GetKey()...)}
		if m := k.GetParentKeyMeta(); m != nil {
			c.Key.ParentKeyMeta = &pb.KeyMeta{Created: m.GetCreated(), KeyId: m.GetKeyId()}
		}
	}
	return c
}

// ---------------------------------------------------------------------------------------------
// the fake stream

type fakeStream struct {
	id       int
	ctx      context.Context
	ops      []string // scripted request ops (already resolved or resolved lazily at Recv)
	term     string   // eof | recverr
	sendFail int      // index of the request whose Send fails, -1 = none
	lazy     func(i int, own []string) string

	recvd    int // requests handed out
	termSeen bool
	sent     []*pb.SessionResponse
	kinds    []string // per request: classification of its response, made when Send happens
	extra    int      // Sends that answer no request / a request already answered
	lines    []string // resolved op text per request
	own      []string // ids of records produced on this stream
	badLine  string
	part     string   // partition name of the first get-session request answered ok
}

var errRecv = errors.New("transport: recv failed")
var errSend = errors.New("transport: send failed")

func (f *fakeStream) Recv() (*pb.SessionRequest, error) {
	f.noResponse()
	if f.recvd >= len(f.ops) {
		f.termSeen = true
		if f.term == "recverr" {
			return nil, errRecv
		}
		return nil, io.EOF
	}
	i := f.recvd
	op := f.ops[i]
	if f.lazy != nil {
		op = f.lazy(i, f.own)
	}
	req, text := f.build(op)
	if req == nil { // the op cannot be built: the script ends here, the line is reported as bad
		f.badLine = text
		f.termSeen = true
		return nil, io.EOF
	}
	f.lines = append(f.lines, text)
	f.recvd++
	return req, nil
}

func (f *fakeStream) Send(r *pb.SessionResponse) error {
	f.sent = append(f.sent, r)
	// Stream is a synchronous Recv / handle / Send loop: a Send answers the request received last
	i := len(f.lines) - 1
	switch {
	case i < 0:
		f.extra++
	case len(f.kinds) == i:
		f.kinds = append(f.kinds, f.classify(i, r))
	default:
		f.extra++
		f.kinds[i] = "bad:second-response"
	}
	if i == f.sendFail {
		return errSend
	}
	return nil
}

// noResponse marks the request received last as unanswered if the handler asks for the next one
func (f *fakeStream) noResponse() {
	if len(f.kinds) < len(f.lines) {
		f.kinds = append(f.kinds, "none")
	}
}

func (f *fakeStream) SetHeader(metadata.MD) error  { return nil }
func (f *fakeStream) SendHeader(metadata.MD) error { return nil }
func (f *fakeStream) SetTrailer(metadata.MD)       {}
func (f *fakeStream) Context() context.Context     { return f.ctx }
func (f *fakeStream) SendMsg(interface{}) error    { return errors.New("SendMsg: not used by the handler") }
func (f *fakeStream) RecvMsg(interface{}) error    { return errors.New("RecvMsg: not used by the handler") }

// build turns an op into the protobuf request (nil request = the op cannot be built).
func (f *fakeStream) build(op string) (*pb.SessionRequest, string) {
	w := strings.Fields(op)
	bad := func(why string) (*pb.SessionRequest, string) { return nil, op + " => resp=bad:" + why }
	if len(w) == 0 {
		return bad("empty-line")
	}
	switch w[0] {
	case "gs":
		if len(w) != 2 {
			return bad("arity")
		}
		if w[1] == "nilmsg" {
			return &pb.SessionRequest{Request: &pb.SessionRequest_GetSession{}}, op
		}
		return &pb.SessionRequest{Request: &pb.SessionRequest_GetSession{
			GetSession: &pb.GetSession{PartitionId: partitionID(w[1])}}}, op
	case "enc":
		if len(w) != 2 {
			return bad("arity")
		}
		if w[1] == "nilmsg" {
			return &pb.SessionRequest{Request: &pb.SessionRequest_Encrypt{}}, op
		}
		return &pb.SessionRequest{Request: &pb.SessionRequest_Encrypt{
			Encrypt: &pb.Encrypt{Data: payloadBytes(w[1])}}}, op
	case "dec":
		if len(w) != 2 {
			return bad("arity")
		}
		switch {
		case w[1] == "nilmsg":
			return &pb.SessionRequest{Request: &pb.SessionRequest_Decrypt{}}, op
		case w[1] == "empty":
			return &pb.SessionRequest{Request: &pb.SessionRequest_Decrypt{
				Decrypt: &pb.Decrypt{DataRowRecord: &pb.DataRowRecord{}}}}, op
		case strings.HasPrefix(w[1], "rec#"), strings.HasPrefix(w[1], "foreign#"):
			r := getRec(w[1][strings.Index(w[1], "#")+1:])
			if r == nil {
				return bad("unknown-record")
			}
			return &pb.SessionRequest{Request: &pb.SessionRequest_Decrypt{
				Decrypt: &pb.Decrypt{DataRowRecord: cloneDRR(r.drr)}}}, op
		case strings.HasPrefix(w[1], "corrupt#"):
			idm := strings.SplitN(w[1][len("corrupt#"):], ":", 2)
			if len(idm) != 2 {
				return bad("corrupt-syntax")
			}
			r := getRec(idm[0])
			if r == nil {
				return bad("unknown-record")
			}
			d := cloneDRR(r.drr)
			switch idm[1] {
			case "data":
				if len(d.Data) == 0 {
					return bad("no-data")
				}
				d.Data[len(d.Data)/2] ^= 0x10
			case "key":
				if len(d.Key.Key) == 0 {
					return bad("no-key")
				}
				d.Key.Key[len(d.Key.Key)/3] ^= 0x01
			case "keyid":
				d.Key.ParentKeyMeta.KeyId = "_IK_garbage"
			case "pcreated":
				d.Key.ParentKeyMeta.Created -= 86400 * 365
			case "nopmeta": // key sub-message present, parent_key_meta absent
				d.Key.ParentKeyMeta = nil
			case "emptykey": // key sub-message present but empty
				d.Key = &pb.EnvelopeKeyRecord{}
			case "nokey": // data only
				d.Key = nil
			default:
				return bad("corrupt-field")
			}
			return &pb.SessionRequest{Request: &pb.SessionRequest_Decrypt{Decrypt: &pb.Decrypt{DataRowRecord: d}}}, op
		}
		return bad("dec-arg")
	case "empty":
		return &pb.SessionRequest{}, op
	}
	return bad("unknown-op")
}

// classify the i-th response (the answer to the i-th request)
func (f *fakeStream) classify(i int, r *pb.SessionResponse) string {
	w := strings.Fields(f.lines[i])
	if r == nil {
		return "nil"
	}
	switch x := r.GetResponse().(type) {
	case nil:
		if w[0] == "gs" && f.part == "" {
			f.part = w[1]
		}
		return "ok"
	case *pb.SessionResponse_ErrorResponse:
		switch x.ErrorResponse.GetMessage() {
		case "session not yet initialized":
			return "err:uninit"
		case "session has already been initialized":
			return "err:already"
		}
		return "err:sdk"
	case *pb.SessionResponse_EncryptResponse:
		d := x.EncryptResponse.GetDataRowRecord()
		if w[0] != "enc" || d == nil || d.GetKey() == nil || d.GetKey().GetParentKeyMeta() == nil || len(d.GetData()) == 0 {
			return "bad:encrypt-response"
		}
		id := fmt.Sprintf("%d.%d", f.id, len(f.own))
		pay := w[1]
		if pay == "nilmsg" {
			pay = "0"
		}
		putRec(id, &record{drr: cloneDRR(d), part: f.part, payload: pay})
		f.own = append(f.own, id)
		return "enc rec#" + id
	case *pb.SessionResponse_DecryptResponse:
		if w[0] != "dec" {
			return "bad:decrypt-response"
		}
		arg := w[1]
		var want []byte
		switch {
		case strings.Contains(arg, "#"):
			id := arg[strings.Index(arg, "#")+1:]
			if j := strings.Index(id, ":"); j >= 0 {
				id = id[:j]
			}
			if rec := getRec(id); rec != nil {
				want = payloadBytes(rec.payload)
			}
		}
		if want != nil && bytes.Equal(want, x.DecryptResponse.GetData()) {
			return "dec:eq"
		}
		return "dec:neq"
	}
	return "bad:response-type"
}

// ---------------------------------------------------------------------------------------------

var svc *server.AppEncryption
var cacheFlag int

func newService(cache bool) *server.AppEncryption {
	return server.NewAppEncryption(&server.Options{
		ServiceName:          "verif-svc",
		ProductID:            "verif-prod",
		ExpireAfter:          24 * time.Hour,
		CheckInterval:        time.Hour,
		Metastore:            "memory",
		KMS:                  "static",
		EnableSessionCaching: cache,
		SessionCacheMaxSize:  8,
		SessionCacheDuration: time.Hour,
	})
}

// runStream executes one scripted stream against the real handler and returns its trace block.
func runStream(f *fakeStream, header string) string {
	f.ctx = context.Background()
	ret := "nil"
	func() {
		defer func() {
			if e := recover(); e != nil {
				ret = "panic"
			}
		}()
		if err := svc.Session(f); err != nil {
			ret = "err"
		}
	}()
	var b strings.Builder
	b.WriteString(header)
	b.WriteByte('\n')
	for i, l := range f.lines {
		if i == f.sendFail {
			l += " sendfail"
		}
		switch {
		case i < len(f.kinds):
			b.WriteString(l + " => resp=" + f.kinds[i] + "\n")
		case ret == "panic":
			b.WriteString(l + " => resp=panic\n")
		default:
			b.WriteString(l + " => resp=none\n")
		}
	}
	if f.badLine != "" {
		b.WriteString(f.badLine + "\n")
	}
	term := "abort"
	if f.termSeen {
		term = f.term
	}
	fmt.Fprintf(&b, "%s => ret=%s sent=%d\n", term, ret, len(f.sent))
	return b.String()
}

func header(id int, conc int) string {
	h := fmt.Sprintf("stream %d cache=%d", id, cacheFlag)
	if conc >= 0 {
		h += fmt.Sprintf(" conc=%d", conc)
	}
	return h
}

const firstFree = 3 // streams 0..2 are the setup streams

func setup() {
	scripts := [][]string{
		{"gs A", "enc 1", "enc 0", "enc 2", "dec rec#0.0"},
		{"gs B", "enc 1", "enc 3"},
		{"gs C", "enc 4"},
	}
	for i, s := range scripts {
		f := &fakeStream{id: i, ops: s, term: "eof", sendFail: -1}
		out.WriteString(runStream(f, header(i, -1)))
	}
}

// the 8-letter alphabet of C19; "genuine" = the stream's latest own record, else the setup record of A
var alphabet = []string{"gs A", "gs empty", "enc", "dec genuine", "dec foreign", "dec corrupt", "dec empty", "empty"}
var corruptFields = []string{"data", "key", "keyid", "pcreated", "nopmeta", "emptykey", "nokey"}

func resolveExh(letters []int) func(i int, own []string) string {
	return func(i int, own []string) string {
		switch alphabet[letters[i]] {
		case "enc":
			return "enc " + strconv.Itoa(i+1)
		case "dec genuine":
			if len(own) > 0 {
				return "dec rec#" + own[len(own)-1]
			}
			return "dec rec#0.0"
		case "dec foreign":
			return "dec foreign#1." + strconv.Itoa(i%2)
		case "dec corrupt":
			if len(own) > 0 {
				return "dec corrupt#" + own[len(own)-1] + ":" + corruptFields[i%len(corruptFields)]
			}
			return "dec corrupt#0." + strconv.Itoa(i%3) + ":" + corruptFields[(i+len(letters))%len(corruptFields)]
		}
		return alphabet[letters[i]]
	}
}

func exhaustive(maxlen, recvErrLen int) {
	id := firstFree
	var rec func(prefix []int)
	emit := func(letters []int, term string) {
		f := &fakeStream{id: id, ops: make([]string, len(letters)), term: term, sendFail: -1, lazy: resolveExh(letters)}
		out.WriteString(runStream(f, header(id, -1)))
		id++
	}
	rec = func(prefix []int) {
		emit(prefix, "eof")
		if len(prefix) <= recvErrLen {
			emit(prefix, "recverr")
		}
		if len(prefix) == maxlen {
			return
		}
		for l := range alphabet {
			rec(append(append([]int(nil), prefix...), l))
		}
	}
	rec(nil)
}

func randomGroups(rng *prng.R, groups, perGroup, maxLen int) {
	id := firstFree
	parts := []string{"A", "B", "C"}
	setupRecs := map[string][]string{"A": {"0.0", "0.1", "0.2"}, "B": {"1.0", "1.1"}, "C": {"2.0"}}
	for g := 0; g < groups; g++ {
		streams := make([]*fakeStream, perGroup)
		for s := range streams {
			n := 1 + rng.Intn(maxLen)
			myPart := parts[rng.Intn(3)]
			kinds := make([]int, n)
			draws := make([]int, n)
			for i := range kinds {
				// get-session early with high probability, sometimes never, sometimes rejected first
				if i == 0 {
					kinds[i] = rng.Pick(60, 12, 4, 6, 4, 4, 2, 4, 2, 1, 1)
				} else {
					kinds[i] = rng.Pick(6, 5, 30, 22, 8, 10, 4, 6, 3, 3, 3)
				}
				draws[i] = rng.Intn(1 << 20)
			}
			term := "eof"
			if rng.Intn(8) == 0 {
				term = "recverr"
			}
			sendFail := -1
			if rng.Intn(10) == 0 {
				sendFail = rng.Intn(n)
			}
			others := []string{}
			for _, p := range parts {
				if p != myPart {
					others = append(others, setupRecs[p]...)
				}
			}
			mine := setupRecs[myPart]
			streams[s] = &fakeStream{id: id, ops: make([]string, n), term: term, sendFail: sendFail,
				lazy: func(i int, own []string) string {
					d := draws[i]
					genuine := func() string {
						if len(own) > 0 && d%4 != 0 {
							return own[(d/4)%len(own)]
						}
						return mine[(d/4)%len(mine)]
					}
					switch kinds[i] {
					case 0:
						return "gs " + myPart
					case 1:
						return "gs empty"
					case 2:
						return "enc " + strconv.Itoa(d%200)
					case 3:
						return "dec rec#" + genuine()
					case 4:
						return "dec foreign#" + others[d%len(others)]
					case 5:
						return "dec corrupt#" + genuine() + ":" + corruptFields[(d/1024)%len(corruptFields)]
					case 6:
						return "dec empty"
					case 7:
						return "empty"
					case 8:
						return "gs nilmsg"
					case 9:
						return "enc nilmsg"
					}
					return "dec nilmsg"
				}}
			id++
		}
		blocks := make([]string, perGroup)
		var wg sync.WaitGroup
		for s := range streams {
			wg.Add(1)
			go func(s int) {
				defer wg.Done()
				blocks[s] = runStream(streams[s], header(streams[s].id, g))
			}(s)
		}
		wg.Wait()
		for _, b := range blocks {
			out.WriteString(b)
		}
	}
}

func replay(path string) error {
	data, err := os.ReadFile(path)
	if err != nil {
		return err
	}
	type st struct {
		id       int
		ops      []string
		term     string
		sendFail int
	}
	var all []*st
	for _, l := range strings.Split(string(data), "\n") {
		l = strings.TrimSpace(l)
		if l == "" || strings.HasPrefix(l, "#") {
			continue
		}
		if i := strings.Index(l, " => "); i >= 0 {
			l = l[:i]
		}
		w := strings.Fields(l)
		switch {
		case w[0] == "stream":
			n := firstFree + len(all)
			if len(w) > 1 {
				if v, err := strconv.Atoi(w[1]); err == nil {
					n = v
				}
			}
			all = append(all, &st{id: n, term: "eof", sendFail: -1})
		case len(all) == 0:
			return fmt.Errorf("operation before the first stream line: %s", l)
		case w[0] == "eof" || w[0] == "recverr":
			all[len(all)-1].term = w[0]
		case w[0] == "abort":
		default:
			cur := all[len(all)-1]
			if w[len(w)-1] == "sendfail" {
				cur.sendFail = len(cur.ops)
				l = strings.Join(w[:len(w)-1], " ")
			}
			cur.ops = append(cur.ops, l)
		}
	}
	if len(all) == 0 || all[0].id >= firstFree {
		setup()
	}
	for _, s := range all {
		f := &fakeStream{id: s.id, ops: s.ops, term: s.term, sendFail: s.sendFail}
		out.WriteString(runStream(f, header(s.id, -1)))
	}
	return nil
}

func main() {
	mode := flag.String("mode", "exhaustive", "exhaustive | random | replay | grpc | grpc-child")
	maxlen := flag.Int("maxlen", 3, "exhaustive: maximal number of requests per stream")
	recvErrLen := flag.Int("recverrlen", 2, "exhaustive: sequences up to this length are also ended by a transport error")
	groups := flag.Int("groups", 40, "random: number of groups of concurrent streams")
	per := flag.Int("streams", 4, "random: concurrent streams per group")
	length := flag.Int("len", 30, "random: maximal requests per stream")
	file := flag.String("file", "", "replay: file of op lines")
	cache := flag.Int("cache", 0, "1 = --enable-session-caching")
	sock := flag.String("sock", "", "grpc: unix socket path")
	flag.Parse()
	log.SetOutput(io.Discard)
	cacheFlag = *cache
	if *mode == "grpc" || *mode == "grpc-child" {
		os.Exit(grpcProbe(*mode == "grpc-child", *sock))
	}
	svc = newService(*cache == 1)
	defer out.Flush()
	switch *mode {
	case "exhaustive":
		setup()
		exhaustive(*maxlen, *recvErrLen)
	case "random":
		setup()
		randomGroups(prng.FromEnv(19), *groups, *per, *length)
	case "replay":
		if err := replay(*file); err != nil {
			out.Flush()
			fmt.Fprintln(os.Stderr, err)
			os.Exit(2)
		}
	default:
		fmt.Fprintln(os.Stderr, "unknown mode")
		os.Exit(2)
	}
}
