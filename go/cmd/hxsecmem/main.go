// hxsecmem drives the REAL go/securememory implementations (protectedmemory and memguard) and writes
// one line per operation:
//
//	world <shadow|real>
//	new <pm|mg> <len> [flt=<prim>@<n>,…]      rand <pm|mg> <len> [flt=…]
//	with <sid> <nest> [flt=…]   withf <sid> <nest> [flt=…]   reader <sid>   read <rid> <k> [flt=…]
//	close <sid> [flt=…]         isclosed <sid>
//	<op> => res=… mc=… pg=… src=… inuse=… cnt=… seen=… n=… eof=… flag=… [in=… after=…]
//
// (protocol documented in lean/AsherahVerif/Driver/SecMem.lean; the model driver md_secmem replays
// the same lines).  Worlds:
//
//	shadow — the package-level memcall implementation is replaced (overlay-added test-only export,
//	         see _overlay/) by a shadow that keeps a page table (mapped / locked / protection /
//	         content at every call) and fails the n-th call of a chosen primitive within an operation;
//	real   — the real system calls; the page state is read from /proc/self/smaps for the address seen
//	         inside the reader callback, during / between / after accesses.
//
// Modes: faults (every single fault position, thorough: every pair), random (seeded random sequences
// in the real world), conc (reader/closer goroutines in a child process), rlimit (memguard creation
// under a tiny RLIMIT_MEMLOCK in a child process), replay (a file of op lines).
package main

import (
	"bufio"
	"bytes"
	crand "crypto/rand"
	"errors"
	"flag"
	"fmt"
	"io"
	"os"
	"os/exec"
	"runtime"
	"runtime/debug"
	"sort"
	"strconv"
	"strings"
	"sync"
	"sync/atomic"
	"syscall"
	"time"
	"unsafe"

	"github.com/godaddy/asherah/go/securememory"
	mg "github.com/godaddy/asherah/go/securememory/memguard"
	pm "github.com/godaddy/asherah/go/securememory/protectedmemory"

	"verifharness/internal/prng"
)

var out = bufio.NewWriterSize(os.Stdout, 1<<20)

const closedMsg = "secret has already been destroyed"

// ---------------------------------------------------------------------------------------------
// shadow memcall
// ---------------------------------------------------------------------------------------------

type pageT struct {
	base   uintptr
	size   int
	mapped bool
	locked bool
	prot   int    // 0 none, 1 ro, 2 rw
	mem    []byte // the region (pm shadow: ordinary heap memory, always readable; mg: real pages)
	real   bool   // mem is real protected memory: readable only while prot != 0 and mapped
	kind   string // "orig" | "rand"
	ref    []byte // the secret's bytes
}

type shadow struct {
	mu       sync.Mutex
	real     *pm.VerifPrims
	delegate bool // memguard: the buffer is allocated by the library; successful calls go to the real primitive
	pages    map[uintptr]*pageT
	last     *pageT
	calls    []string
	count    map[string]int
	faults   map[string]map[int]bool
	fired    int
	nextOrig []byte
	fresh    bool // a creation is in progress: the next unknown-or-stale address is a new buffer
	stray    int  // calls on a page that is not mapped any more (use after free / double free)
}

var errInjected = errors.New("injected fault")

func newShadow(delegate bool) *shadow {
	return &shadow{real: pm.VerifReal(), delegate: delegate, pages: map[uintptr]*pageT{}, count: map[string]int{}, faults: map[string]map[int]bool{}}
}

func (s *shadow) beginOp(flt string) error {
	s.mu.Lock()
	defer s.mu.Unlock()
	s.calls = s.calls[:0]
	s.count = map[string]int{}
	s.faults = map[string]map[int]bool{}
	s.fired = 0
	s.last = nil
	if flt == "" {
		return nil
	}
	for _, f := range strings.Split(flt, ",") {
		pn := strings.Split(f, "@")
		if len(pn) != 2 {
			return fmt.Errorf("bad fault %q", f)
		}
		n, err := strconv.Atoi(pn[1])
		if err != nil {
			return err
		}
		if s.faults[pn[0]] == nil {
			s.faults[pn[0]] = map[int]bool{}
		}
		s.faults[pn[0]][n] = true
	}
	return nil
}

func allZero(b []byte) bool {
	for _, x := range b {
		if x != 0 {
			return false
		}
	}
	return true
}

// refresh reads the kernel's view of a real region (protection, mlock) from /proc/self/smaps: the
// memguard library changes them without going through the interface (Freeze, Melt, Destroy).
func (p *pageT) refresh() {
	if p == nil || !p.real || !p.mapped {
		return
	}
	v := smapsAt(p.base)
	if v == "unmapped" || v == "nosmaps" {
		if v == "unmapped" {
			p.mapped, p.locked, p.mem = false, false, nil
		}
		return
	}
	f := strings.Split(v, ",")
	switch f[0] {
	case "---":
		p.prot = 0
	case "r--":
		p.prot = 1
	case "rw-":
		p.prot = 2
	}
	p.locked = f[1] == "lo"
}

func (p *pageT) class() string {
	if p == nil {
		return "-"
	}
	if !p.mapped {
		return "unmapped"
	}
	if p.real && p.prot == 0 {
		return "?"
	}
	v := p.refView()
	if p.ref != nil && bytes.Equal(v, p.ref) {
		return p.kind
	}
	if allZero(v) {
		return "zero"
	}
	return "other"
}

// the part of the region that holds the secret (memguard: data sits at the end of the inner region)
func (p *pageT) refView() []byte {
	if p.ref != nil && len(p.ref) <= len(p.mem) {
		return p.mem[len(p.mem)-len(p.ref):]
	}
	return p.mem
}

func (s *shadow) find(b []byte) *pageT {
	if len(b) == 0 {
		return nil
	}
	base := uintptr(unsafe.Pointer(&b[0]))
	p := s.pages[base]
	if s.delegate && (p == nil || s.fresh) {
		s.fresh = false
		// first sight of a memguard inner region: frozen (read-only), locked, mapped
		p = &pageT{base: base, size: len(b), mapped: true, locked: true, prot: 1, mem: b, real: true}
		if s.nextOrig != nil {
			p.kind, p.ref = "orig", s.nextOrig
			s.nextOrig = nil
		} else {
			p.kind = "rand"
			p.ref = append([]byte(nil), b...)
			if dl := dataLen; dl > 0 && dl <= len(b) {
				p.ref = append([]byte(nil), b[len(b)-dl:]...)
			}
		}
		s.pages[base] = p
	}
	return p
}

// dataLen is the length of the secret being created (memguard inner regions are page multiples).
var dataLen int

// call records one primitive call and decides whether it fails.
func (s *shadow) call(prim, name string, p *pageT) (fail bool) {
	s.count[prim]++
	fail = s.faults[prim][s.count[prim]]
	if fail {
		s.fired++
	}
	res := "ok"
	if fail {
		res = "FAIL"
	}
	cls := "-"
	if p != nil {
		cls = p.class()
		s.last = p
		if !p.mapped {
			s.stray++
		}
	} else if prim != "alloc" {
		cls = "unknown"
		s.stray++
	}
	s.calls = append(s.calls, name+":"+res+":"+cls)
	return fail
}

// markErr: the real primitive behind the last recorded call failed (not an injected fault)
func (s *shadow) markErr() {
	i := len(s.calls) - 1
	s.calls[i] = strings.Replace(s.calls[i], ":ok:", ":ERR:", 1)
}

// forget drops a page the memguard library released itself (Destroy does not go through the interface)
func (s *shadow) forget(p *pageT) {
	s.mu.Lock()
	defer s.mu.Unlock()
	if p != nil && s.pages[p.base] == p {
		delete(s.pages, p.base)
		p.mapped, p.locked, p.mem = false, false, nil
	}
}

func (s *shadow) prims() *pm.VerifPrims {
	return &pm.VerifPrims{
		Alloc: func(size int) ([]byte, error) {
			s.mu.Lock()
			defer s.mu.Unlock()
			if s.call("alloc", "alloc", nil) {
				return nil, errInjected
			}
			b := make([]byte, size)
			p := &pageT{base: uintptr(unsafe.Pointer(&b[0])), size: size, mapped: true, prot: 2, mem: b}
			if s.nextOrig != nil {
				p.kind, p.ref = "orig", s.nextOrig
				s.nextOrig = nil
			} else {
				p.kind = "rand"
			}
			s.pages[p.base] = p
			s.last = p
			s.calls[len(s.calls)-1] = "alloc:ok:zero"
			return b, nil
		},
		Lock: func(b []byte) error {
			s.mu.Lock()
			defer s.mu.Unlock()
			p := s.find(b)
			if s.call("lock", "lock", p) {
				return errInjected
			}
			if p != nil && p.mapped {
				if s.delegate {
					if err := s.real.Lock(b); err != nil {
						s.markErr()
						return err
					}
				}
				p.locked = true
			}
			return nil
		},
		Protect: func(b []byte, flag int) error {
			s.mu.Lock()
			defer s.mu.Unlock()
			p := s.find(b)
			if s.call("protect", "protect-"+protName(flag), p) {
				return errInjected
			}
			if p == nil || !p.mapped {
				return errors.New("shadow: protect on unmapped memory")
			}
			if s.delegate {
				if err := s.real.Protect(b, flag); err != nil {
					s.markErr()
					return err
				}
			}
			p.prot = flag
			return nil
		},
		Unlock: func(b []byte) error {
			s.mu.Lock()
			defer s.mu.Unlock()
			p := s.find(b)
			if s.call("unlock", "unlock", p) {
				return errInjected
			}
			if p == nil || !p.mapped {
				return errors.New("shadow: unlock on unmapped memory")
			}
			if s.delegate {
				if err := s.real.Unlock(b); err != nil {
					s.markErr()
					return err
				}
			}
			p.locked = false
			return nil
		},
		Free: func(b []byte) error {
			s.mu.Lock()
			defer s.mu.Unlock()
			p := s.find(b)
			if s.call("free", "free", p) {
				return errInjected
			}
			if p == nil || !p.mapped {
				return errors.New("shadow: free of unmapped memory")
			}
			if s.delegate {
				if err := s.real.Free(b); err != nil {
					// memcall.Free = Protect(RW) + wipe + munmap; x/sys/unix.Munmap rejects a slice it did
					// not hand out itself (EINVAL), which is what happens to a memguard inner region
					s.markErr()
					p.prot = 2
					return err
				}
				p.mem = nil
			}
			p.mapped, p.locked = false, false
			delete(s.pages, p.base)
			return nil
		},
	}
}

// randRead is the readFunc handed to protectedmemory's createRandom: crypto-quality is irrelevant
// here, the bytes only have to be known to the shadow.
func (s *shadow) randRead(rng *prng.R) func([]byte) (int, error) {
	return func(b []byte) (int, error) {
		s.mu.Lock()
		defer s.mu.Unlock()
		p := s.find(b)
		fail := s.call("rand", "rand", p)
		n := len(b)
		if fail {
			n = (len(b) + 1) / 2
		}
		for i := 0; i < n; i++ {
			b[i] = byte(rng.U64()) | 1
		}
		if p != nil {
			p.kind = "rand"
			p.ref = append([]byte(nil), b...)
		}
		if fail {
			return n, errInjected
		}
		return n, nil
	}
}

func protName(f int) string {
	switch f {
	case 0:
		return "none"
	case 1:
		return "ro"
	case 2:
		return "rw"
	}
	return "bad"
}

// ---------------------------------------------------------------------------------------------
// smaps
// ---------------------------------------------------------------------------------------------

// smapsAt returns "<perms>,<lo|-->,<dd|-->" of the mapping that contains addr, or "unmapped".
func smapsAt(addr uintptr) string {
	data, err := os.ReadFile("/proc/self/smaps")
	if err != nil {
		return "nosmaps"
	}
	lines := strings.Split(string(data), "\n")
	for i := 0; i < len(lines); i++ {
		l := lines[i]
		dash := strings.IndexByte(l, '-')
		sp := strings.IndexByte(l, ' ')
		if dash <= 0 || sp <= dash || (l[0] < '0' || l[0] > '9') && (l[0] < 'a' || l[0] > 'f') {
			continue
		}
		lo, e1 := strconv.ParseUint(l[:dash], 16, 64)
		hi, e2 := strconv.ParseUint(l[dash+1:sp], 16, 64)
		if e1 != nil || e2 != nil {
			continue
		}
		if uint64(addr) < lo || uint64(addr) >= hi {
			continue
		}
		f := strings.Fields(l)
		perms := f[1][:3]
		locked, dd := "--", "--"
		for j := i + 1; j < len(lines); j++ {
			if strings.HasPrefix(lines[j], "VmFlags:") {
				for _, t := range strings.Fields(lines[j])[1:] {
					if t == "lo" {
						locked = "lo"
					}
					if t == "dd" {
						dd = "dd"
					}
				}
				break
			}
		}
		return perms + "," + locked + "," + dd
	}
	return "unmapped"
}

// ---------------------------------------------------------------------------------------------
// a world
// ---------------------------------------------------------------------------------------------

type secT struct {
	s     securememory.Secret
	impl  string
	kind  string // orig | rand
	ref   []byte // known bytes (nil until first seen for real random secrets)
	addr  uintptr
	page  *pageT
	state func() (int, bool, bool)
}

type readerT struct {
	r   io.Reader
	sid int
	off int
}

type world struct {
	real    bool
	sh      map[string]*shadow // per implementation
	fac     map[string]securememory.SecretFactory
	secs    []*secT
	readers []*readerT
	base    int64
	rng     *prng.R
	dead    bool
}

var cur *world

func (w *world) closeAll() {
	if w == nil {
		return
	}
	for _, sh := range w.sh {
		sh.beginOp("")
	}
	for _, s := range w.secs {
		if w.dead {
			break // after a panic / crash / deadlock the secrets of this world are left alone
		}
		done := make(chan struct{})
		go func(s *secT) {
			defer close(done)
			defer func() { recover() }()
			s.s.Close()
		}(s)
		select {
		case <-done:
		case <-time.After(5 * time.Second):
			w.dead = true
		}
	}
	// A failed protectedmemory creation leaves an object whose finalizer calls Close() on it at some
	// later garbage collection (see the report: not modelled).  Pages such an orphan still owns in the
	// shadow table (its cleanup was made to fail) are dropped here, so that the late Close cannot
	// succeed and disturb the in-use counter of a later case; the collector is off while a world runs.
	for _, sh := range w.sh {
		sh.mu.Lock()
		for k, p := range sh.pages {
			p.mapped, p.locked = false, false
			delete(sh.pages, k)
		}
		sh.mu.Unlock()
	}
	if !w.real {
		debug.SetGCPercent(100)
	}
}

func newWorld(kind string, rng *prng.R) *world {
	cur.closeAll()
	w := &world{real: kind == "real", rng: rng, sh: map[string]*shadow{}, fac: map[string]securememory.SecretFactory{}}
	if w.real {
		w.fac["pm"] = new(pm.SecretFactory)
		w.fac["mg"] = new(mg.SecretFactory)
	} else {
		w.sh["pm"] = newShadow(false)
		w.sh["mg"] = newShadow(true)
		w.fac["pm"] = pm.VerifNewFactory(w.sh["pm"].prims())
		w.fac["mg"] = mg.VerifNewFactory(w.sh["mg"].prims())
	}
	if !w.real {
		debug.SetGCPercent(-1)
	}
	w.base = securememory.InUseCounter.Count()
	fmt.Fprintf(out, "world %s\n", kind)
	return w
}

func classifyErr(err error) string {
	switch {
	case err == nil:
		return "ok"
	case strings.Contains(err.Error(), closedMsg):
		return "closed"
	default:
		return "err"
	}
}

type obs struct {
	res, mc, pg, src, seen, in, after string
	entropy                           string
	cnt, n                            int
	eof, flag                         bool
	hasN, hasFlag                     bool
}

func pageStr(p *pageT) string {
	if p == nil {
		return "-"
	}
	m, l := "-", "-"
	if p.mapped {
		m = "M"
	}
	if p.locked {
		l = "L"
	}
	return m + "," + l + "," + protName(p.prot) + "," + p.class()
}

func (w *world) emit(op string, o obs) {
	var b strings.Builder
	b.WriteString(op + " => res=" + o.res)
	if !w.real {
		if o.mc == "" {
			o.mc = "-"
		}
		b.WriteString(" mc=" + o.mc + " pg=" + o.pg)
	}
	if o.src != "" {
		b.WriteString(" src=" + o.src)
	}
	fmt.Fprintf(&b, " inuse=%d cnt=%d", securememory.InUseCounter.Count()-w.base, o.cnt)
	if o.seen != "" {
		b.WriteString(" seen=" + o.seen)
	}
	if o.entropy != "" {
		b.WriteString(" entropy=" + o.entropy)
	}
	if o.hasN {
		fmt.Fprintf(&b, " n=%d eof=%v", o.n, o.eof)
	}
	if o.hasFlag {
		fmt.Fprintf(&b, " flag=%v", o.flag)
	}
	if o.in != "" {
		b.WriteString(" in=" + o.in)
	}
	if o.after != "" {
		b.WriteString(" after=" + o.after)
	}
	fmt.Fprintln(out, b.String())
}

// trickle hands out one byte per Read.
type trickle struct{ r io.Reader }

func (t trickle) Read(p []byte) (int, error) {
	if len(p) == 0 {
		return 0, nil
	}
	return t.r.Read(p[:1])
}

var callbackPanic = errors.New("reader callback panics")

// one reader callback in five panics
func pSuffix(rng *prng.R) string {
	if rng.Intn(5) == 0 {
		return "p"
	}
	return ""
}

func fill(rng *prng.R, n int) []byte {
	b := make([]byte, n)
	for i := range b {
		b[i] = byte(rng.U64()) | 1 // never zero: a wiped buffer is recognisable
	}
	return b
}

func parseFlt(f []string) ([]string, string) {
	if len(f) > 0 && strings.HasPrefix(f[len(f)-1], "flt=") {
		return f[:len(f)-1], strings.TrimPrefix(f[len(f)-1], "flt=")
	}
	return f, ""
}

// classify what a callback sees, against what the secret was created with
func (s *secT) classify(b []byte) string {
	if s.ref == nil {
		// a random secret of the real world: whatever the first callback sees is the reference
		// (a short random secret may legitimately consist of zero bytes)
		s.ref = append([]byte(nil), b...)
		return s.kind
	}
	if bytes.Equal(b, s.ref) {
		return s.kind
	}
	if allZero(b) {
		return "zero"
	}
	return "other"
}

// exec runs one operation line against the real code.
func (w *world) exec(line string) {
	if w.dead {
		return
	}
	f, flt := parseFlt(strings.Fields(line))
	atoi := func(i int) int {
		if i >= len(f) {
			return 0
		}
		n, _ := strconv.Atoi(f[i])
		return n
	}
	var o obs
	var sh *shadow
	begin := func(impl string) bool {
		if w.real {
			return flt == ""
		}
		sh = w.sh[impl]
		return sh.beginOp(flt) == nil
	}
	finish := func(s *secT) {
		if sh != nil {
			sh.mu.Lock()
			o.mc = strings.Join(sh.calls, ",")
			pg := sh.last
			if s != nil && s.page != nil {
				pg = s.page
			}
			if (f[0] == "new" || f[0] == "rand") && o.res != "ok" {
				// a failed memguard creation: the library may have changed the protection without going
				// through the interface (Freeze / Melt), so ask the kernel (a successful creation ends in
				// our own Protect(NoAccess); a successful Close is the library's Destroy: page forgotten)
				pg.refresh()
			}
			o.pg = pageStr(pg)
			sh.mu.Unlock()
		}
		if s != nil && s.state != nil {
			o.cnt, _, _ = s.state()
		}
	}
	guard := func(fn func()) {
		// The operation runs in its own goroutine:
		// * a fault on a protected / unmapped page inside the code under test (or inside the reader
		//   callback) becomes a recoverable panic of that goroutine: an observation (`res=crash`), not a
		//   harness crash;
		// * an operation that never returns (e.g. a Close waiting for a reader count that a broken
		//   access left behind) is reported as `res=deadlock` by a generous watchdog.
		done := make(chan struct{})
		go func() {
			defer close(done)
			defer debug.SetPanicOnFault(debug.SetPanicOnFault(true))
			defer func() {
				if e := recover(); e != nil {
					o.res = "panic"
					if re, ok := e.(runtime.Error); ok && (strings.Contains(re.Error(), "fault") || strings.Contains(re.Error(), "invalid memory address")) {
						o.res = "crash"
					}
					w.dead = true
				}
			}()
			fn()
		}()
		select {
		case <-done:
		case <-time.After(5 * time.Second):
			o = obs{res: "deadlock"}
			w.dead = true
		}
	}
	getSec := func(i int) *secT {
		if i < 0 || i >= len(w.secs) {
			return nil
		}
		return w.secs[i]
	}
	switch f[0] {
	case "new", "rand":
		if len(f) < 3 || (f[1] != "pm" && f[1] != "mg") || !begin(f[1]) {
			o.res = "bad-op"
			break
		}
		impl, n := f[1], atoi(2)
		var sec securememory.Secret
		var err error
		st := &secT{impl: impl}
		attempts := 0
	again:
		guard(func() {
			dataLen = n
			if f[0] == "new" {
				src := fill(w.rng, n)
				st.kind, st.ref = "orig", append([]byte(nil), src...)
				if sh != nil {
					sh.nextOrig, sh.fresh = st.ref, true
				}
				sec, err = w.fac[impl].New(src)
				if allZero(src) {
					o.src = "wiped"
				} else {
					o.src = "kept"
				}
			} else {
				st.kind = "rand"
				if sh != nil {
					sh.nextOrig, sh.fresh = nil, true
				}
				if impl == "pm" && sh != nil {
					sec, err = w.fac[impl].(*pm.SecretFactory).VerifCreateRandom(n, sh.randRead(w.rng))
				} else {
					// the process-wide random source trickles: one byte per Read, which an io.Reader may do
					// (hardware RNGs, buffered readers); the secret must be filled all the same
					old := crand.Reader
					crand.Reader = trickle{old}
					sec, err = w.fac[impl].CreateRandom(n)
					crand.Reader = old
					if w.real && err == nil && sec != nil && n >= 4 && flt == "" {
						_ = sec.WithBytes(func(b []byte) error {
							if len(b) >= 4 && allZero(b[1:]) {
								o.entropy = "short"
							}
							return nil
						})
					}
				}
			}
			o.res = classifyErr(err)
			if err == nil && sec == nil {
				o.res = "nil-secret"
			}
		})
		// memguard draws its own random bytes: a (short) random secret consisting of zero bytes only
		// cannot be told from a wiped one, so every later content class of this secret would be a coin
		// toss (1/256 for one byte).  Discard such a draw and run the operation again.
		if f[0] == "rand" && impl == "mg" && sh != nil && attempts < 16 && !w.dead {
			sh.mu.Lock()
			amb := sh.last != nil && sh.last.kind == "rand" && sh.last.ref != nil && allZero(sh.last.ref)
			sh.mu.Unlock()
			if amb {
				attempts++
				if o.res == "ok" && sec != nil {
					sec.Close()
				}
				sec, err, o = nil, nil, obs{}
				if begin(f[1]) {
					goto again
				}
			}
		}
		if o.res == "ok" {
			st.s = sec
			if impl == "pm" {
				st.state = func() (int, bool, bool) { return pm.VerifState(sec) }
			} else {
				st.state = func() (int, bool, bool) { return mg.VerifState(sec) }
			}
			if sh != nil {
				st.page = sh.last
				if st.page != nil && st.kind == "rand" && st.page.ref != nil {
					st.ref = st.page.ref
				}
			}
			w.secs = append(w.secs, st)
			finish(st)
		} else {
			finish(nil)
		}
	case "with", "withf", "withp", "withfp":
		// withp / withfp: the innermost callback panics (the panic is caught out here): every level's
		// release must still run, so for the model these are plain `with` / `withf`
		// (with injected faults the call's own error would be swallowed by the panic: then the callback
		// returns normally)
		panics := strings.HasSuffix(f[0], "p") && flt == ""
		f[0] = strings.TrimSuffix(f[0], "p")
		s := getSec(atoi(1))
		if s == nil || !begin(s.impl) {
			o.res = "bad-op"
			break
		}
		nest := atoi(2)
		var err error
		var inner func(d int) error
		touch := func(b []byte) {
			if len(b) > 0 {
				s.addr = uintptr(unsafe.Pointer(&b[0]))
			}
			o.seen = s.classify(b)
			if w.real {
				o.in = smapsAt(s.addr)
			} else if s.page != nil {
				o.in = pageStr(s.page)
			}
		}
		inner = func(d int) error {
			if f[0] == "with" {
				return s.s.WithBytes(func(b []byte) error {
					if d == 0 {
						touch(b)
						if panics {
							panic(callbackPanic)
						}
						return nil
					}
					return inner(d - 1)
				})
			}
			ret, e := s.s.WithBytesFunc(func(b []byte) ([]byte, error) {
				if d == 0 {
					touch(b)
					if panics {
						panic(callbackPanic)
					}
					return []byte{42}, nil
				}
				return []byte{42}, inner(d - 1)
			})
			if e == nil && (len(ret) != 1 || ret[0] != 42) {
				return errors.New("WithBytesFunc lost the action's result")
			}
			return e
		}
		guard(func() {
			func() {
				defer func() {
					if e := recover(); e != nil {
						if e != callbackPanic {
							panic(e)
						}
						err = nil // the callback's own panic came through, as it must
					}
				}()
				err = inner(nest)
			}()
			o.res = classifyErr(err)
		})
		if w.real && s.addr != 0 {
			o.after = smapsAt(s.addr)
		}
		finish(s)
	case "reader":
		s := getSec(atoi(1))
		if s == nil {
			o.res = "bad-op"
			break
		}
		w.readers = append(w.readers, &readerT{r: s.s.NewReader(), sid: atoi(1)})
		o.res = "ok"
		finish(s)
	case "read":
		rid := atoi(1)
		if rid < 0 || rid >= len(w.readers) {
			o.res = "bad-op"
			break
		}
		rd := w.readers[rid]
		s := w.secs[rd.sid]
		if !begin(s.impl) {
			o.res = "bad-op"
			break
		}
		p := make([]byte, atoi(2))
		guard(func() {
			n, err := rd.r.Read(p)
			o.hasN, o.n = true, n
			if err == io.EOF {
				o.eof, err = true, nil
			}
			o.res = classifyErr(err)
			if o.res == "ok" && s.ref != nil && n > 0 {
				if rd.off+n <= len(s.ref) && bytes.Equal(p[:n], s.ref[rd.off:rd.off+n]) {
					o.seen = s.kind
				} else {
					o.seen = "other"
				}
			}
			rd.off += n
		})
		if w.real && s.addr != 0 {
			o.after = smapsAt(s.addr)
		}
		finish(s)
	case "close":
		s := getSec(atoi(1))
		if s == nil || !begin(s.impl) {
			o.res = "bad-op"
			break
		}
		guard(func() { o.res = classifyErr(s.s.Close()) })
		if sh != nil && sh.delegate && o.res == "ok" {
			sh.forget(s.page)
		}
		if w.real && s.addr != 0 {
			o.after = smapsAt(s.addr)
			if o.res == "ok" {
				// the range is free now and may legitimately be handed out again: stop looking at it
				s.addr = 0
			}
		}
		finish(s)
	case "isclosed":
		s := getSec(atoi(1))
		if s == nil || !begin(s.impl) {
			o.res = "bad-op"
			break
		}
		guard(func() { o.hasFlag, o.flag, o.res = true, s.s.IsClosed(), "ok" })
		if w.real && s.addr != 0 {
			o.after = smapsAt(s.addr)
		}
		finish(s)
	default:
		o.res = "bad-op"
	}
	w.emit(line, o)
}

// ---------------------------------------------------------------------------------------------
// generators
// ---------------------------------------------------------------------------------------------

type fault struct {
	prim string
	n    int
}

func fltStr(fs []fault) string {
	var p []string
	for _, f := range fs {
		p = append(p, fmt.Sprintf("%s@%d", f.prim, f.n))
	}
	if len(p) == 0 {
		return ""
	}
	return " flt=" + strings.Join(p, ",")
}

// one case of the fault enumeration: optional set-up, the target operation under faults, and
// fault-free follow-ups (later reads and Close must work; Close can be retried; accounting).
// The case is dropped (nothing printed) when not every requested fault fired.
func faultCase(rng *prng.R, impl, target string, size int, fs, fs2 []fault) bool {
	save := out
	var buf bytes.Buffer
	out = bufio.NewWriter(&buf)
	w := newWorld("shadow", rng)
	cur = w
	sh := w.sh[impl]
	fired := 0
	run := func(l string) {
		w.exec(l)
		fired += sh.fired
	}
	flt := fltStr(fs)
	switch target {
	case "new", "rand":
		run(fmt.Sprintf("%s %s %d%s", target, impl, size, flt))
		if len(w.secs) == 1 {
			w.exec("with 0 1")
			w.exec("close 0")
		}
		// a second, fault-free creation still works and the accounting is balanced afterwards
		w.exec(fmt.Sprintf("%s %s %d", target, impl, size))
		sid := len(w.secs) - 1
		w.exec(fmt.Sprintf("withf %d 0", sid))
		w.exec(fmt.Sprintf("close %d", sid))
		w.exec(fmt.Sprintf("isclosed %d", sid))
	case "with", "withf":
		w.exec(fmt.Sprintf("new %s %d", impl, size))
		run(fmt.Sprintf("%s 0 %d%s", target, 1, flt))
		w.exec("with 0 0")
		w.exec("withfp 0 1")
		w.exec("withp 0 0")
		w.exec("withf 0 2")
		run("close 0" + fltStr(fs2))
		w.exec("close 0")
		w.exec("isclosed 0")
	case "read":
		w.exec(fmt.Sprintf("rand %s %d", impl, size))
		w.exec("reader 0")
		run(fmt.Sprintf("read 0 %d%s", (size+1)/2, flt))
		w.exec(fmt.Sprintf("read 0 %d", size))
		w.exec(fmt.Sprintf("read 0 %d", size))
		w.exec("close 0")
		w.exec("read 0 1")
	case "close":
		w.exec(fmt.Sprintf("new %s %d", impl, size))
		w.exec("with 0 0")
		run("close 0" + flt)
		w.exec("with 0 0")
		w.exec("isclosed 0")
		run("close 0" + fltStr(fs2))
		w.exec("close 0")
		w.exec("close 0")
		w.exec("isclosed 0")
		w.exec("withf 0 0")
	}
	w.closeAll()
	out.Flush()
	out = save
	if fired < len(fs)+len(fs2) {
		return false
	}
	out.Write(buf.Bytes())
	return true
}

var faultPrims = []string{"alloc", "lock", "protect", "unlock", "free", "rand"}

func faultsMode(rng *prng.R, pairs bool) {
	var singles []fault
	for _, p := range faultPrims {
		for n := 1; n <= 3; n++ {
			singles = append(singles, fault{p, n})
		}
	}
	sizes := []int{1, 32, 4096, 4097, 5 * 4096}
	cases, kept := 0, 0
	for _, impl := range []string{"pm", "mg"} {
		for _, target := range []string{"new", "rand", "with", "withf", "read", "close"} {
			size := func() int { return sizes[rng.Intn(len(sizes))] }
			cases++
			if faultCase(rng, impl, target, size(), nil, nil) {
				kept++
			}
			for i, a := range singles {
				cases++
				if faultCase(rng, impl, target, size(), []fault{a}, nil) {
					kept++
				}
				if !pairs {
					continue
				}
				for _, b := range singles[i+1:] {
					cases++
					if faultCase(rng, impl, target, size(), []fault{a, b}, nil) {
						kept++
					}
				}
				// a fault in the operation followed by a fault in the Close after it
				if target == "with" || target == "withf" || target == "close" {
					for _, b := range singles {
						cases++
						if faultCase(rng, impl, target, size(), []fault{a}, []fault{b}) {
							kept++
						}
					}
				}
			}
		}
	}
	fmt.Fprintf(os.Stderr, "faults: %d positions tried, %d cases in which every fault fired\n", cases, kept)
}

// random sequences; in the shadow world with random faults, in the real world without.
func randomMode(rng *prng.R, kind string, cases, length int, faults bool) {
	sizes := []int{1, 2, 31, 32, 4095, 4096, 4097, 8192, 12288, 5 * 4096}
	for c := 0; c < cases; c++ {
		w := newWorld(kind, rng)
		cur = w
		impl := []string{"pm", "mg"}[rng.Intn(2)]
		maybeFlt := func() string {
			if kind == "real" || !faults || rng.Intn(4) != 0 {
				return ""
			}
			fs := []fault{{faultPrims[rng.Intn(len(faultPrims))], 1 + rng.Intn(2)}}
			if rng.Intn(3) == 0 {
				fs = append(fs, fault{faultPrims[rng.Intn(len(faultPrims))], 1 + rng.Intn(2)})
			}
			return fltStr(fs)
		}
		for j := 0; j < length && !w.dead; j++ {
			live := len(w.secs)
			k := rng.Pick(12, 8, 25, 15, 6, 14, 12, 8)
			if live == 0 && k >= 2 {
				k = rng.Intn(2)
			}
			if live >= 4 && k < 2 {
				k = 6 // keep few secrets alive: RLIMIT_MEMLOCK may be small
			}
			sid := 0
			if live > 0 {
				sid = rng.Intn(live)
			}
			switch k {
			case 0:
				w.exec(fmt.Sprintf("new %s %d%s", impl, sizes[rng.Intn(len(sizes))], maybeFlt()))
			case 1:
				w.exec(fmt.Sprintf("rand %s %d%s", impl, sizes[rng.Intn(len(sizes))], maybeFlt()))
			case 2:
				w.exec(fmt.Sprintf("with%s %d %d%s", pSuffix(rng), sid, rng.Intn(3), maybeFlt()))
			case 3:
				w.exec(fmt.Sprintf("withf%s %d %d%s", pSuffix(rng), sid, rng.Intn(3), maybeFlt()))
			case 4:
				w.exec(fmt.Sprintf("reader %d", sid))
			case 5:
				if len(w.readers) == 0 {
					w.exec(fmt.Sprintf("reader %d", sid))
				}
				w.exec(fmt.Sprintf("read %d %d%s", rng.Intn(len(w.readers)), 1+rng.Intn(6000), maybeFlt()))
			case 6:
				w.exec(fmt.Sprintf("close %d%s", sid, maybeFlt()))
			case 7:
				w.exec(fmt.Sprintf("isclosed %d", sid))
			}
		}
		for i := range w.secs {
			if !w.dead {
				w.exec(fmt.Sprintf("close %d", i))
				w.exec(fmt.Sprintf("isclosed %d", i))
			}
		}
	}
}

func replay(path string, rng *prng.R) {
	fh, err := os.Open(path)
	if err != nil {
		fmt.Fprintln(os.Stderr, err)
		os.Exit(2)
	}
	defer fh.Close()
	sc := bufio.NewScanner(fh)
	sc.Buffer(make([]byte, 1<<20), 1<<20)
	for sc.Scan() {
		line := sc.Text()
		if i := strings.Index(line, " => "); i >= 0 {
			line = line[:i]
		}
		f := strings.Fields(line)
		if len(f) == 0 || strings.HasPrefix(line, "#") {
			continue
		}
		switch {
		case f[0] == "world" && len(f) == 2:
			cur = newWorld(f[1], rng)
		case f[0] == "conc":
			concParent(line)
		case f[0] == "rlimit":
			rlimitParent(line)
		case cur != nil:
			cur.exec(line)
		}
	}
	cur.closeAll()
}

// ---------------------------------------------------------------------------------------------
// concurrency: N readers x C closers in a CHILD process (a SIGSEGV is an exit status, not a
// harness crash).  Only real effects are reported, never timing.
// ---------------------------------------------------------------------------------------------

// conc <impl> <len> readers=<n> closers=<c> iters=<k> nest=<d> seed=<s>
func concChild(args []string) int {
	impl, size := args[0], 0
	size, _ = strconv.Atoi(args[1])
	kv := map[string]int{}
	for _, a := range args[2:] {
		p := strings.SplitN(a, "=", 2)
		if len(p) == 2 {
			kv[p[0]], _ = strconv.Atoi(p[1])
		}
	}
	nr, nc, iters, nest, seed := kv["readers"], kv["closers"], kv["iters"], kv["nest"], kv["seed"]
	var fac securememory.SecretFactory = new(pm.SecretFactory)
	state := pm.VerifState
	if impl == "mg" {
		fac = new(mg.SecretFactory)
		state = mg.VerifState
	}
	base := securememory.InUseCounter.Count()
	src := fill(prng.New(uint64(seed)), size)
	want := append([]byte(nil), src...)
	sec, err := fac.New(src)
	if err != nil {
		fmt.Printf("create-error %v\n", err)
		return 3
	}
	var okReads, closedErrs, otherErrs, badBytes, closeRets, closeErrs, afterClose, lateStart int64
	var closedFlag int32 // set once some Close has returned nil
	var started, readersDone int64
	var wg sync.WaitGroup
	start := make(chan struct{})
	yield := func(r *prng.R) {
		switch r.Intn(4) {
		case 0:
			runtime.Gosched()
		case 1:
			for i := r.Intn(200); i > 0; i-- {
				_ = i
			}
		case 2:
			time.Sleep(time.Duration(r.Intn(20)) * time.Microsecond)
		}
	}
	for i := 0; i < nr; i++ {
		wg.Add(1)
		go func(i int) {
			defer wg.Done()
			defer atomic.AddInt64(&readersDone, 1)
			r := prng.New(uint64(seed)*1000 + uint64(i))
			<-start
			for k := 0; k < iters; k++ {
				yield(r)
				var inner func(d int) error
				inner = func(d int) error {
					return sec.WithBytes(func(b []byte) error {
						atomic.AddInt64(&started, 1)
						if atomic.LoadInt32(&closedFlag) == 1 {
							// a callback started although a Close had already returned
							atomic.AddInt64(&lateStart, 1)
						}
						yield(r)
						if d > 0 {
							if e := inner(d - 1); e != nil {
								return e
							}
						}
						if !bytes.Equal(b, want) {
							atomic.AddInt64(&badBytes, 1)
						}
						yield(r)
						if !bytes.Equal(b, want) {
							atomic.AddInt64(&badBytes, 1)
						}
						if atomic.LoadInt32(&closedFlag) == 1 {
							// the callback is still running although a Close has returned
							atomic.AddInt64(&afterClose, 1)
						}
						return nil
					})
				}
				e := inner(r.Intn(nest + 1))
				switch classifyErr(e) {
				case "ok":
					atomic.AddInt64(&okReads, 1)
				case "closed":
					atomic.AddInt64(&closedErrs, 1)
				default:
					atomic.AddInt64(&otherErrs, 1)
				}
				if r.Intn(8) == 0 {
					sec.IsClosed()
				}
			}
		}(i)
	}
	for i := 0; i < nc; i++ {
		wg.Add(1)
		go func(i int) {
			defer wg.Done()
			r := prng.New(uint64(seed)*7919 + uint64(i))
			<-start
			// close somewhere in the middle of the readers' work (never a timing assumption: the
			// loop ends as soon as the readers are done or somebody else has closed)
			threshold := int64(r.Intn(nr*iters/2 + 1))
			for atomic.LoadInt64(&started) < threshold && atomic.LoadInt64(&readersDone) < int64(nr) &&
				atomic.LoadInt32(&closedFlag) == 0 {
				yield(r)
			}
			if e := sec.Close(); e != nil {
				atomic.AddInt64(&closeErrs, 1)
			} else {
				atomic.StoreInt32(&closedFlag, 1)
				atomic.AddInt64(&closeRets, 1)
				if !sec.IsClosed() {
					atomic.AddInt64(&closeErrs, 1)
				}
			}
		}(i)
	}
	close(start)
	wg.Wait()
	if nc == 0 {
		sec.Close()
	}
	cnt, _, closed := state(sec)
	fmt.Printf("ok=%d closederr=%d othererr=%d badbytes=%d closerets=%d closeerrs=%d running_after_close=%d start_after_close=%d counter=%d closed=%v inuse=%d src=%v\n",
		okReads, closedErrs, otherErrs, badBytes, closeRets, closeErrs, afterClose, lateStart, cnt, closed,
		securememory.InUseCounter.Count()-base, allZero(src))
	return 0
}

func concParent(line string) {
	f := strings.Fields(line)
	cmd := exec.Command(os.Args[0], append([]string{"-mode", "concchild", "--"}, f[1:]...)...)
	var so, se bytes.Buffer
	cmd.Stdout, cmd.Stderr = &so, &se
	done := make(chan error, 1)
	if err := cmd.Start(); err != nil {
		fmt.Fprintf(out, "%s => exit=nostart\n", line)
		return
	}
	go func() { done <- cmd.Wait() }()
	status := "0"
	select {
	case err := <-done:
		if err != nil {
			status = "error"
			if ee, ok := err.(*exec.ExitError); ok {
				if ws, ok := ee.Sys().(syscall.WaitStatus); ok {
					if ws.Signaled() {
						status = "signal:" + ws.Signal().String()
					} else {
						status = strconv.Itoa(ws.ExitStatus())
					}
				}
			}
			if strings.Contains(se.String(), "SIGSEGV") || strings.Contains(se.String(), "unexpected fault address") {
				status = "SIGSEGV"
			} else if strings.Contains(se.String(), "panic:") || strings.Contains(se.String(), "fatal error:") {
				status = "panic"
			}
		}
	case <-time.After(120 * time.Second):
		cmd.Process.Kill()
		<-done
		status = "hang"
	}
	res := strings.TrimSpace(so.String())
	if res == "" {
		res = "-"
	}
	fmt.Fprintf(out, "%s => exit=%s %s\n", strings.Join(f, " "), strings.ReplaceAll(status, " ", "_"), res)
}

func concMode(rng *prng.R, runs int) {
	for i := 0; i < runs; i++ {
		impl := []string{"pm", "mg"}[i%2]
		size := []int{1, 64, 4096, 4097, 3 * 4096}[rng.Intn(5)]
		nr := 1 + rng.Intn(12)
		nc := rng.Intn(4)
		if i%5 == 4 {
			nc = 1 + rng.Intn(6)
		}
		concParent(fmt.Sprintf("conc %s %d readers=%d closers=%d iters=%d nest=%d seed=%d", impl, size, nr, nc,
			20+rng.Intn(200), rng.Intn(3), 1+rng.Intn(1<<20)))
	}
}

// rlimit <impl> <len>: create under RLIMIT_MEMLOCK = 0 in a child process.
func rlimitChild(args []string) int {
	size, _ := strconv.Atoi(args[1])
	var fac securememory.SecretFactory = new(pm.SecretFactory)
	if args[0] == "mg" {
		fac = new(mg.SecretFactory)
	}
	lim := syscall.Rlimit{Cur: 0, Max: 0}
	if err := syscall.Setrlimit(8 /* RLIMIT_MEMLOCK */, &lim); err != nil {
		fmt.Printf("res=nosetrlimit\n")
		return 0
	}
	base := securememory.InUseCounter.Count()
	src := fill(prng.New(7), size)
	res := "ok"
	func() {
		defer func() {
			if e := recover(); e != nil {
				res = "panic"
			}
		}()
		s, err := fac.New(src)
		res = classifyErr(err)
		if err == nil && s != nil {
			res = "ok"
		}
	}()
	fmt.Printf("res=%s src=%s inuse=%d\n", res, map[bool]string{true: "wiped", false: "kept"}[allZero(src)], securememory.InUseCounter.Count()-base)
	return 0
}

func rlimitParent(line string) {
	f := strings.Fields(line)
	cmd := exec.Command(os.Args[0], append([]string{"-mode", "rlimitchild", "--"}, f[1:]...)...)
	var so, se bytes.Buffer
	cmd.Stdout, cmd.Stderr = &so, &se
	if os.Getuid() == 0 {
		// root holds CAP_IPC_LOCK, which exempts it from RLIMIT_MEMLOCK: run the child unprivileged
		cmd.SysProcAttr = &syscall.SysProcAttr{Credential: &syscall.Credential{Uid: 65534, Gid: 65534}}
	}
	err := cmd.Run()
	res := strings.TrimSpace(so.String())
	if err != nil || res == "" {
		res = "res=childdied"
	}
	fmt.Fprintf(out, "%s => %s\n", strings.Join(f, " "), res)
}

func main() {
	mode := flag.String("mode", "faults", "faults|random|conc|rlimit|replay")
	pairs := flag.Bool("pairs", false, "faults: every pair of fault positions")
	worldKind := flag.String("world", "real", "random: shadow|real")
	cases := flag.Int("cases", 200, "random cases / conc runs")
	length := flag.Int("len", 30, "ops per random case")
	file := flag.String("file", "", "replay file")
	noFaults := flag.Bool("nofaults", false, "random shadow world without injected faults")
	flag.Parse()
	switch *mode {
	case "concchild":
		os.Exit(concChild(flag.Args()))
	case "rlimitchild":
		os.Exit(rlimitChild(flag.Args()))
	}
	defer out.Flush()
	rng := prng.FromEnv(11)
	switch *mode {
	case "faults":
		faultsMode(rng, *pairs)
	case "random":
		randomMode(rng, *worldKind, *cases, *length, !*noFaults)
		cur.closeAll()
	case "conc":
		concMode(rng, *cases)
	case "rlimit":
		for _, impl := range []string{"pm", "mg"} {
			rlimitParent(fmt.Sprintf("rlimit %s 32", impl))
		}
	case "replay":
		replay(*file, rng)
	case "gc":
		gcMode()
	}
	_ = sort.Strings
}
