package main

import (
	"bytes"
	"fmt"
	"io"
	"runtime"
	"time"

	"github.com/godaddy/asherah/go/securememory"
	mg "github.com/godaddy/asherah/go/securememory/memguard"
	pm "github.com/godaddy/asherah/go/securememory/protectedmemory"

	"verifharness/internal/prng"
)

// Mode gc (judged directly): a secret that has not been closed stays readable for whoever still
// holds a way to read it.  The only reference kept is a Reader (or a pending WithBytesFunc
// closure); the collector and finalizers run several times; the bytes must still come back.
// Both implementations arm finalizers that destroy unreachable secrets, so what a reader keeps
// reachable is part of the protocol — the sequential model cannot show it (no collector there).
func gcScenario(impl string, size int, viaReader bool) string {
	var fac securememory.SecretFactory = new(pm.SecretFactory)
	if impl == "mg" {
		fac = new(mg.SecretFactory)
	}
	want := fill(prng.New(7), size)
	for i := range want {
		if want[i] == 0 {
			want[i] = 0x5a
		}
	}
	src := append([]byte(nil), want...)
	s, err := fac.New(src)
	if err != nil {
		return "new failed: " + err.Error()
	}
	var r io.Reader
	var use func() ([]byte, error)
	if viaReader {
		r = s.NewReader()
		use = func() ([]byte, error) {
			buf := make([]byte, size)
			_, err := io.ReadFull(r, buf)
			return buf, err
		}
	} else {
		f := s.WithBytesFunc
		use = func() ([]byte, error) {
			return f(func(b []byte) ([]byte, error) { return append([]byte(nil), b...), nil })
		}
	}
	s = nil
	for i := 0; i < 6; i++ {
		runtime.GC()
		time.Sleep(5 * time.Millisecond)
	}
	got, err := use()
	runtime.KeepAlive(r)
	if err != nil {
		return "read after GC failed: " + err.Error()
	}
	if !bytes.Equal(got, want) {
		return "read after GC returned other bytes"
	}
	return ""
}

func gcMode() {
	n := 0
	for _, impl := range []string{"pm", "mg"} {
		for _, size := range []int{1, 32, 5000} {
			for _, viaReader := range []bool{true, false} {
				n++
				res := "ok"
				func() {
					defer func() {
						if e := recover(); e != nil {
							res = fmt.Sprintf("panic: %v", e)
						}
					}()
					if s := gcScenario(impl, size, viaReader); s != "" {
						res = s
					}
				}()
				if res != "ok" {
					fmt.Fprintf(out, "GC-FAIL impl=%s size=%d reader=%v: %s\n", impl, size, viaReader, res)
					out.Flush()
					return
				}
			}
		}
	}
	fmt.Fprintf(out, "GC-OK cases=%d\n", n)
}
