//go:build verif

// Added to github.com/godaddy/asherah/go/securememory/internal/memcall by the verification
// harness through `go build -overlay` (never committed to the repository).  It lets a harness
// outside the module supply the five memory primitives without importing an internal package.
package memcall

// VerifPrims is a memcall.Interface given as plain functions; Protect's flag is 0 = NoAccess,
// 1 = ReadOnly, 2 = ReadWrite.
type VerifPrims struct {
	Alloc   func(size int) ([]byte, error)
	Lock    func(b []byte) error
	Protect func(b []byte, flag int) error
	Unlock  func(b []byte) error
	Free    func(b []byte) error
}

type verifWrap struct{ p *VerifPrims }

func (w verifWrap) Alloc(size int) ([]byte, error) { return w.p.Alloc(size) }
func (w verifWrap) Lock(b []byte) error            { return w.p.Lock(b) }
func (w verifWrap) Unlock(b []byte) error          { return w.p.Unlock(b) }
func (w verifWrap) Free(b []byte) error            { return w.p.Free(b) }
func (w verifWrap) Protect(b []byte, f MemoryProtectionFlag) error {
	n := -1
	switch f {
	case NoAccess():
		n = 0
	case ReadOnly():
		n = 1
	case ReadWrite():
		n = 2
	}
	return w.p.Protect(b, n)
}

// VerifWrap turns the functions into an Interface.
func VerifWrap(p *VerifPrims) Interface { return verifWrap{p} }

// VerifReal exposes the package's Default implementation (the real system calls).
func VerifReal() *VerifPrims {
	flags := []MemoryProtectionFlag{NoAccess(), ReadOnly(), ReadWrite()}
	return &VerifPrims{
		Alloc:   Default.Alloc,
		Lock:    Default.Lock,
		Unlock:  Default.Unlock,
		Free:    Default.Free,
		Protect: func(b []byte, flag int) error { return Default.Protect(b, flags[flag]) },
	}
}
