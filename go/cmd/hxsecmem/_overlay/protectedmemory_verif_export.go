//go:build verif

// Added to .../securememory/protectedmemory by the verification harness through `go build -overlay`.
package protectedmemory

import (
	"github.com/godaddy/asherah/go/securememory"
	"github.com/godaddy/asherah/go/securememory/internal/memcall"
)

type VerifPrims = memcall.VerifPrims

// VerifReal returns the real system-call primitives (memcall.Default).
func VerifReal() *VerifPrims { return memcall.VerifReal() }

// VerifNewFactory is `&SecretFactory{mc: …}` (what the package's own tests do with their mock).
func VerifNewFactory(p *VerifPrims) *SecretFactory { return &SecretFactory{mc: memcall.VerifWrap(p)} }

// VerifCreateRandom is the unexported createRandom (CreateRandom = createRandom(size, rand.Read)).
func (f *SecretFactory) VerifCreateRandom(size int, read func([]byte) (int, error)) (securememory.Secret, error) {
	return f.createRandom(size, read)
}

// VerifState reads accessCounter / closing / closed under the secret's lock.
func VerifState(s securememory.Secret) (counter int, closing, closed bool) {
	x := s.(*secret)
	x.rw.RLock()
	defer x.rw.RUnlock()

	return x.accessCounter, x.closing, x.closed
}
