// overlay generates a Go build overlay (go build -overlay) for /repo's appencryption module:
//
//   - virtual clock: every `time.Now` selector in the listed files is rewritten to a package-level
//     variable, and a `//go:build verif` file per package declares it with an exported setter;
//   - sync points (optional, -sync): after Lock/Unlock/RLock/RUnlock/atomic Add and around channel
//     sends in the listed files a call to the added package internal/verifsync is inserted.
//
// Nothing in /repo is modified; the rewritten copies live in the -out directory.
package main

import (
	"bytes"
	"encoding/json"
	"flag"
	"fmt"
	"go/ast"
	"go/parser"
	"go/printer"
	"go/token"
	"os"
	"path/filepath"
	"strings"
)

type target struct {
	rel    string // file relative to go/appencryption
	nowVar string // identifier replacing time.Now
}

func main() {
	repo := flag.String("repo", "/repo", "repository root")
	out := flag.String("out", "", "directory for rewritten files and overlay.json")
	syncPts := flag.Bool("sync", false, "insert sync points")
	flag.Parse()
	base := filepath.Join(*repo, "go/appencryption")
	targets := []target{
		{"envelope.go", "verifNow"}, {"key_cache.go", "verifNow"}, {"policy.go", "verifNow"},
		{"session_cache.go", "verifNow"}, {"internal/key.go", "VerifNow"},
	}
	if *syncPts {
		// pkg/cache has an injectable clock already; it only gets sync points
		targets = append(targets, target{"pkg/cache/cache.go", ""})
	}
	replace := map[string]string{}
	if err := os.MkdirAll(*out, 0o755); err != nil {
		fail(err)
	}
	for _, t := range targets {
		src := filepath.Join(base, t.rel)
		fset := token.NewFileSet()
		f, err := parser.ParseFile(fset, src, nil, parser.ParseComments)
		if err != nil {
			fail(err)
		}
		n := 0
		ast.Inspect(f, func(node ast.Node) bool {
			call, ok := node.(*ast.CallExpr)
			if !ok {
				return true
			}
			if sel, ok := call.Fun.(*ast.SelectorExpr); ok {
				if x, ok := sel.X.(*ast.Ident); ok && t.nowVar != "" && x.Name == "time" && sel.Sel.Name == "Now" {
					call.Fun = ast.NewIdent(t.nowVar)
					n++
				}
			}
			return true
		})
		if *syncPts && (t.rel == "key_cache.go" || t.rel == "session_cache.go" || t.rel == "pkg/cache/cache.go") {
			insertSyncPoints(f, strings.TrimSuffix(filepath.Base(t.rel), ".go"))
			addImport(f, "github.com/godaddy/asherah/go/appencryption/internal/verifsync")
		}
		var buf bytes.Buffer
		if err := printer.Fprint(&buf, fset, f); err != nil {
			fail(err)
		}
		// keep the time import used
		buf.WriteString("\nvar _ time.Duration\n")
		dst := filepath.Join(*out, strings.ReplaceAll(t.rel, "/", "_"))
		if err := os.WriteFile(dst, buf.Bytes(), 0o644); err != nil {
			fail(err)
		}
		replace[src] = dst
	}
	// added files
	add := func(rel, content string) {
		dst := filepath.Join(*out, "add_"+strings.ReplaceAll(rel, "/", "_"))
		if err := os.WriteFile(dst, []byte(content), 0o644); err != nil {
			fail(err)
		}
		replace[filepath.Join(base, rel)] = dst
	}
	add("verif_clock.go", `//go:build verif

package appencryption

import (
	"time"

	"github.com/godaddy/asherah/go/appencryption/internal"
	"github.com/godaddy/asherah/go/appencryption/internal/verifsync"
)

var verifNow = time.Now

// VerifSetSyncHook installs (or removes, with nil) the hook called at every instrumented sync point.
func VerifSetSyncHook(f func(string)) { verifsync.Set(f) }

// VerifSetClock installs a virtual clock for this package and its internal package.
func VerifSetClock(f func() time.Time) {
	verifNow = f
	internal.VerifNow = f
}
`)
	add("internal/verif_clock.go", `//go:build verif

package internal

import "time"

// VerifNow replaces time.Now in this package (set through appencryption.VerifSetClock).
var VerifNow = time.Now
`)
	add("internal/verifsync/verifsync.go", `//go:build verif

// Package verifsync provides named synchronisation points for schedule control.
package verifsync

import "sync/atomic"

// Hook, when set, is called at every sync point with its name.
var hook atomic.Pointer[func(string)]

// Set installs (or, with nil, removes) the hook.
func Set(f func(string)) {
	if f == nil {
		hook.Store(nil)
		return
	}
	hook.Store(&f)
}

// Point is called by instrumented code.
func Point(name string) {
	if h := hook.Load(); h != nil {
		(*h)(name)
	}
}
`)
	js, _ := json.MarshalIndent(map[string]any{"Replace": replace}, "", " ")
	if err := os.WriteFile(filepath.Join(*out, "overlay.json"), js, 0o644); err != nil {
		fail(err)
	}
	fmt.Println(filepath.Join(*out, "overlay.json"))
}

func fail(err error) {
	fmt.Fprintln(os.Stderr, "overlay:", err)
	os.Exit(1)
}

func addImport(f *ast.File, path string) {
	for _, d := range f.Decls {
		if g, ok := d.(*ast.GenDecl); ok && g.Tok == token.IMPORT {
			g.Specs = append(g.Specs, &ast.ImportSpec{Path: &ast.BasicLit{Kind: token.STRING, Value: `"` + path + `"`}})
			return
		}
	}
}

// insertSyncPoints adds verifsync.Point("<file>:<func>:<callee>#<n>") after every statement that is a
// call to (R)Lock/(R)Unlock/Wait/Broadcast or contains an atomic Add, in every function body.
func insertSyncPoints(f *ast.File, file string) {
	for _, d := range f.Decls {
		fd, ok := d.(*ast.FuncDecl)
		if !ok || fd.Body == nil {
			continue
		}
		name := fd.Name.Name
		if fd.Recv != nil && len(fd.Recv.List) == 1 {
			name = recvName(fd.Recv.List[0].Type) + "." + name
		}
		counter := 0
		var walk func(b *ast.BlockStmt)
		walk = func(b *ast.BlockStmt) {
			var outList []ast.Stmt
			for _, st := range b.List {
				outList = append(outList, st)
				switch s := st.(type) {
				case *ast.ExprStmt:
					if c := syncCallee(s.X); c != "" {
						counter++
						outList = append(outList, pointStmt(fmt.Sprintf("%s:%s:%s#%d", file, name, c, counter)))
					}
				case *ast.IfStmt:
					walk(s.Body)
					if eb, ok := s.Else.(*ast.BlockStmt); ok {
						walk(eb)
					}
				case *ast.ForStmt:
					walk(s.Body)
				case *ast.BlockStmt:
					walk(s)
				case *ast.SwitchStmt:
					for _, c := range s.Body.List {
						cc := c.(*ast.CaseClause)
						blk := &ast.BlockStmt{List: cc.Body}
						walk(blk)
						cc.Body = blk.List
					}
				}
			}
			b.List = outList
		}
		walk(fd.Body)
	}
}

func recvName(e ast.Expr) string {
	switch t := e.(type) {
	case *ast.StarExpr:
		return recvName(t.X)
	case *ast.Ident:
		return t.Name
	case *ast.IndexExpr:
		return recvName(t.X)
	}
	return "?"
}

func syncCallee(e ast.Expr) string {
	call, ok := e.(*ast.CallExpr)
	if !ok {
		return ""
	}
	sel, ok := call.Fun.(*ast.SelectorExpr)
	if !ok {
		return ""
	}
	switch sel.Sel.Name {
	case "Lock", "Unlock", "RLock", "RUnlock", "Wait", "Broadcast":
		return sel.Sel.Name
	}
	return ""
}

func pointStmt(name string) ast.Stmt {
	return &ast.ExprStmt{X: &ast.CallExpr{
		Fun:  &ast.SelectorExpr{X: ast.NewIdent("verifsync"), Sel: ast.NewIdent("Point")},
		Args: []ast.Expr{&ast.BasicLit{Kind: token.STRING, Value: `"` + name + `"`}},
	}}
}
