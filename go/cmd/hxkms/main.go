// hxkms drives the REAL AWS KMS plugins (plugins/aws-v1/kms and plugins/aws-v2/kms) with fake regional
// KMS clients installed through the public surface (v1: NewAWS, then Clients[i].KMS is replaced;
// v2: NewBuilder(..).WithPreferredRegion(..).WithAWSConfig(..).WithKMSFactory(..).Build()).
// The AEAD is the repository's real AES-256-GCM (pkg/crypto/aead); data keys and payloads come from
// the single harness PRNG.  One line per operation, `op => observation`; the protocol is documented in
// lean/AsherahVerif/Driver/Kms.lean.  Modes: exhaustive (all failure subsets x preferred regions x
// plugin pairs), edge (hand-picked + seeded random: tampered envelopes, alias KeyId, bad keys, ...),
// replay (a file of op lines, `-` = stdin; observations and '#' comments are ignored).
package main

import (
	"bufio"
	"context"
	"encoding/base64"
	"encoding/json"
	"errors"
	"flag"
	"fmt"
	"io"
	"os"
	osexec "os/exec"
	"sort"
	"strconv"
	"strings"
	"sync"

	awsv2 "github.com/aws/aws-sdk-go-v2/aws"
	kmsv2sdk "github.com/aws/aws-sdk-go-v2/service/kms"
	awsv1 "github.com/aws/aws-sdk-go/aws"
	"github.com/aws/aws-sdk-go/aws/request"
	kmsv1sdk "github.com/aws/aws-sdk-go/service/kms"

	"github.com/godaddy/asherah/go/appencryption"
	"github.com/godaddy/asherah/go/appencryption/pkg/crypto/aead"
	kmsv1 "github.com/godaddy/asherah/go/appencryption/plugins/aws-v1/kms"
	kmsv2 "github.com/godaddy/asherah/go/appencryption/plugins/aws-v2/kms"

	"verifharness/internal/prng"
)

var (
	out    = bufio.NewWriterSize(os.Stdout, 1<<20)
	rng    = prng.FromEnv(17)
	crypto = aead.NewAES256GCM()
)

// ---------------------------------------------------------------------------------------------
// the fake cloud: one KMS per region; behaviour of the current operation is set before each call
// ---------------------------------------------------------------------------------------------

type cloud struct {
	spec    string
	regions []string
	arns    []string

	mu      sync.Mutex
	genFail []bool
	encFail []bool
	decMode []int  // 0 ok, 1 error, 2 returns another (valid) key, 3 returns a malformed key
	kid     string // same | other | nil : what GenerateDataKey reports as KeyId
	badKey  bool   // GenerateDataKey hands out a malformed (5 byte) data key
	dkID    int    // id of the data key GenerateDataKey hands out during this operation
	calls   []string
	bufs    [][]byte // every plaintext slice a fake returned during this operation (retained, re-read later)

	keys     map[string][]byte // "id/valid" -> key bytes
	payloads map[int][]byte
	envs     [][]byte
}

var cur *cloud

// op lines of the current case (replayed in a child process when an operation would kill the process)
var history []string

func newCloud(spec string) *cloud {
	c := &cloud{spec: spec, keys: map[string][]byte{}, payloads: map[int][]byte{}}
	if spec != "" {
		for _, ra := range strings.Split(spec, ",") {
			p := strings.SplitN(ra, ":", 2)
			if len(p) != 2 {
				die("bad region spec " + ra)
			}
			c.regions = append(c.regions, p[0])
			c.arns = append(c.arns, p[1])
		}
	}
	c.reset()
	return c
}

func (c *cloud) reset() {
	n := len(c.regions)
	c.genFail, c.encFail, c.decMode = make([]bool, n), make([]bool, n), make([]int, n)
	c.kid, c.badKey, c.dkID = "same", false, 0
	c.calls, c.bufs = nil, nil
}

func (c *cloud) arnMap() map[string]string {
	m := map[string]string{}
	for i, r := range c.regions {
		m[r] = c.arns[i]
	}
	return m
}

func (c *cloud) index(region string) int {
	for i, r := range c.regions {
		if r == region {
			return i
		}
	}
	return -1
}

func (c *cloud) key(id int, valid bool) []byte {
	k := fmt.Sprintf("%d/%v", id, valid)
	if b, ok := c.keys[k]; ok {
		return b
	}
	n, salt := 32, uint64(1)
	if !valid {
		n, salt = 5, 2
	}
	// key and payload bytes are a function of (seed, id): drawing them lazily from the case generator's
	// stream would make the generated cases depend on Go's map iteration order (which clients get asked)
	b := prng.New(prng.Seed()*1000003 + uint64(id)*4 + salt).Bytes(n)
	b[0] |= 1 // never all-zero: a wiped buffer is distinguishable from a key
	c.keys[k] = b
	return b
}

func (c *cloud) payload(id int) []byte {
	if b, ok := c.payloads[id]; ok {
		return b
	}
	b := prng.New(prng.Seed()*1000003 + uint64(id)*4 + 3).Bytes(32)
	c.payloads[id] = b
	return b
}

func blob(arn string, id int, valid bool) []byte {
	v := "1"
	if !valid {
		v = "0"
	}
	return []byte("W|" + arn + "|" + strconv.Itoa(id) + "|" + v)
}

func parseBlob(b []byte) (arn string, id int, valid bool, ok bool) {
	p := strings.Split(string(b), "|")
	if len(p) != 4 || p[0] != "W" {
		return "", 0, false, false
	}
	id, err := strconv.Atoi(p[2])
	if err != nil {
		return "", 0, false, false
	}
	return p[1], id, p[3] == "1", true
}

var errFake = errors.New("fake KMS: injected failure")

// the three operations of region i (shared by the v1 and the v2 fake client types)
func (c *cloud) generate(i int) (keyID *string, plaintext, ciphertext []byte, err error) {
	c.mu.Lock()
	defer c.mu.Unlock()
	c.calls = append(c.calls, "gen:"+c.regions[i])
	if c.genFail[i] {
		return nil, nil, nil, errFake
	}
	pt := append([]byte(nil), c.key(c.dkID, !c.badKey)...)
	c.bufs = append(c.bufs, pt)
	switch c.kid {
	case "same":
		s := c.arns[i]
		keyID = &s
	case "other":
		s := "alias-of-" + c.arns[i]
		keyID = &s
	}
	return keyID, pt, blob(c.arns[i], c.dkID, !c.badKey), nil
}

func (c *cloud) encrypt(i int, plaintext []byte) ([]byte, error) {
	c.mu.Lock()
	defer c.mu.Unlock()
	c.calls = append(c.calls, "enc:"+c.regions[i])
	if c.encFail[i] {
		return nil, errFake
	}
	for k, b := range c.keys {
		if string(b) == string(plaintext) {
			p := strings.Split(k, "/")
			id, _ := strconv.Atoi(p[0])
			return blob(c.arns[i], id, p[1] == "true"), nil
		}
	}
	return nil, errors.New("fake KMS: asked to wrap a key it never handed out")
}

func (c *cloud) decrypt(i int, ct []byte) ([]byte, error) {
	c.mu.Lock()
	defer c.mu.Unlock()
	c.calls = append(c.calls, "dec:"+c.regions[i])
	arn, id, valid, ok := parseBlob(ct)
	if c.decMode[i] == 1 || !ok || arn != c.arns[i] {
		return nil, errFake
	}
	var src []byte
	switch c.decMode[i] {
	case 2:
		src = c.key(1000+i, true)
	case 3:
		src = c.key(2000+i, false)
	default:
		src = c.key(id, valid)
	}
	pt := append([]byte(nil), src...)
	c.bufs = append(c.bufs, pt)
	return pt, nil
}

type fakeV1 struct{ i int }

func (f fakeV1) EncryptWithContext(_ awsv1.Context, in *kmsv1sdk.EncryptInput, _ ...request.Option) (*kmsv1sdk.EncryptOutput, error) {
	b, err := cur.encrypt(f.i, in.Plaintext)
	if err != nil {
		return nil, err
	}
	return &kmsv1sdk.EncryptOutput{CiphertextBlob: b, KeyId: in.KeyId}, nil
}

func (f fakeV1) GenerateDataKeyWithContext(_ awsv1.Context, _ *kmsv1sdk.GenerateDataKeyInput, _ ...request.Option) (*kmsv1sdk.GenerateDataKeyOutput, error) {
	kid, pt, ct, err := cur.generate(f.i)
	if err != nil {
		return nil, err
	}
	return &kmsv1sdk.GenerateDataKeyOutput{KeyId: kid, Plaintext: pt, CiphertextBlob: ct}, nil
}

func (f fakeV1) DecryptWithContext(_ awsv1.Context, in *kmsv1sdk.DecryptInput, _ ...request.Option) (*kmsv1sdk.DecryptOutput, error) {
	pt, err := cur.decrypt(f.i, in.CiphertextBlob)
	if err != nil {
		return nil, err
	}
	return &kmsv1sdk.DecryptOutput{Plaintext: pt}, nil
}

type fakeV2 struct{ i int }

func (f fakeV2) Encrypt(_ context.Context, in *kmsv2sdk.EncryptInput, _ ...func(*kmsv2sdk.Options)) (*kmsv2sdk.EncryptOutput, error) {
	b, err := cur.encrypt(f.i, in.Plaintext)
	if err != nil {
		return nil, err
	}
	return &kmsv2sdk.EncryptOutput{CiphertextBlob: b, KeyId: in.KeyId}, nil
}

func (f fakeV2) GenerateDataKey(_ context.Context, _ *kmsv2sdk.GenerateDataKeyInput, _ ...func(*kmsv2sdk.Options)) (*kmsv2sdk.GenerateDataKeyOutput, error) {
	kid, pt, ct, err := cur.generate(f.i)
	if err != nil {
		return nil, err
	}
	return &kmsv2sdk.GenerateDataKeyOutput{KeyId: kid, Plaintext: pt, CiphertextBlob: ct}, nil
}

func (f fakeV2) Decrypt(_ context.Context, in *kmsv2sdk.DecryptInput, _ ...func(*kmsv2sdk.Options)) (*kmsv2sdk.DecryptOutput, error) {
	pt, err := cur.decrypt(f.i, in.CiphertextBlob)
	if err != nil {
		return nil, err
	}
	return &kmsv2sdk.DecryptOutput{Plaintext: pt}, nil
}

// ---------------------------------------------------------------------------------------------
// plugins under test
// ---------------------------------------------------------------------------------------------

type plug struct {
	kms appencryption.KeyManagementService
	obs string
}

var (
	plugs     = map[string]*plug{} // by name, current case
	plugCache = map[string]*plug{} // by "version|regions|pref": construction is independent of the fault masks
)

func prefOf(s string) string {
	if s == "-" {
		return ""
	}
	return s
}

func buildPlug(version, pref string) *plug {
	key := version + "|" + cur.spec + "|" + pref
	if p, ok := plugCache[key]; ok {
		return p
	}
	p := &plug{}
	func() {
		defer func() {
			if e := recover(); e != nil {
				p.kms, p.obs = nil, "panic"
			}
		}()
		switch version {
		case "v1":
			m, err := kmsv1.NewAWS(crypto, prefOf(pref), cur.arnMap())
			if err != nil {
				p.obs = "err:" + classify(err)
				return
			}
			for i := range m.Clients {
				m.Clients[i].KMS = fakeV1{cur.index(m.Clients[i].Region)}
			}
			p.kms = m
			var pub []string
			for _, c := range m.Clients {
				pub = append(pub, c.Region)
			}
			probed := probeOrder(m)
			if strings.Join(pub, ",") != strings.Join(probed, ",") {
				p.obs = "ok order-inconsistent:" + strings.Join(pub, ",") + "/" + strings.Join(probed, ",")
				return
			}
			p.obs = "ok order=" + list(probed)
		case "v2":
			m, err := kmsv2.NewBuilder(crypto, cur.arnMap()).
				WithPreferredRegion(prefOf(pref)).
				WithAWSConfig(awsv2.Config{}).
				WithKMSFactory(func(cfg awsv2.Config, _ ...func(*kmsv2sdk.Options)) kmsv2.AWSClient {
					return fakeV2{cur.index(cfg.Region)}
				}).Build()
			if err != nil {
				p.obs = "err:" + classify(err)
				return
			}
			p.kms = m
			p.obs = "ok order=" + list(probeOrder(m))
		default:
			die("bad plugin version " + version)
		}
	}()
	plugCache[key] = p
	return p
}

// the client order is observed through the public surface: with GenerateDataKey failing everywhere
// EncryptKey asks every client once, in client order.
func probeOrder(k appencryption.KeyManagementService) []string {
	cur.reset()
	for i := range cur.genFail {
		cur.genFail[i] = true
	}
	_, _ = k.EncryptKey(context.Background(), []byte("probe"))
	var o []string
	for _, c := range cur.calls {
		o = append(o, strings.TrimPrefix(c, "gen:"))
	}
	cur.reset()
	return o
}

func list(xs []string) string {
	if len(xs) == 0 {
		return "-"
	}
	return strings.Join(xs, ",")
}

func classify(err error) string {
	s := err.Error()
	switch {
	case strings.Contains(s, "all regions returned errors"):
		return "allfail"
	case strings.Contains(s, "decrypt failed in all regions"):
		return "nodecrypt"
	case strings.Contains(s, "unable to unmarshal envelope"):
		return "unmarshal"
	case strings.Contains(s, "preferred region must be set"):
		return "prefrequired"
	case strings.Contains(s, "invalid key size"):
		return "seal"
	}
	return "other(" + strings.ReplaceAll(s, " ", "_") + ")"
}

// ---------------------------------------------------------------------------------------------
// operations
// ---------------------------------------------------------------------------------------------

func kv(f []string) map[string]string {
	m := map[string]string{}
	for _, t := range f {
		if i := strings.IndexByte(t, '='); i > 0 {
			m[t[:i]] = t[i+1:]
		}
	}
	return m
}

func bits(s string, n int) []bool {
	if len(s) != n {
		die(fmt.Sprintf("mask %q does not have %d digits", s, n))
	}
	b := make([]bool, n)
	for i := range b {
		b[i] = s[i] == '1'
	}
	return b
}

func (c *cloud) canonCalls() string {
	var seq, enc []string
	for _, x := range c.calls {
		if strings.HasPrefix(x, "enc:") {
			enc = append(enc, x) // concurrent: canonical order
		} else {
			seq = append(seq, x)
		}
	}
	sort.Strings(enc)
	return list(append(seq, enc...))
}

func (c *cloud) bufObs() string {
	dirty := 0
	for _, b := range c.bufs {
		for _, x := range b {
			if x != 0 {
				dirty++
				break
			}
		}
	}
	return fmt.Sprintf("bufs=%d dirty=%d", len(c.bufs), dirty)
}

func exec(op string) {
	f := strings.Fields(op)
	if len(f) == 0 {
		return
	}
	a := kv(f)
	obs := ""
	if f[0] != "new" {
		history = append(history, op)
	}
	switch f[0] {
	case "new":
		cur = newCloud(a["regions"])
		plugs = map[string]*plug{}
		history = []string{op}
		fmt.Fprintln(out, op)
		return
	case "plug":
		p := buildPlug(f[2], a["pref"])
		plugs[f[1]] = p
		obs = p.obs
	case "wrap":
		p := plugs[f[1]]
		if p == nil || p.kms == nil {
			die("wrap: no such plugin: " + op)
		}
		if _, v2 := p.kms.(*kmsv2.AWSKMS); v2 && a["kid"] == "nil" && a["key"] == "ok" && strings.Contains(a["gen"], "0") &&
			os.Getenv("HXKMS_CHILD") == "" {
			// v2 dereferences the missing KeyId in a goroutine of its own: nothing can recover that, the
			// process dies.  Observe it in a child that replays this case.
			obs = inChild()
			break
		}
		n := len(cur.regions)
		cur.reset()
		cur.genFail, cur.encFail = bits(a["gen"], n), bits(a["enc"], n)
		cur.kid, cur.badKey = a["kid"], a["key"] == "bad"
		cur.dkID = atoi(a["dk"])
		payload := append([]byte(nil), cur.payload(atoi(a["pt"]))...)
		var env []byte
		var err error
		panicked := false
		func() {
			defer func() {
				if e := recover(); e != nil {
					panicked = true
				}
			}()
			env, err = p.kms.EncryptKey(context.Background(), payload)
		}()
		switch {
		case panicked:
			obs = "panic"
		case err != nil:
			obs = "err:" + classify(err)
		default:
			obs = "ok"
		}
		obs += " calls=" + cur.canonCalls() + " " + cur.bufObs()
		if string(payload) != string(cur.payload(atoi(a["pt"]))) {
			obs += " caller-buffer-modified"
		}
		if !panicked && err == nil {
			cur.envs = append(cur.envs, env)
			sym, entries := transcribe(env)
			obs += fmt.Sprintf(" env=%d entries=%s json=%s", len(cur.envs)-1, list(entries), sym)
		}
	case "craft":
		var ek []byte
		if a["ek"] == "junk" {
			ek = prng.New(prng.Seed() + 77).Bytes(40)
		} else {
			p := strings.Split(a["ek"], ":")
			var err error
			ek, err = crypto.Encrypt(cur.payload(atoi(p[1])), cur.key(atoi(p[0]), true))
			if err != nil {
				die("craft: " + err.Error())
			}
		}
		var sb strings.Builder
		sb.WriteString(`{"encryptedKey":"` + base64.StdEncoding.EncodeToString(ek) + `","kmsKeks":`)
		switch a["keks"] {
		case "null":
			sb.WriteString("null")
		case "-":
			sb.WriteString("[]")
		default:
			sb.WriteString("[")
			for i, k := range strings.Split(a["keks"], ",") {
				p := strings.Split(k, ":")
				if len(p) != 4 {
					die("craft: bad kek " + k)
				}
				if i > 0 {
					sb.WriteString(",")
				}
				// region : arn field : arn the blob is wrapped under : data key
				sb.WriteString(`{"region":"` + p[0] + `","arn":"` + p[1] + `","encryptedKek":"` +
					base64.StdEncoding.EncodeToString(blob(p[2], atoi(p[3]), true)) + `"}`)
			}
			sb.WriteString("]")
		}
		sb.WriteString("}")
		cur.envs = append(cur.envs, []byte(sb.String()))
		obs = fmt.Sprintf("env=%d", len(cur.envs)-1)
	case "unwrap":
		p := plugs[f[1]]
		if p == nil || p.kms == nil {
			die("unwrap: no such plugin: " + op)
		}
		n := len(cur.regions)
		cur.reset()
		if len(a["dec"]) != n {
			die("unwrap: bad dec mask: " + op)
		}
		for i := range cur.decMode {
			cur.decMode[i] = int(a["dec"][i] - '0')
		}
		var env []byte
		if a["env"] == "garbage" {
			env = []byte(`{"encryptedKey":`)
		} else {
			e := atoi(a["env"])
			if e >= len(cur.envs) {
				die("unwrap: no such envelope: " + op)
			}
			env = append([]byte(nil), cur.envs[e]...)
		}
		var pt []byte
		var err error
		panicked := false
		func() {
			defer func() {
				if e := recover(); e != nil {
					panicked = true
				}
			}()
			pt, err = p.kms.DecryptKey(context.Background(), env)
		}()
		switch {
		case panicked:
			obs = "panic"
		case err != nil:
			obs = "err:" + classify(err)
		default:
			obs = "ok:" + cur.payloadName(pt)
		}
		obs += " calls=" + cur.canonCalls() + " " + cur.bufObs()
	default:
		die("bad op: " + op)
	}
	fmt.Fprintf(out, "%s => %s\n", op, obs)
}

func inChild() string {
	out.Flush()
	cmd := osexec.Command(os.Args[0], "-mode", "replay", "-file", "-")
	cmd.Env = append(os.Environ(), "HXKMS_CHILD=1")
	cmd.Stdin = strings.NewReader(strings.Join(history, "\n") + "\n")
	var stderr strings.Builder
	cmd.Stderr = &stderr
	err := cmd.Run()
	e := stderr.String()
	if err != nil && strings.Contains(e, "nil pointer dereference") && strings.Contains(e, "encryptAllRegions") {
		return "fatal"
	}
	if err != nil {
		return "child-died-otherwise"
	}
	return "child-survived"
}

func (c *cloud) payloadName(b []byte) string {
	ids := make([]int, 0, len(c.payloads))
	for id := range c.payloads {
		ids = append(ids, id)
	}
	sort.Ints(ids)
	for _, id := range ids {
		if string(c.payloads[id]) == string(b) {
			return "p" + strconv.Itoa(id)
		}
	}
	return "?"
}

// transcribe re-reads the envelope JSON generically (token stream: names, nesting and order exactly as
// the plugin marshalled them) and replaces the byte strings by what they are: W(arn,dk<n>) for a fake
// KMS ciphertext, E(dk<n>,p<m>) for an AES-GCM ciphertext that opens under a data key of this case.
func transcribe(env []byte) (string, []string) {
	dec := json.NewDecoder(strings.NewReader(string(env)))
	var sb strings.Builder
	var entries []string
	var val func(key string)
	val = func(key string) {
		t, err := dec.Token()
		if err != nil {
			sb.WriteString("<bad-json>")
			return
		}
		switch v := t.(type) {
		case json.Delim:
			switch v {
			case '{':
				sb.WriteString("{")
				first := true
				for dec.More() {
					k, _ := dec.Token()
					if !first {
						sb.WriteString(",")
					}
					first = false
					ks, _ := k.(string)
					sb.WriteString(ks + ":")
					val(ks)
				}
				_, _ = dec.Token()
				sb.WriteString("}")
			case '[':
				sb.WriteString("[")
				first := true
				for dec.More() {
					if !first {
						sb.WriteString(",")
					}
					first = false
					val("")
				}
				_, _ = dec.Token()
				sb.WriteString("]")
			}
		case string:
			if key == "region" {
				entries = append(entries, v)
			}
			sb.WriteString(cur.symbol(v))
		case nil:
			sb.WriteString("null")
		default:
			sb.WriteString(fmt.Sprint(v))
		}
	}
	val("")
	if _, err := dec.Token(); err != io.EOF {
		sb.WriteString("<trailing>")
	}
	return sb.String(), entries
}

func (c *cloud) symbol(s string) string {
	b, err := base64.StdEncoding.DecodeString(s)
	if err != nil || len(b) == 0 {
		return s
	}
	if arn, id, valid, ok := parseBlob(b); ok {
		if valid {
			return fmt.Sprintf("W(%s,dk%d)", arn, id)
		}
		return fmt.Sprintf("W(%s,bad%d)", arn, id)
	}
	names := make([]string, 0, len(c.keys))
	for k := range c.keys {
		names = append(names, k)
	}
	sort.Strings(names)
	for _, k := range names {
		if !strings.HasSuffix(k, "/true") {
			continue
		}
		if pt, err := crypto.Decrypt(append([]byte(nil), b...), c.keys[k]); err == nil {
			return fmt.Sprintf("E(dk%s,%s)", strings.TrimSuffix(k, "/true"), c.payloadName(pt))
		}
	}
	return s
}

func atoi(s string) int {
	v, err := strconv.Atoi(s)
	if err != nil {
		die("bad number " + s)
	}
	return v
}

func die(msg string) {
	out.Flush()
	fmt.Fprintln(os.Stderr, "hxkms: "+msg)
	os.Exit(2)
}

// ---------------------------------------------------------------------------------------------
// generators (they only produce op lines; exec runs them)
// ---------------------------------------------------------------------------------------------

func regionSpec(n int) string {
	var s []string
	for i := 0; i < n; i++ {
		s = append(s, fmt.Sprintf("r%d:a%d", i, i))
	}
	return strings.Join(s, ",")
}

func mask(v, n, base int) string {
	b := make([]byte, n)
	for i := range b {
		b[i] = byte('0' + v%base)
		v /= base
	}
	return string(b)
}

func pow(b, n int) int {
	r := 1
	for i := 0; i < n; i++ {
		r *= b
	}
	return r
}

// every number of regions 1..maxN x wrapping plugin x its preferred region x every subset of regions
// failing GenerateDataKey x every subset failing Encrypt; each resulting envelope is unwrapped by
// both plugins x every preferred region x every subset of regions failing Decrypt.
func exhaustive(maxN int) {
	id := 0
	for n := 1; n <= maxN; n++ {
		for _, wv := range []string{"v1", "v2"} {
			for wp := 0; wp < n; wp++ {
				for g := 0; g < pow(2, n); g++ {
					for e := 0; e < pow(2, n); e++ {
						id++
						exec("new regions=" + regionSpec(n))
						exec(fmt.Sprintf("plug W %s pref=r%d", wv, wp))
						var us []string
						for _, uv := range []string{"v1", "v2"} {
							for up := 0; up < n; up++ {
								name := fmt.Sprintf("%s.r%d", uv, up)
								us = append(us, name)
								exec(fmt.Sprintf("plug %s %s pref=r%d", name, uv, up))
							}
						}
						exec(fmt.Sprintf("wrap W pt=%d dk=%d gen=%s enc=%s kid=same key=ok", id, id, mask(g, n, 2), mask(e, n, 2)))
						if len(cur.envs) == 0 {
							continue
						}
						for _, u := range us {
							for d := 0; d < pow(2, n); d++ {
								exec(fmt.Sprintf("unwrap %s env=0 dec=%s", u, mask(d, n, 2)))
							}
						}
					}
				}
			}
		}
	}
}

// hand-picked corner cases followed by seeded random ones
func edge(cases int) {
	fixed := [][]string{
		// no region at all (v1 accepts an empty map; v2's NewBuilder panics)
		{"new regions=", "plug A v1 pref=r0", "plug B v2 pref=r0", "wrap A pt=1 dk=1 gen= enc= kid=same key=ok",
			"craft ek=1:1 keks=r0:a0:a0:1", "unwrap A env=0 dec="},
		// v2 refuses several regions without a preferred one; v1 does not care; unknown preferred region
		{"new regions=r0:a0,r1:a1", "plug A v2 pref=-", "plug B v1 pref=-", "plug C v2 pref=zz", "plug D v1 pref=zz",
			"wrap B pt=1 dk=1 gen=00 enc=00 kid=same key=ok", "unwrap C env=0 dec=00", "unwrap D env=0 dec=10"},
		{"new regions=r0:a0", "plug A v2 pref=-", "wrap A pt=1 dk=1 gen=0 enc=0 kid=same key=ok", "unwrap A env=0 dec=0"},
		// KeyId reported by GenerateDataKey is not the configured ARN (alias / key id configured):
		// every region is re-encrypted, and if all of those fail the envelope has no entry at all
		{"new regions=r0:a0,r1:a1", "plug A v1 pref=r0", "plug B v2 pref=r1",
			"wrap A pt=1 dk=1 gen=00 enc=00 kid=other key=ok", "wrap A pt=2 dk=2 gen=00 enc=11 kid=other key=ok",
			"wrap B pt=3 dk=3 gen=00 enc=11 kid=other key=ok", "wrap B pt=4 dk=4 gen=00 enc=10 kid=other key=ok",
			"unwrap A env=0 dec=00", "unwrap B env=1 dec=00", "unwrap A env=2 dec=00", "unwrap B env=3 dec=00", "unwrap A env=3 dec=00"},
		// GenerateDataKey answers without a KeyId: nil dereference in v1's encryptAllRegions (same goroutine)
		{"new regions=r0:a0,r1:a1", "plug A v1 pref=r0", "wrap A pt=1 dk=1 gen=00 enc=00 kid=nil key=ok"},
		// malformed data key: the AEAD refuses it after the plaintext exists
		{"new regions=r0:a0,r1:a1", "plug A v1 pref=r0", "plug B v2 pref=r0",
			"wrap A pt=1 dk=1 gen=10 enc=00 kid=same key=bad", "wrap B pt=1 dk=2 gen=00 enc=00 kid=same key=bad"},
		// ... and in v2 the same nil KeyId is dereferenced in a goroutine: the process dies (observed in a child)
		{"new regions=r0:a0,r1:a1", "plug B v2 pref=r1", "wrap B pt=1 dk=1 gen=00 enc=00 kid=nil key=ok",
			"wrap B pt=2 dk=2 gen=01 enc=00 kid=same key=ok", "unwrap B env=0 dec=00"},
		// two regions sharing one master key ARN
		{"new regions=r0:a0,r1:a0,r2:a2", "plug A v1 pref=r1", "plug B v2 pref=r2",
			"wrap A pt=1 dk=1 gen=000 enc=111 kid=same key=ok", "wrap B pt=2 dk=2 gen=000 enc=001 kid=same key=ok",
			"unwrap B env=0 dec=001", "unwrap A env=1 dec=110", "unwrap A env=1 dec=111"},
		// tampered / foreign envelopes: duplicate region entries (v1 takes the first, v2 the last),
		// entries whose data key is not the one the key was sealed with, unknown regions, no entries
		{"new regions=r0:a0,r1:a1", "plug A v1 pref=r0", "plug B v2 pref=r0",
			"craft ek=1:7 keks=r0:a0:a0:2,r0:a0:a0:1,r1:a1:a1:1", "craft ek=1:7 keks=r0:a0:a0:1,r0:a0:a0:2",
			"craft ek=1:7 keks=r9:a9:a9:1", "craft ek=1:7 keks=-", "craft ek=1:7 keks=null", "craft ek=junk keks=r0:a0:a0:1,r1:a1:a1:1",
			"craft ek=1:7 keks=r0:a1:a1:1,r1:a1:a0:1", "craft ek=1:7 keks=r1:a1:a1:2,r0:a0:a0:1",
			"unwrap A env=0 dec=00", "unwrap B env=0 dec=00", "unwrap A env=0 dec=01", "unwrap B env=0 dec=01",
			"unwrap A env=1 dec=00", "unwrap B env=1 dec=00", "unwrap A env=2 dec=00", "unwrap B env=2 dec=00",
			"unwrap A env=3 dec=00", "unwrap B env=4 dec=00", "unwrap A env=5 dec=00", "unwrap B env=5 dec=00",
			"unwrap A env=6 dec=00", "unwrap B env=6 dec=00", "unwrap A env=7 dec=00", "unwrap B env=7 dec=00",
			"unwrap A env=garbage dec=00", "unwrap B env=garbage dec=00",
			"wrap A pt=3 dk=3 gen=00 enc=00 kid=same key=ok", "unwrap B env=8 dec=20", "unwrap A env=8 dec=23", "unwrap B env=8 dec=32"},
	}
	for _, c := range fixed {
		for _, op := range c {
			exec(op)
		}
	}
	for i := 0; i < cases; i++ {
		randomCase(i)
	}
}

func randomCase(seq int) {
	n := 1 + rng.Pick(2, 4, 4, 3, 1)
	var spec []string
	for i := 0; i < n; i++ {
		arn := i
		if i > 0 && rng.Intn(8) == 0 {
			arn = rng.Intn(i) // shared master key
		}
		spec = append(spec, fmt.Sprintf("r%d:a%d", i, arn))
	}
	exec("new regions=" + strings.Join(spec, ","))
	pref := func(v string) string {
		switch rng.Pick(12, 1, 1) {
		case 1:
			if v == "v2" && n > 1 {
				return "zz"
			}
			return "-"
		case 2:
			return "zz"
		}
		return fmt.Sprintf("r%d", rng.Intn(n))
	}
	names := []string{}
	for i := 0; i < 2+rng.Intn(3); i++ {
		v := []string{"v1", "v2"}[rng.Intn(2)]
		name := fmt.Sprintf("P%d", i)
		exec(fmt.Sprintf("plug %s %s pref=%s", name, v, pref(v)))
		if plugs[name].kms != nil {
			names = append(names, name)
		}
	}
	if len(names) == 0 {
		return
	}
	isV2 := func(name string) bool { _, ok := plugs[name].kms.(*kmsv2.AWSKMS); return ok }
	rmask := func(base int, pFail int) string {
		b := make([]byte, n)
		for i := range b {
			b[i] = '0'
			if rng.Intn(100) < pFail {
				b[i] = byte('0' + 1 + rng.Intn(base-1))
			}
		}
		return string(b)
	}
	dk := 0
	for step := 0; step < 4+rng.Intn(8); step++ {
		p := names[rng.Intn(len(names))]
		switch rng.Pick(3, 2, 6) {
		case 0:
			dk++
			kid := []string{"same", "same", "same", "other", "nil"}[rng.Intn(5)]
			if kid == "nil" && isV2(p) && rng.Intn(8) > 0 {
				kid = "other" // v2 + nil KeyId kills the process: needs a child process per case, keep it rare
			}
			key := "ok"
			if rng.Intn(10) == 0 {
				key = "bad"
			}
			exec(fmt.Sprintf("wrap %s pt=%d dk=%d gen=%s enc=%s kid=%s key=%s", p, 100*seq+step, dk, rmask(2, 35), rmask(2, 35), kid, key))
		case 1:
			var ks []string
			for j := 0; j < rng.Intn(5); j++ {
				r := rng.Intn(n + 1)
				region, arn := "r9", "a9"
				if r < n {
					region, arn = cur.regions[r], cur.arns[r]
				}
				under := arn
				if rng.Intn(6) == 0 {
					under = fmt.Sprintf("a%d", rng.Intn(n+1))
				}
				ks = append(ks, fmt.Sprintf("%s:%s:%s:%d", region, arn, under, 1+rng.Intn(2)))
			}
			keks := strings.Join(ks, ",")
			if len(ks) == 0 {
				keks = []string{"-", "null"}[rng.Intn(2)]
			}
			ek := fmt.Sprintf("%d:%d", 1+rng.Intn(2), 100*seq+step)
			if rng.Intn(8) == 0 {
				ek = "junk"
			}
			exec(fmt.Sprintf("craft ek=%s keks=%s", ek, keks))
		case 2:
			env := "garbage"
			if len(cur.envs) > 0 && rng.Intn(20) > 0 {
				env = strconv.Itoa(rng.Intn(len(cur.envs)))
			}
			exec(fmt.Sprintf("unwrap %s env=%s dec=%s", p, env, rmask(4, 30)))
		}
	}
}

func replay(path string) {
	f := os.Stdin
	if path != "-" {
		var err error
		if f, err = os.Open(path); err != nil {
			die(err.Error())
		}
		defer f.Close()
	}
	sc := bufio.NewScanner(f)
	sc.Buffer(make([]byte, 1<<20), 1<<20)
	for sc.Scan() {
		l := strings.TrimSpace(sc.Text())
		if l == "" || strings.HasPrefix(l, "#") {
			continue
		}
		if i := strings.Index(l, " => "); i >= 0 {
			l = l[:i]
		}
		if cur == nil && !strings.HasPrefix(l, "new ") {
			die("replay: first operation must be `new`")
		}
		exec(l)
	}
}

func main() {
	mode := flag.String("mode", "exhaustive", "exhaustive|edge|replay")
	maxN := flag.Int("regions", 3, "exhaustive: up to this many regions")
	cases := flag.Int("cases", 500, "edge: number of random cases after the fixed ones")
	file := flag.String("file", "", "replay file")
	flag.Parse()
	defer out.Flush()
	switch *mode {
	case "exhaustive":
		exhaustive(*maxN)
	case "edge":
		edge(*cases)
	case "replay":
		replay(*file)
	default:
		die("bad mode")
	}
}
