// hxpartition drives the REAL asherah SDK (SessionFactory / Session over an in-memory metastore, the
// static KMS and AES-256-GCM) on adversarial pairs of partition ids and writes one line per
// operation, `op => observation` (protocol documented in lean/AsherahVerif/Driver/Partition.lean):
//
//	new <svc> <prod> <sfx> <cache>     fresh metastore + factory; sfx "-" = metastore without
//	                                   GetRegionSuffix, otherwise a wrapper reporting that suffix
//	enc <q>        GetSession(q).Encrypt(payload(q)); the record is kept   => ok ik=<id> sk=<id> | refused | err
//	open <p>       GetSession(p) becomes the current session                => ok | refused
//	own            current session encrypts and decrypts its own payload    => plain | err | …
//	dec <q>        current session decrypts the record produced for q       => err | plain | other | panic
//	decx <q> <id> <created|=>   … with ParentKeyMeta replaced by {id, created}
//	decnil key|parent           … a record without Key / without ParentKeyMeta
//	collide <q>    … with ParentKeyMeta crafted so that cacheKey collides with the own cached IK
//	ck <id> <n>    cacheKey(id, n) (through the overlay-exported wrapper)   => <bytes>
//
// Byte strings are written as "x"+hex. Modes: random (seeded by VERIF_SEED), exhaustive (all pairs of
// token strings up to a length), replay (a file of op lines; observations are ignored).
//
// Build: needs the overlay go/overlay/partition (adds an exported wrapper of the unexported
// cacheKey to package appencryption at build time; /repo itself is not touched).
package main

import (
	"bufio"
	"bytes"
	"context"
	"encoding/hex"
	"errors"
	"flag"
	"fmt"
	"io"
	"os"
	"strconv"
	"strings"
	"sync"

	"github.com/godaddy/asherah/go/appencryption"
	"github.com/godaddy/asherah/go/appencryption/pkg/crypto/aead"
	"github.com/godaddy/asherah/go/appencryption/pkg/kms"
	"github.com/godaddy/asherah/go/appencryption/pkg/persistence"
	"github.com/godaddy/asherah/go/securememory"

	"verifharness/internal/prng"
)

// ---- a cheap SecretFactory: plain heap memory (no mlock), same contract as the real ones ----------

type plainSecret struct {
	mu     sync.Mutex
	b      []byte
	closed bool
}

func (s *plainSecret) WithBytes(action func([]byte) error) error {
	s.mu.Lock()
	defer s.mu.Unlock()
	if s.closed {
		return errors.New("secret has already been destroyed")
	}
	return action(s.b)
}

func (s *plainSecret) WithBytesFunc(action func([]byte) ([]byte, error)) ([]byte, error) {
	s.mu.Lock()
	defer s.mu.Unlock()
	if s.closed {
		return nil, errors.New("secret has already been destroyed")
	}
	return action(s.b)
}

func (s *plainSecret) IsClosed() bool {
	s.mu.Lock()
	defer s.mu.Unlock()
	return s.closed
}

func (s *plainSecret) Close() error {
	s.mu.Lock()
	defer s.mu.Unlock()
	if !s.closed {
		for i := range s.b {
			s.b[i] = 0
		}
		s.closed = true
	}
	return nil
}

func (s *plainSecret) NewReader() io.Reader { return bytes.NewReader(s.b) }

type plainFactory struct{ rng *prng.R }

func (f *plainFactory) New(b []byte) (securememory.Secret, error) {
	c := append([]byte(nil), b...)
	for i := range b {
		b[i] = 0
	}
	return &plainSecret{b: c}, nil
}

func (f *plainFactory) CreateRandom(size int) (securememory.Secret, error) {
	return &plainSecret{b: f.rng.Bytes(size)}, nil
}

// ---- metastore that reports a region suffix ----------------------------------------------------------

type sfxStore struct {
	*persistence.MemoryMetastore
	sfx string
}

func (s *sfxStore) GetRegionSuffix() string { return s.sfx }

// ---- harness state ---------------------------------------------------------------------------------------

var out = bufio.NewWriterSize(os.Stdout, 1<<20)

func enc(s string) string { return "x" + hex.EncodeToString([]byte(s)) }

func dec(s string) (string, bool) {
	if !strings.HasPrefix(s, "x") {
		return "", false
	}
	b, err := hex.DecodeString(s[1:])
	return string(b), err == nil
}

type world struct {
	keyRng  *prng.R
	kms     appencryption.KeyManagementService
	crypto  appencryption.AEAD
	store   *persistence.MemoryMetastore
	factory *appencryption.SessionFactory
	records map[string]*appencryption.DataRowRecord
	order   []string // ids with a record, in registration order
	cur     *appencryption.Session
	curID   string
	ownRec  *appencryption.DataRowRecord
	ctx     context.Context
	// safety valve: when foreign records decrypt en masse (a broken guard) every pair costs a full
	// key-chain walk; the generators stop after this many such outcomes — each one already is a
	// failing input for the monitor.
	foreignOK int
}

const foreignOKLimit = 50000

func (w *world) tooMany() bool {
	if w.foreignOK > foreignOKLimit {
		if w.foreignOK < 1<<40 {
			fmt.Fprintf(out, "# generation stopped: %d foreign records were decrypted without error\n", w.foreignOK)
			w.foreignOK = 1 << 40
		}
		return true
	}
	return false
}

func newWorld() *world {
	w := &world{keyRng: prng.New(prng.Seed() ^ 0x6b6579), crypto: aead.NewAES256GCM(), ctx: context.Background()}
	k, err := kms.NewStatic("0123456789abcdef0123456789abcdef", w.crypto)
	if err != nil {
		fmt.Fprintln(os.Stderr, "static kms:", err)
		os.Exit(2)
	}
	w.kms = k
	return w
}

func payload(id string) []byte { return []byte("payload-of-" + enc(id)) }

func (w *world) closeCur() {
	if w.cur != nil {
		w.cur.Close()
		w.cur = nil
	}
	w.ownRec = nil
}

func (w *world) opNew(svc, prod, sfx, cache string) {
	w.closeCur()
	if w.factory != nil {
		w.factory.Close()
	}
	w.store = persistence.NewMemoryMetastore()
	var ms appencryption.Metastore = w.store
	sfxS := "-"
	if sfx != "-" {
		s, _ := dec(sfx)
		ms = &sfxStore{MemoryMetastore: w.store, sfx: s}
		sfxS = sfx
	}
	var pol *appencryption.CryptoPolicy
	switch cache {
	case "none":
		pol = appencryption.NewCryptoPolicy(appencryption.WithNoCache())
	case "shared":
		pol = appencryption.NewCryptoPolicy(appencryption.WithSharedIntermediateKeyCache(1000), appencryption.WithSessionCache())
	default:
		cache = "session"
		pol = appencryption.NewCryptoPolicy()
	}
	s, _ := dec(svc)
	p, _ := dec(prod)
	w.factory = appencryption.NewSessionFactory(&appencryption.Config{Service: s, Product: p, Policy: pol}, ms, w.kms, w.crypto,
		appencryption.WithSecretFactory(&plainFactory{rng: w.keyRng}))
	w.records = map[string]*appencryption.DataRowRecord{}
	w.order = nil
	fmt.Fprintf(out, "new %s %s %s %s\n", svc, prod, sfxS, cache)
}

func (w *world) opEnc(qx string) {
	q, _ := dec(qx)
	res := func() (res string) {
		defer func() {
			if e := recover(); e != nil {
				res = "panic"
			}
		}()
		s, err := w.factory.GetSession(q)
		if err != nil {
			return "refused"
		}
		defer s.Close()
		drr, err := s.Encrypt(w.ctx, payload(q))
		if err != nil || drr == nil || drr.Key == nil || drr.Key.ParentKeyMeta == nil {
			return "err"
		}
		if _, ok := w.records[q]; !ok {
			w.order = append(w.order, q)
		}
		w.records[q] = drr
		ik := drr.Key.ParentKeyMeta
		sk := "?"
		w.store.RLock()
		if e, ok := w.store.Envelopes[ik.ID][ik.Created]; ok && e.ParentKeyMeta != nil {
			sk = enc(e.ParentKeyMeta.ID)
		}
		w.store.RUnlock()
		return "ok ik=" + enc(ik.ID) + " sk=" + sk
	}()
	fmt.Fprintf(out, "enc %s => %s\n", qx, res)
}

func (w *world) opOpen(px string) {
	w.closeCur()
	p, _ := dec(px)
	res := "ok"
	func() {
		defer func() {
			if e := recover(); e != nil {
				res = "panic"
			}
		}()
		s, err := w.factory.GetSession(p)
		if err != nil || s == nil {
			res = "refused"
			return
		}
		w.cur, w.curID = s, p
	}()
	fmt.Fprintf(out, "open %s => %s\n", px, res)
}

// decrypt a record with the current session and classify against the payload its producer encrypted
func (w *world) decrypt(drr appencryption.DataRowRecord, producer string) (res string) {
	if w.cur == nil {
		return "nosession"
	}
	defer func() {
		if e := recover(); e != nil {
			res = "panic"
		}
	}()
	b, err := w.cur.Decrypt(w.ctx, drr)
	if err == nil && producer != w.curID {
		w.foreignOK++
	}
	switch {
	case err != nil:
		return "err"
	case bytes.Equal(b, payload(producer)):
		return "plain"
	default:
		return "other"
	}
}

func (w *world) opOwn() {
	res := func() (res string) {
		if w.cur == nil {
			return "nosession"
		}
		defer func() {
			if e := recover(); e != nil {
				res = "panic"
			}
		}()
		drr, err := w.cur.Encrypt(w.ctx, payload(w.curID))
		if err != nil || drr == nil {
			return "err"
		}
		w.ownRec = drr
		return w.decrypt(*drr, w.curID)
	}()
	fmt.Fprintf(out, "own => %s\n", res)
}

func (w *world) opDec(qx string) {
	q, _ := dec(qx)
	res := "norecord"
	if r, ok := w.records[q]; ok {
		res = w.decrypt(*r, q)
	}
	fmt.Fprintf(out, "dec %s => %s\n", qx, res)
}

// decall: the current session decrypts EVERY record; only non-error outcomes are listed.
func (w *world) opDecall(tag string) {
	if w.cur == nil {
		fmt.Fprintf(out, "decall %s => nosession\n", tag)
		return
	}
	var notok []string
	for _, q := range w.order {
		if res := w.decrypt(*w.records[q], q); res != "err" {
			notok = append(notok, enc(q)+":"+res)
		}
	}
	l := "-"
	if len(notok) > 0 {
		l = strings.Join(notok, ",")
	}
	fmt.Fprintf(out, "decall %s => n=%d notok=%s\n", tag, len(w.order), l)
}

func crafted(r *appencryption.DataRowRecord, id string, created int64) appencryption.DataRowRecord {
	k := *r.Key
	k.ParentKeyMeta = &appencryption.KeyMeta{ID: id, Created: created}
	return appencryption.DataRowRecord{Key: &k, Data: r.Data}
}

func (w *world) opDecx(qx, idx, createdS string) {
	q, _ := dec(qx)
	id, _ := dec(idx)
	res := "norecord"
	if r, ok := w.records[q]; ok {
		created := r.Key.ParentKeyMeta.Created
		if createdS != "=" {
			created, _ = strconv.ParseInt(createdS, 10, 64)
		}
		res = w.decrypt(crafted(r, id, created), q)
	}
	fmt.Fprintf(out, "decx %s %s %s => %s\n", qx, idx, createdS, res)
}

func (w *world) opDecnil(which string) {
	var drr appencryption.DataRowRecord
	if which == "parent" {
		drr.Key = &appencryption.EnvelopeKeyRecord{EncryptedKey: []byte{1, 2, 3}}
	}
	drr.Data = []byte{4, 5, 6}
	fmt.Fprintf(out, "decnil %s => %s\n", which, w.decrypt(drr, ""))
}

// collide: ParentKeyMeta{own IK id + first digit of the own stamp, rest of the stamp}: same cacheKey
// as the session's own cached IK, different (id, created).
func (w *world) opCollide(qx string) {
	q, _ := dec(qx)
	r, ok := w.records[q]
	if !ok || w.ownRec == nil {
		fmt.Fprintf(out, "collide %s => skip\n", qx)
		return
	}
	own := w.ownRec.Key.ParentKeyMeta
	d := strconv.FormatInt(own.Created, 10)
	if len(d) < 2 || d[0] == '-' || d[1] == '0' {
		fmt.Fprintf(out, "collide %s => skip\n", qx)
		return
	}
	id := own.ID + d[:1]
	created, _ := strconv.ParseInt(d[1:], 10, 64)
	res := w.decrypt(crafted(r, id, created), q)
	fmt.Fprintf(out, "collide %s => %s id=%s created=%d own=%s owncreated=%d\n", qx, res, enc(id), created, enc(own.ID), own.Created)
}

func (w *world) opCk(idx, n string) {
	id, _ := dec(idx)
	c, _ := strconv.ParseInt(n, 10, 64)
	fmt.Fprintf(out, "ck %s %s => %s\n", idx, n, enc(appencryption.VerifCacheKey(id, c)))
}

func (w *world) exec(line string) {
	f := strings.Fields(line)
	if len(f) == 0 {
		return
	}
	if f[0] != "new" && f[0] != "ck" && w.factory == nil {
		return
	}
	switch {
	case f[0] == "new" && len(f) == 5:
		w.opNew(f[1], f[2], f[3], f[4])
	case f[0] == "enc" && len(f) == 2:
		w.opEnc(f[1])
	case f[0] == "open" && len(f) == 2:
		w.opOpen(f[1])
	case f[0] == "own":
		w.opOwn()
	case f[0] == "dec" && len(f) == 2:
		w.opDec(f[1])
	case f[0] == "decall" && len(f) == 2:
		w.opDecall(f[1])
	case f[0] == "decx" && len(f) == 4:
		w.opDecx(f[1], f[2], f[3])
	case f[0] == "decnil" && len(f) == 2:
		w.opDecnil(f[1])
	case f[0] == "collide" && len(f) == 2:
		w.opCollide(f[1])
	case f[0] == "ck" && len(f) == 3:
		w.opCk(f[1], f[2])
	}
}

// ---- generators --------------------------------------------------------------------------------------------

// one case: every id encrypts once; then every id opens a session and decrypts every record, cold
// (nothing done by that session before) and — if warm — again after the session used its own key.
func (w *world) fullCase(svc, prod, sfx, cache string, ids []string, warm, compact bool, extras func(p string)) {
	w.exec(fmt.Sprintf("new %s %s %s %s", enc(svc), enc(prod), sfx, cache))
	for _, q := range ids {
		w.opEnc(enc(q))
	}
	for i, p := range ids {
		if i%shards != shard {
			continue
		}
		if w.tooMany() {
			break
		}
		w.opOpen(enc(p))
		if w.cur == nil {
			continue
		}
		pass := func(tag string) {
			if compact {
				w.opDecall(tag)
				return
			}
			for _, q := range w.order {
				w.opDec(enc(q))
			}
		}
		pass("cold")
		if warm {
			w.opOwn()
			pass("warm")
		}
		if extras != nil {
			extras(p)
		}
	}
	w.closeCur()
}

// exhaustive mode can be split over processes: every shard encrypts for all ids but opens sessions
// only for the ids whose index is ≡ shard (mod shards).
var shard, shards = 0, 1

func tokenStrings(tokens []string, maxLen int) []string {
	seen := map[string]bool{"": true}
	all := []string{""}
	level := []string{""}
	for l := 1; l <= maxLen; l++ {
		var next []string
		for _, s := range level {
			for _, t := range tokens {
				next = append(next, s+t)
			}
		}
		for _, s := range next {
			if !seen[s] {
				seen[s] = true
				all = append(all, s)
			}
		}
		level = next
	}
	return all
}

func exhaustive(w *world, maxLen int, names, caches []string, warm, compact bool, sfxModes string) {
	svc, prod, sfx := names[0], names[1], names[2]
	ids := tokenStrings([]string{"a", "_", svc, prod, sfx, "\xff"}, maxLen)
	for _, cache := range caches {
		for _, sx := range []string{"-", enc(sfx)} {
			if (sx == "-" && sfxModes == "on") || (sx != "-" && sfxModes == "off") {
				continue
			}
			w.fullCase(svc, prod, sx, cache, ids, warm, compact, nil)
		}
	}
}

var (
	svcPool  = []string{"s", "svc", "service", "", "a", "s_p", "svc_prod", "_", "\xffsvc", "sé", "1"}
	prodPool = []string{"p", "prod", "product", "", "a", "p_r", "prod_us-west-2", "_", "prod\xc3", "9"}
	sfxPool  = []string{"-", "-", "-", "-", "x", "r", "us-west-2", "us-east-1", "1", "s_p", "_", "r\xff", "prod", "0"}
)

func randBase(r *prng.R, svc, prod, sfx string) string {
	alpha := []string{"a", "b", "_", svc, prod, sfx, "\xff", "é", "\xc3", "0", "1", "_IK_", "_SK_", "-", " ", "\x00", "\n"}
	n := r.Intn(4)
	s := ""
	for i := 0; i <= n; i++ {
		s += alpha[r.Pick(8, 3, 6, 3, 3, 3, 1, 1, 1, 1, 1, 1, 1, 1, 1, 1, 1)]
	}
	return s
}

// adversarial pool: bases plus everything the naming scheme could confuse them with
func randIDs(r *prng.R, svc, prod, sfx string, n int) []string {
	seen := map[string]bool{}
	var ids []string
	add := func(s string) {
		if !seen[s] && len(ids) < n {
			seen[s] = true
			ids = append(ids, s)
		}
	}
	add("")
	for len(ids) < n {
		b := randBase(r, svc, prod, sfx)
		add(b)
		derive := []string{
			b + "_", b + "_" + svc, b + "_" + svc + "_" + prod, b + "_" + svc + "_" + prod + "_" + sfx,
			b + "_" + svc + "_" + prod + "_" + svc + "_" + prod, b + "_" + svc + "_" + prod + "x",
			b + "_" + prod + "_" + svc, b + svc, b + "_" + sfx, "_" + b, b + b,
			"_IK_" + b + "_" + svc + "_" + prod, b + "_" + svc + "_", b + "_" + svc + "_" + prod + "_",
			b + "\xff", b + "é", strings.ToUpper(b), b + "\x00",
		}
		if len(b) > 1 {
			derive = append(derive, b[:len(b)-1], b[1:], b[:1])
		}
		k := 2 + r.Intn(5)
		for i := 0; i < k; i++ {
			add(derive[r.Intn(len(derive))])
		}
	}
	return ids
}

func randomCases(w *world, r *prng.R, cases, nids int) {
	caches := []string{"session", "none", "shared"}
	for c := 0; c < cases && !w.tooMany(); c++ {
		svc := svcPool[r.Intn(len(svcPool))]
		prod := prodPool[r.Intn(len(prodPool))]
		sfx := sfxPool[r.Intn(len(sfxPool))]
		sx := "-"
		sfxS := "r" // the string ids are derived with, even when the metastore reports none
		if sfx != "-" {
			if sfx == "x" {
				sfx = "" // a metastore that reports the empty suffix
			} else {
				sfxS = sfx
			}
			sx = enc(sfx)
		}
		cache := caches[r.Intn(3)]
		ids := randIDs(r, svc, prod, sfxS, nids)
		first := true
		w.fullCase(svc, prod, sx, cache, ids, true, false, func(p string) {
			// crafted records against this (warm) session: foreign record under the session's own
			// key ids, under the other-region form of the producer's id, and a cache-key collision
			q := ids[r.Intn(len(ids))]
			if _, ok := w.records[q]; !ok {
				return
			}
			ikP := fmt.Sprintf("_IK_%s_%s_%s", p, svc, prod)
			ikQ := fmt.Sprintf("_IK_%s_%s_%s", q, svc, prod)
			switch r.Intn(5) {
			case 0:
				w.exec(fmt.Sprintf("decx %s %s =", enc(q), enc(ikP)))
			case 1:
				w.exec(fmt.Sprintf("decx %s %s =", enc(q), enc(ikP+"_"+sfxS)))
			case 2:
				w.exec(fmt.Sprintf("decx %s %s =", enc(q), enc(ikQ+"_other-region")))
			case 3:
				w.exec(fmt.Sprintf("decx %s %s %d", enc(q), enc(ikP+"_"+sfxS+"1"), 700000000+r.Intn(1000)))
			case 4:
				w.opCollide(enc(q))
			}
			if first {
				first = false
				w.opDecnil("key")
				w.opDecnil("parent")
			}
		})
		// sessions are asked for again and again in changing order (cached sessions, "most recent" shortcuts):
		// whatever the factory hands out for p must still be p's session
		var have []string
		for _, id := range ids {
			if _, ok := w.records[id]; ok {
				have = append(have, id)
			}
		}
		if len(have) >= 2 {
			a, b := have[r.Intn(len(have))], have[r.Intn(len(have))]
			for _, seq := range [][]string{{a, b, a, a}, {b, b, a, b, b}} {
				for _, id := range seq {
					w.exec("open " + enc(id))
				}
				w.exec("own")
				// the session must be the one of the id asked for last: it reads that id's stored record
				// and no other id's
				w.exec("dec " + enc(seq[len(seq)-1]))
				w.exec("decall revisit")
				other := a
				if seq[len(seq)-1] == a {
					other = b
				}
				if other != seq[len(seq)-1] {
					w.exec("dec " + enc(other))
				}
			}
		}
		// cacheKey itself on ids/stamps around the ambiguities
		for i := 0; i < 6; i++ {
			id := ids[r.Intn(len(ids))]
			var n int64
			switch r.Intn(5) {
			case 0:
				n = int64(r.Intn(12))
			case 1:
				n = 1700000000 + int64(r.Intn(200000000))
			case 2:
				n = -int64(r.U64() >> uint(1+r.Intn(62)))
			case 3:
				n = int64(r.U64() >> uint(1+r.Intn(62)))
			case 4:
				n = []int64{0, -1, 9223372036854775807, -9223372036854775808, 999999999, 1000000000, 9999999999, 10000000000}[r.Intn(8)]
			}
			w.exec(fmt.Sprintf("ck %s %d", enc(id), n))
		}
	}
}

func replay(w *world, path string) {
	f, err := os.Open(path)
	if err != nil {
		fmt.Fprintln(os.Stderr, err)
		os.Exit(2)
	}
	defer f.Close()
	sc := bufio.NewScanner(f)
	sc.Buffer(make([]byte, 1<<20), 1<<26)
	for sc.Scan() {
		line := sc.Text()
		if i := strings.Index(line, " => "); i >= 0 {
			line = line[:i]
		}
		if strings.HasPrefix(line, "#") {
			continue
		}
		w.exec(line)
	}
}

func main() {
	mode := flag.String("mode", "random", "random|exhaustive|replay")
	cases := flag.Int("cases", 25, "random cases")
	nids := flag.Int("ids", 20, "ids per random case (all ordered pairs are run, cold and warm)")
	maxLen := flag.Int("maxlen", 2, "exhaustive: token strings up to this length")
	names := flag.String("names", "s,p,r", "exhaustive: service,product,region-suffix")
	caches := flag.String("caches", "session,none,shared", "exhaustive: cache modes")
	warm := flag.Bool("warm", true, "exhaustive: also the warm pass")
	compact := flag.Bool("compact", true, "exhaustive: one decall line per session instead of one dec line per pair")
	sfxModes := flag.String("sfx", "both", "exhaustive: both|on|off (suffix-reporting metastore)")
	flag.IntVar(&shard, "shard", 0, "exhaustive: this shard")
	flag.IntVar(&shards, "shards", 1, "exhaustive: number of shards")
	file := flag.String("file", "", "replay file")
	flag.Parse()
	if shards < 1 || shard < 0 || shard >= shards || *mode != "exhaustive" {
		shard, shards = 0, 1
	}
	defer out.Flush()
	w := newWorld()
	switch *mode {
	case "random":
		randomCases(w, prng.FromEnv(6), *cases, *nids)
	case "exhaustive":
		n := strings.Split(*names, ",")
		if len(n) != 3 {
			fmt.Fprintln(os.Stderr, "-names needs service,product,suffix")
			os.Exit(2)
		}
		exhaustive(w, *maxLen, n, strings.Split(*caches, ","), *warm, *compact, *sfxModes)
	case "replay":
		replay(w, *file)
	}
	w.closeCur()
	if w.factory != nil {
		w.factory.Close()
	}
}
