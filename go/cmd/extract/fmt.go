package main

import (
	"fmt"
	"go/ast"
	"go/token"
	"os"
	"path/filepath"
	"reflect"
	"regexp"
	"strconv"
	"strings"

	"verifharness/internal/goast"
)

func init() { register("fmt", extractFmt) }

// Facts engine E1 (C18, byte-level parts of C07/C01) rests on: AEAD sizes and the shape of
// cryptoFunc.Encrypt/Decrypt, the struct tags and field types of the persisted records, the key-id
// format strings, the DynamoDB attribute names / envelope tags of both plugins, the SQL statements'
// column list, the protobuf field table and the field mapping of to/fromProtobufDRR.
func extractFmt(repo string) (map[string]string, error) {
	app := filepath.Join(repo, "go/appencryption")
	var b strings.Builder
	b.WriteString("namespace AsherahVerif.Generated.Fmt\n")
	def := func(name, typ, val string) { fmt.Fprintf(&b, "def %s : %s := %s\n", name, typ, val) }

	// --- AEAD constants and skeletons -------------------------------------------------------
	gcm, err := goast.Parse(filepath.Join(app, "pkg/crypto/aead/aes256gcm.go"))
	if err != nil {
		return nil, err
	}
	for _, c := range []string{"gcmNonceSize", "gcmTagSize"} {
		v, err := gcm.Const(c)
		if err != nil {
			return nil, err
		}
		if _, err := strconv.Atoi(v); err != nil {
			return nil, fmt.Errorf("%s is no longer an integer literal: %s", c, v)
		}
		def(c, "Nat", v)
	}
	for _, c := range []string{"gcmBlockSize", "gcmMaxDataSize"} {
		v, err := gcm.Const(c)
		if err != nil {
			return nil, err
		}
		def(c+"Expr", "String", goast.LeanString(v))
	}
	aead, err := goast.Parse(filepath.Join(app, "pkg/crypto/aead/aead.go"))
	if err != nil {
		return nil, err
	}
	for _, fn := range []string{"Encrypt", "Decrypt"} {
		fd, err := aead.Func("cryptoFunc." + fn)
		if err != nil {
			return nil, err
		}
		def("crypto"+fn+"Skeleton", "List String", goast.LeanStringList(goast.Skeleton(fd)))
	}
	ae, err := goast.Parse(filepath.Join(app, "appencryption.go"))
	if err != nil {
		return nil, err
	}
	v, err := ae.Const("AES256KeySize")
	if err != nil {
		return nil, err
	}
	def("AES256KeySize", "Nat", v)
	st, err := goast.Parse(filepath.Join(app, "pkg/kms/static.go"))
	if err != nil {
		return nil, err
	}
	if v, err = st.Const("staticKMSKeySize"); err != nil {
		return nil, err
	}
	def("staticKMSKeySize", "Nat", v)
	for _, fn := range []string{"EncryptKey", "DecryptKey"} {
		fd, err := st.Func("StaticKMS." + fn)
		if err != nil {
			return nil, err
		}
		def("staticKMS"+fn+"Skeleton", "List String", goast.LeanStringList(goast.Skeleton(fd)))
	}

	// --- record struct tags and field types ------------------------------------------------
	env, err := goast.Parse(filepath.Join(app, "envelope.go"))
	if err != nil {
		return nil, err
	}
	for _, typ := range []string{"KeyMeta", "DataRowRecord", "EnvelopeKeyRecord"} {
		f, err := fmtFieldFacts(env, typ, "json")
		if err != nil {
			return nil, err
		}
		def("tags"+typ, "List (String × String × String)", f)
	}
	// decryptRow: which key opens what (chain order of the reference decryptor)
	fd, err := env.Func("decryptRow")
	if err != nil {
		return nil, err
	}
	def("decryptRowSkeleton", "List String", goast.LeanStringList(goast.Skeleton(fd)))

	// --- key ids -------------------------------------------------------------------------
	part, err := goast.Parse(filepath.Join(app, "partition.go"))
	if err != nil {
		return nil, err
	}
	for _, fn := range []string{"defaultPartition.SystemKeyID", "defaultPartition.IntermediateKeyID",
		"suffixedPartition.SystemKeyID", "suffixedPartition.IntermediateKeyID"} {
		fd, err := part.Func(fn)
		if err != nil {
			return nil, err
		}
		name := "keyId" + strings.ReplaceAll(strings.Title(strings.Replace(fn, ".", " ", 1)), " ", "")
		def(name, "List String", goast.LeanStringList(fmtReturnExprs(fd)))
	}

	// --- SQL ------------------------------------------------------------------------------
	sql, err := goast.Parse(filepath.Join(app, "pkg/persistence/sql.go"))
	if err != nil {
		return nil, err
	}
	for _, c := range []string{"defaultLoadKeyQuery", "defaultStoreKeyQuery", "defaultLoadLatestQuery"} {
		v, err := sql.Const(c)
		if err != nil {
			return nil, err
		}
		s, err := strconv.Unquote(v)
		if err != nil {
			return nil, fmt.Errorf("%s is not a string literal: %s", c, v)
		}
		def("sql"+strings.TrimPrefix(c, "default"), "String", goast.LeanString(s))
	}

	// --- DynamoDB, both plugins --------------------------------------------------------------
	d1, err := goast.Parse(filepath.Join(app, "plugins/aws-v1/persistence/dynamodb.go"))
	if err != nil {
		return nil, err
	}
	d2, err := goast.Parse(filepath.Join(app, "plugins/aws-v2/dynamodb/metastore/metastore.go"))
	if err != nil {
		return nil, err
	}
	for i, f := range []*goast.File{d1, d2} {
		var names []string
		for _, c := range []string{"partitionKey", "sortKey", "keyRecord"} {
			v, err := f.Const(c)
			if err != nil {
				return nil, err
			}
			s, err := strconv.Unquote(v)
			if err != nil {
				return nil, fmt.Errorf("%s is not a string literal: %s", c, v)
			}
			names = append(names, s)
		}
		def(fmt.Sprintf("ddb%dAttrNames", i+1), "List String", goast.LeanStringList(names))
	}
	f1, err := fmtFieldFacts(d1, "DynamoDBEnvelope", "json")
	if err != nil {
		return nil, err
	}
	def("ddb1Envelope", "List (String × String × String)", f1)
	for _, t := range [][2]string{{"metastoreItem", "ddb2Item"}, {"envelope", "ddb2Envelope"}, {"keyMeta", "ddb2KeyMeta"}} {
		f, err := fmtFieldFacts(d2, t[0], "dynamodbav")
		if err != nil {
			return nil, err
		}
		def(t[1], "List (String × String × String)", f)
	}
	for _, x := range []struct {
		f    *goast.File
		fn   string
		name string
	}{{d1, "DynamoDBMetastore.Store", "ddb1Store"},
		{d2, "Metastore.Store", "ddb2Store"}, {d2, "decodeItem", "ddb2DecodeItem"}} {
		fd, err := x.f.Func(x.fn)
		if err != nil {
			return nil, err
		}
		// only the field mappings (data about the format); control flow of these functions belongs to C13
		def(x.name+"Fields", "List String", goast.LeanStringList(fmtCompositeFacts(fd)))
	}

	// --- protobuf ---------------------------------------------------------------------------
	srv, err := goast.Parse(filepath.Join(repo, "server/go/pkg/server/server.go"))
	if err != nil {
		return nil, err
	}
	for _, fn := range []string{"toProtobufDRR", "fromProtobufDRR"} {
		fd, err := srv.Func(fn)
		if err != nil {
			return nil, err
		}
		def(fn+"Fields", "List String", goast.LeanStringList(fmtCompositeFacts(fd)))
	}
	proto, err := os.ReadFile(filepath.Join(repo, "server/protos/appencryption.proto"))
	if err != nil {
		return nil, err
	}
	for _, m := range []string{"DataRowRecord", "EnvelopeKeyRecord", "KeyMeta"} {
		fields, err := fmtProtoFields(string(proto), m)
		if err != nil {
			return nil, err
		}
		def("proto"+m, "List String", goast.LeanStringList(fields))
	}
	b.WriteString("end AsherahVerif.Generated.Fmt\n")
	return map[string]string{"Fmt.lean": b.String()}, nil
}

// fmtFieldFacts renders [(field, type, tag)] of a struct as a Lean list literal.
func fmtFieldFacts(f *goast.File, typ, key string) (string, error) {
	var out []string
	found := false
	ast.Inspect(f.AST, func(n ast.Node) bool {
		ts, ok := n.(*ast.TypeSpec)
		if !ok || ts.Name.Name != typ {
			return true
		}
		st, ok := ts.Type.(*ast.StructType)
		if !ok {
			return true
		}
		found = true
		for _, fl := range st.Fields.List {
			tag := ""
			if fl.Tag != nil {
				s, _ := strconv.Unquote(fl.Tag.Value)
				tag = reflect.StructTag(s).Get(key)
			}
			for _, n := range fl.Names {
				out = append(out, fmt.Sprintf("(%s, %s, %s)", goast.LeanString(n.Name),
					goast.LeanString(fmtTypeString(fl.Type)), goast.LeanString(tag)))
			}
		}
		return false
	})
	if !found {
		return "", fmt.Errorf("%s: struct %s not found", f.Path, typ)
	}
	return "[" + strings.Join(out, ", ") + "]", nil
}

func fmtTypeString(e ast.Expr) string {
	switch t := e.(type) {
	case *ast.Ident:
		return t.Name
	case *ast.StarExpr:
		return "*" + fmtTypeString(t.X)
	case *ast.ArrayType:
		return "[]" + fmtTypeString(t.Elt)
	case *ast.SelectorExpr:
		return fmtTypeString(t.X) + "." + t.Sel.Name
	}
	return goast.ExprString(e)
}

// fmtReturnExprs: the compact text of every returned expression (format strings included).
func fmtReturnExprs(fd *ast.FuncDecl) []string {
	var out []string
	ast.Inspect(fd.Body, func(n ast.Node) bool {
		if r, ok := n.(*ast.ReturnStmt); ok {
			for _, x := range r.Results {
				out = append(out, goast.ExprString(x))
			}
		}
		return true
	})
	return out
}

// fmtCompositeFacts: "Outer.Inner.Field=<expr>" for every key:value of (nested) composite literals.
func fmtCompositeFacts(fd *ast.FuncDecl) []string {
	var out []string
	var walk func(prefix string, e ast.Expr)
	walk = func(prefix string, e ast.Expr) {
		if u, ok := e.(*ast.UnaryExpr); ok && u.Op == token.AND {
			e = u.X
		}
		cl, ok := e.(*ast.CompositeLit)
		if !ok {
			out = append(out, prefix+"="+goast.ExprString(e))
			return
		}
		tn := ""
		if cl.Type != nil {
			tn = fmtTypeString(cl.Type)
		}
		if prefix == "" {
			prefix = tn
		}
		for _, el := range cl.Elts {
			if kv, ok := el.(*ast.KeyValueExpr); ok {
				walk(prefix+"."+goast.ExprString(kv.Key), kv.Value)
			}
		}
	}
	ast.Inspect(fd.Body, func(n ast.Node) bool {
		switch t := n.(type) {
		case *ast.CompositeLit:
			walk("", t)
			return false
		}
		return true
	})
	return out
}

var fmtProtoFieldRx = regexp.MustCompile(`^\s*([A-Za-z0-9_.]+)\s+([a-z_0-9]+)\s*=\s*([0-9]+)\s*;`)

func fmtProtoFields(src, msg string) ([]string, error) {
	lines := strings.Split(src, "\n")
	for i, l := range lines {
		if strings.HasPrefix(strings.TrimSpace(l), "message "+msg+" ") {
			var out []string
			for _, m := range lines[i+1:] {
				if strings.HasPrefix(strings.TrimSpace(m), "}") {
					return out, nil
				}
				if f := fmtProtoFieldRx.FindStringSubmatch(m); f != nil {
					out = append(out, f[1]+" "+f[2]+"="+f[3])
				}
			}
		}
	}
	return nil, fmt.Errorf("appencryption.proto: message %s not found", msg)
}
