package main

import (
	"fmt"
	"path/filepath"
	"strings"

	"verifharness/internal/goast"
)

func init() { register("keycache", extractKeyCache) }

func indexOf(toks []string, pred func(string) bool, from int) int {
	for i := from; i < len(toks); i++ {
		if pred(toks[i]) {
			return i
		}
	}
	return -1
}

func eq(s string) func(string) bool { return func(t string) bool { return t == s } }

// protocol facts of key_cache.go that the C08 interleaving model is parameterised by, plus the
// normalised skeletons they are computed from.
func extractKeyCache(repo string) (map[string]string, error) {
	f, err := goast.Parse(filepath.Join(repo, "go/appencryption/key_cache.go"))
	if err != nil {
		return nil, err
	}
	sk := map[string][]string{}
	for _, name := range []string{"keyCache.GetOrLoad", "keyCache.GetOrLoadLatest", "keyCache.load", "keyCache.write",
		"cachedCryptoKey.Close", "newKeyCache", "tracked", "keyCache.getFresh", "keyCache.Close"} {
		fd, err := f.Func(name)
		if err != nil {
			return nil, err
		}
		sk[name] = goast.Skeleton(fd)
	}
	g := sk["keyCache.GetOrLoad"]
	rl, ru, wl := indexOf(g, eq("c.rw.RLock"), 0), indexOf(g, eq("c.rw.RUnlock"), 0), indexOf(g, eq("c.rw.Lock"), 0)
	isTrack := func(t string) bool { return t == "tracked" || strings.HasSuffix(t, ".increment") }
	incrUnder := false
	if rl >= 0 && ru > rl && wl > ru {
		inside := indexOf(g[:ru], isTrack, rl) >= 0
		after := indexOf(g[:wl], isTrack, ru) >= 0
		incrUnder = inside && !after
	}
	slow := false
	if wl >= 0 && wl+1 < len(g) && g[wl+1] == "defer:c.rw.Unlock" {
		slow = indexOf(g, eq("c.load"), wl) > 0 && indexOf(g, isTrack, wl) > 0
	}
	l := sk["keyCache.GetOrLoadLatest"]
	latest := len(l) > 2 && l[0] == "c.rw.Lock" && l[1] == "defer:c.rw.Unlock"
	nk := sk["newKeyCache"]
	evict := false
	if i := indexOf(nk, eq("func{"), 0); i >= 0 {
		j := indexOf(nk, eq("}"), i)
		body := nk[i+1 : j]
		evict = len(body) == 1 && body[0] == "value.key.Close"
	}
	w := sk["keyCache.write"]
	replace := false
	if i := indexOf(w, func(t string) bool { return strings.HasPrefix(t, "if(existing.key!=e.key)") }, 0); i >= 0 {
		replace = i+1 < len(w) && w[i+1] == "existing.key.Close"
	}
	b := func(x bool) string { return fmt.Sprint(x) }
	var sb strings.Builder
	sb.WriteString("import AsherahVerif.Model.KeyRef\nnamespace AsherahVerif.Generated.KeyCacheFacts\n")
	sb.WriteString("def facts : AsherahVerif.KeyRef.Facts :=\n")
	sb.WriteString(fmt.Sprintf("  { incrUnderReadLock := %s, slowPathUnderWriteLock := %s, latestUnderWriteLock := %s,\n    evictReleasesCacheRef := %s, replaceReleasesOld := %s }\n",
		b(incrUnder), b(slow), b(latest), b(evict), b(replace)))
	for _, name := range []string{"keyCache.GetOrLoad", "keyCache.GetOrLoadLatest", "keyCache.load", "keyCache.write", "cachedCryptoKey.Close", "keyCache.getFresh"} {
		id := strings.ReplaceAll(name, ".", "_")
		sb.WriteString(fmt.Sprintf("def skel_%s : List String := %s\n", id, goast.LeanStringList(sk[name])))
	}
	sb.WriteString("end AsherahVerif.Generated.KeyCacheFacts\n")
	return map[string]string{"KeyCacheFacts.lean": sb.String()}, nil
}
