package main

import (
	"fmt"
	"path/filepath"
	"strings"

	"verifharness/internal/goast"
)

func init() { register("cache", extractCache) }

// constants of pkg/cache the C15 driver needs, plus the skeletons C15's protocol facts rest on.
func extractCache(repo string) (map[string]string, error) {
	dir := filepath.Join(repo, "go/appencryption/pkg/cache")
	lru, err := goast.Parse(filepath.Join(dir, "lru.go"))
	if err != nil {
		return nil, err
	}
	tl, err := goast.Parse(filepath.Join(dir, "tlfu.go"))
	if err != nil {
		return nil, err
	}
	pr, err := lru.Const("protectedRatio")
	if err != nil {
		return nil, err
	}
	ar, err := tl.Const("admissionRatio")
	if err != nil {
		return nil, err
	}
	// lock discipline: the sequential model treats every public operation as atomic, which holds for
	// concurrent callers only if each one takes c.mux first and keeps it until it returns
	cg, err := goast.Parse(filepath.Join(dir, "cache.go"))
	if err != nil {
		return nil, err
	}
	var locks []string
	for _, m := range []string{"Close", "Len", "Capacity", "Set", "Get", "Delete"} {
		fd, err := cg.Func("cache." + m)
		if err != nil {
			return nil, err
		}
		sk := goast.Skeleton(fd)
		first := ""
		if len(sk) >= 2 {
			first = sk[0] + "," + sk[1]
		}
		var all []string
		for _, t := range sk {
			if strings.Contains(t, ".mux.") {
				all = append(all, t)
			}
		}
		locks = append(locks, m+": first="+first+"; all="+strings.Join(all, ","))
	}
	src := "namespace AsherahVerif.Generated.CacheConst\n" +
		"def lockDiscipline : List String := " + goast.LeanStringList(locks) + "\n" +
		fmt.Sprintf("def protectedRatio : Float := %s\n", pr) +
		fmt.Sprintf("def admissionRatio : Float := %s\n", ar) +
		"end AsherahVerif.Generated.CacheConst\n"
	return map[string]string{"CacheConst.lean": src}, nil
}
