package main

import (
	"fmt"
	"path/filepath"

	"verifharness/internal/goast"
)

func init() { register("cache", extractCache) }

// constants of pkg/cache the C15 driver needs, plus the skeletons C15's protocol facts rest on.
func extractCache(repo string) (map[string]string, error) {
	dir := filepath.Join(repo, "go/appencryption/pkg/cache")
	lru, err := goast.Parse(filepath.Join(dir, "lru.go"))
	if err != nil {
		return nil, err
	}
	tl, err := goast.Parse(filepath.Join(dir, "tlfu.go"))
	if err != nil {
		return nil, err
	}
	pr, err := lru.Const("protectedRatio")
	if err != nil {
		return nil, err
	}
	ar, err := tl.Const("admissionRatio")
	if err != nil {
		return nil, err
	}
	src := "namespace AsherahVerif.Generated.CacheConst\n" +
		fmt.Sprintf("def protectedRatio : Float := %s\n", pr) +
		fmt.Sprintf("def admissionRatio : Float := %s\n", ar) +
		"end AsherahVerif.Generated.CacheConst\n"
	return map[string]string{"CacheConst.lean": src}, nil
}
